(* Property C14 — query translation is deterministic and a prepared plan can be re-executed.
   Only statements; proofs by reference (proofs/ReplanProofs.v). The model is the stateful
   `process` of model/LogqlPlan.v: everything a Process call can read or write besides its
   arguments is `pst` (the WITH caches of the plan object, the id counter of the context).
   Plans are functions in the model, so "the same query and parameters give the same SQL" is
   the statement that the result does not depend on the state earlier calls left. *)
From Coq Require Import List ZArith NArith String Bool Permutation.
From Qryn Require model.TqSql model.Traceql model.TraceqlPlan.
From Qryn Require Import model.Sql model.SqlRender model.Logql model.LogqlPlan model.LogqlCases model.Replan proofs.ReplanProofs.
From Qryn Require Import model.ProfSel model.ReplanLang proofs.ReplanLangProofs.
From Qryn Require Import model.ReplanProf proofs.ReplanProfProofs.
From Coq Require QArith.
From Qryn Require Import model.SqlEval model.ReplanAlpha proofs.ReplanAlphaProofs.
From Qryn Require proofs.ReplanAlphaExamples.
Import ListNotations.

(* No Process method changes the plan object: whatever the planner tree, context and state, the
   plan returned next to the statement is the plan that was executed. *)
Theorem process_preserves_plan :
  forall p c st q st' p', process p c st = Some (q, st', p') -> p' = p.
Proof. exact ReplanProofs.process_preserves_plan. Qed.
Print Assumptions process_preserves_plan.

(* Translation is independent of history: a plan (the root planner.plan() returns) handed a new
   context yields the same result whatever state earlier executions of it left behind. *)
Theorem translate_deterministic :
  forall p c st, is_root p = true -> process p c (new_ctx st) = process p c pst0.
Proof. intros p c st R. exact (root_new_ctx p c st R). Qed.
Print Assumptions translate_deterministic.

(* every plan of a log or metric query is such a root *)
Theorem plan_is_root : forall s fin p, plan_script s fin = Some p -> is_root p = true.
Proof. exact plan_script_is_root. Qed.
Print Assumptions plan_is_root.

(* Live tail: for every plan, every number of executions and every sequence of windows, the
   statements of the successive executions of ONE plan object (a new context per tick) are, text
   for text, the statements of never executed plans for those windows — from any starting state. *)
Theorem reexecution_same_text :
  forall p c ws st, is_root p = true -> run_tail p c ws st = fresh_run p c ws.
Proof. intros p c ws st R. exact (tail_is_fresh p c R ws st). Qed.
Print Assumptions reexecution_same_text.

(* One context whose window is moved (the id counter continues): the k statements are those of k
   never executed plans processed under a context that has already handed out as many ids. *)
Theorem reexecution_one_context :
  forall p k c st, is_root p = true -> run_plan k p c st = run_plan_ref k p c (pid st).
Proof. intros p k c st R. exact (reuse_is_fresh_at_counter p R k c st). Qed.
Print Assumptions reexecution_one_context.

(* The reset at the root is necessary: below it (the whole plan before fix 9757427) the second
   execution of {a="b"} | level="error" | json x="x" | x="1" under a new context is a statement
   different from the fresh one for the same window, while at the root they agree. *)
Theorem reexecution_without_reset_refuted :
  ~ (forall p c w1 w2, second_run_text p c w1 w2 = fresh_text p c w2).
Proof.
  intro H. pose proof below_root_differs as W. destruct witness_plan as [p|]; [|exact W].
  destruct W as [D _]. rewrite (H (below_root p) witness_ctx witness_w1 witness_w2) in D.
  destruct (fresh_text (below_root p) witness_ctx witness_w2) as [s|]; cbn in D; [|discriminate D].
  rewrite String.eqb_refl in D. discriminate D.
Qed.
Print Assumptions reexecution_without_reset_refuted.

(* FormatFromDate is monotone: a sub-select built for an earlier window has the older (wider)
   date bound. *)
Theorem fp_sel_bound_monotone : forall a b, (a <= b)%Z -> (from_day a <= from_day b)%Z.
Proof. exact from_day_monotone. Qed.
Print Assumptions fp_sel_bound_monotone.

(* An IN (...) list means a set: the order in which a Go map is ranged over to build it
   (labelsGetter.getFetchRequest) changes the text, not the meaning. *)
Theorem in_list_perm : forall (V : Type) (veq : V -> V -> bool) (v : V) l1 l2,
  Permutation l1 l2 -> in_sem veq v l1 = in_sem veq v l2.
Proof. intros V veq v l1 l2. exact (in_sem_perm veq v l1 l2). Qed.
Print Assumptions in_list_perm.

(* Select.String ranges over the settings map: no planner sets a setting, so no statement
   of a plan carries a SETTINGS clause whose text could depend on the iteration order ... *)
Theorem render_order_independent :
  forall p c st q st' p', process p c st = Some (q, st', p') -> s_settings q = [] /\
    forall kv', Permutation (s_settings q) kv' -> settings_text (s_settings q) = settings_text kv'.
Proof.
  intros p c st q st' p' H. pose proof (process_no_settings p c st q st' p' H) as E. split; [exact E|].
  intros kv' P. apply settings_text_one; [exact P|]. rewrite E. cbn. auto.
Qed.
Print Assumptions render_order_independent.

(* ... which matters: two settings already have two texts. *)
Theorem settings_order_matters :
  exists kv kv', Permutation kv kv' /\ settings_text kv <> settings_text kv'.
Proof.
  exists [("a", "1"); ("b", "2")]%string, [("b", "2"); ("a", "1")]%string.
  split; [apply perm_swap | exact settings_text_two_orders].
Qed.
Print Assumptions settings_order_matters.

(* One context, exactly: a plan in which no planner draws an id from the context (no SimpleLabelFilter,
   MainRenew, ByWithout planner) yields, under a context that has already handed out any number of ids and
   from any state, exactly the statements of never executed plans under new contexts. *)
Theorem reexecution_one_context_exact_partial :
  forall p k c st, is_root p = true -> draws_ids p = false -> run_plan k p c st = fresh_seq k p c.
Proof. intros p k c st R D. exact (reuse_is_fresh_exact p R D k c st). Qed.
Print Assumptions reexecution_one_context_exact_partial.

(* Without the guard the exact statement is false: the aliases subsel_n carry the counter (the witness plan,
   two executions). That they differ ONLY in these numbers is checked on every case by the harness oracle
   (alias canonicaliser), not proved. *)
Theorem reexecution_one_context_exact_refuted :
  ~ (forall p k c st, is_root p = true -> run_plan k p c st = fresh_seq k p c).
Proof.
  intro H. pose proof reuse_exact_needs_guard as W. pose proof witness_plans as [p0 [E0 R0]].
  unfold witness_plan in *. rewrite E0 in W. destruct W as [_ [D _]].
  rewrite (H p0 2%nat witness_ctx pst0 R0) in D.
  assert (X : forall l, olist_eqb l l = true).
  { induction l as [|[x|] r IHl]; cbn; [reflexivity| |exact IHl]. rewrite String.eqb_refl. exact IHl. }
  rewrite X in D. discriminate D.
Qed.
Print Assumptions reexecution_one_context_exact_refuted.

(* What a Process call can depend on. `process p c st` is a function of
     p  : the plan object as planner.plan() built it (the planner structs and their immutable fields),
     c  : the fields of shared.PlannerContext the planners read (From, To, Limit, OrderASC, IsCluster, Type,
          CHFinalize, Step and the table names filled in by tables.PopulateTableNames),
     st : the three mutable things reachable from Process: planner.fpCache, planner.labelsCache (WITH objects
          shared by the planners of one plan) and PlannerContext.id;
   and of nothing else: two states that agree on these three components give the same result, and for a
   plan root only the counter matters. (That the Go code has no further input -- package-level variables -- is
   the regenerated obligation translation_package_state of coq/gen/GenSqlSites.v and the fresh2/conc/top drive modes.) *)
Theorem process_depends_only_on_its_arguments :
  forall p c st st', fp_cache st = fp_cache st' -> labels_cache st = labels_cache st' -> pid st = pid st' ->
  process p c st = process p c st'.
Proof. exact process_inputs. Qed.
Print Assumptions process_depends_only_on_its_arguments.

Theorem root_depends_only_on_the_counter :
  forall p c st st', is_root p = true -> pid st = pid st' -> process p c st = process p c st'.
Proof. exact root_inputs. Qed.
Print Assumptions root_depends_only_on_the_counter.

(* TraceQL (C11's model TraceqlPlan.plan q mode ctx n = the statement of the n-th Process call on the planners
   built for script q): the statement does not depend on how often the plan object was executed before ... *)
Theorem traceql_call_independent :
  forall q m c n n', TraceqlPlan.plan q m c n = TraceqlPlan.plan q m c n'.
Proof. exact plan_call_independent. Qed.
Print Assumptions traceql_call_independent.

(* ... so any sequence of Process calls on one plan object, each under its own context, yields call by call what
   plan objects built for that call alone yield; in particular the portion loop of ComplexRequestProcessor, whatever
   RandomFilter index, cached trace ids and From each portion is handed. *)
Theorem traceql_reexecution_same_text :
  forall q m cs n, tq_run_calls q m cs n = tq_fresh_calls q m cs.
Proof. intros q m cs n. exact (tq_run_is_fresh q m cs n). Qed.
Print Assumptions traceql_reexecution_same_text.

Theorem traceql_portion_loop_same_text :
  forall q c ps, tq_portion_loop q c ps =
                 tq_fresh_calls q TraceqlPlan.MSearch (portion_ctxs c (Z.of_nat (List.length ps)) 0 ps).
Proof. intros q c ps. unfold tq_portion_loop. apply tq_run_is_fresh. Qed.
Print Assumptions traceql_portion_loop_same_text.

(* Profile selectors (C17's model ProfSel.prof_selector_abs; re_full = the oracle "the anchored pattern matches the empty
   string" that Process asks since the absent-label fix): StreamSelectorPlanner.Process writes no field of the
   planner; the statements of successive executions of one object are those of the pure function, window by
   window. The content is the tie: checks/c14.py compares this with k executions of ONE real planner object. *)
Theorem prof_reexecution_same_text :
  forall re_full table cluster sels ws,
    prof_run re_full table cluster sels ws = map (fun w => render (prof_selector_abs re_full table (fst w) (snd w) sels) cluster) ws.
Proof. exact prof_run_is_fresh. Qed.
Print Assumptions prof_reexecution_same_text.

(* The other profile planners (model/ReplanProf.v: label names / values, merge traces, select series, merge profiles, series,
   analyze -- one constructor per planner struct of reader/prof/transpiler, pprocess = their Process methods). No Process method
   stores into a field (regenerated obligation: the only store of package prof/transpiler is populateTypeId's append to a copy at
   plan time), so the model returns no planner: the statement of the k-th execution of ONE planner object is the statement of a
   fresh object's first execution for that window, whatever windows were executed before and after. *)
Theorem prof_planner_reexecution_same_text :
  forall p c ws1 w ws2,
    nth (List.length ws1) (prof_exec p c (ws1 ++ w :: ws2)) None = hd None (prof_exec p c [w]).
Proof. exact prof_exec_nth. Qed.
Print Assumptions prof_planner_reexecution_same_text.

(* ... and every plan transpiler.go builds can be executed, for all selectors and contexts: the WITH `fp` that
   SelectSeriesPlanner and ProfileSizePlanner look up in their sub-planner's select is always found (no nil *With reaches
   NewWithRef), a UNION ALL always has a member. *)
Theorem prof_plan_executes : forall m sels c, pprocess (plan_mode m sels) c <> None.
Proof. exact plan_mode_executes. Qed.
Print Assumptions prof_plan_executes.

(* ---- one context, id-drawing plans: the MEANING of the re-executed statement (fourth round) ----
   `erase_sel` forgets the WITH list of every Select and the alias of a reference inside IN (...) or re-aliased in FROM
   (fingerprint IN (subsel_3), FROM subsel_3 as samples) - the places where SimpleLabelFilterPlanner / MainRenewPlanner put
   the id they draw - and nothing else. C07's semantics of the statements reads none of these places: for EVERY object
   tree, database, oracle and tie-breaking the erasure evaluates like the statement itself. *)
Theorem erasure_preserves_meaning :
  forall (re_match : String.string -> String.string -> bool) (parse_float : String.string -> option QArith_base.Q)
         (json_get : String.string -> list String.string -> String.string) (hash_labels : list (String.string * String.string) -> Z)
         (tie : forall A : Type, list A -> list A) (db : database) (q : select),
    eval re_match parse_float json_get hash_labels tie db (erase_sel q) = eval re_match parse_float json_get hash_labels tie db q.
Proof. exact eval_erase. Qed.
Print Assumptions erasure_preserves_meaning.

(* Two Process calls on a plan without ByWithoutPlanner, from states whose caches have the same erasure and whose id
   counters are ANY two numbers, return selects with the same erasure (or both fail) and leave such states. *)
Theorem process_erasure_ignores_counter :
  forall p, no_by_without p = true ->
  forall c st1 st2, state_sim st1 st2 -> sim_res (process p c st1) (process p c st2).
Proof. exact process_sim. Qed.
Print Assumptions process_erasure_ignores_counter.

(* One plan object executed k times under ONE context (the counter goes on, the caches are whatever the last call left),
   from any state: statement by statement the same erasure as never executed plans under new contexts ... *)
Theorem reexecution_one_context_same_erasure :
  forall p, is_root p = true -> no_by_without p = true ->
  forall k c st, erase_all (run_plan_sel k p c st) = erase_all (fresh_seq_sel k p c).
Proof. exact one_context_same_erasure. Qed.
Print Assumptions reexecution_one_context_same_erasure.

(* ... hence the same MEANING: "re-executing a prepared plan yields a statement with the same meaning as the first
   execution apart from the advancing time bounds", for every database, oracle and tie-breaking. *)
Theorem reexecution_one_context_same_meaning :
  forall (re_match : String.string -> String.string -> bool) (parse_float : String.string -> option QArith_base.Q)
         (json_get : String.string -> list String.string -> String.string) (hash_labels : list (String.string * String.string) -> Z)
         (tie : forall A : Type, list A -> list A) (db : database) p,
    is_root p = true -> no_by_without p = true ->
    forall k c st, map (meaning re_match parse_float json_get hash_labels tie db) (run_plan_sel k p c st) =
                   map (meaning re_match parse_float json_get hash_labels tie db) (fresh_seq_sel k p c).
Proof. exact one_context_same_meaning. Qed.
Print Assumptions reexecution_one_context_same_meaning.

(* For EVERY log query no guard is needed: planner.plan() never puts a ByWithoutPlanner into the plan of a log query. *)
Theorem log_query_reexecution_one_context_same_meaning :
  forall (re_match : String.string -> String.string -> bool) (parse_float : String.string -> option QArith_base.Q)
         (json_get : String.string -> list String.string -> String.string) (hash_labels : list (String.string * String.string) -> Z)
         (tie : forall A : Type, list A -> list A) (db : database) sel fin p,
    plan_log sel fin = Some p ->
    forall k c st, map (meaning re_match parse_float json_get hash_labels tie db) (run_plan_sel k p c st) =
                   map (meaning re_match parse_float json_get hash_labels tie db) (fresh_seq_sel k p c).
Proof. exact log_query_one_context_same_meaning. Qed.
Print Assumptions log_query_reexecution_one_context_same_meaning.

(* ... and for every script - log or metric - in which no by / without occurs (script_by_free: a syntactic property of the parsed
   query): same erasure (metric statements lie outside the subset SqlEval evaluates: for them this is the content) and same meaning. *)
Theorem script_reexecution_one_context_same_erasure :
  forall s fin p, script_by_free s = true -> plan_script s fin = Some p ->
  forall k c st, erase_all (run_plan_sel k p c st) = erase_all (fresh_seq_sel k p c).
Proof. exact script_one_context_same_erasure. Qed.
Print Assumptions script_reexecution_one_context_same_erasure.
Theorem script_reexecution_one_context_same_meaning :
  forall (re_match : String.string -> String.string -> bool) (parse_float : String.string -> option QArith_base.Q)
         (json_get : String.string -> list String.string -> String.string) (hash_labels : list (String.string * String.string) -> Z)
         (tie : forall A : Type, list A -> list A) (db : database) s fin p,
    script_by_free s = true -> plan_script s fin = Some p ->
    forall k c st, map (meaning re_match parse_float json_get hash_labels tie db) (run_plan_sel k p c st) =
                   map (meaning re_match parse_float json_get hash_labels tie db) (fresh_seq_sel k p c).
Proof. exact script_one_context_same_meaning. Qed.
Print Assumptions script_reexecution_one_context_same_meaning.

(* The object trees of these theorems are the ones whose text the check compares with the real planners byte for byte:
   printing them gives LogqlCases.run_plan / Replan.fresh_seq. *)
Theorem run_plan_prints_run_plan_sel :
  forall k p c st, run_plan k p c st = map (render_at (c_cluster c)) (run_plan_sel k p c st).
Proof. exact run_plan_renders. Qed.
Print Assumptions run_plan_prints_run_plan_sel.
Theorem fresh_seq_prints_fresh_seq_sel :
  forall k p c, fresh_seq k p c = map (render_at (c_cluster c)) (fresh_seq_sel k p c).
Proof. exact fresh_seq_renders. Qed.
Print Assumptions fresh_seq_prints_fresh_seq_sel.

(* the guards of the one-context theorems are met by a plan that DRAWS ids and whose second statement under one context is,
   as text, not the fresh one; by a metric plan without by/without; not by a plan with `sum by (x)` *)
Example alpha_guard_met_by_an_id_drawing_plan :
  match witness_plan with
  | Some p => is_root p = true /\ no_by_without p = true /\ draws_ids p = true /\
              List.length (run_plan_sel 2 p witness_ctx pst0) = 2%nat /\
              olist_eqb (run_plan 2 p witness_ctx pst0) (fresh_seq 2 p witness_ctx) = false
  | None => False
  end.
Proof. exact witness_meets_alpha_guard. Qed.
(* the meaning theorem is not vacuous: C07's example query draws an id per execution; both statements of one plan object under one
   context evaluate (C07's example database, toy oracles) to the one matching line, and the second is, as text, not the fresh one *)
Example one_context_meaning_is_not_vacuous :
  match plan_log ReplanAlphaExamples.nv_query true with
  | Some p => draws_ids p = true /\
     ReplanAlphaExamples.nv_row_counts (run_plan_sel 2 p ReplanAlphaExamples.nv_ctx pst0) = [Some (Some 1%nat); Some (Some 1%nat)] /\
     olist_eqb (run_plan 2 p ReplanAlphaExamples.nv_ctx pst0) (fresh_seq 2 p ReplanAlphaExamples.nv_ctx) = false
  | None => False end.
Proof. exact ReplanAlphaExamples.one_context_meaning_nonvacuous. Qed.
Example alpha_guard_met_by_a_metric_plan :
  match plan_script metric_by_free_example true with
  | Some p => is_root p = true /\ no_by_without p = true /\ draws_ids p = true
  | None => False
  end.
Proof. exact metric_by_free_meets_guard. Qed.
Example by_free_guard_examples : script_by_free metric_by_free_example = true /\ script_by_free metric_by_example = false.
Proof. exact metric_by_free_is_by_free. Qed.
Example erase_is_not_trivial :
  erase_sel (set_from (WRef "a" empty_select) empty_select) <> erase_sel (set_from (WRef "b" empty_select) empty_select).
Proof. exact erase_keeps_table_alias. Qed.
(* hypotheses are satisfiable: the witness query plans to a root *)
Example witness_is_root : exists p, plan_log witness_sel true = Some p /\ is_root p = true.
Proof. exact witness_plans. Qed.
(* ... and a plan that draws no id exists and renders *)
Example noid_plan_meets_the_guard :
  match plan_log noid_sel true with
  | Some p => is_root p = true /\ draws_ids p = false /\ fresh_seq 2 p witness_ctx <> [None]
  | None => False
  end.
Proof. exact noid_plan_meets_guard. Qed.
(* a profile plan that renders: merge_traces of {a="b"} *)
Example prof_plan_renders :
  match pprocess (plan_mode PMMergeTraces [{| sl_name := "a"; sl_op := MEq; sl_val := "b" |}])
                 {| pr_from_ns := 1700000000000000000; pr_to_ns := 1700000300000000000; pr_limit := 0; pt_series_gin := "profiles_series_gin";
                    pt_series_gin_dist := "profiles_series_gin"; pt_series := "profiles_series"; pt_series_dist := "profiles_series";
                    pt_profiles_dist := "profiles"; pr_empty := [] |} with
  | Some r => prender r <> None
  | None => False
  end.
Proof. vm_compute. intro H. inversion H. Qed.

(* log queries with `| line_format` are planned (LineFormatPlanner is part of the planner model since builder b4-lf): the hypotheses
   of process_preserves_plan / reexecution_same_text / log_query_reexecution_one_context_same_meaning are met by such a query; its plan
   draws a context id per execution (the name of the Go template object) *)
From Qryn Require proofs.LogqlTemplateProofs.
Example line_format_queries_are_covered :
  LogqlTemplateProofs.planned_and_processed LogqlTemplateProofs.lf_query LogqlTemplateProofs.lf_ctx = true /\
  match plan_log LogqlTemplateProofs.lf_query true with Some p => draws_ids p = true /\ no_by_without p = true | None => False end.
Proof. split; [exact LogqlTemplateProofs.line_format_query_planned | vm_compute; split; reflexivity]. Qed.

(* ---- FixPeriodPlanner, the post-processor at the head of every matrix chain (round 8; model/ReplanFix.v) ----
   Process refuses (NotSupportedError, inner processor not called, context untouched) or rewrites From / To of the context THE CALLER
   HANDED IN to whole ranges and calls the inner processor with it; the planner object itself is never written (regenerated obligation
   translation_field_writes: its stores go to the PlannerContext parameter). So what a re-execution can depend on is the context. *)
From Qryn Require Import model.ReplanFix proofs.ReplanFixProofs.

(* A prepared matrix chain executed again under a NEW context per execution (what prepareOutput does for every request): whatever
   was executed before and after, the inner processor sees a function of the context of THAT execution. *)
Theorem fix_period_reexecution_new_context :
  forall d cs1 c cs2, nth (List.length cs1) (fix_run_fresh d (cs1 ++ c :: cs2)) None = fix_process d c.
Proof. exact fix_fresh_nth. Qed.
Print Assumptions fix_period_reexecution_new_context.

(* ... and that function is the specified rounding (windows from 1970 on, positive range): whole ranges since the epoch that cover
   the requested window, less than one range more below and at most one range more above. *)
Theorem fix_period_window_covers_the_request :
  forall d c, (0 < d)%Z -> (0 <= f_from c)%Z -> (f_from c <= f_to c)%Z ->
  let w := fix_window d c in
  (f_from w <= f_from c < f_from w + d)%Z /\ (f_to c < f_to w <= f_to c + d)%Z /\ Z.rem (f_from w) d = 0%Z /\ Z.rem (f_to w) d = 0%Z.
Proof. exact fix_window_covers. Qed.
Print Assumptions fix_period_window_covers_the_request.

(* Under ONE context the object is NOT re-executable with the same meaning: whenever the (k+1)-th execution is not refused the inner
   processor sees To moved up by k further ranges (From is rounded idempotently) - for every range, context and k ... *)
Theorem fix_period_one_context_drifts :
  forall d k c w, d <> 0%Z -> nth k (fix_run_one d (S k) c) None = Some w -> w = fix_nth_window d c k.
Proof. exact fix_one_context_nth. Qed.
Print Assumptions fix_period_one_context_drifts.

(* The exact result of EVERY execution under one context (positive range): execution k+1 is accepted iff the caller's context and
   the window of execution k were, and then it sees the window of the closed form. *)
Theorem fix_period_one_context_exact :
  forall d k c, (0 < d)%Z -> nth k (fix_run_one d (S k) c) None = fix_nth_result d c k.
Proof. exact fix_one_context_exact. Qed.
Print Assumptions fix_period_one_context_exact.

(* ... the drift ends in the 11000-points refusal after finitely many executions, and a refusal is for ever. *)
Theorem fix_period_one_context_eventually_refused :
  forall d c, (0 < d)%Z -> (0 < f_step c)%Z -> (f_from c <= f_to c)%Z -> exists k, fix_refuses (fix_nth_window d c k) = true.
Proof. exact fix_one_context_eventually_refused. Qed.
Print Assumptions fix_period_one_context_eventually_refused.
Theorem fix_period_refused_for_ever :
  forall d k c j, fix_refuses c = true -> nth j (fix_run_one d k c) None = None.
Proof. exact fix_refused_for_ever. Qed.
Print Assumptions fix_period_refused_for_ever.

(* "re-execution under one context = re-execution under new contexts" is therefore refuted (the witness the harness executes on the
   real object: 5 m ranges, a one hour window); latent - no entry point executes a matrix chain twice under one context (Tail refuses
   matrix queries, QueryRange / QueryInstant build a context per request). *)
Theorem fix_period_one_context_refuted :
  ~ (forall d c, (0 < d)%Z -> fix_run_one d 2 c = fix_run_fresh d [c; c]).
Proof.
  intro H. pose proof (H fix_witness_d fix_witness_ctx eq_refl) as E. rewrite fix_one_context_differs in E.
  vm_compute in E. discriminate E.
Qed.
Print Assumptions fix_period_one_context_refuted.

(* hypotheses are satisfiable: the witness context is accepted, three times in a row *)
Example fix_period_witness_is_accepted :
  fix_refuses fix_witness_ctx = false /\ (0 < fix_witness_d)%Z /\ (0 <= f_from fix_witness_ctx <= f_to fix_witness_ctx)%Z /\
  nth 2 (fix_run_one fix_witness_d 3 fix_witness_ctx) None = Some (fix_nth_window fix_witness_d fix_witness_ctx 2).
Proof. vm_compute. repeat split; congruence. Qed.
(* before 1970 Go's truncating division rounds From UP (the window handed down starts after the requested one): the guard
   0 <= From of fix_period_window_covers_the_request is needed *)
Example fix_period_before_epoch_rounds_up :
  exists d c, (0 < d)%Z /\ (f_from c <= f_to c)%Z /\ (f_from c < f_from (fix_window d c))%Z.
Proof. exact fix_window_before_epoch. Qed.
(* accepted once, refused from the second execution on: a window of exactly 11000 steps (the exact theorem's refusal branch is met) *)
Example fix_period_accepted_then_refused :
  let c := {| f_from := 0; f_to := 11000; f_step := 1 |} in
  fix_run_one 1 3 c = [Some {| f_from := 0; f_to := 11001; f_step := 1 |}; None; None] /\
  fix_nth_result 1 c 0 <> None /\ fix_nth_result 1 c 1 = None.
Proof. vm_compute. repeat split; congruence. Qed.

(* The model computes in Z, the code in int64: for times within +-2^62 ns (years 1823 .. 2116) and ranges up to 2^62 ns (146 years)
   no intermediate value or result of the modelled part of Process leaves the int64 range - there is no wrap-around to model. *)
Theorem fix_period_no_overflow :
  forall d c, (0 < d <= 2 ^ 62)%Z -> (- 2 ^ 62 <= f_from c < 2 ^ 62)%Z -> (- 2 ^ 62 <= f_to c < 2 ^ 62)%Z ->
  in_i64 (f_to c - f_from c) /\ in_i64 (Z.quot (f_from c) d * d) /\ in_i64 (Z.quot (f_to c) d * d) /\
  in_i64 (f_from (fix_window d c)) /\ in_i64 (f_to (fix_window d c)).
Proof. exact fix_window_in_int64. Qed.
Print Assumptions fix_period_no_overflow.
