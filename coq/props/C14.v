(* Property C14 — query translation is deterministic and a prepared plan can be re-executed.
   Only statements; proofs by reference (proofs/ReplanProofs.v). The model is the stateful
   `process` of model/LogqlPlan.v: everything a Process call can read or write besides its
   arguments is `pst` (the WITH caches of the plan object, the id counter of the context).
   Plans are functions in the model, so "the same query and parameters give the same SQL" is
   the statement that the result does not depend on the state earlier calls left. *)
From Coq Require Import List ZArith NArith String Bool Permutation.
From Qryn Require Import model.Sql model.SqlRender model.Logql model.LogqlPlan model.LogqlCases model.Replan proofs.ReplanProofs.
Import ListNotations.

(* No Process method changes the plan object: whatever the planner tree, context and state, the
   plan returned next to the statement is the plan that was executed. *)
Theorem process_preserves_plan :
  forall p c st q st' p', process p c st = Some (q, st', p') -> p' = p.
Proof. exact ReplanProofs.process_preserves_plan. Qed.
Print Assumptions process_preserves_plan.

(* Translation is independent of history: a plan (the root planner.plan() returns) handed a new
   context yields the same result whatever state earlier executions of it left behind. *)
Theorem translate_deterministic :
  forall p c st, is_root p = true -> process p c (new_ctx st) = process p c pst0.
Proof. intros p c st R. exact (root_new_ctx p c st R). Qed.
Print Assumptions translate_deterministic.

(* every plan of a log or metric query is such a root *)
Theorem plan_is_root : forall s fin p, plan_script s fin = Some p -> is_root p = true.
Proof. exact plan_script_is_root. Qed.
Print Assumptions plan_is_root.

(* Live tail: for every plan, every number of executions and every sequence of windows, the
   statements of the successive executions of ONE plan object (a new context per tick) are, text
   for text, the statements of never executed plans for those windows — from any starting state. *)
Theorem reexecution_same_text :
  forall p c ws st, is_root p = true -> run_tail p c ws st = fresh_run p c ws.
Proof. intros p c ws st R. exact (tail_is_fresh p c R ws st). Qed.
Print Assumptions reexecution_same_text.

(* One context whose window is moved (the id counter continues): the k statements are those of k
   never executed plans processed under a context that has already handed out as many ids. *)
Theorem reexecution_one_context :
  forall p k c st, is_root p = true -> run_plan k p c st = run_plan_ref k p c (pid st).
Proof. intros p k c st R. exact (reuse_is_fresh_at_counter p R k c st). Qed.
Print Assumptions reexecution_one_context.

(* The reset at the root is necessary: below it (the whole plan before fix 9757427) the second
   execution of {a="b"} | level="error" | json x="x" | x="1" under a new context is a statement
   different from the fresh one for the same window, while at the root they agree. *)
Theorem reexecution_without_reset_refuted :
  ~ (forall p c w1 w2, second_run_text p c w1 w2 = fresh_text p c w2).
Proof.
  intro H. pose proof below_root_differs as W. destruct witness_plan as [p|]; [|exact W].
  destruct W as [D _]. rewrite (H (below_root p) witness_ctx witness_w1 witness_w2) in D.
  destruct (fresh_text (below_root p) witness_ctx witness_w2) as [s|]; cbn in D; [|discriminate D].
  rewrite String.eqb_refl in D. discriminate D.
Qed.
Print Assumptions reexecution_without_reset_refuted.

(* FormatFromDate is monotone: a sub-select built for an earlier window has the older (wider)
   date bound. *)
Theorem fp_sel_bound_monotone : forall a b, (a <= b)%Z -> (from_day a <= from_day b)%Z.
Proof. exact from_day_monotone. Qed.
Print Assumptions fp_sel_bound_monotone.

(* An IN (...) list means a set: the order in which a Go map is ranged over to build it
   (labelsGetter.getFetchRequest) changes the text, not the meaning. *)
Theorem in_list_perm : forall (V : Type) (veq : V -> V -> bool) (v : V) l1 l2,
  Permutation l1 l2 -> in_sem veq v l1 = in_sem veq v l2.
Proof. intros V veq v l1 l2. exact (in_sem_perm veq v l1 l2). Qed.
Print Assumptions in_list_perm.

(* Select.String ranges over the settings map: no planner sets a setting, so no statement
   of a plan carries a SETTINGS clause whose text could depend on the iteration order ... *)
Theorem render_order_independent :
  forall p c st q st' p', process p c st = Some (q, st', p') -> s_settings q = [] /\
    forall kv', Permutation (s_settings q) kv' -> settings_text (s_settings q) = settings_text kv'.
Proof.
  intros p c st q st' p' H. pose proof (process_no_settings p c st q st' p' H) as E. split; [exact E|].
  intros kv' P. apply settings_text_one; [exact P|]. rewrite E. cbn. auto.
Qed.
Print Assumptions render_order_independent.

(* ... which matters: two settings already have two texts. *)
Theorem settings_order_matters :
  exists kv kv', Permutation kv kv' /\ settings_text kv <> settings_text kv'.
Proof.
  exists [("a", "1"); ("b", "2")]%string, [("b", "2"); ("a", "1")]%string.
  split; [apply perm_swap | exact settings_text_two_orders].
Qed.
Print Assumptions settings_order_matters.

(* hypotheses are satisfiable: the witness query plans to a root *)
Example witness_is_root : exists p, plan_log witness_sel true = Some p /\ is_root p = true.
Proof. exact witness_plans. Qed.
