(* Property C20 — with basic auth configured no route is reachable without the credentials.
   Only statements; proofs by reference (proofs/AuthProofs.v, proofs/RoutesProofs.v).
   gen_assembly is regenerated from main.go and the route tables on every run (translate/gen_routes);
   an environment `env` assigns a truth value to every condition atom of the assembly (cors enabled, mode == ...,
   ownHttpServer, ...); "credentials configured" = the atoms of gen_must (login non-empty, password non-empty). *)
From Coq Require Import List String Ascii Bool NArith ZArith.
From Qryn Require Import model.Auth model.Router model.RotateCfg model.AuthEnv proofs.AuthProofs proofs.B64Inv proofs.RoutesProofs proofs.AuthEnvProofs gen.GenRoutes.
From Qryn Require Import model.GzipWriter proofs.GzipWriterProofs.
Import ListNotations.
Open Scope string_scope.

(* In EVERY configuration with credentials configured, on every route that a served router can reach, BasicAuth is
   the first middleware that can answer or dispatch (only the pass-through wrappers AcceptEncoding/Cors/Logging may
   stand before it), no router value escapes the translator, and nothing but a tracked router is served.
   A route on a router that does not inherit the chain (fresh mux.NewRouter() served separately) fails it.
   The assembly includes the census of EVERY source file of the repository (all build tags): each http.Serve /
   ListenAndServe / http.Server method / net.Listen / mux.NewRouter / http.NewServeMux / fasthttp / fiber / grpc site
   that is not an interpreted operation of the tracked router is an OUnknown / OServeOther operation (assembly_ok false),
   and http.DefaultServeMux -- where http.Handle, net/http/pprof and expvar register -- is served by nothing.
   AcceptEncoding / Cors / Logging count as pass-through only if the translator found, in their source, that every
   path through the handler calls next.ServeHTTP exactly once and nothing answers before it; otherwise they are
   MwOther (may answer by themselves), which `guarded` rejects in front of BasicAuth. *)
Theorem auth_first_everywhere : forall env : nat -> bool,
  (forall a, In a gen_must -> env a = true) ->
  gen_credentials_atoms = true /\ assembly_ok (active env gen_assembly) = true /\ gen_default_mux_served = false.
Proof.
  intros env H. split; [exact gen_has_credential_atoms | split; [exact (proj1 (gen_ok env H)) | exact gen_default_mux_not_served]].
Qed.
Print Assumptions auth_first_everywhere.

(* For every configuration, every served root router, every login/password, every request (any method, path, Authorization bytes,
   Accept-Encoding, anything else), every handler and every behaviour of unknown middlewares:
   if the handler of the matched route runs, the header is "Basic <text>" with <text> a complete valid base64 text
   decoding to login:pass; and a request without exactly those credentials runs no handler, is not buffered by the
   compression wrapper, and is answered 401/400 by BasicAuth itself (after pass-through wrappers only) or 404/405 by
   the router's own dispatch -- or, for a path that is not in canonical form ("//", "/./", "/../"), by the router's
   301 redirect issued before any matching; in the last three cases with no middleware having run at all. *)
Theorem no_handler_without_credentials :
  forall (env : nat -> bool) login pass other h root q,
  (forall a, In a gen_must -> env a = true) ->
  let p := dispatch true login pass other h (active env gen_assembly) root q in
  (handler_ran p = true ->
     exists rest, q_auth q = "Basic " ++ rest /\ b64_decode_ok rest = true /\
                  b64_decode_prefix rest = login ++ ":" ++ pass) /\
  (exact_credentials login pass (q_auth q) = false ->
     handler_ran p = false /\ p_gzip p = false /\
     (p_status p = 401 \/ p_status p = 400 \/ p_status p = 404 \/ p_status p = 405 \/
      (p_status p = 301 /\ path_clean (q_path q) = false))%N /\
     ((p_status p = 401 \/ p_status p = 400)%N -> exists pre, forallb transparent pre = true /\
        p_trace p = (map EvNext pre ++ [EvReject (p_status p)])%list) /\
     ((p_status p = 404 \/ p_status p = 405 \/ p_status p = 301)%N -> p_trace p = [])).
Proof. intros env login pass other h root q H. exact (assembly_no_handler login pass other h _ (proj1 (gen_ok env H)) root q). Qed.
Print Assumptions no_handler_without_credentials.

(* The header a client builds from the configured credentials (login without ':') reaches the handler of whatever
   route the request matches, through every middleware of the chain in Use order, and the handler's status is the
   answer -- for every Accept-Encoding and whatever else the request carries. *)
Theorem right_credentials_pass :
  forall (env : nat -> bool) login pass other h root q rt,
  (forall a, In a gen_must -> env a = true) ->
  has_char ":"%char login = false ->
  q_auth q = basic_header login pass ->
  let ops := active env gen_assembly in
  lookup ops root (q_method q) (q_path q) = FRoute rt ->
  let p := dispatch true login pass other h ops root q in
  handler_ran p = true /\ p_status p = h q /\
  p_trace p = (map EvNext (chain ops (rt_router rt)) ++ [EvHandler])%list.
Proof.
  intros env login pass other h root q rt H Hl Ha ops F.
  exact (assembly_right_credentials login pass other h ops (proj2 (gen_ok env H)) root q rt Hl Ha F).
Qed.
Print Assumptions right_credentials_pass.

(* Compression and CORS cannot bypass the check: for ANY chain in which BasicAuth is preceded by pass-through
   wrappers only, a request that BasicAuth refuses gets BasicAuth's status, is never gzip-buffered, and the only
   code that ran is those wrappers calling next once each, then BasicAuth answering -- no handler, nothing behind. *)
Theorem compression_cors_cannot_bypass :
  forall ce login pass other h ch q,
  guarded ch = true -> basic_auth_gen ce login pass (q_auth q) <> VPass ->
  let p := serve ce login pass other h ch q in
  let st := verdict_status (basic_auth_gen ce login pass (q_auth q)) in
  p_status p = st /\ p_gzip p = false /\
  p_www p = verdict_eqb (basic_auth_gen ce login pass (q_auth q)) VChallenge401 /\
  p_trace p = (map EvNext (before_auth ch) ++ [EvReject st])%list.
Proof. exact serve_reject. Qed.
Print Assumptions compression_cors_cannot_bypass.

(* CORS pre-flight and OPTIONS: a request WITHOUT an Authorization header (every browser pre-flight is one: OPTIONS +
   Origin + Access-Control-Request-Method/-Headers, which the handler-side tag q_tag stands for) -- in every
   configuration, for every method (OPTIONS included), path and Accept-Encoding: no handler runs, nothing is
   gzip-buffered, and the answer is BasicAuth's own 401 challenge (WWW-Authenticate set) after pass-through wrappers
   only, or the router's own 404/405 (301 for a path not in canonical form) with NO middleware having run (so no CORS
   layer answered it either). *)
Theorem preflight_cannot_bypass :
  forall (env : nat -> bool) login pass other h root q,
  (forall a, In a gen_must -> env a = true) ->
  q_auth q = "" ->
  let p := dispatch true login pass other h (active env gen_assembly) root q in
  handler_ran p = false /\ p_gzip p = false /\
  ((p_status p = 401%N /\ p_www p = true /\ exists pre, forallb transparent pre = true /\
       p_trace p = (map EvNext pre ++ [EvReject 401%N])%list)
   \/ ((p_status p = 404%N \/ p_status p = 405%N \/ (p_status p = 301%N /\ path_clean (q_path q) = false)) /\
       p_www p = false /\ p_trace p = [])).
Proof.
  intros env login pass other h root q H Ha.
  exact (dispatch_no_header true login pass other h _ root q (proj1 (gen_ok env H)) Ha).
Qed.
Print Assumptions preflight_cannot_bypass.

(* why only pass-through wrappers may stand before BasicAuth: a middleware that can answer by itself (say a CORS layer
   answering "pre-flights" with 204) does so without BasicAuth ever seeing the request -- such a middleware is MwOther
   in the assembly and `guarded` is false for a chain that has it in front of BasicAuth (example below). *)
Theorem wrapper_that_answers_before_auth_bypasses :
  forall ce login pass other h n rest q st, other n q = Some st ->
  serve ce login pass other h (MwOther n :: rest) q =
    {| p_status := st; p_www := false; p_gzip := false; p_cors := false; p_trace := [EvShort n st] |}.
Proof. exact answering_wrapper_short_circuits. Qed.
Print Assumptions wrapper_that_answers_before_auth_bypasses.

(* wherever BasicAuth stands in a chain, the handler runs only after it accepted *)
Theorem handler_only_behind_auth :
  forall ce login pass other h ch q,
  In BasicAuth ch -> In EvHandler (p_trace (serve ce login pass other h ch q)) ->
  basic_auth_gen ce login pass (q_auth q) = VPass.
Proof. exact serve_handler_inv. Qed.
Print Assumptions handler_only_behind_auth.

(* BasicAuthMiddleware accepts exactly the headers that carry exactly the credentials (login without ':'):
   "Basic " followed by a complete, valid base64 text of login:pass -- for all header byte strings. *)
Theorem basic_auth_accepts_exactly :
  forall login pass auth, has_char ":"%char login = false ->
  (basic_auth login pass auth = VPass <-> exact_credentials login pass auth = true).
Proof. intros login pass auth Hl. split; [apply pass_exact | apply exact_pass; exact Hl]. Qed.
Print Assumptions basic_auth_accepts_exactly.

(* ... and for ANY login (also one containing ':') acceptance implies exactly the credentials (fails closed) *)
Theorem basic_auth_sound :
  forall login pass auth, basic_auth login pass auth = VPass -> exact_credentials login pass auth = true.
Proof. exact pass_exact. Qed.
Print Assumptions basic_auth_sound.

(* a login containing ':' cannot be presented at all: SplitN cuts at the first colon *)
Theorem colon_login_locks_out :
  forall ce login pass auth, has_char ":"%char login = true -> basic_auth_gen ce login pass auth <> VPass.
Proof. exact colon_login_locks_out. Qed.
Print Assumptions colon_login_locks_out.

(* a password may contain ':' (SplitN cuts at the FIRST colon only): the header built from the credentials passes *)
Theorem password_may_contain_colon :
  forall login pass, has_char ":"%char login = false -> basic_auth login pass (basic_header login pass) = VPass.
Proof. exact right_header_passes. Qed.
Print Assumptions password_may_contain_colon.

(* OBSERVATION (not a violation of C20, whose premise is "a login AND a password are configured"): with a login but an
   EMPTY password (Mode "all", CORS off) main() installs no BasicAuth at all, so some reachable route -- in fact every
   one -- runs its handler for any request whatsoever: the configuration fails OPEN. *)
Theorem login_without_password_is_open :
  let env := env_of_list gen_open_witness in
  env gen_login_atom = true /\ env gen_pass_atom = false /\
  exists rt, In rt (reachable_routes (active env gen_assembly)) /\
    forall ce login pass other h q,
      p_status (serve ce login pass other h (chain (active env gen_assembly) (rt_router rt)) q) = h q /\
      In EvHandler (p_trace (serve ce login pass other h (chain (active env gen_assembly) (rt_router rt)) q)).
Proof. exact gen_open_without_password. Qed.
Print Assumptions login_without_password_is_open.

(* ... whereas BasicAuthMiddleware itself, were it installed with an empty password, accepts exactly "login:" *)
Theorem empty_password_accepts_exactly :
  forall login auth, has_char ":"%char login = false ->
  (basic_auth login "" auth = VPass <-> exact_credentials login "" auth = true) /\
  basic_auth login "" (basic_header login "") = VPass /\ basic_auth login "" "" = VChallenge401.
Proof. exact empty_password_exact. Qed.
Print Assumptions empty_password_accepts_exactly.

(* the base64 model decodes what the encoder writes, for every byte string (so the header built from the
   configured credentials is a complete valid text) *)
Theorem b64_roundtrip : forall s, b64_go (b64_encode s) [] = (s, true).
Proof. exact b64_roundtrip. Qed.
Print Assumptions b64_roundtrip.

(* "exactly the credentials" is literal: whatever BasicAuthMiddleware lets through spells, after "Basic " and apart
   from CR/LF bytes (which the decoder skips), the encoder's text of every complete 3-byte group of login:pass
   followed by a valid text of the remaining <= 2 bytes; when login:pass has a length divisible by 3 the header IS
   "Basic " ++ base64(login:pass) -- knowing the credentials is necessary. *)
Theorem accepted_header_spells_credentials :
  forall login pass auth y z,
  basic_auth login pass auth = VPass -> login ++ ":" ++ pass = y ++ z -> groups3 y = true ->
  exists rest s', auth = "Basic " ++ rest /\ strip_nl rest = b64_encode y ++ strip_nl s' /\ b64_go s' [] = (z, true).
Proof. exact accepted_spells_groups. Qed.
Print Assumptions accepted_header_spells_credentials.

Theorem accepted_header_is_the_encoding :
  forall login pass auth,
  basic_auth login pass auth = VPass -> groups3 (login ++ ":" ++ pass) = true ->
  exists rest, auth = "Basic " ++ rest /\ strip_nl rest = b64_encode (login ++ ":" ++ pass).
Proof. exact accepted_spells. Qed.
Print Assumptions accepted_header_is_the_encoding.

(* why the decode error must be checked (the defect fixed in /repo, kept as basic_auth_unchecked): the decoded
   PREFIX of a malformed text was compared, so "Basic dXNlcjpwYXNz!" passed for user/pass *)
Theorem ignoring_decode_error_accepts_malformed :
  basic_auth_unchecked "user" "pass" "Basic dXNlcjpwYXNz!" = VPass /\
  exact_credentials "user" "pass" "Basic dXNlcjpwYXNz!" = false /\
  basic_auth "user" "pass" "Basic dXNlcjpwYXNz!" = VDenied401.
Proof. exact unchecked_accepts_malformed. Qed.
Print Assumptions ignoring_decode_error_accepts_malformed.

(* the hypotheses above are satisfiable by non-trivial values *)
Example guarded_example : guarded [AcceptEncoding; BasicAuth; Cors; Logging] = true /\ guarded [AcceptEncoding; Cors] = false.
Proof. split; reflexivity. Qed.
Example login_example : has_char ":"%char "admin" = false /\ basic_header "admin" "s3:cret" = "Basic YWRtaW46czM6Y3JldA==".
Proof. split; reflexivity. Qed.
Example groups_example : groups3 ("user" ++ ":" ++ "pass") = true /\ b64_encode "user:pass" = "dXNlcjpwYXNz".
Proof. split; reflexivity. Qed.
Example answering_wrapper_not_guarded :
  guarded [MwOther "Cors: not a pass-through wrapper"; BasicAuth; AcceptEncoding] = false /\
  guarded [BasicAuth; MwOther "Cors: not a pass-through wrapper"] = true.
Proof. split; reflexivity. Qed.
Example colon_password_example : has_char ":"%char "s3cr:et" = true /\ basic_auth "admin" "s3cr:et" "Basic YWRtaW46czNjcjpldA==" = VPass.
Proof. split; reflexivity. Qed.
Example empty_password_example : basic_header "user" "" = "Basic dXNlcjo=" /\ basic_auth "user" "" "Basic dXNlcg==" = VDenied401.
Proof. split; reflexivity. Qed.
Example unclean_path_example :
  path_clean "/ready" = true /\ path_clean "/" = true /\ path_clean "/ready/" = true /\ path_clean "//ready" = false /\
  path_clean "/loki/../ready" = false /\ path_clean "/./ready" = false /\ path_clean "" = false /\ path_clean "/ready/." = false.
Proof. repeat split; reflexivity. Qed.
Example no_header_example :
  q_auth {| q_method := "OPTIONS"; q_path := "/ready"; q_auth := ""; q_gzip := true; q_tag := 204 |} = "".
Proof. reflexivity. Qed.
Example fresh_router_fails :
  assembly_ok [ONewRouter 0; OUse 0 BasicAuth; ONewRouter 1;
               ORoute {| rt_router := 1; rt_prefix := false; rt_tpl := "/ready"; rt_methods := ["GET"]; rt_exact := true |};
               OServe 0; OServe 1] = false.
Proof. reflexivity. Qed.

(* From the environment to the conditions (model/AuthEnv.v: func portEnv of main.go; gen_atom_kinds says what each atom of
   the regenerated assembly tests).  Whenever portEnv accepts the environment and a login and a password were given --
   by QRYN_LOGIN / CLOKI_LOGIN and QRYN_PASSWORD / CLOKI_PASSWORD or by the configuration file -- the conditions main
   evaluates on the resulting configuration make every reachable route guarded by BasicAuth, for every MODE, READONLY
   ("key"), CORS_ALLOW_ORIGIN and every value of the atoms that are not about the configuration. *)
Theorem environment_credentials_guard_every_route : forall e file preset c other,
  port_env e file preset = Some c ->
  (getenv e "CLOKI_LOGIN" <> "" \/ getenv e "QRYN_LOGIN" <> "" \/ a_user file <> "") ->
  (getenv e "CLOKI_PASSWORD" <> "" \/ getenv e "QRYN_PASSWORD" <> "" \/ a_pass file <> "") ->
  assembly_ok (active (valuation_of gen_atom_kinds c other) gen_assembly) = true.
Proof. exact env_credentials_guard. Qed.
Print Assumptions environment_credentials_guard_every_route.

(* ... and the credentials BasicAuth is installed with are the ones given: CLOKI_ over QRYN_ over the file. *)
Theorem environment_credentials_are_the_configured_ones : forall e file preset c, port_env e file preset = Some c ->
  a_user c = (if nonempty (getenv e "CLOKI_LOGIN") then getenv e "CLOKI_LOGIN"
              else if nonempty (getenv e "QRYN_LOGIN") then getenv e "QRYN_LOGIN" else a_user file) /\
  a_pass c = (if nonempty (getenv e "CLOKI_PASSWORD") then getenv e "CLOKI_PASSWORD"
              else if nonempty (getenv e "QRYN_PASSWORD") then getenv e "QRYN_PASSWORD" else a_pass file).
Proof. exact port_env_credentials. Qed.
Print Assumptions environment_credentials_are_the_configured_ones.

(* The configuration in which main installs no BasicAuth although a login is set (login_without_password_is_open) cannot
   arise from a configured non-empty password: after portEnv the password is empty exactly when CLOKI_PASSWORD,
   QRYN_PASSWORD and the file's password are all empty (and likewise the login); a value consisting of blanks, quotes
   or anything else is kept byte for byte (environment_credentials_are_the_configured_ones).  The configuration FILE
   reader (cloki-config: viper, not qryn's code) is driven by the harness the way main drives it on generated files and
   must hand the texts over unchanged (obligation of the check). *)
Theorem configured_password_is_never_emptied : forall e file preset c, port_env e file preset = Some c ->
  (a_pass c = "" <-> getenv e "CLOKI_PASSWORD" = "" /\ getenv e "QRYN_PASSWORD" = "" /\ a_pass file = "") /\
  (a_user c = "" <-> getenv e "CLOKI_LOGIN" = "" /\ getenv e "QRYN_LOGIN" = "" /\ a_user file = "").
Proof. exact password_never_emptied. Qed.
Print Assumptions configured_password_is_never_emptied.

(* ------------------------------------------------------------------ the compression wrapper's ResponseWriter
   model/GzipWriter.v: AcceptEncodingMiddleware + gzipResponseWriter as the calls reaching the underlying writer for any
   sequence of WriteHeader / Write calls the handler behind it makes (compared call by call with the real code). *)

(* A refusal behind the wrapper -- WriteHeader of a non-2xx status first, as BasicAuth's http.Error does, then anything:
   the wire sees exactly that WriteHeader and then the handler's writes one by one, byte-identical, never marked gzip,
   nothing buffered, nothing added when the wrapper closes (later WriteHeader calls are dropped, as net/http would). *)
Theorem compression_wrapper_forwards_a_refusal : forall c rest, ok2xx c = false ->
  accept_encoding true (AHeader c :: rest) = map direct (AHeader c :: writes_only rest).
Proof. exact refusal_passes_unchanged. Qed.
Print Assumptions compression_wrapper_forwards_a_refusal.

(* Whatever the handler behind it does, the status line on the wire is the first status that handler chose (200 if it
   only wrote or did nothing): the wrapper cannot turn a refusal into a success nor a success into something else ... *)
Theorem compression_wrapper_keeps_the_first_status : forall next,
  wire_status (accept_encoding true next) = Some (match first_status next with Some c => c | None => 200%Z end).
Proof. exact wire_status_is_first_status. Qed.
Print Assumptions compression_wrapper_keeps_the_first_status.

(* ... and it never answers on its own: a handler that did nothing gives what net/http sends anyway (200, no body);
   without "gzip" in Accept-Encoding nothing reaches the writer at all. *)
Theorem compression_wrapper_never_answers_itself :
  accept_encoding true [] = [UHeader 200%Z false; UGzip false false] /\ accept_encoding false [] = [].
Proof. exact idle_next. Qed.
Print Assumptions compression_wrapper_never_answers_itself.
