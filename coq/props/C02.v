(* Property C02 -- every INSERT block is rectangular and made only of whole submitted rows.
   Only statements; proofs by reference.  Model: model/Ingest.v (per-column buffers of one insert worker, the six
   ProcessRequest closures), model/PushHandler.v (all workers and handlers); monitor: model/IngestSpec.v smon_step. *)
From Coq Require Import List NArith ZArith Bool.
From Qryn Require Import model.IngestRobust model.IngestPipe proofs.IngestPipeProofs.   (* C05's count-level parser pipeline; first: C02's names win *)
From Qryn Require Import model.Ingest model.PushHandler model.IngestSpec model.IngestFresh proofs.IngestBase proofs.IngestAck
  proofs.IngestSpecProofs proofs.IngestPromises model.IngestSched model.PushConfirm proofs.IngestShapes
  model.IngestBridge proofs.IngestBridgeProofs proofs.IngestBridgeRows proofs.IngestFreshFrom proofs.IngestLoops
  model.IngestSwap2 proofs.IngestSwap2Proofs.
From Qryn Require model.Spans model.IngestWidths proofs.IngestWidthsProofs.
Import ListNotations.

(* If every submitted request is the table of its rows, then for every configuration and every interleaving each
   block handed to ClickHouse is the table (ncols columns) of the rows of exactly the requests accepted by that
   worker since its previous send, in acceptance order: every column has one value per row, the i-th values of
   all columns come from the same submitted row, rows of one request are contiguous, no other request's row is
   in the block and none of the waiters' rows is missing (table_means_whole_rows spells the table out). *)
Theorem blocks_good : forall cfg n tr g es,
  forallb act_wf tr = true ->
  grun (ginit cfg n) tr = Some (g, es) ->
  run_mon (smon_step MTable) (smon_init (length cfg)) es <> None.
Proof. intros cfg n tr g es H. apply spec_sound_gen. now apply act_q_table. Qed.
Print Assumptions blocks_good.

Theorem table_means_whole_rows : forall n rids,
  (forall c, In c (table_of n rids) -> length c = length rids) /\
  (forall j i, (j < n)%nat -> (i < length rids)%nat ->
     nth i (nth j (table_of n rids) []) (0%N, 0%nat) = (nth i rids 0%N, j)).
Proof. exact table_of_shape. Qed.
Print Assumptions table_means_whole_rows.

(* For requests that are not tables but at least append nothing when their key column is empty: the block is the
   column-wise concatenation of what ProcessRequest appends for exactly its waiters, in order (nobody else's
   cells, none of the waiters' cells missing), and the waiters are released with that block's outcome. *)
Theorem block_carries_its_waiters : forall cfg n tr g es,
  forallb (act_ok true) tr = true ->
  grun (ginit cfg n) tr = Some (g, es) ->
  run_mon (smon_step MClean) (smon_init (length cfg)) es <> None.
Proof. intros cfg n tr g es H. apply spec_sound_gen. now apply act_q_clean. Qed.
Print Assumptions block_carries_its_waiters.

(* The blast radius of one malformed request (what defects of the parsers turn into): a request whose key column
   is empty but whose other columns are not is acknowledged at once, its cells stay in the open batch, and the
   next, well-formed request of ANOTHER client is sent in a block that is not rectangular. *)
Theorem bad_request_poisons_batch :
  let bad : req := [[(7%N, 0%nat)]; []; [(7%N, 2%nat)]; [(7%N, 3%nat)]; [(7%N, 4%nat)]] in
  let good : req := table_of 5 [8%N] in
  let tr := [GEnvReq 0 KSamples 1%N bad 10%Z; GEnvReq 0 KSamples 2%N good 10%Z;
             GSvc 0 SPlan; GSvc 0 (SDial true); GSvc 0 SSwap; GSvc 0 SSend] in
  wf_reqb KSamples good = true /\
  exists g es b, grun (ginit [(KSamples, 0%nat, 0%Z)] 1%N) tr = Some (g, es) /\
    In (EResolve (PEnv 1%N) KSamples bad true) es /\
    In (ESend 0 KSamples b) es /\ map (@length cell) b = [2; 1; 2; 2; 2]%nat.
Proof.
  cbv zeta. split; [vm_compute; reflexivity|].
  eexists. eexists. eexists. split; [vm_compute; reflexivity|].
  split; [cbn; tauto|]. split; [cbn; repeat (first [left; reflexivity|right])|reflexivity].
Qed.
Print Assumptions bad_request_poisons_batch.

Theorem blocks_good_any_request_refuted : ~ (forall cfg n tr g es,
  grun (ginit cfg n) tr = Some (g, es) ->
  run_mon (smon_step MClean) (smon_init (length cfg)) es <> None).
Proof.
  intros H.
  specialize (H [(KSamples, 0%nat, 0%Z)] 1%N
     [GEnvReq 0 KSamples 1%N [[(7%N, 0%nat)]; []; [(7%N, 2%nat)]; [(7%N, 3%nat)]; [(7%N, 4%nat)]] 10%Z;
      GEnvReq 0 KSamples 2%N (table_of 5 [8%N]) 10%Z; GSvc 0 SPlan; GSvc 0 (SDial true); GSvc 0 SSwap; GSvc 0 SSend]).
  vm_compute in H. eapply H; reflexivity.
Qed.
Print Assumptions blocks_good_any_request_refuted.

(* "No row is duplicated inside a block."  Row ids are data of the requests, so this needs the hypothesis that
   submitted ids are globally fresh (model/IngestFresh.v, fresh_run own): every row id has one owner -- a direct
   Request call with a promise of its own, or one sub-request (push h, position i) of one arriving push -- and a
   submission holds only ids it owns, each once.  The retry of a sub-push re-submits the SAME rows, so freshness
   alone is not enough: what makes the theorem true is the life cycle of the promises (invariant LJ of
   proofs/IngestPromises.v: attempt k+1 is started only after the promise of attempt k was completed, a completed
   promise is held by no worker, a pending one by exactly one).
   For every configuration and every fresh run of well-formed requests, every block handed to ClickHouse is the table
   of its rows (all columns) and no row id occurs twice in it. *)
Theorem blocks_have_distinct_rows : forall (own : N -> okey) cfg n tr g es,
  forallb act_wf tr = true -> fresh_run own (ginit cfg n) tr = true ->
  grun (ginit cfg n) tr = Some (g, es) ->
  forall s k b, In (ESend s k b) es -> good_block_b k b = true.
Proof. exact sends_are_tables_of_distinct_rows. Qed.
Print Assumptions blocks_have_distinct_rows.

(* The same without any hypothesis on the shape of the requests, on states: the row ids of the requests whose promises
   a worker holds -- open batch and portion handed to Do together -- are pairwise distinct. *)
Theorem held_rows_are_distinct : forall (own : N -> okey) cfg n tr g es s sv,
  fresh_run own (ginit cfg n) tr = true -> grun (ginit cfg n) tr = Some (g, es) ->
  nth_error (svcs g) s = Some sv -> NoDup (rows_of (pend sv)).
Proof. exact held_rows_distinct. Qed.
Print Assumptions held_rows_are_distinct.

(* The life-cycle fact behind it, for every run: two pending promises of the same sub-push are the same attempt with
   the same request, and a pending promise is not completed. *)
Theorem one_attempt_of_a_sub_push_is_pending : forall cfg n tr g es s1 sv1 s2 sv2 h i k1 k2 r1 r2,
  grun (ginit cfg n) tr = Some (g, es) ->
  nth_error (svcs g) s1 = Some sv1 -> In (PSub h i k1, r1) (pend sv1) ->
  nth_error (svcs g) s2 = Some sv2 -> In (PSub h i k2, r2) (pend sv2) ->
  k1 = k2 /\ r1 = r2 /\ in_store (PSub h i k1) (store g) = false.
Proof. exact one_attempt_pending. Qed.
Print Assumptions one_attempt_of_a_sub_push_is_pending.

(* The freshness hypothesis cannot be dropped: two clients submitting the same row id get it twice in one block. *)
Theorem distinct_rows_need_fresh_ids_refuted : ~ (forall cfg n tr g es,
  forallb act_wf tr = true -> grun (ginit cfg n) tr = Some (g, es) ->
  forall s k b, In (ESend s k b) es -> good_block_b k b = true).
Proof.
  intros H.
  pose (tr := [GEnvReq 0 KSamples 1%N (table_of 5 [3%N]) 10%Z; GEnvReq 0 KSamples 2%N (table_of 5 [3%N]) 10%Z;
               GSvc 0 SPlan; GSvc 0 (SDial true); GSvc 0 SSwap; GSvc 0 SSend]).
  destruct (grun (ginit [(KSamples, 0%nat, 0%Z)] 1%N) tr) as [[g es]|] eqn:E; [|vm_compute in E; discriminate].
  assert (W : forallb act_wf tr = true) by (vm_compute; reflexivity).
  specialize (H _ _ _ _ _ W E 0%nat KSamples (table_of 5 [3%N; 3%N])).
  assert (Hin : In (ESend 0 KSamples (table_of 5 [3%N; 3%N])) es).
  { vm_compute in E. inversion E; subst. cbn. repeat (first [left; reflexivity|right]). }
  specialize (H Hin). vm_compute in H. discriminate.
Qed.
Print Assumptions distinct_rows_need_fresh_ids_refuted.

(* The process-death conditions of the insert path that are index-out-of-range panics, and which request shapes reach
   them.  ProcessRequest panics exactly for a time-series request whose MLabels is shorter than its MDate
   (Labels.Append(MLabels[i]) for i over MDate) ... *)
Theorem process_request_panics_iff : forall k r,
  eff k r = None <->
  k = KSeries /\ (length (nth 3 (fit (ncols KSeries) r) []) < length (nth 1 (fit (ncols KSeries) r) []))%nat.
Proof. exact IngestShapes.process_request_panics_iff. Qed.
Print Assumptions process_request_panics_iff.

(* ... ConfirmSeries (MFingerprint[i], MType[i] for i over MDate) exactly when one of those is shorter than MDate ... *)
Theorem confirm_series_panics_iff : forall r,
  confirm_keys r = None <-> (length (nth 2 r []) < length (nth 1 r []))%nat \/ (length (nth 0 r []) < length (nth 1 r []))%nat.
Proof. exact IngestShapes.confirm_series_panics_iff. Qed.
Print Assumptions confirm_series_panics_iff.

(* ... and a table -- the hypothesis of blocks_good -- reaches neither: ProcessRequest appends it as it is, ConfirmSeries
   reads one key per row.  So "submitted requests are tables" (parser_output_wf, C03/C05/C06/C16 at column level) also
   discharges the no-panic hypothesis of C01's liveness theorems. *)
Theorem tables_reach_no_panic : forall k r, wf_reqb k r = true ->
  eff k r = Some r /\ (k = KSeries -> confirm_keys r = Some (rids_of r)) /\ opt_some (eff k r) = true.
Proof.
  intros k r H. destruct (IngestShapes.tables_reach_no_panic k r H) as [A B]. split; [assumption|]. split; [assumption|].
  exact (wf_requests_are_live k r H).
Qed.
Print Assumptions tables_reach_no_panic.

(* ---- the parsers' side: "submitted requests are tables" is discharged for the pushes the routes produce ------------------

   model/IngestBridge.v runs the REGENERATED append programs of the batching handlers (onSpan, onEntries: the handler_prog /
   entries_prog of C05's model/IngestPipe.v; onProfile) at cell level: every appended element carries the identity of the
   submitted row it was computed from (a call of onSpan; a (call, attribute index); position i of the parallel slices of one
   call of onEntries; an announced series; a call of onProfile), slice fields become INSERT columns through kind_fields (the
   field ProcessRequest reads per column, in serialize()/toIFace() order: regenerated from writer/service/impl and compared
   on every run), and what the parser goroutine sends becomes the item list of a push.

   Every request the parser goroutine of ANY route sends, for every stream of decoder events (any id widths, keys, values,
   sizes, flushes; decoder errors and panics anywhere), is the table of its rows -- the decoders keeping their side of
   onEntries' contract (the four slices of one call have one length; C05: entries_call_allow).  This is wf_reqb, the
   hypothesis of blocks_good / ack_sound. *)
Theorem parser_requests_are_tables : forall x, parsed_ok x = true -> forallb item_wf (items_of_model x) = true.
Proof. exact (items_of_wf _ _ _ _ _ _ bridge_model_ok). Qed.
Print Assumptions parser_requests_are_tables.

(* END TO END: for every configuration and every interleaving in which every arriving push is what the parser goroutine of
   some route sends for some stream of decoder events (act_parsed: no hypothesis on the requests), every block handed to
   ClickHouse is the table of the rows of exactly its waiters (blocks_good) and the column-wise concatenation of exactly
   their appends, released with that block's outcome (block_carries_its_waiters). *)
Theorem parsed_pushes_give_good_blocks : forall cfg n tr g es,
  Forall (act_parsed on_span_cols_model spans_fields_model attrs_fields_model on_entries_cols_model spl_fields_model tsd_fields_model) tr ->
  grun (ginit cfg n) tr = Some (g, es) ->
  run_mon (smon_step MTable) (smon_init (length cfg)) es <> None /\
  run_mon (smon_step MClean) (smon_init (length cfg)) es <> None.
Proof. exact (parsed_pushes_good _ _ _ _ _ _ bridge_model_ok). Qed.
Print Assumptions parsed_pushes_give_good_blocks.

(* ... for ANY append programs that pass the check the regenerated ones are put through on every run (bridge_ok: every
   slice field of the request structs appended exactly once per row, flush resets the batch, every field ProcessRequest
   reads exists). *)
Theorem checked_parsers_give_good_blocks : forall h sf af p lf tf, bridge_ok h sf af p lf tf = true ->
  forall cfg n tr g es, Forall (act_parsed h sf af p lf tf) tr -> grun (ginit cfg n) tr = Some (g, es) ->
  run_mon (smon_step MTable) (smon_init (length cfg)) es <> None /\
  run_mon (smon_step MClean) (smon_init (length cfg)) es <> None.
Proof. exact parsed_pushes_good. Qed.
Print Assumptions checked_parsers_give_good_blocks.

(* The cell-level runs refine C05's count-level runs: with the row identities erased they ARE the runs whose batches C05's
   theorems (batches_are_rectangular, log_batches_are_rectangular) are about and C05's harness compares with the real
   onSpan / onEntries; the chunks of a push are exactly its sent batches. *)
Theorem cell_level_refines_count_level :
  (forall h sf af evs b, sent_batches h sf af (abs_cb b) evs = map abs_cb (sent_cbatches h sf af b evs)) /\
  (forall p sf tf evs b, sent_lbatches p sf tf (abs_cl b) evs = map abs_cl (sent_clbatches p sf tf b evs)) /\
  (forall h sf af w evs b, filter is_chunk (span_items h sf af w b evs) = map (span_chunk w) (sent_cbatches h sf af b evs)) /\
  (forall p sf tf w evs b, filter is_chunk (logs_items p sf tf w b evs) = map (logs_chunk w) (sent_clbatches p sf tf b evs)).
Proof.
  split; [exact sent_batches_abs|]. split; [exact sent_lbatches_abs|]. split; [exact span_items_chunks|exact logs_items_chunks].
Qed.
Print Assumptions cell_level_refines_count_level.

(* The rows of a span push are drawn from a counter no flush resets: in every batch the parser sends, all slice fields of
   TempoSamples hold the same rows, all of TempoTag the same rows, and these rows are pairwise different (so the chunks of
   one push never share a row -- what fresh_run asks of a push). *)
Theorem span_batches_hold_distinct_whole_rows : forall h sf af cs ca, handler_ok h sf af cs ca = true ->
  forall evs first, Forall (cb_inv sf af) (sent_cbatches h sf af (cbatch0 sf af first) evs).
Proof. intros h sf af cs ca H evs first. apply (sent_cbatches_inv h sf af cs ca H). apply cbatch0_inv. Qed.
Print Assumptions span_batches_hold_distinct_whole_rows.

(* ... over the WHOLE push: the rows of all sub-requests of all chunks of one span push (push_rids: chunk by chunk, tag rows then
   span rows) are pairwise different and not below the push's first identity -- the batches of a push occupy consecutive,
   disjoint ranges of a counter no flush resets.  This is what fresh_run asks of one push (each submission holds an id once,
   no id in two sub-requests of the push). *)
Theorem span_push_rows_are_distinct : forall h sf af, handler_ok h sf af (kind_fields KSpans) (kind_fields KTags) = true ->
  forall w first evs,
    NoDup (push_rids (span_items h sf af w (cbatch0 sf af first) evs)) /\
    forall x, In x (push_rids (span_items h sf af w (cbatch0 sf af first) evs)) -> (first <= x)%N.
Proof. intros h sf af H w first evs. apply (span_push_rows_distinct h sf af H); [apply cbatch0_inv|apply cb_rng0]. Qed.
Print Assumptions span_push_rows_are_distinct.

Theorem logs_push_rows_are_distinct : forall p sf tf, entries_ok p sf tf (kind_fields KSamples) (kind_fields KSeries) = true ->
  fields_cover sf KMetrics = true ->
  forall w first evs, samples_kind_ok (w_samples_kind w) = true -> events_consistent evs = true ->
    NoDup (push_rids (logs_items p sf tf w (clbatch0 sf tf first) evs)) /\
    forall x, In x (push_rids (logs_items p sf tf w (clbatch0 sf tf first) evs)) -> (first <= x)%N.
Proof.
  intros p sf tf H Hm w first evs Hk Hc. apply (logs_push_rows_distinct p sf tf H Hm w evs Hk Hc); [apply clbatch0_inv|apply cl_rng0].
Qed.
Print Assumptions logs_push_rows_are_distinct.

(* Where the freshness hypothesis of blocks_have_distinct_rows comes from: if the rows the pushes of a trace submit are named
   pairwise differently (trace_rids: the row ids of all sub-requests of all pushes, in order of arrival; no direct Request
   calls) the trace is fresh for the owner function read off it (own_of: the push and position that holds the row) ... *)
Theorem distinctly_named_rows_make_a_fresh_run : forall cfg n tr, forallb no_env tr = true -> NoDup (trace_rids tr) ->
  fresh_run (own_of tr) (ginit cfg n) tr = true.
Proof. exact fresh_from_distinct. Qed.
Print Assumptions distinctly_named_rows_make_a_fresh_run.

(* ... so for pushes made by the parsers -- whose rows are pairwise different WITHIN a push by construction
   (span_push_rows_are_distinct / logs_push_rows_are_distinct: what a push contributes to trace_rids is the beginning of its
   push_rids, IngestBridgeRows.items_owners_prefix) -- "no row twice in a block" holds END TO END as soon as different pushes
   draw their identities apart: every block handed to ClickHouse is the table of its rows and no row id occurs twice in it.
   Example parsed_demo_is_fresh: the two pushes of parsed_demo draw from 100 and from 200. *)
Theorem parsed_pushes_give_blocks_of_distinct_rows : forall cfg n tr g es,
  Forall (act_parsed on_span_cols_model spans_fields_model attrs_fields_model on_entries_cols_model spl_fields_model tsd_fields_model) tr ->
  forallb no_env tr = true -> NoDup (trace_rids tr) -> grun (ginit cfg n) tr = Some (g, es) ->
  forall s k b, In (ESend s k b) es -> good_block_b k b = true.
Proof.
  intros cfg n tr g es H Ne Nd R.
  exact (distinct_names_give_distinct_rows cfg n tr g es (act_parsed_wf _ _ _ _ _ _ bridge_model_ok tr H) Ne Nd R).
Qed.
Print Assumptions parsed_pushes_give_blocks_of_distinct_rows.

(* The contract of onEntries cannot be dropped (one message more than timestamps: the samples request is not a table), and
   a profile request of two rows would not be a table either (the five array columns get ONE element per request): the
   pprof decoders call onProfile once (C05: profile_requests_carry_one_row). *)
Theorem parser_tables_need_the_decoder_contract_refuted :
  ~ (forall x, forallb item_wf (items_of_model x) = true) /\ wf_reqb KProfile (req_of KProfile (prof_fcols 0 2)) = false.
Proof.
  split; [|exact two_profiles_are_not_a_table]. intros H.
  pose proof (H (PLogs demo_wiring 0 [LcEntries unequal_event])) as X. rewrite unequal_slices_tear_the_request in X. discriminate.
Qed.
Print Assumptions parser_tables_need_the_decoder_contract_refuted.

(* ---- FixedString widths (trace_id FixedString(16), span_id FixedString(8)): outside the cell model, process death ----------

   ch-go's ColFixedStr.Append panics when len(b) differs from the size the acquirer set; nothing on the doPush goroutine
   recovers.  Over the byte-level rows of C06's model/Spans.v: ProcessRequest of the span service dies exactly when the
   request holds a trace id that is not 16 bytes or a span id that is not 8 bytes wide (tags: the same) ... *)
Theorem span_request_panics_iff : forall tbuf sbuf rows,
  IngestWidths.process_span_ids tbuf sbuf rows = None <->
  exists r, In r rows /\ (String.length (Spans.t_trace r) <> 16%nat \/ String.length (Spans.t_span r) <> 8%nat).
Proof. exact IngestWidthsProofs.span_request_panics_iff. Qed.
Print Assumptions span_request_panics_iff.

Theorem tag_request_panics_iff : forall tbuf sbuf rows,
  IngestWidths.process_tag_ids tbuf sbuf rows = None <->
  exists r, In r rows /\ (String.length (Spans.a_trace r) <> 16%nat \/ String.length (Spans.a_span r) <> 8%nat).
Proof. exact IngestWidthsProofs.tag_request_panics_iff. Qed.
Print Assumptions tag_request_panics_iff.

(* ... and NO request the parsers build reaches it: for every sequence of onSpan calls with ids of ANY widths (C06's on_span =
   builder.go onSpan at byte level: a call with another width is refused with 400 before any append), every chunk the parser
   can send -- any part of the rows accepted before the first refused call -- passes both FixedString columns of both
   services, whatever the buffers hold.  onSpan is the only place under writer/ that appends to a trace-id / span-id slice
   (regenerated on every run and compared with id_producers_model); the witness of the refutation side is
   IngestWidthsProofs.short_id_kills_the_process: a 15-byte id, which onSpan refuses. *)
Theorem parser_span_requests_never_reach_the_width_panic : forall calls chunk tb sb tb' sb',
  incl chunk (IngestWidths.accepted calls) ->
  IngestWidths.process_span_ids tb sb (map fst chunk) <> None /\
  IngestWidths.process_tag_ids tb' sb' (concat (map snd chunk)) <> None.
Proof. exact IngestWidthsProofs.parser_span_requests_never_reach_the_width_panic. Qed.
Print Assumptions parser_span_requests_never_reach_the_width_panic.

(* In terms of the REGENERATED onSpan (run at cell level by model/IngestBridge.v): with the width check as its first statement
   (hp_width_check, regenerated), a call appends to the batch only when its ids are 16 and 8 bytes wide. *)
Theorem regenerated_on_span_appends_only_fixed_widths : forall h sf af b s b' sent,
  hp_width_check h = true -> on_span_cells h sf af b s = CStOk b' sent -> se_tid s = 16%N /\ se_sid s = 8%N.
Proof. exact IngestWidthsProofs.regenerated_on_span_appends_only_fixed_widths. Qed.
Print Assumptions regenerated_on_span_appends_only_fixed_widths.

(* The loops of the ProcessRequest closures (round 5, after the seeded change C02-e).  model/Ingest.v `eff` gives every column
   one value per element of a request field; the closures do that with one loop per column (the time-series closure appends date
   and labels in ONE loop over MDate).  translate/gen_c02_columns regenerates, per closure, every range loop whose body appends:
   the field it ranges over, the columns it appends to, and how many statements of its body can make an iteration append to
   fewer columns than another one (continue / break / return / if / switch / nested loop / panic); plus the appends guarded by
   anything else and the exits between the first and the last append.  For EVERY table passing loops_ok (the regenerated one must,
   on every run) and EVERY request -- any field lengths --: no such statement exists and column c receives exactly as many values
   as the field `count_fields` names for it has elements (= what eff appends). *)
Theorem checked_loops_append_like_eff :
  forall gen lp s loops guarded k cs (len : String.string -> nat),
    loops_ok gen lp = true ->
    In (s, loops, guarded) lp ->
    service_kind s = Some k ->
    find (fun sc : String.string * list (String.string * String.string) => String.eqb (fst sc) s) gen = Some (s, cs) ->
    guarded = 0%Z
    /\ (forall l : loop_t, In l loops -> snd l = 0%Z)
    /\ appended_counts cs loops len = map len (count_fields k).
Proof. exact IngestLoops.checked_loops_append_like_eff. Qed.
Print Assumptions checked_loops_append_like_eff.

(* ... hence a request that is a table (all the fields n elements long) makes every column of the open batch grow by n. *)
Theorem checked_loops_keep_the_batch_rectangular :
  forall gen lp s loops guarded k cs (len : String.string -> nat) n,
    loops_ok gen lp = true -> In (s, loops, guarded) lp -> service_kind s = Some k ->
    find (fun sc : String.string * list (String.string * String.string) => String.eqb (fst sc) s) gen = Some (s, cs) ->
    (forall f, In f (count_fields k) -> len f = n) ->
    forall c, In c (appended_counts cs loops len) -> c = n.
Proof. exact IngestLoops.checked_loops_keep_the_batch_rectangular. Qed.
Print Assumptions checked_loops_keep_the_batch_rectangular.

(* The loop table of seeded C02-e (an `if` + `continue` in the loop appending date and labels) is rejected; the unchanged one passes. *)
Theorem skipping_loop_is_rejected :
  loops_ok (fst (IngestLoops.six_tables series_loops_c02e)) (snd (IngestLoops.six_tables series_loops_c02e)) = false
  /\ loops_ok (fst (IngestLoops.six_tables series_loops_model)) (snd (IngestLoops.six_tables series_loops_model)) = true.
Proof. exact (conj IngestLoops.c02e_loops_are_rejected IngestLoops.unchanged_series_loops_pass). Qed.
Print Assumptions skipping_loop_is_rejected.

(* Round 6 (seeded C02-f).  swapBuffers takes the waiting promises AND the column set in one hold of the service mutex; the variant of the
   model in which that is two critical sections -- the waiters taken first, the columns swapped after the next set was acquired with the
   mutex released (model/IngestSwap2.v: ATake / AInstall, every other step unchanged) -- violates the property: a run with three
   well-formed one-row requests in which a request served in the window has its row in a block that is not the table of that block's
   waiters (MTable, MClean reject) and is acknowledged although no accepted block holds its row (C01's monitor rejects). *)
Theorem two_step_swap_refuted :
  exists tr x es,
    grun2 (ginit2 window_demo_cfg 1) tr = Some (x, es) /\
    forallb act2_wf tr = true /\
    run_mon (amon_step true) (amon_init 1) es = None /\
    run_mon (smon_step MTable) (smon_init 1) es = None /\
    run_mon (smon_step MClean) (smon_init 1) es = None.
Proof. exact IngestSwap2Proofs.two_step_swap_refuted. Qed.
Print Assumptions two_step_swap_refuted.

(* The window is the ONLY difference: without a step between them the two halves are exactly the step SSwap of the model (a take that
   finds nobody waiting is the swap that returns nil) ... *)
Theorem take_then_install_is_the_swap : forall x s,
  in_window (g_taken x) s = false ->
  match gstep (g_base x) (GSvc s SSwap) with
  | Some (g', []) => gstep2 x (ATake s) = Some ({| g_base := g'; g_taken := g_taken x |}, [])
  | Some (g', es) => grun2 x [ATake s; AInstall s] = Some ({| g_base := g'; g_taken := g_taken x |}, es)
  | None => gstep2 x (ATake s) = None
  end.
Proof. exact IngestSwap2Proofs.take_then_install_is_the_swap. Qed.
Print Assumptions take_then_install_is_the_swap.

(* ... so every run of the variant, of any length and configuration, in which each take is followed at once by its install is a run
   of the unchanged model with the same events, and satisfies both monitors when its requests are tables.  What one critical section
   enforces is exactly `windowless`; that the source has this one region is checked on every run (regions_ok, swap_fresh) and the real
   service is driven into the window by the harness operation mreq. *)
Theorem windowless_two_step_runs_are_sound : forall cfg n tr l x es,
  windowless (ginit2 cfg n) tr = Some l ->
  forallb act_wf l = true ->
  grun2 (ginit2 cfg n) tr = Some (x, es) ->
  run_mon (amon_step true) (amon_init (length cfg)) es <> None /\
  run_mon (smon_step MTable) (smon_init (length cfg)) es <> None.
Proof. exact IngestSwap2Proofs.windowless_two_step_runs_are_sound. Qed.
Print Assumptions windowless_two_step_runs_are_sound.

(* Round 8 (seeded C02-h).  Request appends the rows (processRequest) before it looks at any threshold; the variant of the model with an
   overload guard BEHIND the appends -- more than BANDWITH_LIMIT = 50 MiB accounted: answer at once with an error, do not register the
   promise (model/IngestGuard.v guard_step; every other step unchanged) -- violates the property: ClickHouse stalls on the block of
   request 1 while three well-formed one-row requests accounted with 20 MiB each arrive; the third is refused, its row is sent with the
   block of the other two (MTable, MClean reject), while the same actions on the unchanged model are accepted. *)
From Qryn Require model.IngestGuard proofs.IngestGuardProofs.
Theorem overload_guard_refuted :
  exists tr x es,
    IngestGuard.run_with (IngestGuard.guard_step IngestGuard.bandwidth_limit) (svc_init KSamples 0 0) [] tr = Some (x, es) /\
    forallb (IngestGuard.sact_wf KSamples) tr = true /\
    run_mon (smon_step MTable) (smon_init 1) es = None /\
    run_mon (smon_step MClean) (smon_init 1) es = None /\
    (exists y es', IngestGuard.run_with sstep (svc_init KSamples 0 0) [] tr = Some (y, es') /\
                   (exists m, run_mon (smon_step MTable) (smon_init 1) es' = Some m)).
Proof. exact IngestGuardProofs.overload_guard_refuted. Qed.
Print Assumptions overload_guard_refuted.

(* The accounted size is the ONLY thing that tells the variant from the model: a run in which it never exceeds the limit is the same run,
   event for event -- so only inputs that pile up more than 50 MiB between two flushes can expose such a guard (the harness scenario
   `overload` builds them: 4..7 requests accounted with 13..30 MiB each while the previous Do is blocked or no flush comes). *)
Theorem guard_runs_below_the_limit_are_model_runs : forall lim tr s st,
  IngestGuardProofs.sizes_below lim s tr ->
  IngestGuard.run_with (IngestGuard.guard_step lim) s st tr = IngestGuard.run_with sstep s st tr.
Proof. exact IngestGuardProofs.guard_runs_below_the_limit_are_model_runs. Qed.
Print Assumptions guard_runs_below_the_limit_are_model_runs.

(* The same guard in FRONT of processRequest refuses without touching the batch, in every state and for every request. *)
Theorem early_guard_refusal_leaves_no_cell : forall lim s p r sz s' vs,
  IngestGuard.early_guard_step lim s (SRequest p r sz) = Some (s', vs) -> imm_of vs = Some false -> running s = true ->
  cols s' = cols s /\ results s' = results s /\ size s' = size s.
Proof. exact IngestGuardProofs.early_guard_refusal_leaves_no_cell. Qed.
Print Assumptions early_guard_refusal_leaves_no_cell.
