(* Property C02 -- every INSERT block is rectangular and made only of whole submitted rows.
   Only statements; proofs by reference.  Model: model/Ingest.v (per-column buffers of one insert worker, the six
   ProcessRequest closures), model/PushHandler.v (all workers and handlers); monitor: model/IngestSpec.v smon_step. *)
From Coq Require Import List NArith ZArith Bool.
From Qryn Require Import model.Ingest model.PushHandler model.IngestSpec proofs.IngestBase proofs.IngestAck
  proofs.IngestSpecProofs.
Import ListNotations.

(* If every submitted request is the table of its rows, then for every configuration and every interleaving each
   block handed to ClickHouse is the table (ncols columns) of the rows of exactly the requests accepted by that
   worker since its previous send, in acceptance order: every column has one value per row, the i-th values of
   all columns come from the same submitted row, rows of one request are contiguous, no other request's row is
   in the block and none of the waiters' rows is missing (table_means_whole_rows spells the table out). *)
Theorem blocks_good : forall cfg n tr g es,
  forallb act_wf tr = true ->
  grun (ginit cfg n) tr = Some (g, es) ->
  run_mon (smon_step MTable) (smon_init (length cfg)) es <> None.
Proof. intros cfg n tr g es H. apply spec_sound_gen. now apply act_q_table. Qed.
Print Assumptions blocks_good.

Theorem table_means_whole_rows : forall n rids,
  (forall c, In c (table_of n rids) -> length c = length rids) /\
  (forall j i, (j < n)%nat -> (i < length rids)%nat ->
     nth i (nth j (table_of n rids) []) (0%N, 0%nat) = (nth i rids 0%N, j)).
Proof. exact table_of_shape. Qed.
Print Assumptions table_means_whole_rows.

(* For requests that are not tables but at least append nothing when their key column is empty: the block is the
   column-wise concatenation of what ProcessRequest appends for exactly its waiters, in order (nobody else's
   cells, none of the waiters' cells missing), and the waiters are released with that block's outcome. *)
Theorem block_carries_its_waiters : forall cfg n tr g es,
  forallb (act_ok true) tr = true ->
  grun (ginit cfg n) tr = Some (g, es) ->
  run_mon (smon_step MClean) (smon_init (length cfg)) es <> None.
Proof. intros cfg n tr g es H. apply spec_sound_gen. now apply act_q_clean. Qed.
Print Assumptions block_carries_its_waiters.

(* The blast radius of one malformed request (what defects of the parsers turn into): a request whose key column
   is empty but whose other columns are not is acknowledged at once, its cells stay in the open batch, and the
   next, well-formed request of ANOTHER client is sent in a block that is not rectangular. *)
Theorem bad_request_poisons_batch :
  let bad : req := [[(7%N, 0%nat)]; []; [(7%N, 2%nat)]; [(7%N, 3%nat)]; [(7%N, 4%nat)]] in
  let good : req := table_of 5 [8%N] in
  let tr := [GEnvReq 0 KSamples 1%N bad 10%Z; GEnvReq 0 KSamples 2%N good 10%Z;
             GSvc 0 SPlan; GSvc 0 (SDial true); GSvc 0 SSwap; GSvc 0 SSend] in
  wf_reqb KSamples good = true /\
  exists g es b, grun (ginit [(KSamples, 0%nat, 0%Z)] 1%N) tr = Some (g, es) /\
    In (EResolve (PEnv 1%N) KSamples bad true) es /\
    In (ESend 0 KSamples b) es /\ map (@length cell) b = [2; 1; 2; 2; 2]%nat.
Proof.
  cbv zeta. split; [vm_compute; reflexivity|].
  eexists. eexists. eexists. split; [vm_compute; reflexivity|].
  split; [cbn; tauto|]. split; [cbn; repeat (first [left; reflexivity|right])|reflexivity].
Qed.
Print Assumptions bad_request_poisons_batch.

Theorem blocks_good_any_request_refuted : ~ (forall cfg n tr g es,
  grun (ginit cfg n) tr = Some (g, es) ->
  run_mon (smon_step MClean) (smon_init (length cfg)) es <> None).
Proof.
  intros H.
  specialize (H [(KSamples, 0%nat, 0%Z)] 1%N
     [GEnvReq 0 KSamples 1%N [[(7%N, 0%nat)]; []; [(7%N, 2%nat)]; [(7%N, 3%nat)]; [(7%N, 4%nat)]] 10%Z;
      GEnvReq 0 KSamples 2%N (table_of 5 [8%N]) 10%Z; GSvc 0 SPlan; GSvc 0 (SDial true); GSvc 0 SSwap; GSvc 0 SSend]).
  vm_compute in H. eapply H; reflexivity.
Qed.
Print Assumptions blocks_good_any_request_refuted.
