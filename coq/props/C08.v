(* C08 - the SQL generated for LogQL metric queries computes the defined aggregates.
   Statements only; proofs in proofs/LogqlMetricProofs.v. Models: model/LogqlPlan.v (the planners, tied to
   the Go code byte for byte), model/LogqlMetricSem.v (meaning of the emitted SQL shapes, reference). *)
From Coq Require Import List ZArith NArith QArith Qcanon String Bool.
From Qryn Require Import model.Sql model.Logql model.LogqlPlan model.LogqlMetricSem proofs.LogqlMetricProofs.
From Qryn Require Import model.LogqlMetricPost proofs.LogqlMetricPostProofs.
From Qryn Require Import model.SqlEval model.LogqlSem model.LogqlMetricE2E proofs.LogqlMetricE2EProofs.
From Qryn Require Import model.LogqlMetricFloat proofs.LogqlMetricFloatProofs.
From Qryn Require Import model.SqlEvalAgg model.LogqlMetricExec proofs.LogqlMetricExecProofs.
From Qryn Require Import proofs.LogqlMetricSlotsProofs proofs.LogqlMetricTopkProofs.
Import ListNotations.
Open Scope Z_scope.

(* the value fragment of every log range function (rate, count_over_time, bytes_rate, bytes_over_time) is the
   defined function of the lines of one (series, window), for every positive range *)
Theorem lra_value_correct : forall f d v (g : list mrow),
  0 < d -> lra_val_of f d = Some v ->
  range_fn f d (map entry_of g) = Some (eval_lra v (map (fun r => set_ts (bucket_sql_z d (r_ts r)) r) g)).
Proof. exact lra_value_group. Qed.
Print Assumptions lra_value_correct.

(* bucket / GROUP BY shape: the LRA select yields exactly one row per (label set, window) holding the range
   function of the entries in it, for every row list in which a fingerprint stands for one label set, every positive range *)
Theorem range_agg_correct : forall f d v rows,
  consistent rows -> nonneg rows -> 0 < d -> lra_val_of f d = Some v ->
  ref_range f d (map entry_of rows) = Some (map strip (sem_lra v d rows)).
Proof. exact lra_stage. Qed.
Print Assumptions range_agg_correct.

(* THE MAIN STATEMENT. For every range-aggregation, vector-aggregation or quantile script that is not answered from
   the roll-up table, every context and every row list leaving the log pipeline (a fingerprint standing for one
   label set, non-negative timestamps), the rows the planned SQL computes - LRA / unwrap / by-without / aggregate /
   comparison / step-fix selects, read by LogqlMetricSem.sem - are, series by series and window by window, the
   reference metric_ref: entries bucketed by (ts div range)*range, the named range function, the vector aggregation
   over the label map filtered by by/without, the comparison threshold, the step re-bucketing. Both sides are None
   together (a function the planners have no fragment for). Oracles: fp (cityHash64 of a label map, collision-free),
   to_float, quantile, varPop, stddevPop. *)
Theorem logql_metric_correct :
  forall (fp : lmap -> N) (to_float : string -> Qc) (quantile_o : string -> list Qc -> Qc) (varpop stddevpop : list Qc -> Qc),
  (forall a b, fp a = fp b -> a = b) ->
  forall c base s fin p,
  analyze_m15 s = false -> plan_metric s fin = Some p -> script_ok s ->
  0 < c_step_ns c -> consistent base -> nonneg base ->
  option_map (map strip) (sem fp to_float quantile_o varpop stddevpop p c base) =
  metric_ref to_float quantile_o varpop stddevpop s c (map entry_of base).
Proof. exact metric_correct. Qed.
Print Assumptions logql_metric_correct.

(* the same statement for the scripts that ARE answered from the roll-up table (range and vector aggregations over rate /
   count_over_time): base = the lines of the streams selected by the matchers and the label filters *)
Theorem logql_metric_correct_shortcut :
  forall (fp : lmap -> N) (to_float : string -> Qc) (quantile_o : string -> list Qc -> Qc) (varpop stddevpop : list Qc -> Qc),
  (forall a b, fp a = fp b -> a = b) ->
  forall c base s fin p,
  analyze_m15 s = true -> plan_metric s fin = Some p ->
  (match s with SLra _ | SAgg _ => True | _ => False end) ->
  0 < c_step_ns c -> consistent base -> nonneg base ->
  option_map (map strip) (sem fp to_float quantile_o varpop stddevpop p c base) =
  metric_ref to_float quantile_o varpop stddevpop s c (map entry_of base).
Proof. exact shortcut_metric_correct. Qed.
Print Assumptions logql_metric_correct_shortcut.

(* the roll-up path: over the 15-second roll-up of any row list the shortcut select yields the rows of the LRA select
   over the rows themselves, for every range made of whole slots ... *)
Theorem shortcut_value_correct : forall v k rows, nonneg rows -> 0 < k ->
  sem_m15 v (15000000000 * k) (m15_rows rows) = sem_lra (m15_as_lra v) (15000000000 * k) rows.
Proof. exact LogqlMetricProofs.shortcut_value_correct. Qed.
Print Assumptions shortcut_value_correct.

(* ... and the analysis accepts only such ranges *)
Theorem shortcut_only_whole_slots : forall s, analyze_m15 s = true ->
  match first_lra s with Some l => exists k, 0 < k /\ lra_dur_ns l = 15000000000 * k | None => False end.
Proof. exact analyze_m15_whole_slots. Qed.
Print Assumptions shortcut_only_whole_slots.

(* ... and EXACTLY such ranges can be answered from the roll-up table: the slot of every line falls into the window of the line iff
   the range is a whole number of 15-second slots (for every other range d the line at ts = d, first instant of the second window,
   sits in a slot that starts in the first window). A test of the range in whole seconds - seed C08-e - lets 15.5 s through
   (Example whole_seconds_test_is_not_enough in proofs/LogqlMetricSlotsProofs.v). *)
Theorem shortcut_exact_iff_whole_slots : forall d, 0 < d ->
  (forall ts, 0 <= ts -> bucket_sql_z d (floor15 ts) = bucket_sql_z d ts) <-> d mod 15000000000 = 0.
Proof. exact shortcut_bucket_iff_whole_slots. Qed.
Print Assumptions shortcut_exact_iff_whole_slots.

(* the 15-second shortcut is taken only for queries whose every stage can be answered from the roll-up table *)
Theorem every_stage_takes_effect : forall s, analyze_m15 s = true -> m15_representable s = true.
Proof. exact analyze_m15_sound. Qed.
Print Assumptions every_stage_takes_effect.

(* ... and the label filters of such a query are all applied to the fingerprint selection of the plan *)
Theorem shortcut_label_filters_applied : forall s,
  analyze_m15 s = true ->
  match first_lra s with
  | Some l => fp_label_filters (plan_ts (sel_matchers (lra_sel l)) (sel_pipeline (lra_sel l)) (simple_ops (sel_pipeline (lra_sel l))))
              = pipeline_label_filters (sel_pipeline (lra_sel l))
  | None => False
  end.
Proof. exact shortcut_keeps_label_filters. Qed.
Print Assumptions shortcut_label_filters_applied.

(* no entry outside the window, widened at most to whole range buckets, contributes *)
Theorem window_widening_bounded : forall c d ts, 0 < d -> c_from_ns c <= ts < c_to_ns c ->
  bucket d (c_from_ns c) <= bucket d ts /\ bucket d ts <= ts < bucket d ts + d /\ bucket d ts + d <= bucket d (c_to_ns c) + d.
Proof. exact window_bounded. Qed.
Print Assumptions window_widening_bounded.

Theorem shortcut_window_widening_bounded : forall c slot ts,
  0 <= c_from_ns c -> 0 <= c_to_ns c -> slot mod 15000000000 = 0 ->
  m15_in_window c slot = true -> slot <= ts < slot + 15000000000 ->
  floor15 (c_from_ns c) <= ts < floor15 (c_to_ns c) /\ floor15 (c_to_ns c) <= c_to_ns c.
Proof. exact shortcut_window_bounded. Qed.
Print Assumptions shortcut_window_widening_bounded.

(* topk / bottomk over such a script: the planned SQL keeps, per timestamp of the inner instant vector (itself the
   reference of the inner script), the first k rows in the order of TopKPlanner's arraySort, then applies the
   comparison and the step re-bucketing ... *)
Theorem topk_correct :
  forall (fp : lmap -> N) (to_float : string -> Qc) (quantile_o : string -> list Qc -> Qc) (varpop stddevpop : list Qc -> Qc),
  (forall a b, fp a = fp b -> a = b) ->
  forall c base t fin p,
  analyze_m15 (STopK t) = false -> plan_metric (STopK t) fin = Some p -> script_ok (tk_inner t) ->
  0 < c_step_ns c -> consistent base -> nonneg base ->
  match sem fp to_float quantile_o varpop stddevpop p c base with
  | Some out =>
    exists inner kept, inner_ref to_float quantile_o varpop stddevpop (tk_inner t) (map entry_of base) = Some (map strip inner) /\
                       topk_spec (tk_len t) (tk_top t) inner kept /\
                       map strip out = ref_step (c_step_ns c) (get_duration (STopK t)) (ref_cmp (tk_cmp t) (map strip kept))
  | None => inner_ref to_float quantile_o varpop stddevpop (tk_inner t) (map entry_of base) = None
  end.
Proof. exact LogqlMetricProofs.topk_correct. Qed.
Print Assumptions topk_correct.

(* TopKPlanner sorts tuples (value, fingerprint, labels) whose third component is a Map; how ClickHouse orders Map values inside a
   tuple sort is not documented. The comparison never gets there: the rows of one timestamp have pairwise distinct fingerprints (they
   come from a select grouped by fingerprint and timestamp), and on such a group two distinct rows never tie on (value, fingerprint) *)
Theorem topk_order_never_compares_labels : forall top (g : list mrow),
  (forall a b, List.In a g -> List.In b g -> r_fp a = r_fp b -> a = b) ->
  forall a b, List.In a g -> List.In b g -> a <> b -> tk_before top a b = true -> tk_before top b a = false.
Proof. exact tk_order_strict. Qed.
Print Assumptions topk_order_never_compares_labels.

(* the kept sets the check enumerates to judge topk / bottomk under a step longer than the range (model/LogqlMetricExec.v) are
   top-(bottom-)k sets of the rows of one timestamp: min(k, n) of them, and no row left out beats a kept one *)
Theorem topk_enumerated_sets_are_topk_sets : forall k top (I K : list vrow), List.In K (topk_sets k top I) ->
  exists D, Permutation.Permutation (K ++ D) I /\ Z.of_nat (List.length K) = Z.min (Z.max k 0) (Z.of_nat (List.length I)) /\
            forall x d, List.In x K -> List.In d D ->
              if top then Qle_bool (this (v_val d)) (this (v_val x)) = true else Qle_bool (this (v_val x)) (this (v_val d)) = true.
Proof. exact topk_sets_sound. Qed.
Print Assumptions topk_enumerated_sets_are_topk_sets.

(* the same for topk / bottomk over a script answered from the roll-up table (the plan always exists there) *)
Theorem topk_correct_shortcut :
  forall (fp : lmap -> N) (to_float : string -> Qc) (quantile_o : string -> list Qc -> Qc) (varpop stddevpop : list Qc -> Qc),
  (forall a b, fp a = fp b -> a = b) ->
  forall c base t fin p,
  analyze_m15 (STopK t) = true -> plan_metric (STopK t) fin = Some p ->
  0 < c_step_ns c -> consistent base -> nonneg base ->
  exists out inner kept,
    sem fp to_float quantile_o varpop stddevpop p c base = Some out /\
    inner_ref to_float quantile_o varpop stddevpop (tk_inner t) (map entry_of base) = Some (map strip inner) /\
    topk_spec (tk_len t) (tk_top t) inner kept /\
    map strip out = ref_step (c_step_ns c) (get_duration (STopK t)) (ref_cmp (tk_cmp t) (map strip kept)).
Proof. exact topk_shortcut_correct. Qed.
Print Assumptions topk_correct_shortcut.

(* ... and those first k rows are a top-k (bottom-k) set: k of them or all, rows of the group, and no row left out has a
   larger (smaller) value than a row kept *)
Theorem topk_selection : forall k top (g : list mrow),
  let kept := firstn k (sort_by (tk_before top) g) in
  let dropped := skipn k (sort_by (tk_before top) g) in
  List.length kept = Nat.min k (List.length g) /\
  (forall r, List.In r kept -> List.In r g) /\
  (forall r, List.In r g -> List.In r kept \/ List.In r dropped) /\
  (forall x y, List.In x kept -> List.In y dropped -> if top then (r_val y <= r_val x)%Qc else (r_val x <= r_val y)%Qc).
Proof. exact topk_group_correct. Qed.
Print Assumptions topk_selection.

(* the Go post-processors: the window handed to the SQL is made of whole range windows and covers [from, to] ... *)
Theorem fix_window_whole_ranges : forall from to d, 0 <= from -> 0 <= to -> 0 < d ->
  fix_from from d mod d = 0 /\ fix_from from d <= from < fix_from from d + d /\
  fix_to to d mod d = 0 /\ to < fix_to to d <= to + d.
Proof. exact fix_window_aligned. Qed.
Print Assumptions fix_window_whole_ranges.

(* ... every point FixPeriodPlanner reports lies on the step grid starting at `from`, inside the array, and is not zero ... *)
Theorem fix_period_on_grid : forall (V : Type) (is_zero : V -> bool) (zero : V) from to step d (bs : list (list (pentry V))) b (e : pentry V),
  List.In b (fix_period is_zero zero from to step d bs) -> List.In e b ->
  exists i, 0 <= i < Z.of_nat (Z.to_nat (Z.quot (to - from) step + 1)) /\ pe_ts e = from + i * step /\ is_zero (pe_val e) = false.
Proof. exact @fix_period_grid. Qed.
Print Assumptions fix_period_on_grid.

(* ... and ZeroEaterPlanner forwards exactly the non-zero entries, in order, never an empty batch *)
Theorem zero_eater_forwards_nonzero : forall (V : Type) (is_zero : V -> bool) (bs : list (list (pentry V))),
  List.concat (zero_eater is_zero bs) = filter (fun e => negb (is_zero (pe_val e))) (List.concat bs) /\
  forall b, List.In b (zero_eater is_zero bs) -> b <> [].
Proof. exact @zero_eater_spec. Qed.
Print Assumptions zero_eater_forwards_nonzero.

(* output series of a vector aggregation are identified by exactly the grouped label set: one row per (label set,
   timestamp), each label set being the by/without image of an input label set *)
Theorem output_series_are_grouped_label_sets :
  forall (fp : lmap -> N) (varpop stddevpop : list Qc -> Qc), (forall a b, fp a = fp b -> a = b) ->
  forall f g rows, consistent rows ->
  NoDup (map (fun r => (r_labels r, r_ts r)) (sem_agg varpop stddevpop f (maybe_bw fp g rows))) /\
  forall r, List.In r (sem_agg varpop stddevpop f (maybe_bw fp g rows)) ->
            exists h, List.In h rows /\ r_labels r = regroup g (r_labels h) /\ r_ts r = r_ts h.
Proof. intros fp varpop stddevpop Hinj f g rows Hc. eapply agg_series_identity; eassumption. Qed.
Print Assumptions output_series_are_grouped_label_sets.

(* every stage of a planned pipeline takes effect on the regular path too: planSpl wraps the plan into the planner of
   the stage, or - for a label filter before the first parser - plan_ts applies it to the fingerprint selection;
   line_format / label_format pipelines are refused, never planned without the stage *)
Theorem planned_stage_takes_effect : forall st b cur cur',
  (b = true -> is_label_filter st = true) -> plan_stage st b cur = Some cur' ->
  (is_label_filter st = true /\ b = true /\ cur' = cur) \/ wraps st cur cur'.
Proof. exact plan_stage_effect. Qed.
Print Assumptions planned_stage_takes_effect.

Theorem simple_label_filters_applied : forall ms ppl,
  (forall st b, List.In (st, b) (combine ppl (simple_ops ppl)) -> b = true -> is_label_filter st = true) /\
  fp_label_filters (plan_ts ms ppl (simple_ops ppl)) =
  flat_map (fun sb => match fst sb, snd sb with PLabelFilter f, true => [f] | _, _ => [] end) (combine ppl (simple_ops ppl)).
Proof. intros ms ppl. split; [apply simple_ops_label_filters|apply simple_filters_applied]. Qed.
Print Assumptions simple_label_filters_applied.

(* ---------- FixPeriodPlanner, for every row stream and every batching ---------- *)
(* the transcription of FixPeriodPlanner (tied to the Go code by harness metricpost) IS its specification: the stream
   falls into maximal runs of one fingerprint (series); slot i of a series holds the value of the LAST row of the run
   whose range window covers the slot, zero without one; exactly the non-zero slots are reported, series by series *)
Theorem fix_period_equals_spec : forall (V : Type) (is_zero : V -> bool) (zero : V) from step d to (bs : list (list (pentry V))),
  0 <= Z.quot (to - from) step + 1 ->
  fix_period is_zero zero from to step d bs = fix_period_spec is_zero zero from step d to bs.
Proof. exact @fix_period_is_spec. Qed.
Print Assumptions fix_period_equals_spec.

(* how the upstream cuts the stream into batches does not matter *)
Theorem fix_period_batching_irrelevant : forall (V : Type) (is_zero : V -> bool) (zero : V) from step d to (bs bs' : list (list (pentry V))),
  List.concat bs = List.concat bs' ->
  fix_period is_zero zero from to step d bs = fix_period is_zero zero from to step d bs'.
Proof. exact @fix_period_batching. Qed.
Print Assumptions fix_period_batching_irrelevant.

(* every reported point: on the step grid inside the array, not zero, and its value is the value of the last row of
   its series whose range window covers its slot (every step gets the value of its bucket, nothing else) *)
Theorem fix_period_point_is_last_covering_row :
  forall (V : Type) (is_zero : V -> bool) (zero : V) from step d, is_zero zero = true ->
  forall to (bs : list (list (pentry V))) b (e : pentry V),
  0 <= Z.quot (to - from) step + 1 ->
  List.In b (fix_period is_zero zero from to step d bs) -> List.In e b ->
  exists i run r1 x r2,
    0 <= i < Z.quot (to - from) step + 1 /\ pe_ts e = from + i * step /\ is_zero (pe_val e) = false /\
    List.In run (runs (List.concat bs)) /\ run = (r1 ++ x :: r2)%list /\ pe_fp x = pe_fp e /\ pe_val x = pe_val e /\
    covers from step d x i = true /\ (forall y, List.In y r2 -> covers from step d y i = false) /\ List.In x (List.concat bs).
Proof. exact @fix_period_sound. Qed.
Print Assumptions fix_period_point_is_last_covering_row.

(* no non-zero point is lost: the slot of a series whose last covering row is not zero is reported with that value *)
Theorem fix_period_reports_nonzero_slot :
  forall (V : Type) (is_zero : V -> bool) (zero : V) from step d to (bs : list (list (pentry V))) run r1 x r2 i,
  0 <= Z.quot (to - from) step + 1 ->
  List.In run (runs (List.concat bs)) -> run = (r1 ++ x :: r2)%list ->
  0 <= i < Z.quot (to - from) step + 1 -> covers from step d x i = true -> (forall y, List.In y r2 -> covers from step d y i = false) ->
  is_zero (pe_val x) = false ->
  exists b, List.In b (fix_period is_zero zero from to step d bs) /\
            List.In {| pe_ts := from + i * step; pe_fp := pe_fp x; pe_val := pe_val x |} b.
Proof. exact @fix_period_complete. Qed.
Print Assumptions fix_period_reports_nonzero_slot.

(* no row outside the window contributes: a series none of whose rows covers a slot of [from, to] reports nothing *)
Theorem fix_period_ignores_rows_outside :
  forall (V : Type) (is_zero : V -> bool) (zero : V) from step d, is_zero zero = true ->
  forall to (bs : list (list (pentry V))) run,
  0 <= Z.quot (to - from) step + 1 -> List.In run (runs (List.concat bs)) ->
  (forall x i, List.In x run -> 0 <= i < Z.quot (to - from) step + 1 -> covers from step d x i = false) ->
  export_run is_zero zero from step d (Z.quot (to - from) step + 1) run = [].
Proof. exact @fix_period_outside. Qed.
Print Assumptions fix_period_ignores_rows_outside.

(* "covers" in time: slot t = from + i*step is covered by the window [b, b+d] iff t - d <= b < t + step *)
Theorem fix_period_covers_in_time : forall (V : Type) from step d (x : pentry V) i,
  0 < step -> from <= win_start d x -> 0 <= d ->
  covers from step d x i = true <-> (from + i * step - d <= win_start d x < from + i * step + step).
Proof. exact @covers_time. Qed.
Print Assumptions fix_period_covers_in_time.

(* ---------- END TO END: from the stored data (C07's reference of the log part) to the metric rows ---------- *)
(* The rows "leaving the log pipeline" are the lines C07's reference LogqlSem.log_rows2 defines over a database d
   (window, type, matchers, run_stages: line filters, label filters, json stages with parameters, drop stages, each
   filter reading the labels the stages before it left). For every range-aggregation / vector-aggregation / quantile
   script (no guard on drop stages since the repair of drop-keeps-fingerprint), every database the writer's invariants allow (db_ok; a fingerprint is a function of
   the label set), whatever the order in which the log selects deliver the lines (any permutation `base`):
   the planned metric selects compute metric_ref over exactly those lines - e.g.
   sum by (x) (rate({a="b"} | json x="p" | x="1" [1m])).
   Oracles: the regex / float / json-extraction oracles of C07, hash_labels (the fingerprint ParserPlanner gives a
   re-labelled line: injective, a UInt64), fp (cityHash64 of a by/without image: injective). *)
Theorem logql_metric_correct_from_stored_data :
  forall re_match parse_float json_get (hash_labels : LogqlSem.labels -> Z),
  (forall a b, hash_labels a = hash_labels b -> a = b) -> (forall a, 0 <= hash_labels a) ->
  forall (fp : lmap -> N) (to_float : string -> Qc) (quantile_o : string -> list Qc -> Qc) (varpop stddevpop : list Qc -> Qc),
  (forall a b, fp a = fp b -> a = b) ->
  forall c d s fin p base,
  analyze_m15 s = false -> plan_metric s fin = Some p -> script_ok s -> 0 < c_step_ns c ->
  db_ok c d -> fp_of_labels_ok d -> 0 <= c_from_ns c ->
  Permutation.Permutation base (base_of re_match parse_float json_get hash_labels s c d) ->
  option_map (map strip) (sem fp to_float quantile_o varpop stddevpop p c base)
    = metric_ref to_float quantile_o varpop stddevpop s c (map entry_of base)
  /\ Permutation.Permutation (map entry_of base) (map entry_of_out (log_lines re_match parse_float json_get hash_labels s c d)).
Proof. exact metric_correct_db. Qed.
Print Assumptions logql_metric_correct_from_stored_data.

(* the same composition for topk / bottomk scripts *)
Theorem topk_correct_from_stored_data :
  forall re_match parse_float json_get (hash_labels : LogqlSem.labels -> Z),
  (forall a b, hash_labels a = hash_labels b -> a = b) -> (forall a, 0 <= hash_labels a) ->
  forall (fp : lmap -> N) (to_float : string -> Qc) (quantile_o : string -> list Qc -> Qc) (varpop stddevpop : list Qc -> Qc),
  (forall a b, fp a = fp b -> a = b) ->
  forall c d t fin p base,
  analyze_m15 (STopK t) = false -> plan_metric (STopK t) fin = Some p -> script_ok (tk_inner t) -> 0 < c_step_ns c ->
  db_ok c d -> fp_of_labels_ok d -> 0 <= c_from_ns c ->
  Permutation.Permutation base (base_of re_match parse_float json_get hash_labels (STopK t) c d) ->
  match sem fp to_float quantile_o varpop stddevpop p c base with
  | Some out =>
    exists inner kept, inner_ref to_float quantile_o varpop stddevpop (tk_inner t) (map entry_of base) = Some (map strip inner) /\
                       topk_spec (tk_len t) (tk_top t) inner kept /\
                       map strip out = ref_step (c_step_ns c) (get_duration (STopK t)) (ref_cmp (tk_cmp t) (map strip kept))
  | None => inner_ref to_float quantile_o varpop stddevpop (tk_inner t) (map entry_of base) = None
  end.
Proof. exact topk_correct_db. Qed.
Print Assumptions topk_correct_from_stored_data.

(* in table order both sides are one function of the stored data *)
Theorem logql_metric_correct_from_stored_data_eq :
  forall re_match parse_float json_get (hash_labels : LogqlSem.labels -> Z),
  (forall a b, hash_labels a = hash_labels b -> a = b) -> (forall a, 0 <= hash_labels a) ->
  forall (fp : lmap -> N) (to_float : string -> Qc) (quantile_o : string -> list Qc -> Qc) (varpop stddevpop : list Qc -> Qc),
  (forall a b, fp a = fp b -> a = b) ->
  forall c d s fin p,
  analyze_m15 s = false -> plan_metric s fin = Some p -> script_ok s -> 0 < c_step_ns c ->
  db_ok c d -> fp_of_labels_ok d -> 0 <= c_from_ns c ->
  option_map (map strip) (sem fp to_float quantile_o varpop stddevpop p c (base_of re_match parse_float json_get hash_labels s c d))
    = metric_ref_db re_match parse_float json_get hash_labels to_float quantile_o varpop stddevpop s c d.
Proof. exact metric_correct_db_eq. Qed.
Print Assumptions logql_metric_correct_from_stored_data_eq.

(* the lines of log_rows2 meet the hypotheses of logql_metric_correct (the trusted assumption "a fingerprint stands for
   one label set" of the earlier slice is now a theorem about the reference of the log part) *)
Theorem log_lines_are_consistent :
  forall re_match parse_float json_get (hash_labels : LogqlSem.labels -> Z),
  (forall a b, hash_labels a = hash_labels b -> a = b) -> (forall a, 0 <= hash_labels a) ->
  forall q c d, db_ok c d -> fp_of_labels_ok d ->
  consistent (map mrow_of (log_rows2 re_match parse_float json_get hash_labels q c d)).
Proof. exact base_consistent. Qed.
Print Assumptions log_lines_are_consistent.

(* the witness of the repaired finding drop-keeps-fingerprint: rate({a="b"} | drop c [5s]) over the streams {a="b",c="1"},
   {a="b",c="2"} (PlannerDrop kept the stream fingerprint: two series with the one label set {a="b"}, 0.2 each). Since the repair
   in /repo (the drop re-fingerprints the line like a parser stage) the statement above has no guard on drop stages, and on the
   witness both sides report the one series {a="b"} with 2 lines / 5 s. *)
Theorem drop_stage_merges_equal_streams :
  forall re_match parse_float json_get (hash_labels : LogqlSem.labels -> Z),
  (forall a b, hash_labels a = hash_labels b -> a = b) -> (forall a, 0 <= hash_labels a) ->
  forall (fp : lmap -> N) to_float quantile_o varpop stddevpop, (forall a b, fp a = fp b -> a = b) ->
  exists p, plan_metric dk_script true = Some p /\ analyze_m15 dk_script = false /\ script_ok dk_script /\
    db_ok dk_ctx dk_db /\ fp_of_labels_ok dk_db /\
    no_drop (sel_pipeline (log_part dk_script)) = false /\
    option_map (map (fun r => (v_labels r, v_ts r, this (v_val r))))
      (option_map (map strip) (sem fp to_float quantile_o varpop stddevpop p dk_ctx (base_of re_match parse_float json_get hash_labels dk_script dk_ctx dk_db)))
      = Some [([("a", "b")]%string, 1700000000000000000, (2 # 5)%Q)] /\
    option_map (map (fun r => (v_labels r, v_ts r, this (v_val r))))
      (metric_ref_db re_match parse_float json_get hash_labels to_float quantile_o varpop stddevpop dk_script dk_ctx dk_db)
      = Some [([("a", "b")]%string, 1700000000000000000, (2 # 5)%Q)].
Proof. exact metric_drop_witness. Qed.
Print Assumptions drop_stage_merges_equal_streams.

(* ---------- a vector aggregation WITHOUT grouping clause (round 4: defect agg-without-grouping-keeps-streams repaired) ----------
   By the property text a vector aggregation without by/without groups by the EMPTY label set: sum(rate(...)) is ONE series {}.
   Both engines regrouped only where a clause is written (the aggregate was taken per stream and had no effect; rounds 1-3:
   vector_aggregation_without_grouping_refuted). The reader's entry point logql_transpiler_v2.Plan now gives such an aggregation
   the clause `by ()` before either engine plans it (groupByNothing = LogqlPlan.norm_script, tied on every generated query), so
   the correctness theorems hold against the DEFINITION metric_ref_def of the script AS WRITTEN, for every script: *)
Theorem logql_metric_correct_definition :
  forall (fp : lmap -> N) (to_float : string -> Qc) (quantile_o : string -> list Qc -> Qc) (varpop stddevpop : list Qc -> Qc),
  (forall a b, fp a = fp b -> a = b) ->
  forall c base s fin p,
  analyze_m15 s = false -> plan_metric (norm_script s) fin = Some p -> script_ok s ->
  0 < c_step_ns c -> consistent base -> nonneg base ->
  option_map (map strip) (sem fp to_float quantile_o varpop stddevpop p c base) =
  metric_ref_def to_float quantile_o varpop stddevpop s c (map entry_of base).
Proof. exact metric_correct_definition. Qed.
Print Assumptions logql_metric_correct_definition.

Theorem logql_metric_correct_shortcut_definition :
  forall (fp : lmap -> N) (to_float : string -> Qc) (quantile_o : string -> list Qc -> Qc) (varpop stddevpop : list Qc -> Qc),
  (forall a b, fp a = fp b -> a = b) ->
  forall c base s fin p,
  analyze_m15 s = true -> plan_metric (norm_script s) fin = Some p ->
  (match s with SLra _ | SAgg _ => True | _ => False end) ->
  0 < c_step_ns c -> consistent base -> nonneg base ->
  option_map (map strip) (sem fp to_float quantile_o varpop stddevpop p c base) =
  metric_ref_def to_float quantile_o varpop stddevpop s c (map entry_of base).
Proof. exact shortcut_metric_correct_definition. Qed.
Print Assumptions logql_metric_correct_shortcut_definition.

Theorem logql_metric_correct_from_stored_data_definition :
  forall re_match parse_float json_get (hash_labels : LogqlSem.labels -> Z),
  (forall a b, hash_labels a = hash_labels b -> a = b) -> (forall a, 0 <= hash_labels a) ->
  forall (fp : lmap -> N) (to_float : string -> Qc) (quantile_o : string -> list Qc -> Qc) (varpop stddevpop : list Qc -> Qc),
  (forall a b, fp a = fp b -> a = b) ->
  forall c d s fin p base,
  analyze_m15 s = false -> plan_metric (norm_script s) fin = Some p -> script_ok s -> 0 < c_step_ns c ->
  db_ok c d -> fp_of_labels_ok d -> 0 <= c_from_ns c ->
  Permutation.Permutation base (base_of re_match parse_float json_get hash_labels s c d) ->
  option_map (map strip) (sem fp to_float quantile_o varpop stddevpop p c base)
    = metric_ref_def to_float quantile_o varpop stddevpop s c (map entry_of base)
  /\ Permutation.Permutation (map entry_of base) (map entry_of_out (log_lines re_match parse_float json_get hash_labels s c d)).
Proof. exact metric_correct_db_definition. Qed.
Print Assumptions logql_metric_correct_from_stored_data_definition.

(* the definition of the script as written IS the reference of the script the planners get; the script they get always carries
   a grouping (Example metric_correct_definition_hyp: the hypotheses are met by sum(rate({a="b"}[5s])), which norm_script changes) *)
Theorem definition_is_reference_of_planned_script :
  forall to_float quantile_o varpop stddevpop s c es,
  metric_ref_def to_float quantile_o varpop stddevpop s c es = metric_ref to_float quantile_o varpop stddevpop (norm_script s) c es
  /\ agg_grouped (norm_script s) = true /\ norm_script (norm_script s) = norm_script s.
Proof. exact norm_script_facts. Qed.
Print Assumptions definition_is_reference_of_planned_script.

(* the former witness: sum(rate({a="b"}[5s])) over the streams {a="b",c="1"} and {a="b",c="2"}, one line each in one window, now
   answers the definition's one series {} with 0.4 (it answered the two streams with 0.2 each), for every oracle *)
Theorem vector_aggregation_without_grouping_is_one_series :
  forall re_match parse_float json_get (hash_labels : LogqlSem.labels -> Z),
  (forall a b, hash_labels a = hash_labels b -> a = b) -> (forall a, 0 <= hash_labels a) ->
  forall (fp : lmap -> N) to_float quantile_o varpop stddevpop, (forall a b, fp a = fp b -> a = b) ->
  exists p, plan_metric (norm_script ng_script) true = Some p /\ analyze_m15 ng_script = false /\ script_ok ng_script /\
    db_ok dk_ctx dk_db /\ fp_of_labels_ok dk_db /\ agg_grouped ng_script = false /\
    option_map (map (fun r => (v_labels r, v_ts r, this (v_val r))))
      (option_map (map strip) (sem fp to_float quantile_o varpop stddevpop p dk_ctx (base_of re_match parse_float json_get hash_labels ng_script dk_ctx dk_db)))
      = Some [([], 1700000000000000000, (2 # 5)%Q)] /\
    option_map (map (fun r => (v_labels r, v_ts r, this (v_val r))))
      (metric_ref_def to_float quantile_o varpop stddevpop ng_script dk_ctx
         (map entry_of_out (log_lines re_match parse_float json_get hash_labels ng_script dk_ctx dk_db)))
      = Some [([], 1700000000000000000, (2 # 5)%Q)].
Proof. exact ungrouped_sum_is_one_series. Qed.
Print Assumptions vector_aggregation_without_grouping_is_one_series.

(* the partial statement: for every script whose vector aggregation carries a grouping clause (and every script that has no
   vector aggregation) the reference of the theorems IS the definition, so logql_metric_correct / _from_stored_data are
   statements about the definition there. Guard satisfiable: ex_script of LogqlMetricProofs (sum by (a) (...)). *)
Theorem vector_aggregation_partial :
  forall to_float quantile_o varpop stddevpop s c es, agg_grouped s = true ->
  metric_ref_def to_float quantile_o varpop stddevpop s c es = metric_ref to_float quantile_o varpop stddevpop s c es.
Proof. exact metric_ref_def_grouped_proof. Qed.
Print Assumptions vector_aggregation_partial.

(* ---------- EXECUTION of the planned statement (model/SqlEvalAgg.v over C07's SqlEval; model/LogqlMetricExec.v) ----------
   The check runs exec_verdict through the OCaml extraction on generated queries and databases; inside Coq, on the two corpus
   witnesses: the statement planned for rate({a="b"} | drop c [5s]) over the streams {a="b",c="1"}, {a="b",c="2"} evaluates, under
   both orders of ties, to the reference's one series {a="b"} with 2 lines / 5 s ... *)
Theorem drop_witness_executed :
  exec_verdict tie_id dk_script dk_ctx dk_db = 0 /\ exec_verdict tie_rev dk_script dk_ctx dk_db = 0 /\
  option_map (map out_of_row) (exec_rows tie_id dk_script dk_ctx dk_db) = Some [Some ([("a", "b")]%string, 1700000000000000000, (2 # 5)%Q)].
Proof. exact exec_drop_witness. Qed.
Print Assumptions drop_witness_executed.

(* ... and the statement planned for sum(rate({a="b"}[5s])) as the reader hands it over (norm_script) evaluates to the
   definition's ONE series {} with 0.4 under both tie orders (rounds 1-3: one series per stream, exec_verdict_def = 1) *)
Theorem agg_without_grouping_executed :
  exec_verdict tie_id (norm_script ng_script) dk_ctx dk_db = 0 /\ exec_verdict tie_rev (norm_script ng_script) dk_ctx dk_db = 0 /\
  option_map (map out_of_row) (exec_rows tie_id (norm_script ng_script) dk_ctx dk_db) = Some [Some ([], 1700000000000000000, (2 # 5)%Q)] /\
  option_map (map (fun r => (v_labels r, v_ts r, this (v_val r)))) (ref_rows_def ng_script dk_ctx dk_db) = Some [([], 1700000000000000000, (2 # 5)%Q)].
Proof. exact exec_agg_without_grouping_witness. Qed.
Print Assumptions agg_without_grouping_executed.

(* ---------- float64: which value expressions are exact (model/LogqlMetricFloat.v says what is approximate) ---------- *)
(* IEEE model: every operation returns rnd(exact result); the one fact used about rnd: integers of magnitude <= 2^53 are
   representable. sum(...) over integer-valued samples whose absolute values add up to at most 2^53 is exact in EVERY
   summation order and association (a tree t over a permutation of the values) *)
Theorem float64_sum_exact : forall (rnd : Qc -> Qc), (forall z, int53 z -> rnd (qz z) = qz z) ->
  forall t zs vals, Permutation.Permutation (leaves t) vals -> vals = map qz zs -> abs_sum zs <= 2 ^ 53 ->
  fl_sum rnd t = qsum vals.
Proof. exact fl_sum_exact. Qed.
Print Assumptions float64_sum_exact.

(* count_over_time / bytes_over_time: toFloat64 of an integer below 2^53 is the integer *)
Theorem float64_count_bytes_exact : forall (rnd : Qc -> Qc), (forall z, int53 z -> rnd (qz z) = qz z) ->
  forall v (g : list mrow),
  match v with
  | LVCount => Z.of_nat (List.length g) <= 2 ^ 53
  | LVBytes => zsum (map (fun r => Z.of_nat (String.length (r_line r))) g) <= 2 ^ 53
  | _ => False
  end -> fl_eval_lra rnd v g = eval_lra v g.
Proof. exact fl_lra_exact. Qed.
Print Assumptions float64_count_bytes_exact.

(* rate / bytes_rate over a range of whole seconds: ONE rounding of the reference's rational (correctly rounded) *)
Theorem float64_rate_one_rounding : forall (rnd : Qc -> Qc), (forall z, int53 z -> rnd (qz z) = qz z) ->
  forall v (g : list mrow) k, 0 < k <= 2 ^ 53 ->
  match v with
  | LVCountDiv d => d = k * 1000000000 /\ Z.of_nat (List.length g) <= 2 ^ 53
  | LVBytesDiv d => d = k * 1000000000 /\ zsum (map (fun r => Z.of_nat (String.length (r_line r))) g) <= 2 ^ 53
  | _ => False
  end -> fl_eval_lra rnd v g = rnd (eval_lra v g).
Proof. exact fl_lra_rate_one_rounding. Qed.
Print Assumptions float64_rate_one_rounding.

Theorem float64_unwrapped_rate_one_rounding : forall (rnd : Qc -> Qc), (forall z, int53 z -> rnd (qz z) = qz z) ->
  forall t zs vals d k,
  Permutation.Permutation (leaves t) vals -> vals = map qz zs -> abs_sum zs <= 2 ^ 53 -> 0 < k <= 2 ^ 53 -> d = k * 1000000000 ->
  fl_eval_uw_rate rnd d t = rnd (Qcdiv (qsum vals) (secs_exact d)).
Proof. exact fl_uw_rate_one_rounding. Qed.
Print Assumptions float64_unwrapped_rate_one_rounding.

Theorem float64_avg_one_rounding : forall (rnd : Qc -> Qc), (forall z, int53 z -> rnd (qz z) = qz z) ->
  forall t zs vals,
  Permutation.Permutation (leaves t) vals -> vals = map qz zs -> abs_sum zs <= 2 ^ 53 -> Z.of_nat (List.length vals) <= 2 ^ 53 ->
  fl_eval_avg rnd t = rnd (qavg vals).
Proof. exact fl_avg_one_rounding. Qed.
Print Assumptions float64_avg_one_rounding.

(* min / max / first / last (argMin / argMax) return one of their inputs: no arithmetic, exact for every input *)
Theorem float64_selections_exact :
  (forall l, l <> [] -> List.In (qmin_l l) l) /\ (forall l, l <> [] -> List.In (qmax_l l) l) /\
  (forall (A : Type) (ts : A -> Z) (l : list A) x, argmin_ts ts l = Some x -> List.In x l) /\
  (forall (A : Type) (ts : A -> Z) (l : list A) x, argmax_ts ts l = Some x -> List.In x l).
Proof. split; [exact qmin_l_selects|]. split; [exact qmax_l_selects|]. split; [exact @argmin_selects|exact @argmax_selects]. Qed.
Print Assumptions float64_selections_exact.

(* ---- line_format in the log part of a metric query (builder b4-lf): LineFormatPlanner replaces ONE column of Main's select;
   FROM / WHERE / PREWHERE / joins / WITHs and both WITH caches are Main's, the plan object keeps no Process-time state, one
   context id is drawn ... *)
From Qryn Require model.LogqlTemplate proofs.LogqlTemplateProofs.
Theorem line_format_rewrites_only_the_line : forall t main c st q st' p',
  process (PLineFormatP t main) c st = Some (q, st', p') ->
  exists req st1 main' nodes,
    process main c st = Some (req, st1, main') /\ LogqlTemplate.tpl_parse t = LogqlTemplate.TOk nodes /\
    q = set_cols (patch_col (s_cols req) "string" (fun _ => LogqlTemplate.tpl_sql nodes)) req /\
    fp_cache st' = fp_cache st1 /\ labels_cache st' = labels_cache st1 /\ pid st' = (pid st1 + 1)%N /\
    p' = PLineFormatP t main'.
Proof. exact LogqlTemplateProofs.line_format_process. Qed.
Print Assumptions line_format_rewrites_only_the_line.
(* ... and bytes_over_time / bytes_rate behind it sum the length of the FORMATTED line: the select LRAPlanner aggregates over
   carries the format() expression under the name _string, the value column is the byte aggregate over _string *)
Theorem bytes_aggregates_see_the_formatted_line : forall t main c st req st1 main' nodes f dur wl v,
  process main c st = Some (req, st1, main') -> LogqlTemplate.tpl_parse t = LogqlTemplate.TOk nodes -> lra_val_of f dur = Some v ->
  has_column (s_cols req) "string" = true -> has_column (s_cols req) "_string" = false ->
  exists q st' p' m1,
    process (PLraP f dur wl (PLineFormatP t main)) c st = Some (q, st', p') /\
    s_from q = Some (Col (WRef "agg_a" m1) "time_series") /\
    get_col (s_cols m1) "_string" = Some (LogqlTemplate.tpl_sql nodes) /\
    get_col (s_cols q) "value" = Some (lra_val_sql v).
Proof. exact LogqlTemplateProofs.formatted_line_reaches_the_byte_aggregation. Qed.
Print Assumptions bytes_aggregates_see_the_formatted_line.
Example bytes_aggregates_hyp : forall c, has_column (s_cols (main_init c)) "string" = true /\ has_column (s_cols (main_init c)) "_string" = false.
Proof. exact LogqlTemplateProofs.formatted_line_hyp. Qed.

From Qryn Require proofs.LogqlMetricUtf8Proofs.
Import LogqlMetricUtf8Proofs.
(* ---- bytes_over_time / bytes_rate count BYTES (round 7, seed C08-g: lengthUTF8 for length). What the evaluator reads for
   lengthUTF8 - the bytes that are no UTF-8 continuation byte - never exceeds the byte count and equals it exactly on the strings
   without a continuation byte: a statement summing lengthUTF8 under-counts every line with a character outside ASCII *)
Theorem code_points_never_exceed_bytes : forall s, (utf8_points s <= String.length s)%nat.
Proof. exact utf8_points_le_length. Qed.
Print Assumptions code_points_never_exceed_bytes.
Theorem code_points_equal_bytes_iff_no_continuation_byte : forall s, utf8_points s = String.length s <-> has_cont s = false.
Proof. exact utf8_points_eq_length_iff. Qed.
Print Assumptions code_points_equal_bytes_iff_no_continuation_byte.
Theorem code_points_fall_short_on_multibyte_lines : forall s, has_cont s = true -> (utf8_points s < String.length s)%nat.
Proof. exact utf8_points_lt_length. Qed.
Print Assumptions code_points_fall_short_on_multibyte_lines.
Example code_points_hyp : exists s, has_cont s = true /\ String.length s = 9%nat /\ utf8_points s = 3%nat.
Proof. eexists. exact utf8_points_japanese. Qed.
