(* Property C06 — a stored span reads back as the span that was pushed.  Only statements; proofs by reference.

   [decode fixed inp]      the trace write path on a request (OTLP protobuf, Zipkin JSON array, Zipkin NDJSON):
                           None = the request is answered with an error, Some rows = per span its trace row and tag rows.
   [pushed_of inp]         the spans the request denotes (ids, parent, times in ns, name, service name, flattened
                           attributes); defined for requests whose JSON objects have no repeated member names.
   [read_row fixed es row] the trace read path (OutputQuery) on a stored row.
   Accepted spans have 16-byte trace ids and 8-byte span ids (onSpan rejects every other width): part of [row_of]. *)
From Coq Require Import List ZArith NArith Bool String Ascii Permutation.
From Qryn Require Import model.Spans model.SpansChunk model.SpansWire model.SpansStore model.SpansJson model.SpansWireX model.SpansWireY model.SpansZone model.SpansSvc proofs.SpansSvcProofs proofs.SpansZoneProofs proofs.SpansWireXProofs proofs.SpansWireYProofs proofs.SpansProofs proofs.SpansChunkProofs
  proofs.SpansTimeProofs proofs.SpansWireProofs proofs.SpansStoreProofs proofs.SpansJsonProofs proofs.SpansNumProofs.
Import ListNotations.
Open Scope Z_scope.

(* For every accepted request the trace rows are, in order, in one-to-one correspondence with the pushed spans and
   each carries its span's 16-byte trace id, 8-byte span id, parent, start time, duration, name and service name. *)
Theorem one_row_per_span : forall inp rows ps,
  decode fixed inp = Some rows -> pushed_of inp = Some ps -> Forall2 row_of ps (map fst rows).
Proof. exact one_row_per_span_l. Qed.
Print Assumptions one_row_per_span.

(* The tag rows produced for a span all bear that span's ids, start time, duration and day, and their (key, value)
   pairs are exactly the span's flattened attributes (lists by index, key/value lists by '.'-joined keys, plus name,
   service.name [and remoteService.name for OTLP]), up to order. *)
Theorem tag_rows_of_span : forall inp rows ps,
  decode fixed inp = Some rows -> pushed_of inp = Some ps -> Forall2 tags_of ps (map snd rows).
Proof. exact tag_rows_of_span_l. Qed.
Print Assumptions tag_rows_of_span.

(* OTLP: one tag row per flattened attribute key (the keys of a span's tag rows are pairwise distinct). *)
Theorem otlp_one_tag_row_per_key : forall b ps,
  pushed_of (InOtlp b) = Some ps -> Forall (fun p => NoDup (map fst (p_tags p))) ps.
Proof. exact otlp_tags_unique_l. Qed.
Print Assumptions otlp_one_tag_row_per_key.

(* Newline-delimited framing decodes every line exactly as the array framing decodes every element
   (no decoder state survives from one span to the next; each span keeps its own text as payload). *)
Theorem ndjson_same_as_array : forall es, zipkin_decode fixed true es = zipkin_decode fixed false es.
Proof. exact SpansProofs.ndjson_same_as_array. Qed.
Print Assumptions ndjson_same_as_array.

(* The read path returns, for the stored row of every pushed span, a span with the same ids, parent, name, start and
   end time and the pushed attributes (OTLP: exactly the pushed attribute map, with the synthesised service names;
   Zipkin: the pushed tags, followed only by endpoint and service.name attributes).  [in_range]: OTLP times are uint64. *)
Theorem read_back : forall inp rows ps,
  decode fixed inp = Some rows -> pushed_of inp = Some ps -> in_range inp ->
  Forall2 (fun p sr => reads_back p (read_row fixed (in_elems inp) (fst sr))) ps rows.
Proof. exact read_back_l. Qed.
Print Assumptions read_back.

(* ONE query over all stored rows of an accepted request ([output_query] = OutputQuery's loop: a row of an unknown payload type is passed
   over, the first row that does not decode ends the output) returns every pushed span, in order. *)
Theorem one_query_reads_all : forall inp rows ps,
  decode fixed inp = Some rows -> pushed_of inp = Some ps -> in_range inp ->
  Forall2 (fun p r => reads_back p (Some r)) ps (output_query fixed (in_elems inp) (map fst rows)).
Proof. exact one_query_reads_all_l. Qed.
Print Assumptions one_query_reads_all.

(* The oracle the check evaluates on the IMPLEMENTATION's observations (spec_ok: rows_ok, tags_ok, reads_ok) accepts the
   model's own output for every request: the three clauses above are what the correspondence run tests. *)
Theorem model_meets_spec : forall inp, in_range inp -> spec_ok (model_case fixed inp) = true.
Proof. exact model_meets_spec_l. Qed.
Print Assumptions model_meets_spec.

(* The stored payload of the k-th span of a Zipkin request is that span's own text, in either framing ... *)
Theorem zipkin_payload_is_own_text : forall nd es rows,
  zipkin_decode fixed nd es = Some rows ->
  forall k sr, nth_error rows k = Some sr -> t_payload (fst sr) = PRef (N.of_nat k) /\ t_ptype (fst sr) = 1.
Proof. exact SpansProofs.zipkin_payload_is_own_text. Qed.
Print Assumptions zipkin_payload_is_own_text.

(* ... and neither the model's prediction nor the oracle's verdict for a request depends on how its body was cut into
   Reads (one piece, byte by byte, network-sized segments): the delivery is recorded in a case but is not an argument of
   the decoders or of spec_ok.  True by construction; the check compares this one expectation with observations made
   under every delivery, which is what exposes a decoder that retains a slice of its read buffer. *)
Theorem segmentation_irrelevant : forall c d,
  model_mismatch (with_delivery c d) = model_mismatch c /\ spec_violation (with_delivery c d) = spec_violation c.
Proof. exact segmentation_irrelevant_l. Qed.
Print Assumptions segmentation_irrelevant.

(* ---- the mid-request flush: onSpan's Size bookkeeping sends the rows gathered so far as one response whenever the accumulated
   size exceeds a threshold (1 MiB in the code), and the rest at the end.  [decode_chunked thr psz fixed inp] = the parser's
   responses and whether the request ended with an error; [psz] = the byte length of a stored payload.  For EVERY threshold and
   EVERY size function: an accepted request's responses are groups of whole spans (a span's trace row and all its tag rows travel
   in the same response) and the groups, concatenated in order, are in one-to-one correspondence with the pushed spans, each
   with its trace row (one_row_per_span) and its tag rows (tag_rows_of_span). *)
Theorem chunked_rows_of_spans : forall thr psz inp rows ps,
  decode fixed inp = Some rows -> pushed_of inp = Some ps ->
  exists groups,
    decode_chunked thr psz fixed inp = (map chunk_of_group groups, false) /\
    Forall2 (fun p sr => row_of p (fst sr) /\ tags_of p (snd sr)) ps (List.concat groups).
Proof. exact chunked_rows_of_spans_l. Qed.
Print Assumptions chunked_rows_of_spans.

(* The rows of all responses together are the unchunked decoder's rows, whatever the threshold and the sizes. *)
Theorem chunking_irrelevant : forall thr psz thr' psz' inp rows,
  decode fixed inp = Some rows ->
  let cs := fst (decode_chunked thr psz fixed inp) in
  let cs' := fst (decode_chunked thr' psz' fixed inp) in
  List.concat (map k_rows cs) = map fst rows /\ List.concat (map k_tags cs) = List.concat (map snd rows) /\
  List.concat (map k_rows cs) = List.concat (map k_rows cs') /\ List.concat (map k_tags cs) = List.concat (map k_tags cs').
Proof. exact chunking_irrelevant_l. Qed.
Print Assumptions chunking_irrelevant.

(* A flush happens exactly when needed: every response but the last is above the threshold and was not above it before its
   last span; the last response is at most the threshold. *)
Theorem flush_exactly_when_needed : forall thr psz inp rows,
  0 <= thr -> decode fixed inp = Some rows ->
  exists groups,
    decode_chunked thr psz fixed inp = (map chunk_of_group groups, false) /\ List.concat groups = rows /\ groups <> [] /\
    Forall (fun gr => gr <> [] /\ gsize psz gr > thr /\ gsize psz (removelast gr) <= thr) (removelast groups) /\
    gsize psz (last groups []) <= thr.
Proof. exact flush_exactly_when_needed_l. Qed.
Print Assumptions flush_exactly_when_needed.

(* A request whose accumulated size does not exceed the threshold is answered in one response holding all its rows. *)
Theorem small_request_one_response : forall thr psz inp rows,
  (forall p, 0 <= psz p) -> decode fixed inp = Some rows -> gsize psz rows <= thr ->
  decode_chunked thr psz fixed inp = ([chunk_of_group rows], false).
Proof. exact small_request_one_response_l. Qed.
Print Assumptions small_request_one_response.

(* A request that fails: an error response, and the responses sent before it (they are already on their way to the database)
   hold whole spans of a prefix of the spans decoded before the failing one; each of them was above the threshold. *)
Theorem error_after_flush : forall thr psz inp,
  decode fixed inp = None ->
  exists groups rest,
    decode_chunked thr psz fixed inp = (map chunk_of_group groups, true) /\
    fst (decode_stream fixed inp) = (List.concat groups ++ rest)%list /\
    Forall (fun gr => gsize psz gr > thr) groups.
Proof. exact error_after_flush_l. Qed.
Print Assumptions error_after_flush.

(* ---- time arithmetic.  Zipkin: every trace row of an accepted request carries exactly 1000 x the pushed microseconds
   (JSON integer or decimal string; 0 when the member is absent), and that product lies inside int64: nothing is lost, nothing
   wraps.  (Until ca42657 the product wrapped around silently and integers above 2^64 could come back from the JSON decoder as
   garbage: legacy_time_wraps in the proofs file; now such a request is refused.) *)
Theorem zipkin_times_no_loss : forall nd es rows ps,
  decode fixed (InZipkin nd es) = Some rows -> pushed_of (InZipkin nd es) = Some ps ->
  Forall2 (fun e sr => forall fs, e = JObj fs ->
             z_time_of "timestamp" fs (t_ts (fst sr)) /\ z_time_of "duration" fs (t_dur (fst sr)) /\
             - two63 <= t_ts (fst sr) < two63 /\ - two63 <= t_dur (fst sr) < two63) es rows.
Proof. exact zipkin_times_no_loss_l. Qed.
Print Assumptions zipkin_times_no_loss.

(* the accepted numbers are exactly those whose nanoseconds fit int64 *)
Theorem zipkin_time_domain : forall v x,
  string_or_int64 v = Some x ->
  (- two63 <= x * 1000 < two63 -> time_field v = Some (x * 1000)) /\ (~ (- two63 <= x * 1000 < two63) -> time_field v = None).
Proof. intros v x H. split; [apply (time_field_total v x H)|apply (time_field_refused v x H)]. Qed.
Print Assumptions zipkin_time_domain.

(* OTLP: a span with start <= end < 2^63 ns is stored with exactly its start and end - start (outside this domain the int64
   conversions wrap, otlp_time_outside; the read path still returns the pushed uint64 values: read_back) *)
Theorem otlp_times_no_loss : forall ra s p,
  otlp_pushed ra s = Some p -> 0 <= o_start s <= o_end s -> o_end s < two63 ->
  p_ts p = o_start s /\ p_dur p = o_end s - o_start s.
Proof. exact otlp_pushed_times. Qed.
Print Assumptions otlp_times_no_loss.

(* A Zipkin request without repeated member names that is accepted denotes spans: no row is ever stored for a member that is
   not a value of its field (the check's oracle demands this of the implementation: must_reject in spec_ok). *)
Theorem accepted_denotes : forall nd es rows,
  decode fixed (InZipkin nd es) = Some rows -> forallb z_wellformed es = true -> pushed_of (InZipkin nd es) <> None.
Proof. exact accepted_denotes_l. Qed.
Print Assumptions accepted_denotes.

(* ---- the stored OTLP payload as bytes.  [enc_span] = the protobuf wire encoding proto.Marshal emits for the payload span
   (compared byte for byte, by length and fingerprints, with every payload the implementation stores), [dec_span] = the read
   path's proto.Unmarshal on the modelled fields.  decode (encode span) = span for EVERY span of the domain span_wire_ok (times
   uint64, kind a non-negative int32, integers int64, doubles multiples of 1/8 below 2^53, no missing value directly inside a
   list): no bound on sizes, nesting or the number of attributes. *)
Theorem payload_decode_encode : forall s, span_wire_ok s = true -> dec_span (enc_span s) = Some s.
Proof. exact dec_enc_span. Qed.
Print Assumptions payload_decode_encode.

(* read_back with the payload column holding BYTES: the read path decodes the stored bytes of every pushed OTLP span and returns
   the pushed span (ids, parent, name, start, end, attributes).  [wire_domain rows]: the payload spans lie in span_wire_ok. *)
Theorem read_back_bytes : forall inp rows ps,
  decode fixed inp = Some rows -> pushed_of inp = Some ps -> in_range inp -> wire_domain rows ->
  Forall2 (fun p sr => reads_back p (read_row_wire fixed (in_elems inp) (fst sr) (payload_bytes (t_payload (fst sr))))) ps rows.
Proof. exact read_back_wire_l. Qed.
Print Assumptions read_back_bytes.

(* The wire domain follows from the PUSHED request: when every pushed OTLP span and every resource attribute lies in the round-trip
   domain (input_wire_ok: times uint64, kind a non-negative int32, integers int64, doubles multiples of 1/8 below 2^53, no missing
   value directly inside a list), so does every payload span the parser builds (the appended resource attributes and the
   synthesised service names included). *)
Theorem wire_domain_of_input : forall inp rows,
  decode fixed inp = Some rows -> input_wire_ok inp = true -> wire_domain rows.
Proof. exact wire_domain_of_input_l. Qed.
Print Assumptions wire_domain_of_input.

(* read_back_bytes with its domain stated on the pushed request instead of on the rows *)
Theorem read_back_bytes_of_input : forall inp rows ps,
  decode fixed inp = Some rows -> pushed_of inp = Some ps -> in_range inp -> input_wire_ok inp = true ->
  Forall2 (fun p sr => reads_back p (read_row_wire fixed (in_elems inp) (fst sr) (payload_bytes (t_payload (fst sr))))) ps rows.
Proof. exact read_back_bytes_of_input_l. Qed.
Print Assumptions read_back_bytes_of_input.

(* ---- the Zipkin payload as a JSON token stream (model/SpansJson.v).  [toks_of t] = the tokens of a JSON value t (strings with their
   escapes decoded, numbers as their lexical text); [parse] = the read side's parser (the whole text must be one value). *)
Theorem token_parse_inverts : forall t, parse (toks_of t) = Some t.
Proof. exact parse_toks_of. Qed.
Print Assumptions token_parse_inverts.

(* decodeSpan as the streaming walk over tokens (one token at a time: member names, repeated members, values skipped by jx Skip,
   numbers handed to strconv.ParseInt as their raw text, endpoints, tags) computes, on the tokens of any element whose numbers are
   JSON numbers, exactly what the tree-level decoder of Spans.v computes on the value they denote -- in both framings, for the
   repaired and the legacy behaviours alike. *)
Theorem token_walk_refines : forall q tl nd ts, forallb jt_ok ts = true ->
  zt_decode q tl nd (map toks_of ts) = zipkin_decode q nd (map abs ts).
Proof. exact zt_decode_refines. Qed.
Print Assumptions token_walk_refines.

(* read_back for Zipkin with the stored payload a token stream: the rows come from the walk over the request's tokens, the payload
   of each row is its span's own tokens, and parsing them (fastjson) and reading the fields returns the pushed span (ids, parent,
   name, start, end, the pushed tags followed only by endpoint / service.name attributes). *)
Theorem read_back_tokens : forall nd ts rows ps,
  forallb jt_ok ts = true ->
  zt_decode fixed false nd (map toks_of ts) = Some rows ->
  pushed_of (zin nd (map toks_of ts)) = Some ps ->
  Forall2 (fun p sr => reads_back p (read_row_tok fixed (map toks_of ts) (fst sr))) ps rows.
Proof. exact read_back_tokens_l. Qed.
Print Assumptions read_back_tokens.

(* ... and the rows are one per pushed span with its tag rows *)
Theorem rows_of_tokens : forall nd ts rows ps,
  forallb jt_ok ts = true ->
  zt_decode fixed false nd (map toks_of ts) = Some rows ->
  pushed_of (zin nd (map toks_of ts)) = Some ps ->
  Forall2 row_of ps (map fst rows) /\ Forall2 tags_of ps (map snd rows).
Proof. exact rows_of_tokens_l. Qed.
Print Assumptions rows_of_tokens.

(* The same over RAW token streams: for every request whose element / line streams pass the boolean well-formedness test the check evaluates on
   every observed stream (stream_wf: the stream parses to one value, re-serialises to itself, its numbers do not start with '+'), the walk's rows
   are one per pushed span with its tag rows, and the stored token stream of each row reads back as the pushed span. *)
Theorem read_back_token_streams : forall nd tss rows ps,
  forallb stream_wf tss = true ->
  zt_decode fixed false nd tss = Some rows -> pushed_of (zin nd tss) = Some ps ->
  Forall2 row_of ps (map fst rows) /\ Forall2 tags_of ps (map snd rows) /\
  Forall2 (fun p sr => reads_back p (read_row_tok fixed tss (fst sr))) ps rows.
Proof. exact read_back_token_streams_l. Qed.
Print Assumptions read_back_token_streams.

(* The converse of token_parse_inverts: whatever token list the read side's parser accepts IS the token list of the tree it returns
   (no two token lists parse to the same value, nothing is dropped or reordered): parse is a bijection between the accepted streams and
   the JSON values.  Invariant of the stack machine: the tokens consumed so far = the tokens of the finished value followed by, from the
   bottom of the stack to its top, each open frame's bracket, finished members / elements and pending key. *)
Theorem token_parse_only_inverts : forall ts t, parse ts = Some t -> ts = toks_of t.
Proof. exact parse_only_toks_of. Qed.
Print Assumptions token_parse_only_inverts.

(* Hence the hypothesis of read_back_token_streams needs no re-serialisation test: it is enough that every observed stream parses to one
   value whose numbers are JSON numbers ([stream_ok]; [stream_wf] = [stream_ok] for every stream). *)
Theorem read_back_parsed_streams : forall nd tss rows ps,
  forallb stream_ok tss = true ->
  zt_decode fixed false nd tss = Some rows -> pushed_of (zin nd tss) = Some ps ->
  Forall2 row_of ps (map fst rows) /\ Forall2 tags_of ps (map snd rows) /\
  Forall2 (fun p sr => reads_back p (read_row_tok fixed tss (fst sr))) ps rows.
Proof. exact read_back_parsed_streams_l. Qed.
Print Assumptions read_back_parsed_streams.

(* An NDJSON line holding anything after the span object is refused (since the repair; before it the whole line was stored as the
   payload and the read path returned no span for it: legacy_nd_tail_unreadable in the proofs file). *)
Theorem trailing_text_is_refused : forall q st t extra, jt_ok t = true -> extra <> [] ->
  zt_span q false st (toks_of t ++ extra) = None.
Proof. exact trailing_text_refused. Qed.
Print Assumptions trailing_text_is_refused.

(* Zipkin annotations read back as events: time = 1000 x the annotation's microseconds, name = its value, in order (an annotation
   denotes an event when its timestamp is an integer literal 0 < us with us * 1000 below 2^64 and its value a string). *)
Theorem zipkin_events_read_back : forall fs l evs,
  jt_get "annotations" fs = Some (TA l) -> Forall2 anno_denotes l evs ->
  read_events (TO fs) = map (fun e => (fst e * 1000, snd e)) evs.
Proof. exact zipkin_events_read_back_l. Qed.
Print Assumptions zipkin_events_read_back.

(* The check's oracle on the observed kind and events (events_spec / kind_spec, evaluated on the implementation's read-back) accepts the
   model: whenever every annotation of the stored text denotes an event, the read path returns exactly those events, and the kind the
   text names. *)
Theorem events_spec_sound : forall t evs, events_spec t = Some evs -> read_events t = evs.
Proof. exact events_spec_sound_l. Qed.
Print Assumptions events_spec_sound.

Theorem kind_spec_sound : forall q row t k r, kind_spec t = Some k -> parse_zipkin q row (abs t) = Some r -> rs_kind r = k.
Proof. exact kind_spec_sound_l. Qed.
Print Assumptions kind_spec_sound.

(* strconv.ParseInt after %d: the decimal text of z parses back to z exactly when z lies in int64, and is refused outside *)
Theorem parse_print_int64 : forall z, parse_int64 (print_Z z) = if in_int64 z then Some z else None.
Proof. exact parse_print_int64_l. Qed.
Print Assumptions parse_print_int64.

(* ---- events and status of an OTLP span: the write path leaves them alone and re-marshals the span, so they are part of the stored bytes
   ([enc_spanx s x] = the bytes proto.Marshal emits for the span s carrying the events and status x: compared with every payload the
   implementation stores).  Decoding the stored bytes returns the span AND its events (time, name, attributes) and status (message, code),
   for every span of the domain (event times uint64, status code a non-negative int32, attribute values as in span_wire_ok). *)
Theorem payload_decode_encode_events_status : forall s x,
  span_wire_ok s = true -> extra_ok x = true -> dec_spanx (enc_spanx s x) = Some (s, x).
Proof. exact dec_enc_spanx. Qed.
Print Assumptions payload_decode_encode_events_status.

(* what the read path hands on: the pushed events and the pushed status code, UNSET (0) when the span has no status *)
Theorem events_status_read_back : forall s x, span_wire_ok s = true -> extra_ok x = true ->
  option_map (fun p => read_extra (snd p)) (dec_spanx (enc_spanx s x)) = Some (read_extra x).
Proof. exact read_extra_of_bytes. Qed.
Print Assumptions events_status_read_back.

(* ---- every field of the stored span.  Besides its events and status a span carries trace_state (3), dropped_attributes_count (10),
   dropped_events_count (12), links (13: ids, trace_state, attributes, dropped count, flags), dropped_links_count (14) and flags (16);
   the write path re-marshals them untouched, INTERLEAVED with the other fields in field-number order ([enc_spany]).  For every span,
   every events/status and every such further fields of the stated domain (uint32 counts and flags) the stored bytes decode back to
   exactly what was pushed; [dec_spany] reads each part with the decoder that knows it, all others skipping it. *)
Theorem payload_decode_encode_all_fields : forall s x y,
  span_wire_ok s = true -> extra_ok x = true -> more_ok y = true -> dec_spany (enc_spany s x y) = Some (s, x, y).
Proof. exact dec_enc_spany. Qed.
Print Assumptions payload_decode_encode_all_fields.

(* the span decoder of SpansWire reads its span from ANY well-formed field list whose fields numbered 1, 2, 4-9 are the span's: whatever else
   a client (or a later protocol version) puts into the message, in whatever position, does not change the ids, times, name, kind and
   attributes that are read back *)
Theorem span_decoder_skips_other_fields : forall s F,
  span_wire_ok s = true -> Forall wf_field F -> filter (by_num span_keep) F = fields_span s -> dec_span (ser_fields F) = Some s.
Proof. exact dec_span_among. Qed.
Print Assumptions span_decoder_skips_other_fields.

(* a span without further fields has the bytes of the events/status model: the two encodings agree where both apply *)
Theorem all_fields_extends_events_status : forall s x, enc_spany s x no_more = enc_spanx s x.
Proof. exact enc_spany_no_more. Qed.
Print Assumptions all_fields_extends_events_status.

(* parseOTLP sends a payload beginning with '{' to parseOTLPJson (the legacy JSON form, written by the JS writer only) and every other
   payload to proto.Unmarshal.  The bytes this writer stores for a span of accepted id widths begin with 0x0A (field 1, length-delimited):
   no row written by this writer is ever read through the legacy JSON path; that path concerns rows of the former JS writer only. *)
Theorem stored_payload_never_legacy_json : forall s x y, id_widths_ok (o_trace s) (o_span s) = true ->
  exists r, enc_spany s x y = String (Ascii.ascii_of_N 10) r /\ Ascii.ascii_of_N 10 <> "{"%char.
Proof. exact enc_spany_first_byte. Qed.
Print Assumptions stored_payload_never_legacy_json.

(* ---- strings.  proto.Unmarshal of the request refuses a proto3 string that is not UTF-8 ([utf8_valid] = utf8.Valid: no overlong forms, no
   encoded surrogates, nothing above U+10FFFF): such a request is refused as a whole ... *)
Theorem non_utf8_refused : forall q b, otlp_utf8_ok b = false -> decode q (InOtlp b) = None.
Proof. exact non_utf8_refused_l. Qed.
Print Assumptions non_utf8_refused.

(* ... and therefore every string of every stored OTLP span -- name, attribute keys and string values at any depth, the resource's attributes
   and the service names the write path adds -- is UTF-8: proto.Marshal of the span cannot fail, the error branch after it in
   OTLPDecoder.Decode is never taken (the model has none). *)
Theorem stored_strings_are_utf8 : forall b rows, decode fixed (InOtlp b) = Some rows ->
  forall sr p, In sr rows -> t_payload (fst sr) = POtlp p -> ospan_utf8 p = true.
Proof. exact stored_strings_are_utf8_l. Qed.
Print Assumptions stored_strings_are_utf8.

(* ---- the zone of the writer process.  The one time.Time of the span write path is the MDate of a tag-index row,
   time.Unix(timestampNs/1000000000, 0).UTC(), which ch-go's ColDate.Append turns into (unix seconds + the value's zone offset) / 86400.
   [decode_in_zone false local] is the write path in a process whose zone is [local] (any Location: an offset per instant);
   [span_date true] is the expression without .UTC() (seeded change C06-f, the writer before 71ffd5d): the writer's LOCAL calendar day.
   For every zone the tag rows of an accepted request are, cell for cell, the rows of a writer running in UTC ... *)
Theorem tag_rows_same_in_every_zone : forall (local : location) inp rows ps,
  decode fixed inp = Some rows -> pushed_of inp = Some ps -> decode_in_zone false local fixed inp = decode fixed inp.
Proof. exact decode_zone_free. Qed.
Print Assumptions tag_rows_same_in_every_zone.

(* ... so tag_rows_of_span holds in every zone: every tag row bears its span's ids, start time, duration and the day [date_of] of
   that start time ... *)
Theorem tag_rows_of_span_in_every_zone : forall (local : location) inp rows ps,
  decode fixed inp = Some rows -> pushed_of inp = Some ps ->
  decode_in_zone false local fixed inp = Some (redate (span_date false local) rows) /\
  Forall2 tags_of ps (map snd (redate (span_date false local) rows)).
Proof. exact tag_rows_any_zone. Qed.
Print Assumptions tag_rows_of_span_in_every_zone.

(* ... and that day is the UTC day of the row's timestamp_ns (until 2149, where the UInt16 Date ends): it lies between the days of the
   ends of every search window that contains the span's start, which is what every reader planner restricts [date] to. *)
Theorem tag_date_is_utc_day : forall ts, 0 <= ts < 65536 * ns_per_day -> date_of ts = utc_day ts.
Proof. exact date_of_utc_day. Qed.
Print Assumptions tag_date_is_utc_day.

Theorem tag_date_inside_search_window : forall from ts to,
  0 <= from -> from <= ts -> ts <= to -> to < 65536 * ns_per_day -> utc_day from <= date_of ts <= utc_day to.
Proof. exact date_in_window. Qed.
Print Assumptions tag_date_inside_search_window.

(* the start time of every pushed span is an int64 (what onSpan's expression is applied to) *)
Theorem pushed_times_are_int64 : forall inp ps, pushed_of inp = Some ps -> Forall (fun p => in_int64 (p_ts p) = true) ps.
Proof. exact pushed_ts_int64. Qed.
Print Assumptions pushed_times_are_int64.

(* ---- round 8: ONE service name on both sides of the store (model/SpansSvc.v).
   For every accepted request and every span inside [svc_guard] (Zipkin: every span; OTLP: the service.name attribute the span is stored
   with -- last occurrence among the span's attributes followed by the resource's, or the synthesised one -- is a non-empty string and no
   attribute is named "service"): the read path returns a span for the stored row, the service name it reports (the name the answer groups the
   span under) IS the service_name column of the trace row and the pushed span's service name, and the tag index holds the row
   (service.name, that name) for the span. *)
Theorem read_service_is_row_service : forall inp rows ps,
  decode fixed inp = Some rows -> pushed_of inp = Some ps ->
  Forall2 (fun p sr => svc_guard p = true ->
                       exists r, read_row fixed (in_elems inp) (fst sr) = Some r /\ rs_service r = t_service (fst sr) /\
                                 t_service (fst sr) = p_service p /\ In (k_service, p_service p) (map kv_of (snd sr))) ps rows.
Proof. exact read_service_is_row_service_l. Qed.
Print Assumptions read_service_is_row_service.

(* OTLP, inside the domain: the first-level service.name attribute the read path returns (read_back: rs_attrs = p_attrs) is that same name. *)
Theorem otlp_service_attribute : forall b rows ps,
  decode fixed (InOtlp b) = Some rows -> pushed_of (InOtlp b) = Some ps ->
  Forall (fun p => svc_guard p = true -> lookup k_service (p_attrs p) = Some (AStr (p_service p))) ps.
Proof. exact otlp_service_attribute_l. Qed.
Print Assumptions otlp_service_attribute.

(* The oracle the check evaluates on the implementation's observations ([svc_ok]) accepts the model's own output for EVERY request. *)
Theorem model_meets_service_spec : forall inp, svc_ok (model_case fixed inp) = true.
Proof. exact model_meets_service_spec_l. Qed.
Print Assumptions model_meets_service_spec.

(* The domain is needed: (trace row service_name, name the read path reports) for service.name = 5, for service.name = "" beside
   peer.service = db, and for a resource attribute service = {name: inner} beside the span's service.name = outer; all three outside the guard. *)
Theorem service_names_differ_outside :
  names_of (svc_req [] [("service.name", AInt 5)]) = [("5", no_service)]
  /\ names_of (svc_req [("service.name", AStr "")] [("peer.service", AStr "db")]) = [("", "db")]
  /\ names_of (svc_req [("service", AMap [("name", AStr "inner")])] [("service.name", AStr "outer")]) = [("inner", "outer")]
  /\ guards_of (svc_req [] [("service.name", AInt 5)]) = [false]
  /\ guards_of (svc_req [("service.name", AStr "")] [("peer.service", AStr "db")]) = [false]
  /\ guards_of (svc_req [("service", AMap [("name", AStr "inner")])] [("service.name", AStr "outer")]) = [false].
Proof. exact SpansSvcProofs.service_names_differ_outside. Qed.
Print Assumptions service_names_differ_outside.

(* ---- round 8: what the trace view shows is what the tag index holds (the first symptom of seeded change C06-h as a theorem).
   For every accepted OTLP request and every span: each SCALAR first-level attribute (K, v) of the span the read path returns -- the last occurrence of K among
   the span's attributes followed by the resource's, on both sides -- has the tag row (K, printed v) in the index, provided K is not "name" (indexed under the
   span's name) and no OTHER attribute's dotted flattening (k.0, k.sub, ...) can reach K ([unreached]). *)
Theorem read_attribute_is_indexed : forall b rows ps,
  decode fixed (InOtlp b) = Some rows -> pushed_of (InOtlp b) = Some ps -> in_range (InOtlp b) ->
  Forall2 (fun (p : pushed) sr => exists r, read_row fixed [] (fst sr) = Some r /\
             forall K v str, K <> k_name -> lookup K (rs_attrs r) = Some v -> scalar_str v = Some str ->
                             unreached K (map fst (rs_attrs r)) -> In (K, str) (map kv_of (snd sr))) ps rows.
Proof. exact read_attribute_is_indexed_l. Qed.
Print Assumptions read_attribute_is_indexed.

(* Both side conditions are needed: the list attribute a = [y] after the scalar attribute a.0 = x overwrites the index entry while the trace view shows a.0 = x;
   an attribute called "name" is indexed under the span's name. *)
Theorem shown_attribute_not_indexed_outside :
  let inp := svc_req [("service.name", AStr "s")] [("a.0", AStr "x"); ("a", AList [AStr "y"])] in
  let inp2 := svc_req [("service.name", AStr "s")] [("name", AStr "attr")] in
  shown_of_req inp "a.0" = [Some (AStr "x")] /\ map (lookup "a.0") (tags_of_req inp) = [Some "y"]
  /\ has_prefix ("a" ++ ".") "a.0" = true
  /\ shown_of_req inp2 "name" = [Some (AStr "attr")] /\ map (lookup "name") (tags_of_req inp2) = [Some "GET /x"].
Proof. exact SpansSvcProofs.shown_attribute_not_indexed_outside. Qed.
Print Assumptions shown_attribute_not_indexed_outside.
