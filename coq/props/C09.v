(* Property C09 — a LogQL result does not depend on which engine ran each pipeline stage.
   Only statements; proofs by reference to proofs/InternalEngineProofs.v. *)
From Coq Require Import List ZArith NArith Bool String Ascii.
From Qryn Require Import model.InternalEngine proofs.InternalEngineProofs.
Import ListNotations.
Open Scope Z_scope.

(* line filter, label filter and comparison stages: whatever the batching of the upstream entries,
   the entries sent are exactly those of the flat input that the stage's predicate keeps, in order *)
Theorem batching_invariant_filter_stages :
  forall (V : Type) (v0 : V) (kills : bool) (keep : entry V -> bool) (bs : list (list (entry V))),
    List.concat (wrap V v0 kills (filter_ops V keep) [] bs) = filter keep (List.concat bs).
Proof. intros. rewrite wrap_filter. apply concat_map_filter. Qed.
Print Assumptions batching_invariant_filter_stages.
