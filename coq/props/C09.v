(* Property C09 — a LogQL result does not depend on which engine ran each pipeline stage.
   Only statements; proofs by reference to proofs/InternalEngineProofs.v.
   Every theorem is stated for an arbitrary float type V with arbitrary operations, arbitrary
   oracles (fingerprint, regexp, ParseFloat, json/logfmt decoding, template rendering) and both
   ways a stage panic can end (panic_kills).  A channel is a list of batches; `List.concat bs`
   is the sequence of entries whatever the batching.                                             *)
From Coq Require Import List ZArith NArith Bool String Ascii Permutation Lia.
From Qryn Require Import model.InternalEngine proofs.InternalEngineProofs.
Import ListNotations.
Open Scope Z_scope.

Section C09.
  Variable V : Type.
  Variables (v0 v1 : V) (vadd vdiv : V -> V -> V) (vltb vleb veqb : V -> V -> bool) (vofZ : Z -> V).
  Variable panic_kills : bool.
  Variable fpf : lbls -> N.
  Variable re_match : string -> string -> bool.
  Variable pfloat : string -> option V.
  Variable parse : N -> string -> option lbls.
  Variable tmpl : N -> lbls -> option string.
  Notation run_stage := (run_stage V v0 v1 vadd vdiv vltb vleb veqb vofZ panic_kills fpf re_match pfloat parse tmpl).
  Notation sem_stage := (sem_stage V v0 v1 vadd vdiv vltb vleb veqb vofZ fpf re_match pfloat parse tmpl).

  (* line filter, label filter, comparison: for every batching (empty batches, cuts inside a series)
     the entries sent are those of the flat input the reference semantics keeps, in order *)
  Theorem batching_invariant_line_filter : forall c op val bs,
    List.concat (run_stage c (SLineFilter V op val) bs) = sem_stage c (SLineFilter V op val) (List.concat bs).
  Proof. intros. cbn [InternalEngine.run_stage InternalEngine.sem_stage]. rewrite wrap_filter. apply concat_map_filter. Qed.

  Theorem batching_invariant_label_filter : forall c f bs,
    List.concat (run_stage c (SLabelFilter V f) bs) = sem_stage c (SLabelFilter V f) (List.concat bs).
  Proof. intros. cbn [InternalEngine.run_stage InternalEngine.sem_stage]. rewrite wrap_filter. apply concat_map_filter. Qed.

  Theorem batching_invariant_comparison : forall c op val bs,
    List.concat (run_stage c (SComparison V op val) bs) = sem_stage c (SComparison V op val) (List.concat bs).
  Proof. intros. cbn [InternalEngine.run_stage InternalEngine.sem_stage]. rewrite wrap_filter. apply concat_map_filter. Qed.

  (* label_format, unwrap, drop, by/without: every entry is rewritten by the same function whatever the batching *)
  Theorem batching_invariant_label_format : forall c fs bs,
    List.concat (run_stage c (SLabelFormat V fs) bs) = map (label_format_g V fs) (List.concat bs).
  Proof. intros. cbn [InternalEngine.run_stage]. rewrite (wrap_map_total V v0 panic_kills _ _ (label_format_total V fs)). apply concat_map_map. Qed.

  Theorem batching_invariant_unwrap : forall c label bs,
    List.concat (run_stage c (SUnwrap V label) bs) = map (unwrap_g V pfloat label) (List.concat bs).
  Proof. intros. cbn [InternalEngine.run_stage]. rewrite (wrap_map_total V v0 panic_kills _ _ (unwrap_total V pfloat label)). apply concat_map_map. Qed.

  Theorem batching_invariant_drop : forall c names vals bs,
    List.concat (run_stage c (SDrop V names vals) bs) = map (drop_g V fpf names vals) (List.concat bs).
  Proof. intros. cbn [InternalEngine.run_stage]. rewrite (wrap_map_total V v0 panic_kills _ _ (drop_total V fpf names vals)). apply concat_map_map. Qed.

  Theorem batching_invariant_by_without : forall c by_ names bs,
    List.concat (run_stage c (SByWithout V by_ names) bs) = map (by_without_g V fpf by_ names) (List.concat bs).
  Proof. intros. cbn [InternalEngine.run_stage]. rewrite (wrap_map_total V v0 panic_kills _ _ (by_without_total V fpf by_ names)). apply concat_map_map. Qed.

  (* line_format: an entry is rendered or dropped on its own, whatever the batching; this is the reference semantics
     on entries that carry a label map *)
  Theorem batching_invariant_line_format : forall c id bs,
    List.concat (run_stage c (SLineFormat V id) bs) = flat_map (lf_one V tmpl id) (List.concat bs).
  Proof. intros. cbn [InternalEngine.run_stage]. rewrite wrap_line_format. apply concat_map_flat_map. Qed.

  (* json / logfmt: a line that does not decode fails the request (or kills the process) whatever the batching; otherwise
     every entry is rewritten.  What the client experiences (crash / failure / result) is the same for every batching.     *)
  Theorem batching_invariant_parser : forall c id bs, no_crash_in V bs ->
    outcome_of V (run_stage c (SParser V id) bs) = outcome_of V (run_stage c (SParser V id) [List.concat bs]).
  Proof.
    intros c id bs H. cbn [InternalEngine.run_stage].
    apply (map_stage_outcome V v0 panic_kills (parser_f V fpf parse id)); [apply parser_f_err|apply parser_f_fail|exact H].
  Qed.

  (* limit: the first `limit` entries of the flat input for every batching; 0 = no limit.  sem_limit is also what the
     ClickHouse path does with ctx.Limit (no LIMIT clause for 0, LIMIT n otherwise): the parameter means the same thing
     on both paths.                                                                                                       *)
  Theorem limit_same_meaning : forall c bs, 0 <= c_limit c ->
    List.concat (run_stage c (SLimit V) bs) = sem_limit V (c_limit c) (List.concat bs).
  Proof.
    intros c bs H. cbn [InternalEngine.run_stage]. unfold sem_limit.
    destruct (Z.eqb_spec (c_limit c) 0) as [E|E].
    - rewrite E. now rewrite wrap_limit_zero.
    - rewrite (wrap_limit_pos V v0 panic_kills (c_limit c)) by lia. now rewrite Z.sub_0_r.
  Qed.

  (* range and vector aggregations (LRA, unwrap aggregations, sum/min/max/avg/count): the batches sent are literally the
     same for every batching of the input, error and panic outcomes included                                              *)
  Theorem batching_invariant_aggregation : forall c k dur bs,
    run_stage c (SAgg V k dur) bs = run_stage c (SAgg V k dur) [List.concat bs].
  Proof. intros. cbn [InternalEngine.run_stage]. apply wrap_end_only. intros s b. reflexivity. Qed.

  (* response optimizer: a regrouping — the subsequence of every fingerprint is that of the input, for every batching
     (the order between series is left open by the Go map iteration, and by this statement)                              *)
  Theorem batching_invariant_optimizer : forall c bs f,
    proj V f (List.concat (run_stage c (SOptimizer V) bs)) = proj V f (List.concat bs).
  Proof. intros. cbn [InternalEngine.run_stage]. exact (wrap_optimizer V v0 panic_kills f bs [] 0 I eq_refl). Qed.
End C09.

Print Assumptions batching_invariant_line_filter.
Print Assumptions batching_invariant_label_filter.
Print Assumptions batching_invariant_comparison.
Print Assumptions batching_invariant_label_format.
Print Assumptions batching_invariant_unwrap.
Print Assumptions batching_invariant_drop.
Print Assumptions batching_invariant_by_without.
Print Assumptions batching_invariant_line_format.
Print Assumptions batching_invariant_parser.
Print Assumptions limit_same_meaning.
Print Assumptions batching_invariant_aggregation.
Print Assumptions batching_invariant_optimizer.

(* hash.go: the fingerprint does not depend on the order in which Go ranges over the label map *)
Theorem fingerprint_order_independent : forall (ch64 : string -> N) (m1 m2 : lbls),
  Permutation m1 m2 -> fingerprint ch64 m1 = fingerprint ch64 m2.
Proof. exact fingerprint_perm. Qed.
Print Assumptions fingerprint_order_independent.

(* "distinct label sets stay distinct series" is FALSE of hash.go, for every hash function CH64 (injective or not): key
   and value are joined without a separator *)
Theorem distinct_labels_distinct_series_refuted :
  exists m1 m2 : lbls, m1 <> m2 /\ forall ch64 : string -> N, fingerprint ch64 m1 = fingerprint ch64 m2.
Proof.
  exists [("a", "bc")]%string, [("ab", "c")]%string. split; [discriminate|exact hash_collision_witness].
Qed.
Print Assumptions distinct_labels_distinct_series_refuted.
