(* Property C09 — a LogQL result does not depend on which engine ran each pipeline stage.
   Only statements; proofs by reference to proofs/InternalEngineProofs.v.
   Every theorem is stated for an arbitrary float type V with arbitrary operations, arbitrary
   oracles (fingerprint, regexp, ParseFloat, json/logfmt decoding, template rendering) and both
   ways a stage panic can end (panic_kills).  A channel is a list of batches; `List.concat bs`
   is the sequence of entries whatever the batching.                                             *)
From Coq Require Import List ZArith NArith Bool String Ascii Permutation Lia.
From Qryn Require Import model.InternalEngine proofs.InternalEngineProofs.
Import ListNotations.
Open Scope Z_scope.

Section C09.
  Variable V : Type.
  Variables (v0 v1 : V) (vadd vdiv : V -> V -> V) (vltb vleb veqb : V -> V -> bool) (vofZ : Z -> V).
  Variable panic_kills : bool.
  Variable fpf : lbls -> N.
  Variable re_match : string -> string -> bool.
  Variable pfloat : string -> option V.
  Variable parse : N -> string -> option lbls.
  Variable tmpl : N -> lbls -> option string.
  Notation run_stage := (run_stage V v0 v1 vadd vdiv vltb vleb veqb vofZ panic_kills fpf re_match pfloat parse tmpl).
  Notation sem_stage := (sem_stage V v0 v1 vadd vdiv vltb vleb veqb vofZ fpf re_match pfloat parse tmpl).
  Notation run_chain := (run_chain V v0 v1 vadd vdiv vltb vleb veqb vofZ panic_kills fpf re_match pfloat parse tmpl).
  Notation sem_chain := (sem_chain V v0 v1 vadd vdiv vltb vleb veqb vofZ fpf re_match pfloat parse tmpl).

  (* line filter, label filter, comparison: for every batching (empty batches, cuts inside a series)
     the entries sent are those of the flat input the reference semantics keeps, in order *)
  Theorem batching_invariant_line_filter : forall c op val bs,
    List.concat (run_stage c (SLineFilter V op val) bs) = sem_stage c (SLineFilter V op val) (List.concat bs).
  Proof. intros. cbn [InternalEngine.run_stage InternalEngine.sem_stage]. rewrite wrap_filter. apply concat_map_filter. Qed.

  Theorem batching_invariant_label_filter : forall c f bs,
    List.concat (run_stage c (SLabelFilter V f) bs) = sem_stage c (SLabelFilter V f) (List.concat bs).
  Proof. intros. cbn [InternalEngine.run_stage InternalEngine.sem_stage]. rewrite wrap_filter. apply concat_map_filter. Qed.

  Theorem batching_invariant_comparison : forall c op val bs,
    List.concat (run_stage c (SComparison V op val) bs) = sem_stage c (SComparison V op val) (List.concat bs).
  Proof. intros. cbn [InternalEngine.run_stage InternalEngine.sem_stage]. rewrite wrap_filter. apply concat_map_filter. Qed.

  (* label_format, unwrap, drop, by/without: every entry is rewritten by the same function whatever the batching *)
  Theorem batching_invariant_label_format : forall c fs bs,
    List.concat (run_stage c (SLabelFormat V fs) bs) = map (label_format_g V fpf fs) (List.concat bs).
  Proof. intros. cbn [InternalEngine.run_stage]. rewrite (wrap_map_total V v0 panic_kills _ _ (label_format_total V fpf fs)). apply concat_map_map. Qed.

  Theorem batching_invariant_unwrap : forall c label bs,
    List.concat (run_stage c (SUnwrap V label) bs) = map (unwrap_g V pfloat label) (List.concat bs).
  Proof. intros. cbn [InternalEngine.run_stage]. rewrite (wrap_map_total V v0 panic_kills _ _ (unwrap_total V pfloat label)). apply concat_map_map. Qed.

  Theorem batching_invariant_drop : forall c names vals bs,
    List.concat (run_stage c (SDrop V names vals) bs) = map (drop_g V fpf names vals) (List.concat bs).
  Proof. intros. cbn [InternalEngine.run_stage]. rewrite (wrap_map_total V v0 panic_kills _ _ (drop_total V fpf names vals)). apply concat_map_map. Qed.

  Theorem batching_invariant_by_without : forall c by_ names bs,
    List.concat (run_stage c (SByWithout V by_ names) bs) = map (by_without_g V fpf by_ names) (List.concat bs).
  Proof. intros. cbn [InternalEngine.run_stage]. rewrite (wrap_map_total V v0 panic_kills _ _ (by_without_total V fpf by_ names)). apply concat_map_map. Qed.

  (* line_format: an entry is rendered or dropped on its own, whatever the batching; this is the reference semantics
     on entries that carry a label map *)
  Theorem batching_invariant_line_format : forall c id bs,
    List.concat (run_stage c (SLineFormat V id) bs) = flat_map (lf_one V tmpl id) (List.concat bs).
  Proof. intros. cbn [InternalEngine.run_stage]. rewrite wrap_line_format. apply concat_map_flat_map. Qed.

  (* json / logfmt (after the fix: a line that does not decode keeps its labels instead of failing the request): every entry
     is rewritten by the same function whatever the batching *)
  Theorem batching_invariant_parser : forall c id bs,
    List.concat (run_stage c (SParser V id) bs) = map (parser_g V fpf parse id) (List.concat bs).
  Proof. intros. cbn [InternalEngine.run_stage]. rewrite (wrap_map_total V v0 panic_kills _ _ (parser_total V fpf parse id)). apply concat_map_map. Qed.

  (* limit: the first `limit` entries of the flat input for every batching; 0 = no limit.  sem_limit is also what the
     ClickHouse path does with ctx.Limit (no LIMIT clause for 0, LIMIT n otherwise): the parameter means the same thing
     on both paths.  No hypothesis on the limit: a negative one (the controller passes whatever ParseInt read) sends
     nothing in process, where the ClickHouse path sends `LIMIT -n` to the server.                                        *)
  Theorem limit_same_meaning : forall c bs,
    List.concat (run_stage c (SLimit V) bs) = sem_limit V (c_limit c) (List.concat bs).
  Proof. exact (limit_agrees V v0 v1 vadd vdiv vltb vleb veqb vofZ panic_kills fpf re_match pfloat parse tmpl). Qed.

  (* the side effect of the limit stage: ctx.CancelCtx (which cancels the ClickHouse query feeding the chain) is called
     exactly when the limit is positive and the entries that arrived fill it, for every batching; never for 0 or a negative limit *)
  Theorem limit_cancels_exactly_when_filled : forall c bs,
    limit_cancelled V c bs = (0 <? c_limit c) && (c_limit c <=? Z.of_nat (List.length (List.concat bs))).
  Proof. exact (limit_cancelled_iff V). Qed.

  (* ... and the cancellation loses nothing: whatever the upstream could still have sent after the stage cancelled it
     would not have changed a single entry of what the stage sends *)
  Theorem cancel_loses_nothing : forall c bs more,
    limit_cancelled V c bs = true ->
    List.concat (run_stage c (SLimit V) (bs ++ more)) = List.concat (run_stage c (SLimit V) bs).
  Proof. exact (cancel_loses_nothing V v0 v1 vadd vdiv vltb vleb veqb vofZ panic_kills fpf re_match pfloat parse tmpl). Qed.

  (* range and vector aggregations (LRA, unwrap aggregations, sum/min/max/avg/count): the batches sent are literally the
     same for every batching of the input, error and panic outcomes included                                              *)
  Theorem batching_invariant_aggregation : forall c k dur bs,
    run_stage c (SAgg V k dur) bs = run_stage c (SAgg V k dur) [List.concat bs].
  Proof. intros. cbn [InternalEngine.run_stage]. apply wrap_end_only. intros s b. reflexivity. Qed.

  (* response optimizer: a regrouping — the subsequence of every fingerprint is that of the input, for every batching
     (the order between series is left open by the Go map iteration, and by this statement)                              *)
  Theorem batching_invariant_optimizer : forall c bs f,
    proj V f (List.concat (run_stage c (SOptimizer V) bs)) = proj V f (List.concat bs).
  Proof. intros. cbn [InternalEngine.run_stage]. exact (wrap_optimizer V v0 panic_kills f bs [] 0 I eq_refl). Qed.

  (* stage_meets_definition, for every stage whose reference semantics is per entry or positional (line filter, label
     filter, json / logfmt, label_format, line_format, unwrap, drop, by/without, comparison, limit): on a stream of data rows followed
     by its terminator, in ANY batching, the stage sends the entries the reference semantics prescribes — same
     timestamps, label sets, lines and values in the same order (the fingerprint is not part of the definition) *)
  Theorem stage_meets_definition_simple_stages : forall c s rows t bs,
    simple_stage V s = true ->
    Forall (data_row V) rows -> Forall (terminator V) t -> List.concat bs = rows ++ t ->
    map (erase V) (data_of V (List.concat (run_stage c s bs))) = map (erase V) (sem_stage c s rows).
  Proof. exact (stage_agrees V v0 v1 vadd vdiv vltb vleb veqb vofZ panic_kills fpf re_match pfloat parse tmpl). Qed.

  (* engines_agree, relative to the reference semantics sem_chain of model/InternalEngine.v (the SQL engine's side of the
     statement is the tie of sem_chain to the generated SQL, which belongs to the C07/C08 models): for every chain of
     simple stages, every stream of data rows with its terminator and EVERY batching of it into channel messages, the
     data entries that leave the in-process chain are those of the reference semantics.                                  *)
  Theorem engines_agree : forall c ch rows t bs,
    forallb (simple_stage V) ch = true ->
    Forall (data_row V) rows -> Forall (terminator V) t -> List.concat bs = rows ++ t ->
    map (erase V) (data_of V (List.concat (run_chain c ch bs))) = map (erase V) (sem_chain c ch (List.concat bs)).
  Proof. exact (chain_agrees V v0 v1 vadd vdiv vltb vleb veqb vofZ panic_kills fpf re_match pfloat parse tmpl). Qed.

  (* the bucket arrays of the aggregators (per-series arrays indexed by window): when the stage does not fail (fewer than
     2000 series), for EVERY batching and every interleaving of series and buckets, the entries sent under fingerprint f
     are one entry per non-empty bucket, whose value is the finalised left fold of the function's update over exactly the
     entries of that fingerprint that fall into that bucket, in arrival order (series_out); series are never mixed *)
  Theorem aggregation_buckets : forall c k dur bs ss l',
    agg_covered k = true -> agg_input_ok V c dur (List.concat bs) -> 0 <= stream_len c dur ->
    fold_entries V (agg_ops V v0 v1 vadd vdiv vltb veqb vofZ k c dur) [] (List.concat bs) = Ok (ss, l') ->
    forall f, proj V f (List.concat (run_stage c (SAgg V k dur) bs)) =
              match proj V f (List.concat bs) with
              | [] => []
              | e0 :: _ => series_out V v0 v1 vadd vdiv vltb veqb vofZ k c dur f (e_lbl V e0) (List.concat bs)
              end.
  Proof.
    intros c k dur bs ss l' Hk Hin HN Hf f. cbn [InternalEngine.run_stage].
    rewrite (wrap_end_only V v0 panic_kills (agg_ops V v0 v1 vadd vdiv vltb veqb vofZ k c dur) (fun s b => eq_refl) bs []).
    exact (agg_output V v0 v1 vadd vdiv vltb veqb vofZ panic_kills k c dur (List.concat bs) ss l' Hk Hin HN Hf f).
  Qed.

  (* stage_meets_definition for range and vector aggregation (rate, count_over_time, bytes_rate, bytes_over_time, unwrapped
     rate / sum / avg / max / min / first / last _over_time, absent_over_time, sum / min / max / avg / count): for every batching, every label
     set m whose entries are exactly the entries carrying fingerprint fpf m (what the parser and by/without stages
     establish, and what hash.go breaks for colliding sets), the stage sends for that series exactly the reference's
     buckets: same timestamps, same values, same labels.  The float facts used are listed as hypotheses.                 *)
  Theorem stage_meets_definition_aggregation :
    vltb v0 v0 = false -> vltb v0 v1 = true -> veqb v0 v0 = true -> veqb v1 v0 = false -> vltb v0 (vadd v0 v1) = true ->
    (forall x, vltb v0 x = true -> vltb v0 (vadd x v1) = true) -> (forall x, vltb v0 x = true -> veqb x v0 = false) ->
    forall k c dur bs ss l' m e0 rest,
    agg_covered k = true -> agg_input_ok V c dur (List.concat bs) ->
    fold_entries V (agg_ops V v0 v1 vadd vdiv vltb veqb vofZ k c dur) [] (List.concat bs) = Ok (ss, l') ->
    (forall e, In e (List.concat bs) -> N.eqb (e_fp V e) (fpf m) = lbls_eqb (lbl_of V e) m) ->
    proj V (fpf m) (List.concat bs) = e0 :: rest -> e_lbl V e0 = Some m ->
    proj V (fpf m) (List.concat (run_stage c (SAgg V k dur) bs)) =
    sem_buckets V v0 v1 vadd vdiv vltb vofZ fpf k c dur m (filter (fun e => lbls_eqb (lbl_of V e) m) (List.concat bs)) 0 (Z.to_nat (stream_len c dur)).
  Proof. exact (agg_meets_definition V v0 v1 vadd vdiv vltb vleb veqb vofZ panic_kills fpf re_match pfloat parse tmpl). Qed.

End C09.

Print Assumptions batching_invariant_line_filter.
Print Assumptions batching_invariant_label_filter.
Print Assumptions batching_invariant_comparison.
Print Assumptions batching_invariant_label_format.
Print Assumptions batching_invariant_unwrap.
Print Assumptions batching_invariant_drop.
Print Assumptions batching_invariant_by_without.
Print Assumptions batching_invariant_line_format.
Print Assumptions batching_invariant_parser.
Print Assumptions limit_same_meaning.
Print Assumptions limit_cancels_exactly_when_filled.
Print Assumptions cancel_loses_nothing.
Print Assumptions batching_invariant_aggregation.
Print Assumptions batching_invariant_optimizer.
Print Assumptions stage_meets_definition_simple_stages.
Print Assumptions engines_agree.
Print Assumptions aggregation_buckets.
Print Assumptions stage_meets_definition_aggregation.

(* hash.go: the fingerprint does not depend on the order in which Go ranges over the label map *)
Theorem fingerprint_order_independent : forall (ch64 : string -> N) (m1 m2 : lbls),
  Permutation m1 m2 -> fingerprint ch64 m1 = fingerprint ch64 m2.
Proof. exact fingerprint_perm. Qed.
Print Assumptions fingerprint_order_independent.

(* distinct label sets stay distinct series (after the fix of hash.go: key and value are hashed separately; before it
   {a:"bc"} and {ab:"c"} had one fingerprint for EVERY CH64).  A 64-bit hash of unbounded strings cannot be injective, so the
   hypotheses name exactly the collisions that must not happen.
   (1) Whenever CH64 does not collide on the two 24-byte descriptors, equal fingerprints force equal descriptors, i.e. the
       same sum, xor and product of the per-label hashes: all a fingerprint can ever tell about a label set.              *)
Theorem fingerprint_equal_means_descriptor_equal : forall (ch64 : string -> N) (m1 m2 : lbls),
  (w64 (ch64 (descr_of ch64 m1)) = w64 (ch64 (descr_of ch64 m2)) -> descr_of ch64 m1 = descr_of ch64 m2) ->
  fingerprint ch64 m1 = fingerprint ch64 m2 ->
  let '(a, b, c) := fp_descr ch64 m1 in let '(a', b', c') := fp_descr ch64 m2 in w64 a = w64 a' /\ w64 b = w64 b' /\ w64 c = w64 c'.
Proof. exact fingerprint_to_descr. Qed.
Print Assumptions fingerprint_equal_means_descriptor_equal.

(* (2) one-label sets: different (key, value) pairs are different series unless CH64 collides on the descriptors or the
       per-label hash collides on the two pairs.  The witness of the old defect, ("a","bc") against ("ab","c"), is an
       instance: the key/value boundary is now part of what is hashed.                                                 *)
Theorem distinct_labels_distinct_series : forall (ch64 : string -> N) (k v k' v' : string),
  (w64 (ch64 (descr_of ch64 [(k, v)])) = w64 (ch64 (descr_of ch64 [(k', v')])) -> descr_of ch64 [(k, v)] = descr_of ch64 [(k', v')]) ->
  (pair_hash ch64 (k, v) = pair_hash ch64 (k', v') -> (k, v) = (k', v')) ->
  fingerprint ch64 [(k, v)] = fingerprint ch64 [(k', v')] -> (k, v) = (k', v').
Proof. exact singleton_distinct. Qed.
Print Assumptions distinct_labels_distinct_series.

(* the hypotheses are satisfiable on the old witness: with CH64 := the numeric value of the first two bytes the two label
   sets {a:"bc"} and {ab:"c"} get different fingerprints *)
Example old_collision_witness_now_distinct :
  let h := fun s : string => match s with
                             | String a (String b _) => (N_of_ascii a * 256 + N_of_ascii b)%N
                             | String a EmptyString => N_of_ascii a
                             | EmptyString => 0%N
                             end in
  fingerprint h [("a", "bc")]%string <> fingerprint h [("ab", "c")]%string.
Proof. cbv zeta. vm_compute. discriminate. Qed.

(* planner.go GetBreakpoint / breakScript: the pipeline is cut in two without loss or reordering, ClickHouse is never handed
   a stage it cannot run (json without parameters, logfmt, line_format), and the in-process part — when there is one —
   starts at the first such stage                                                                                     *)
Theorem split_point_is_first_unsupported_stage : forall (absent : bool) (ps : list pipe),
  clickhouse_pipes absent ps ++ internal_pipes absent ps = ps /\
  forallb (fun p => negb (breaking p)) (clickhouse_pipes absent ps) = true /\
  match internal_pipes absent ps with [] => True | p :: _ => breaking p = true end.
Proof. exact split_sound. Qed.
Print Assumptions split_point_is_first_unsupported_stage.

(* the float facts assumed by stage_meets_definition_aggregation are satisfiable (here by the integers; they are the
   IEEE binary64 facts 0 < 1, 0 = 0, 1 <> 0, 0 < 0 + 1, x > 0 -> x + 1 > 0, x > 0 -> x <> 0) *)
Example float_facts_satisfiable :
  Z.ltb 0 0 = false /\ Z.ltb 0 1 = true /\ Z.eqb 0 0 = true /\ Z.eqb 1 0 = false /\ Z.ltb 0 (0 + 1) = true /\
  (forall x, Z.ltb 0 x = true -> Z.ltb 0 (x + 1) = true) /\ (forall x, Z.ltb 0 x = true -> Z.eqb x 0 = false).
Proof.
  repeat split; try reflexivity; intros x H; apply Z.ltb_lt in H; [apply Z.ltb_lt|apply Z.eqb_neq]; lia.
Qed.

(* the hypotheses of the aggregation theorems are met by a non-trivial input: min_over_time over a 20 s window of two
   10 s buckets, three entries of one series in two batches, two of them in the same bucket *)
Example aggregation_hypotheses_met :
  let m := [("a", "b")]%string in
  let mk := fun ts v => {| e_ts := ts; e_fp := 5%N; e_lbl := Some m; e_msg := EmptyString; e_val := v; e_err := ENone |} in
  let c := {| c_from := 0; c_to := 20; c_limit := 0 |} in
  let bs := [[mk 1 3; mk 12 7]; [mk 2 1]] in
  agg_covered (KUnwrap UMin) = true /\ agg_input_ok Z c 10 (List.concat bs) /\
  (exists ss l', fold_entries Z (agg_ops Z 0 1 Z.add Z.div Z.ltb Z.eqb (fun z => z) (KUnwrap UMin) c 10) [] (List.concat bs) = Ok (ss, l')) /\
  (forall e, In e (List.concat bs) -> N.eqb (e_fp Z e) 5%N = lbls_eqb (lbl_of Z e) m) /\
  proj Z 5%N (List.concat bs) = mk 1 3 :: [mk 12 7; mk 2 1] /\
  List.concat (run_stage Z 0 1 Z.add Z.div Z.ltb Z.leb Z.eqb (fun z => z) false (fun _ => 5%N) (fun _ _ => false) (fun _ => None)
                         (fun _ _ => None) (fun _ _ => None) c (SAgg Z (KUnwrap UMin) 10) bs)
  = [{| e_ts := 0; e_fp := 5%N; e_lbl := Some m; e_msg := EmptyString; e_val := 1; e_err := ENone |};
     {| e_ts := 10; e_fp := 5%N; e_lbl := Some m; e_msg := EmptyString; e_val := 7; e_err := ENone |}].
Proof.
  cbv zeta. split; [reflexivity|]. split.
  - repeat constructor; cbn; lia.
  - split; [eexists; eexists; vm_compute; reflexivity|]. split.
    + intros e [<-|[<-|[<-|[]]]]; reflexivity.
    + split; vm_compute; reflexivity.
Qed.

(* the hypotheses of the agreement theorems are met by a non-trivial stream: two rows of two series, an io.EOF
   terminator, three batches one of which is empty, a chain with the json/logfmt stage in front *)
Example agreement_hypotheses_met :
  let r1 := {| e_ts := 1; e_fp := 7%N; e_lbl := Some [("app", "x")]%string; e_msg := "a=1"%string; e_val := 0; e_err := ENone |} in
  let r2 := {| e_ts := 2; e_fp := 8%N; e_lbl := Some [("app", "y")]%string; e_msg := "a=2"%string; e_val := 0; e_err := ENone |} in
  let eof := {| e_ts := 0; e_fp := 0%N; e_lbl := None; e_msg := EmptyString; e_val := 0; e_err := EEof |} in
  let ch := [SParser Z 0%N; SLineFilter Z LfContains "a"%string; SLabelFormat Z [LFConst "k" "v"]%string; SLimit Z] in
  Forall (data_row Z) [r1; r2] /\ Forall (terminator Z) [eof] /\
  List.concat [[r1]; []; [r2; eof]] = [r1; r2] ++ [eof] /\ forallb (simple_stage Z) ch = true.
Proof.
  cbv zeta. repeat split; try (repeat constructor; try eexists; try reflexivity; try discriminate).
Qed.

(* ============================================================================================================== *)
(* "... and as the SQL engine does for the stages both implement": line filter, label filter, json with parameters and
   drop are run by ClickHouse when they stand in front of the first json / logfmt / line_format stage and in process
   when they stand behind it.  The meaning of the SQL side is C07's reference run_stages / logql_sem2
   (model/LogqlSem.v; tied to the generated SQL by C07's theorems), the meaning of the in-process side is sem_chain
   (tied to the Go stages by engines_agree).  model/InternalEngineSql.v translates a pipeline of C07's syntax into a
   chain of in-process stages (tr_chain), instantiates float64 with the rationals C07 compares with and links the
   oracles (regexp with swapped arguments, one number parser).                                                      *)
From Qryn Require model.Logql model.LogqlSem model.InternalEngineSql proofs.InternalEngineSqlProofs.
Module B := InternalEngineSql.

(* (1) the two REFERENCES coincide: for every pipeline of common stages in any order, every list of data rows whose label
   maps are those of the SQL side's samples (same pairs; the SQL side holds them in any order without duplicate names, the
   in-process side sorted), the in-process reference returns exactly the lines C07's reference defines, in the same
   order, each with the same timestamp, the same text and the same label map -- provided the json decoders are linked
   (decoders_linked: the in-process decoder assigns to every parameter label what the ClickHouse extraction writes).   *)
Theorem sql_and_inprocess_references_agree :
  forall (re7 : string -> string -> bool) (pf : string -> option QArith_base.Q)
         (json_get : string -> list string -> string) (hash_labels : LogqlSem.labels -> Z)
         (parse9 : N -> string -> option lbls) (q0 q1 : QArith_base.Q) (qadd qdiv : QArith_base.Q -> QArith_base.Q -> QArith_base.Q)
         (qofZ : Z -> QArith_base.Q) (fpf : lbls -> N) (tmpl : N -> lbls -> option string),
    pf EmptyString = None ->
    forall (c : ctx) (ppl : list Logql.stage) (rows : list (entry QArith_base.Q)) (xs : list (Z * LogqlSem.labels * Z * string)),
      forallb B.common_stage ppl = true ->
      B.decoders_linked json_get parse9 0%N ppl ->
      Forall2 B.row_matches rows xs ->
      Forall2 B.out_matches
        (fold_left (fun x s => sem_stage QArith_base.Q q0 q1 qadd qdiv B.qltb B.qleb B.qeqb qofZ fpf (B.re9 re7) pf parse9 tmpl c s x)
                   (B.tr_chain pf 0%N ppl) rows)
        (B.sql_rows re7 pf json_get hash_labels ppl xs).
Proof. exact InternalEngineSqlProofs.refs_agree. Qed.
Print Assumptions sql_and_inprocess_references_agree.

(* (2) composed with engines_agree: what the in-process ENGINE sends (the Go stages as modelled by run_chain, any batching
   of the rows and their terminator into channel messages) is what the SQL reference defines.  Together with C07's
   theorem (the generated SQL evaluates to logql_sem2 = these rows) this is one statement about SQL results against
   in-process results for the stages both engines implement.                                                          *)
Theorem inprocess_engine_agrees_with_sql_reference :
  forall (re7 : string -> string -> bool) (pf : string -> option QArith_base.Q)
         (json_get : string -> list string -> string) (hash_labels : LogqlSem.labels -> Z)
         (parse9 : N -> string -> option lbls) (q0 q1 : QArith_base.Q) (qadd qdiv : QArith_base.Q -> QArith_base.Q -> QArith_base.Q)
         (qofZ : Z -> QArith_base.Q) (fpf : lbls -> N) (tmpl : N -> lbls -> option string),
    pf EmptyString = None ->
    forall (panic_kills : bool) (c : ctx) (ppl : list Logql.stage) (bs : list (list (entry QArith_base.Q)))
           (rows t : list (entry QArith_base.Q)) (xs : list (Z * LogqlSem.labels * Z * string)),
      forallb B.common_stage ppl = true ->
      B.decoders_linked json_get parse9 0%N ppl ->
      Forall2 B.row_matches rows xs -> Forall (terminator QArith_base.Q) t -> List.concat bs = rows ++ t ->
      exists out,
        map (erase QArith_base.Q)
            (data_of QArith_base.Q (List.concat (run_chain QArith_base.Q q0 q1 qadd qdiv B.qltb B.qleb B.qeqb qofZ panic_kills fpf (B.re9 re7) pf parse9 tmpl c
                                                             (B.tr_chain pf 0%N ppl) bs)))
        = map (erase QArith_base.Q) out /\
        Forall2 B.out_matches out (B.sql_rows re7 pf json_get hash_labels ppl xs).
Proof. exact InternalEngineSqlProofs.engine_vs_sql. Qed.
Print Assumptions inprocess_engine_agrees_with_sql_reference.

(* "the same label map" is the same multiset of pairs *)
Theorem same_map_is_permutation : forall (ls : LogqlSem.labels) (m : lbls), B.same_map ls m -> Permutation ls m.
Proof. exact InternalEngineSqlProofs.same_map_perm. Qed.
Print Assumptions same_map_is_permutation.

Open Scope string_scope.
(* the hypotheses are met by a non-trivial pipeline: a label filter with `and`, a json stage with a parameter, a drop and
   a line filter over two rows; the linked decoder is the one that writes what json_get extracts *)
Example references_agree_hypotheses_met :
  let jp := {| Logql.pp_label := "lvl"; Logql.pp_val := "level"; Logql.pp_path := Some ["level"] |}%string in
  let flt := Logql.LF (Logql.HSimple {| Logql.slf_label := "app"; Logql.slf_fn := Logql.LEq; Logql.slf_str := Some "x"; Logql.slf_num := None |})
                      (Some true)
                      (Some (Logql.LF (Logql.HSimple {| Logql.slf_label := "n"; Logql.slf_fn := Logql.LGt; Logql.slf_str := None; Logql.slf_num := Some ("1", "1.000000") |}) None None)) in
  let ppl := [Logql.PParser Logql.PJson [jp]; Logql.PLabelFilter flt; Logql.PDrop [("pod", None)]; Logql.PLineFilter Logql.LFContains "e" None]%string in
  let json_get := fun (line : string) (p : list string) => if String.eqb line "{""level"":""err""}" then "err"%string else EmptyString in
  let parse9 := fun (i : N) (line : string) => Some (filter SqlEval.nonempty_kv [("lvl", json_get line ["level"])]%string) in
  let r1 := {| e_ts := 1; e_fp := 7%N; e_lbl := Some [("app", "x"); ("n", "2"); ("pod", "p1")]%string; e_msg := "{""level"":""err""}"%string;
               e_val := (QArith_base.Qmake 0 1); e_err := ENone |} in
  forallb B.common_stage ppl = true /\ B.decoders_linked json_get parse9 0%N ppl /\
  B.row_matches r1 (1, [("pod", "p1"); ("app", "x"); ("n", "2")]%string, 7, "{""level"":""err""}"%string).
Proof.
  cbv zeta. split; [reflexivity|]. split.
  - cbn. repeat split; intros; reflexivity.
  - cbn. repeat split; try reflexivity. eexists. split; [reflexivity|]. split.
    + repeat constructor; cbn; intuition discriminate.
    + split.
      * cbn. repeat split; intros k' H; repeat (destruct H as [<-|H]; [reflexivity|]); destruct H.
      * intros a b. cbn. intuition.
Qed.

(* a missing path: since the repairs json-missing-path-overwrites (ClickHouse path: mapFilter((k,v) -> v != '', ...)) and
   json-empty-value-overwrites (in-process walker) an extraction that finds nothing writes no label on EITHER path.  Before
   them the ClickHouse extraction wrote "" over the label (C07's reference said so) while jsonWithParams left it alone, and
   the link between the decoders was false for every missing path (the former Example decoders_differ_on_a_missing_path:
   `{app="x"} | json app="missing"` on the line {"a":"b"} gave app="" on the SQL path and app="x" in process and in Loki).
   Now both references keep the stream label `app`, and the linked in-process decoder is the one that returns no pair. *)
Example missing_path_keeps_the_label_on_both_paths :
  let jp := {| Logql.pp_label := "app"; Logql.pp_val := "missing"; Logql.pp_path := Some ["missing"] |}%string in
  let ppl := [Logql.PParser Logql.PJson [jp]] in
  let json_get := fun (line : string) (p : list string) => EmptyString in
  let parse9 := fun (i : N) (line : string) => Some (@nil (string * string)) in
  let r1 := {| e_ts := 1; e_fp := 7%N; e_lbl := Some [("app", "x")]%string; e_msg := "{""a"":""b""}"%string; e_val := (QArith_base.Qmake 0 1); e_err := ENone |} in
  B.decoders_linked json_get parse9 0%N ppl /\
  B.sql_rows (fun _ _ => false) (fun _ => None) json_get (fun _ => 0) ppl [(1, [("app", "x")]%string, 7, "{""a"":""b""}"%string)]
    = [(1, [("app", "x")]%string, "{""a"":""b""}"%string)] /\
  map (fun e => (e_ts _ e, lbl_of _ e, e_msg _ e))
      (fold_left (fun x s => sem_stage QArith_base.Q (QArith_base.Qmake 0 1) (QArith_base.Qmake 1 1) QArith_base.Qplus QArith_base.Qdiv B.qltb B.qleb B.qeqb QArith_base.inject_Z (fun _ => 0%N) (B.re9 (fun _ _ => false)) (fun _ => None) parse9 (fun _ _ => None)
                                       {| c_from := 0; c_to := 10; c_limit := 0 |} s x)
                 (B.tr_chain (fun _ => None) 0%N ppl) [r1])
    = [(1, [("app", "x")]%string, "{""a"":""b""}"%string)].
Proof. cbv zeta. split; [cbn; split; [intros; reflexivity|exact I]|]. split; reflexivity. Qed.

(* ============================================================================================================== *)
(* results as a whole, series order unspecified (Go iterates maps in any order)                                      *)
From Qryn Require proofs.InternalEngineAggProofs.
Section C09_WHOLE.
  Variable V : Type.
  Variables (v0 v1 : V) (vadd vdiv : V -> V -> V) (vltb vleb veqb : V -> V -> bool) (vofZ : Z -> V).
  Variable panic_kills : bool.
  Variable fpf : lbls -> N.
  Variable re_match : string -> string -> bool.
  Variable pfloat : string -> option V.
  Variable parse : N -> string -> option lbls.
  Variable tmpl : N -> lbls -> option string.
  Notation run_stage := (run_stage V v0 v1 vadd vdiv vltb vleb veqb vofZ panic_kills fpf re_match pfloat parse tmpl).
  Notation run_chain := (run_chain V v0 v1 vadd vdiv vltb vleb veqb vofZ panic_kills fpf re_match pfloat parse tmpl).
  Notation sem_chain := (sem_chain V v0 v1 vadd vdiv vltb vleb veqb vofZ fpf re_match pfloat parse tmpl).

  (* the response optimizer sends a permutation of what it received: nothing lost, nothing duplicated, for every batching
     and any number of 3000-entry flushes (with batching_invariant_optimizer: the order inside every series is kept)   *)
  Theorem optimizer_sends_a_permutation : forall c bs,
    Permutation (List.concat (run_stage c (SOptimizer V) bs)) (List.concat bs).
  Proof. exact (InternalEngineAggProofs.optimizer_permutation V v0 v1 vadd vdiv vltb vleb veqb vofZ panic_kills fpf re_match pfloat parse tmpl). Qed.

  (* a log request as a whole -- any chain of per-entry stages with the limit stage anywhere in it, then the response
     optimizer, exactly what internal_planner.Plan builds -- returns a permutation of what the reference semantics defines
     (every limit value, every batching, flushes included), and inside every series the order of the chain's output     *)
  Theorem log_request_whole_result : forall c ch rows t bs,
    forallb (simple_stage V) ch = true ->
    Forall (data_row V) rows -> Forall (terminator V) t -> List.concat bs = (rows ++ t)%list ->
    Permutation (map (erase V) (data_of V (List.concat (run_chain c (ch ++ [SOptimizer V])%list bs))))
                (map (erase V) (sem_chain c ch (List.concat bs))) /\
    forall f, proj V f (data_of V (List.concat (run_chain c (ch ++ [SOptimizer V])%list bs))) =
              proj V f (data_of V (List.concat (run_chain c ch bs))).
  Proof. exact (InternalEngineAggProofs.log_chain_whole V v0 v1 vadd vdiv vltb vleb veqb vofZ panic_kills fpf re_match pfloat parse tmpl). Qed.
End C09_WHOLE.
Print Assumptions optimizer_sends_a_permutation.
Print Assumptions log_request_whole_result.

(* hypotheses met: a parser, a label_format, the limit (2 of 3 rows) and the optimizer over three rows of two series *)
Example log_request_hypotheses_met :
  let mk := fun ts fp m msg => {| e_ts := ts; e_fp := fp; e_lbl := Some m; e_msg := msg; e_val := 0; e_err := ENone |} in
  let rows := [mk 1 7%N [("app", "x")] "a=1"; mk 2 8%N [("app", "y")] "a=2"; mk 3 7%N [("app", "x")] "a=3"] in
  let eof := {| e_ts := 0; e_fp := 0%N; e_lbl := None; e_msg := EmptyString; e_val := 0; e_err := EEof |} in
  let ch := [SParser Z 0%N; SLabelFormat Z [LFConst "k" "v"]; SLimit Z] in
  Forall (data_row Z) rows /\ Forall (terminator Z) [eof] /\ forallb (simple_stage Z) ch = true /\
  List.length (data_of Z (List.concat (run_chain Z 0 1 Z.add Z.div Z.ltb Z.leb Z.eqb (fun z => z) false (fun m => N.of_nat (List.length m)) (fun _ _ => false)
                                     (fun _ => None) (fun _ _ => None) (fun _ _ => None) {| c_from := 0; c_to := 10; c_limit := 2 |}
                                     (ch ++ [SOptimizer Z])%list [[mk 1 7%N [("app", "x")] "a=1"]; [mk 2 8%N [("app", "y")] "a=2"; mk 3 7%N [("app", "x")] "a=3"; eof]]))) = 2%nat.
Proof.
  cbv zeta. split; [repeat constructor; eexists; reflexivity|]. split; [repeat constructor; discriminate|]. split; reflexivity.
Qed.

(* ============================================================================================================== *)
(* the aggregation stage as a whole: ONE list against sem_agg (series order unspecified), io.EOF entries inside     *)
From Qryn Require proofs.InternalEngineAggWholeProofs.
Module W := InternalEngineAggWholeProofs.
Section C09_AGG_WHOLE.
  Variable V : Type.
  Variables (v0 v1 : V) (vadd vdiv : V -> V -> V) (vltb vleb veqb : V -> V -> bool) (vofZ : Z -> V).
  Variable panic_kills : bool.
  Variable fpf : lbls -> N.
  Variable re_match : string -> string -> bool.
  Variable pfloat : string -> option V.
  Variable parse : N -> string -> option lbls.
  Variable tmpl : N -> lbls -> option string.
  Notation run_stage := (run_stage V v0 v1 vadd vdiv vltb vleb veqb vofZ panic_kills fpf re_match pfloat parse tmpl).

  (* range and vector aggregation (all 16 functions and absent_over_time) as a whole result: the upstream is any stream
     of data rows inside the window and io.EOF entries (the entry that ends every ClickHouse result -- anywhere, in any
     batching; W.agg_stream_ok), the rows carry a label map, the upstream gives one fingerprint to one label set and one
     label set to one fingerprint (W.one_fp_per_set: what ClickHouse delivers and what the parser / by-without stages
     establish; no link to hash.go is needed), there are at most 2000 series (W.fps: the distinct fingerprints), and the
     window is made of whole buckets (needed for absent_over_time only).  Then the stage does NOT fail (no hypothesis
     "the fold succeeded" any more), sends data entries only, and what it sends is, as ONE list, a permutation of what
     the reference sem_agg defines for the data rows: same timestamps, label sets, values; the order between series is
     Go's ascending fingerprint against the reference's first appearance, hence unspecified; the fingerprint itself is
     not part of the definition (erase).                                                                                *)
  Theorem aggregation_whole_result :
    vltb v0 v0 = false -> vltb v0 v1 = true -> veqb v0 v0 = true -> veqb v1 v0 = false -> vltb v0 (vadd v0 v1) = true ->
    (forall x, vltb v0 x = true -> vltb v0 (vadd x v1) = true) -> (forall x, vltb v0 x = true -> veqb x v0 = false) ->
    forall k c dur bs,
    agg_covered k = true ->
    W.agg_stream_ok V c dur (List.concat bs) ->
    Forall (data_row V) (data_of V (List.concat bs)) ->
    W.one_fp_per_set V (data_of V (List.concat bs)) ->
    (List.length (W.fps V (data_of V (List.concat bs))) <= 2000)%nat ->
    agg_specified k = true \/ c_to c - c_from c = stream_len c dur * dur ->
    Forall (fun e => e_err V e = ENone) (List.concat (run_stage c (SAgg V k dur) bs)) /\
    Permutation (map (erase V) (List.concat (run_stage c (SAgg V k dur) bs)))
                (map (erase V) (sem_agg V v0 v1 vadd vdiv vltb vofZ fpf k c dur (data_of V (List.concat bs)))).
  Proof. exact (W.agg_whole_stmt V v0 v1 vadd vdiv vltb vleb veqb vofZ panic_kills re_match pfloat parse tmpl fpf). Qed.
End C09_AGG_WHOLE.
Print Assumptions aggregation_whole_result.

(* hypotheses met by a non-trivial stream: min_over_time over a 20 s window of two 10 s buckets, two series whose
   fingerprints (9 and 5) are not hash.go's and come in the order opposite to Go's output order, an io.EOF entry in the
   middle and one at the end, three batches; the stage sends the series of fingerprint 5 first, the reference the label
   set {a="b"} (fingerprint 9) first: a permutation that is not the identity *)
Example aggregation_whole_hypotheses_met :
  let mk := fun ts fp m v => {| e_ts := ts; e_fp := fp; e_lbl := Some m; e_msg := EmptyString; e_val := v; e_err := ENone |} in
  let eof := {| e_ts := 0; e_fp := 0%N; e_lbl := None; e_msg := EmptyString; e_val := 0; e_err := EEof |} in
  let c := {| c_from := 0; c_to := 20; c_limit := 0 |} in
  let bs := [[mk 1 9%N [("a", "b")] 3; mk 12 5%N [("a", "c")] 7]; [eof; mk 2 9%N [("a", "b")] 1]; [mk 3 5%N [("a", "c")] 4; eof]] in
  let fpf := fun m : lbls => N.of_nat (List.length m) in
  agg_covered (KUnwrap UMin) = true /\ W.agg_stream_ok Z c 10 (List.concat bs) /\ Forall (data_row Z) (data_of Z (List.concat bs)) /\
  W.one_fp_per_set Z (data_of Z (List.concat bs)) /\ (List.length (W.fps Z (data_of Z (List.concat bs))) <= 2000)%nat /\
  map (erase Z) (List.concat (run_stage Z 0 1 Z.add Z.div Z.ltb Z.leb Z.eqb (fun z => z) false fpf (fun _ _ => false) (fun _ => None)
                         (fun _ _ => None) (fun _ _ => None) c (SAgg Z (KUnwrap UMin) 10) bs))
  = [(0, Some [("a", "c")], EmptyString, 4, ENone); (10, Some [("a", "c")], EmptyString, 7, ENone); (0, Some [("a", "b")], EmptyString, 1, ENone)] /\
  map (erase Z) (sem_agg Z 0 1 Z.add Z.div Z.ltb (fun z => z) fpf (KUnwrap UMin) c 10 (data_of Z (List.concat bs)))
  = [(0, Some [("a", "b")], EmptyString, 1, ENone); (0, Some [("a", "c")], EmptyString, 4, ENone); (10, Some [("a", "c")], EmptyString, 7, ENone)].
Proof.
  cbv zeta. split; [reflexivity|]. split.
  { repeat (constructor; [first [right; reflexivity | left; split; [reflexivity|unfold in_window, stream_len; cbn; lia]]|]). constructor. }
  split; [repeat constructor; eexists; reflexivity|]. split.
  { intros a b Ha Hb. cbn in Ha, Hb.
    repeat (destruct Ha as [<-|Ha]; [repeat (destruct Hb as [<-|Hb]; [cbn; split; intros H; try reflexivity; try discriminate H|]); destruct Hb|]).
    destruct Ha. }
  split; [vm_compute; lia|]. split; vm_compute; reflexivity.
Qed.

(* ============================================================================================================== *)
(* the json stage's own code over a JSON value tree (model/InternalJson.v; the byte-level decoder jx is the oracle that
   yields the tree, checks/c09.py ties json_decode to the real stage on every generated (parameters, line) row)     *)
From Qryn Require model.InternalJson.
Module J := InternalJson.

(* `| json` on {"a":{"b.c":"1","k-2":{"z":7}},"a_b_c":"2","l":[1,2],"é":null}: nested names are joined with "_" and
   sanitised (one "_" per rune outside [a-zA-Z0-9_]), a later assignment to the same name wins, arrays are skipped,
   scalars keep their raw text *)
Example json_flattening_example :
  J.json_all (J.JObj [("a", J.JObj [("b.c", J.JStr "1"); ("k-2", J.JObj [("z", J.JRaw "7")])]); ("a_b_c", J.JStr "2");
                      ("l", J.JArr [J.JRaw "1"; J.JRaw "2"]); (String (ascii_of_N 195) (String (ascii_of_N 169) EmptyString), J.JRaw "null")])
  = Some [("_", "null"); ("a_b_c", "2"); ("a_k_2_z", "7")].
Proof. vm_compute. reflexivity. Qed.

(* `| json x="a[1].q", y="a", app="missing", z="s"` on {"a":[0,{"q":"v"}],"s":""}: one pass finds x; y ends at an array and
   app at nothing: no label; z meets an empty string: no label (since 7f68b19) -- and the per-path reference agrees *)
Example json_params_example :
  let doc := J.JObj [("a", J.JArr [J.JRaw "0"; J.JObj [("q", J.JStr "v")]]); ("s", J.JStr "")] in
  let ps := [("x", [J.PKey "a"; J.PIdx 1; J.PKey "q"]); ("y", [J.PKey "a"]); ("app", [J.PKey "missing"]); ("z", [J.PKey "s"])] in
  J.json_params ps doc = [("x", "v")] /\ map (fun a => J.jlookup doc (snd a)) ps = [Some "v"; None; None; None].
Proof. vm_compute. split; reflexivity. Qed.

(* ============================================================================================================== *)
(* round 4: a metric request as a whole -- the chain of per-entry stages (filters, json / logfmt, label_format, line_format,
   unwrap, drop, by/without, comparison, limit) composed with the aggregation stage behind it                        *)
From Qryn Require proofs.InternalEngineMetricProofs.
Module MP := InternalEngineMetricProofs.
Section C09_METRIC_WHOLE.
  Variable V : Type.
  Variables (v0 v1 : V) (vadd vdiv : V -> V -> V) (vltb vleb veqb : V -> V -> bool) (vofZ : Z -> V).
  Variable panic_kills : bool.
  Variable fpf : lbls -> N.
  Variable re_match : string -> string -> bool.
  Variable pfloat : string -> option V.
  Variable parse : N -> string -> option lbls.
  Variable tmpl : N -> lbls -> option string.
  Notation run_chain := (run_chain V v0 v1 vadd vdiv vltb vleb veqb vofZ panic_kills fpf re_match pfloat parse tmpl).
  Notation sem_chain := (sem_chain V v0 v1 vadd vdiv vltb vleb veqb vofZ fpf re_match pfloat parse tmpl).

  (* the upstream delivers data rows inside the window and ends with io.EOF entries only (what the ClickHouse getter sends
     when the query succeeds), in ANY batching; ch is any chain of simple stages; the rows that reach the aggregator carry
     one fingerprint per label set and back, at most 2000 of them (the stage's documented limit).  Then the WHOLE chain
     ch ++ [aggregation] does not fail, sends data entries only, and what it sends is, as one list, a permutation of what
     the reference semantics of the whole chain defines for the upstream rows: sem_agg over sem_chain ch.  No hypothesis
     about the output of the stages in front is left except the series identity, which the stages establish by
     re-fingerprinting with hash.go (distinct_labels_distinct_series) or inherit from ClickHouse. *)
  Theorem metric_request_whole_result :
    vltb v0 v0 = false -> vltb v0 v1 = true -> veqb v0 v0 = true -> veqb v1 v0 = false -> vltb v0 (vadd v0 v1) = true ->
    (forall x, vltb v0 x = true -> vltb v0 (vadd x v1) = true) -> (forall x, vltb v0 x = true -> veqb x v0 = false) ->
    forall k c dur ch rows t bs,
    agg_covered k = true ->
    forallb (simple_stage V) ch = true ->
    Forall (data_row V) rows -> Forall (in_window V c dur) rows ->
    Forall (fun e => e_err V e = EEof) t ->
    List.concat bs = (rows ++ t)%list ->
    W.one_fp_per_set V (data_of V (List.concat (run_chain c ch bs))) ->
    (List.length (W.fps V (data_of V (List.concat (run_chain c ch bs)))) <= 2000)%nat ->
    agg_specified k = true \/ c_to c - c_from c = stream_len c dur * dur ->
    Forall (fun e => e_err V e = ENone) (List.concat (run_chain c (ch ++ [SAgg V k dur])%list bs)) /\
    Permutation (map (erase V) (List.concat (run_chain c (ch ++ [SAgg V k dur])%list bs)))
                (map (erase V) (sem_chain c (ch ++ [SAgg V k dur])%list (List.concat bs))).
  Proof. exact (MP.metric_whole_stmt V v0 v1 vadd vdiv vltb vleb veqb vofZ panic_kills fpf re_match pfloat parse tmpl). Qed.

  (* the aggregation's reference does not look at the fingerprints of the rows it is given: two row lists that the client
     could not tell apart (erase) have the same aggregation *)
  Theorem aggregation_reference_ignores_fingerprints : forall k c dur l1 l2,
    map (erase V) l1 = map (erase V) l2 ->
    sem_agg V v0 v1 vadd vdiv vltb vofZ fpf k c dur l1 = sem_agg V v0 v1 vadd vdiv vltb vofZ fpf k c dur l2.
  Proof. exact (MP.sem_agg_congr V v0 v1 vadd vdiv vltb vofZ fpf). Qed.
End C09_METRIC_WHOLE.
Print Assumptions metric_request_whole_result.
Print Assumptions aggregation_reference_ignores_fingerprints.

(* count_over_time({..} |= "x" | drop pod [10s]) over a 20 s window: the series {a="b",pod="p"} (fingerprint 9) loses its pod
   label and is re-fingerprinted, the line "y" is filtered out, the series {a="c",z="1"} (fingerprint 5) keeps its labels;
   two batches, the io.EOF entry at the end *)
Example metric_request_hypotheses_met :
  let mk := fun ts fp m s => {| e_ts := ts; e_fp := fp; e_lbl := Some m; e_msg := s; e_val := 0; e_err := ENone |} in
  let eof := {| e_ts := 0; e_fp := 0%N; e_lbl := None; e_msg := EmptyString; e_val := 0; e_err := EEof |} in
  let c := {| c_from := 0; c_to := 20; c_limit := 0 |} in
  let rows := [mk 1 9%N [("a", "b"); ("pod", "p")] "x1"; mk 12 5%N [("a", "c"); ("z", "1")] "x2"; mk 2 9%N [("a", "b"); ("pod", "p")] "y";
               mk 3 9%N [("a", "b"); ("pod", "p")] "xx"] in
  let bs := [[mk 1 9%N [("a", "b"); ("pod", "p")] "x1"; mk 12 5%N [("a", "c"); ("z", "1")] "x2"];
             [mk 2 9%N [("a", "b"); ("pod", "p")] "y"; mk 3 9%N [("a", "b"); ("pod", "p")] "xx"; eof]] in
  let fpf := fun m : lbls => N.of_nat (List.length m) in
  let ch := [SLineFilter Z LfContains "x"; SDrop Z ["pod"] [""]] in
  let run := run_chain Z 0 1 Z.add Z.div Z.ltb Z.leb Z.eqb (fun z => z) false fpf (fun _ _ => false) (fun _ => None) (fun _ _ => None) (fun _ _ => None) c in
  forallb (simple_stage Z) ch = true /\ Forall (data_row Z) rows /\ Forall (in_window Z c 10) rows /\ List.concat bs = (rows ++ [eof])%list /\
  W.one_fp_per_set Z (data_of Z (List.concat (run ch bs))) /\ (List.length (W.fps Z (data_of Z (List.concat (run ch bs)))) <= 2000)%nat /\
  map (erase Z) (List.concat (run (ch ++ [SAgg Z (KLra LCount) 10])%list bs))
  = [(0, Some [("a", "b")], EmptyString, 2, ENone); (10, Some [("a", "c"); ("z", "1")], EmptyString, 1, ENone)] /\
  map (erase Z) (sem_chain Z 0 1 Z.add Z.div Z.ltb Z.leb Z.eqb (fun z => z) fpf (fun _ _ => false) (fun _ => None) (fun _ _ => None) (fun _ _ => None) c
                   (ch ++ [SAgg Z (KLra LCount) 10])%list (List.concat bs))
  = [(0, Some [("a", "b")], EmptyString, 2, ENone); (10, Some [("a", "c"); ("z", "1")], EmptyString, 1, ENone)].
Proof.
  cbv zeta. split; [reflexivity|]. split; [repeat constructor; eexists; reflexivity|]. split.
  { repeat (constructor; [unfold in_window, stream_len; cbn; lia|]). constructor. }
  split; [reflexivity|]. split.
  { intros a b Ha Hb. vm_compute in Ha, Hb.
    destruct Ha as [Ha|[Ha|[Ha|[]]]]; destruct Hb as [Hb|[Hb|[Hb|[]]]]; subst a b; cbn; split; intros H; try reflexivity; try discriminate H. }
  split; [vm_compute; lia|]. split; vm_compute; reflexivity.
Qed.


(* ---- round 4: the json / logfmt stages' own code against definitions by value (proofs/InternalJsonProofs.v) ---- *)
From Qryn Require proofs.InternalJsonProofs.
Module JP := InternalJsonProofs.

(* sanitizeLabel -- Go's regexp walks the name rune by rune; the model follows utf8.DecodeRune's byte-range table -- names a
   label as the definition by VALUE does (RFC 3629: the code point computed from the payload bits; a sequence is a character
   only in its shortest form, outside the surrogates, up to U+10FFFF; any other byte is one invalid character): ONE "_" per
   character outside [a-zA-Z0-9_], whatever the number of bytes that encode it.  For every byte string. *)
Theorem sanitize_one_underscore_per_character : forall s, J.sanitize s = J.label_name s.
Proof. exact JP.sanitize_one_underscore_per_character. Qed.
Print Assumptions sanitize_one_underscore_per_character.

(* `| json` is the declarative flattening, for every value tree: every scalar leaf of the document, in document order, is
   assigned under "the names of the members that lead to it joined with _" named by value; a later leaf of the same name
   wins; arrays have no leaves; a document that is not an object is refused *)
Theorem json_all_is_the_flattening : forall v, J.json_all v = J.json_all_ref v.
Proof. exact JP.json_all_is_the_flattening. Qed.
Print Assumptions json_all_is_the_flattening.

(* the name `| json` gives a nested key (subDec: prefix, "_", key -- then sanitizeLabel on the whole) is the names of the parts
   joined with "_": a "_" (any ASCII byte) never completes a character begun in the prefix, whatever bytes the keys hold *)
Theorem nested_name_is_the_parts_joined : forall prefix key,
  J.label_name (J.join_key prefix key) =
  if String.eqb prefix EmptyString then J.label_name key else (J.label_name prefix ++ "_" ++ J.label_name key)%string.
Proof. exact JP.nested_name_is_the_parts_joined. Qed.
Print Assumptions nested_name_is_the_parts_joined.

(* `| json l1="path1", l2="path2", ...` with distinct label names, for every value tree (any nesting, duplicate members,
   arrays, paths that share prefixes, stop early or run past the document): the ONE pass jsonPathProcessor makes over the
   document with the set of paths still ahead assigns to every label exactly what following ITS path alone finds (jlookup:
   at an object the last member of that name under which the rest is found, at an array the item of that index), and
   assigns no other label *)
Theorem walk_is_jlookup : forall v ps l, NoDup (map fst ps) ->
  JP.lfind (J.json_params ps v) l = match JP.pfind ps l with Some p => J.jlookup v p | None => None end.
Proof. exact JP.walk_is_jlookup. Qed.
Print Assumptions walk_is_jlookup.

(* the same in the form the check evaluates on the implementation's observations: the specification oracle accepts what the
   model assigns, so a row the oracle rejects is a behaviour the model does not have *)
Theorem json_params_meets_the_oracle : forall v ps i, NoDup (map fst ps) ->
  J.j_spec_violation {| J.j_id := i; J.j_spec := J.JsonParams ps; J.j_tree := Some v; J.j_obs := J.json_params ps v |} = false.
Proof. exact JP.json_params_meets_the_oracle. Qed.
Print Assumptions json_params_meets_the_oracle.

Theorem json_all_meets_the_oracle : forall v i,
  J.j_spec_violation {| J.j_id := i; J.j_spec := J.JsonAll; J.j_tree := Some v;
                        J.j_obs := match J.json_all v with Some m => m | None => [] end |} = false.
Proof. exact JP.json_all_meets_the_oracle. Qed.
Print Assumptions json_all_meets_the_oracle.

(* HandleLogfmt of `| logfmt`: every pair of the line under the name by value, a later pair of the same name wins *)
Theorem logfmt_names_by_value : forall pairs, J.logfmt_all pairs = J.logfmt_all_ref pairs.
Proof. exact JP.logfmt_names_by_value. Qed.
Print Assumptions logfmt_names_by_value.

(* `| logfmt l1="k1", l2="k2", ...` (distinct label names; two labels may name one key -- since the repair 563961f each is
   extracted), for every list of pairs the decoder yields: every label holds the value of the LAST pair of the key its path
   begins with, a label whose key does not occur is not assigned, and no other label is *)
Theorem logfmt_fields_is_lookup : forall ps pairs l, NoDup (map fst ps) -> l <> EmptyString ->
  JP.lfind (J.logfmt_fields ps pairs) l = match JP.first_key ps l with Some k => J.logfmt_lookup pairs k | None => None end.
Proof. exact JP.logfmt_fields_is_lookup. Qed.
Print Assumptions logfmt_fields_is_lookup.

Theorem logfmt_meets_the_oracle : forall ps pairs i, NoDup (map fst ps) -> (forall a, List.In a ps -> fst a <> EmptyString) ->
  J.l_spec_violation {| J.l_id := i; J.l_params := ps; J.l_pairs := Some pairs; J.l_obs := J.logfmt_decode ps (Some pairs) |} = false.
Proof. exact JP.logfmt_meets_the_oracle. Qed.
Print Assumptions logfmt_meets_the_oracle.

Example logfmt_fields_hypotheses_met :
  let ps := [("x_y", [J.PKey "level"]); ("lv", [J.PKey "level"]); ("m", [J.PKey "msg"; J.PKey "ignored"]); ("n", [J.PIdx 0])] in
  let pairs := [("n", "2.5"); ("level", "info"); ("level", "warn")] in
  NoDup (map fst ps) /\ (forall a, List.In a ps -> fst a <> EmptyString) /\
  J.logfmt_fields ps pairs = [("lv", "warn"); ("x_y", "warn")].
Proof.
  cbn zeta. split; [repeat constructor; cbn; intuition discriminate|]. split; [|vm_compute; reflexivity].
  intros a Ha. cbn in Ha. intuition (subst; discriminate).
Qed.

(* hypotheses met / the statements are not vacuous: two paths that share a prefix and a duplicate member *)
Example walk_is_jlookup_hypotheses_met :
  let doc := J.JObj [("a", J.JObj [("b", J.JRaw "1")]); ("a", J.JObj [("c", J.JStr "2")]); ("a", J.JArr [J.JStr "3"])] in
  let ps := [("x", [J.PKey "a"; J.PKey "b"]); ("y", [J.PKey "a"; J.PKey "c"]); ("z", [J.PKey "a"; J.PIdx 0]); ("w", [J.PKey "a"])] in
  NoDup (map fst ps) /\ J.json_params ps doc = [("x", "1"); ("y", "2"); ("z", "3")] /\
  map (fun a => J.jlookup doc (snd a)) ps = [Some "1"; Some "2"; Some "3"; None].
Proof.
  cbn zeta. split; [|split; vm_compute; reflexivity].
  repeat constructor; cbn; intuition discriminate.
Qed.

(* ---- round 5: where the two engines still differ (recorded finding json-path-ends-at-composite) ---- *)
(* a json parameter whose path ends at an OBJECT (or an array): the ClickHouse path extracts if(JSONType(..) == 'String',
   JSONExtractString(..), JSONExtractRaw(..)) -- the raw text of the object, a non-empty string, which becomes the label --,
   the in-process walker (model InternalJson.json_params, tied to planner_parser_json.go on every run) assigns nothing where a
   path ends at a composite.  For every ClickHouse-side extraction json_get that returns the object's text, the in-process
   decoder of that very line (the stage's own code over the jx value tree) is NOT linked to it: the hypothesis decoders_linked
   of inprocess_engine_agrees_with_sql_reference excludes exactly this input (recorded finding json-path-ends-at-composite:
   `{app="x"} | json x="a"` on the line {"a":{"b":1}} answers x="{"b":1}" on the ClickHouse path, no label x in process). *)
Theorem decoder_link_refuted_where_a_path_ends_at_an_object :
  let jp := {| Logql.pp_label := "x"; Logql.pp_val := "a"; Logql.pp_path := Some ["a"] |}%string in
  let ppl := [Logql.PParser Logql.PJson [jp]] in
  let line := "{""a"":{""b"":1}}"%string in
  let tree := InternalJson.JObj [("a", InternalJson.JObj [("b", InternalJson.JRaw "1")])]%string in
  let parse9 := fun (i : N) (l : string) =>
    InternalJson.json_decode (InternalJson.JsonParams [("x", [InternalJson.PKey "a"])]%string) (Some tree) in
  forall json_get : string -> list string -> string,
    json_get line ["a"%string] = "{""b"":1}"%string ->
    parse9 0%N line = Some [] /\ ~ B.decoders_linked json_get parse9 0%N ppl.
Proof.
  cbv zeta. intros json_get Hget. split; [reflexivity|].
  intros [H _]. specialize (H "{""a"":{""b"":1}}"%string). cbn in H. rewrite Hget in H. vm_compute in H. discriminate H.
Qed.
Print Assumptions decoder_link_refuted_where_a_path_ends_at_an_object.

(* ---- round 5: an anchored literal in the in-process regular-expression line filter (seed C09-e) ---- *)
From Qryn Require model.PromRegex proofs.InternalEngineRegexProofs.
Module RX := PromRegex.
Section C09_ANCHORED.
  Variable V : Type.
  Variables (v0 v1 : V) (vadd vdiv : V -> V -> V) (vltb vleb veqb : V -> V -> bool) (vofZ : Z -> V).
  Variable panic_kills : bool.
  Variable fpf : lbls -> N.
  Variable re_match : string -> string -> bool.
  Variable pfloat : string -> option V.
  Variable parse : N -> string -> option lbls.
  Variable tmpl : N -> lbls -> option string.
  Notation run_stage := (run_stage V v0 v1 vadd vdiv vltb vleb veqb vofZ panic_kills fpf re_match pfloat parse tmpl).

  (* `|~ "^L$"` / `!~ "^L$"` run in process: whenever the regexp oracle answers for this pattern what RE2 search defines for
     ^L$ (C17's executable meaning model/PromRegex.v: what Go's regexp.MatchString and ClickHouse's match() compute), the stage
     keeps, for every batching, exactly the entries whose line IS L (resp. is not L) and every error entry -- not the lines
     that merely contain L, which is what a fast path through regexp.LiteralPrefix ("complete" for ^L$) answers. *)
  Theorem anchored_literal_line_filter_keeps_exactly_the_equal_lines : forall c pat L bs,
    let r := RX.RCat RX.RBol (RX.RCat (RX.re_seq (RX.re_lits L)) RX.REol) in
    RX.re_print r = pat ->
    (forall s, re_match pat s = RX.re_search r s) ->
    List.concat (run_stage c (SLineFilter V LfRe pat) bs)
      = filter (fun e => negb (errk_eqb (e_err V e) ENone) || String.eqb L (e_msg V e)) (List.concat bs) /\
    List.concat (run_stage c (SLineFilter V LfNotRe pat) bs)
      = filter (fun e => negb (errk_eqb (e_err V e) ENone) || negb (String.eqb L (e_msg V e))) (List.concat bs).
  Proof.
    intros c pat L bs r _ Hre.
    split; cbn [InternalEngine.run_stage]; rewrite wrap_filter, concat_map_filter; apply filter_ext; intros e;
      unfold line_keep; rewrite Hre; unfold r; rewrite InternalEngineRegexProofs.anchored_literal_is_equality; reflexivity.
  Qed.
End C09_ANCHORED.
Print Assumptions anchored_literal_line_filter_keeps_exactly_the_equal_lines.

(* hypotheses met (the pattern text of the tree is ^error$; the oracle = the RE2 meaning), and the substring reading refuted:
   the line "errors" contains the literal and is not matched by ^error$ *)
Example anchored_literal_hypotheses_met :
  let r := RX.RCat RX.RBol (RX.RCat (RX.re_seq (RX.re_lits "error")) RX.REol) in
  RX.re_print r = "^error$"%string /\
  map (RX.re_search r) ["error"; "errors"; "noerror"; "terror_x"; ""]%string = [true; false; false; false; false] /\
  map (fun s => containsb s "error") ["error"; "errors"; "noerror"; "terror_x"; ""]%string = [true; true; true; true; false].
Proof. cbv zeta. split; [reflexivity|]. split; vm_compute; reflexivity. Qed.

(* ---------------------------------------------------------------------------------------------------------------- *)
(* Round 6: what a rate divides by.  The in-process engine (LRAPlanner / UnwrapAggPlanner finalize, model agg_fin) divides
   every bucket of rate / bytes_rate / rate over unwrap by float64(Duration.Nanoseconds()) / 1e9, for every float type: *)
From Coq Require Import QArith.
From Qryn Require Import model.LogqlPlan model.InternalEngineRate proofs.InternalEngineRateProofs.

Theorem in_process_rate_divides_by_the_range :
  forall (V : Type) (v0 : V) (vdiv : V -> V -> V) (vltb veqb : V -> V -> bool) (vofZ : Z -> V) (dur : Z) (l : list V),
    let by_range := map_even V (fun a _ => vdiv a (vdiv (vofZ dur) (vofZ 1000000000))) l in
    agg_fin V v0 vdiv vltb veqb vofZ (KLra LRate) dur l = by_range /\
    agg_fin V v0 vdiv vltb veqb vofZ (KLra LBytesRate) dur l = by_range /\
    agg_fin V v0 vdiv vltb veqb vofZ (KUnwrap URate) dur l = by_range.
Proof. intros. split; [reflexivity|]. split; reflexivity. Qed.
Print Assumptions in_process_rate_divides_by_the_range.

(* ... and that number is the range in seconds on BOTH engines: for every range of dur nanoseconds the decimal literal the
   ClickHouse planner prints behind `toFloat64(COUNT()) / ` (secondsText, C08's model secs_text) is a well-formed literal that
   denotes exactly dur / 10^9, and so does the in-process divisor read over the rationals (over binary64 both are the
   correctly rounded value of that one rational: float64(ns) is exact below 2^53, IEEE division rounds correctly). *)
Theorem rate_divisor_is_the_range_on_both_engines : forall dur, 0 <= dur ->
  (exists q, dec_q (secs_text dur) = Some q /\ (q == dur # 1000000000)%Q) /\
  (range_seconds_q dur == dur # 1000000000)%Q.
Proof. intros dur H. split; [exact (clickhouse_divisor dur H) | exact (in_process_divisor dur)]. Qed.
Print Assumptions rate_divisor_is_the_range_on_both_engines.

(* the divisor float64(Duration / time.Second) (seed C09-f) is the range exactly for ranges of whole seconds, the divisor
   float64(Duration.Milliseconds()) / 1000 (the code before /repo 593a272) exactly for ranges of whole milliseconds -- for no
   other range: a generator that writes [5s] and [1m] only cannot tell the three apart *)
Theorem truncated_divisor_is_right_only_on_whole_units : forall dur,
  ((whole_seconds_q dur == range_seconds_q dur)%Q <-> Z.rem dur 1000000000 = 0) /\
  ((whole_ms_seconds_q dur == range_seconds_q dur)%Q <-> Z.rem dur 1000000 = 0).
Proof. intros dur. split; [exact (whole_seconds_iff dur) | exact (whole_ms_iff dur)]. Qed.
Print Assumptions truncated_divisor_is_right_only_on_whole_units.

Theorem whole_second_divisor_refuted : exists dur, 0 < dur /\ ~ (whole_seconds_q dur == range_seconds_q dur)%Q.
Proof. exact whole_seconds_refuted. Qed.
Print Assumptions whole_second_divisor_refuted.

Theorem whole_millisecond_divisor_refuted : exists dur, 0 < dur /\ ~ (whole_ms_seconds_q dur == range_seconds_q dur)%Q.
Proof. exact whole_ms_refuted. Qed.
Print Assumptions whole_millisecond_divisor_refuted.

(* the ranges of the corpus witnesses: [1500ms] [500ms] [1500us] [999us] [1500ns] and a whole minute *)
Example rate_divisor_examples :
  map secs_text [1500000000; 500000000; 1500000; 999000; 1500; 60000000000] = ["1.5"; "0.5"; "0.0015"; "0.000999"; "0.0000015"; "60"]%string /\
  map (fun d => Qcompare (whole_seconds_q d) (range_seconds_q d)) [1500000000; 500000000; 60000000000] = [Datatypes.Lt; Datatypes.Lt; Datatypes.Eq] /\
  map (fun d => Qcompare (whole_ms_seconds_q d) (range_seconds_q d)) [1500000000; 1500000; 999000] = [Datatypes.Eq; Datatypes.Lt; Datatypes.Lt].
Proof. split; [vm_compute; reflexivity|]. split; vm_compute; reflexivity. Qed.

(* ---------------------------------------------------------------------------------------------------------------- *)
(* Round 7: a `| drop` stage that names one label several times (`| drop level="debug", level="info"`, `| drop level, level="x"`).
   On both engines the stage is the conjunction over ALL its parameters: the in-process DropPlanner (model drop_hit, the walk of
   planner_drop.go over every parameter for every label) removes a label exactly when SOME parameter hits it, and the ClickHouse
   stage (C07's reference drop_keeps: one conjunct `(k, v) != (name, value)` per parameter) keeps it exactly when NO parameter
   hits it -- for every parameter list, repeated names included. *)
From Qryn Require Import proofs.InternalEngineDropProofs.

Theorem drop_is_the_conjunction_over_all_parameters_on_both_engines : forall (ps : list (string * option string)) (k v : string),
  InternalEngine.drop_hit k v (InternalEngineSql.drop_names ps) (InternalEngineSql.drop_vals ps) = existsb (param_hits k v) ps /\
  SqlEval.drop_keeps (map LogqlSem.drop_spec ps) (k, v) = forallb (fun p => negb (param_hits k v p)) ps.
Proof. intros ps k v. split; [exact (in_process_drop_is_any_parameter ps k v) | exact (sql_drop_is_every_parameter ps k v)]. Qed.
Print Assumptions drop_is_the_conjunction_over_all_parameters_on_both_engines.

(* a table holding ONE value per name (the last parameter that names the label: a Go map filled in a loop, seed C09-g) is that
   conjunction exactly as long as no name is repeated -- a generator that names every label once cannot tell the two apart -- *)
Theorem one_value_per_name_is_right_without_repeats : forall (ps : list (string * option string)) (k v : string),
  NoDup (map fst ps) -> drop_hit_one_per_name k v ps = existsb (param_hits k v) ps.
Proof. exact InternalEngineDropProofs.one_value_per_name_is_right_without_repeats. Qed.
Print Assumptions one_value_per_name_is_right_without_repeats.

(* ... and wrong with a repeat: level="debug" survives `| drop level="debug", level="info"` in the table, on neither engine *)
Theorem one_value_per_name_refuted :
  let ps := [("level", Some "debug"); ("level", Some "info")]%string in
  drop_hit_one_per_name "level" "debug" ps = false
  /\ InternalEngine.drop_hit "level" "debug" (InternalEngineSql.drop_names ps) (InternalEngineSql.drop_vals ps) = true
  /\ SqlEval.drop_keeps (map LogqlSem.drop_spec ps) ("level", "debug")%string = false
  /\ drop_hit_one_per_name "level" "info" ps = true.
Proof. exact InternalEngineDropProofs.one_value_per_name_refuted. Qed.
Print Assumptions one_value_per_name_refuted.

Example drop_repeat_free_stage :
  let ps := [("level", Some "debug"); ("pod", None)]%string in
  NoDup (map fst ps) /\ drop_hit_one_per_name "level" "debug" ps = true /\ existsb (param_hits "pod" "p1") ps = true.
Proof. exact InternalEngineDropProofs.repeat_free_stage. Qed.

(* ------------------------------------------------------------------------------------------------------------------ *)
(* Round 8 (seed C09-h): which aggregator stages a parsed metric query becomes, and in which order (model/InternalEnginePlan.v
   = planAggregators / planByWithout / groupByNothing).  A comparison written inside a vector aggregation sits between the
   range aggregation and the regrouping ... *)
From Qryn Require Import model.InternalEnginePlan proofs.InternalEnginePlanProofs.

Theorem inner_comparison_is_planned_before_the_regrouping : forall (V : Type) (a : aggq V),
  exists range_stage,
    plan_range V (aq_range a) = (range_stage ++ cmp_stage V (rq_cmp (aq_range a)))%list /\
    plan_agg V a = (range_stage ++ cmp_stage V (rq_cmp (aq_range a)) ++ bw_stage V (agg_bw V a) ++
                    [SAgg V (KAggOp (aq_fn a)) (rq_dur (aq_range a))] ++ cmp_stage V (aq_cmp a))%list.
Proof. exact InternalEnginePlanProofs.plan_agg_shape. Qed.
Print Assumptions inner_comparison_is_planned_before_the_regrouping.

(* ... the seed's order (sum over count_over_time / bytes_over_time: regrouping BEFORE the range aggregation) holds the same
   stages when no inner comparison is written -- only inputs with one tell the two orders apart -- *)
Theorem regrouping_first_only_moves_a_stage_without_inner_comparison : forall (V : Type) (a : aggq V),
  group_first V a = true -> rq_cmp (aq_range a) = None ->
  plan_agg V a = ([SAgg V (KLra (rq_lra (aq_range a))) (rq_dur (aq_range a))] ++ bw_stage V (agg_bw V a) ++
                  [SAgg V (KAggOp (aq_fn a)) (rq_dur (aq_range a))] ++ cmp_stage V (aq_cmp a))%list /\
  plan_agg_group_first V a = (bw_stage V (agg_bw V a) ++ [SAgg V (KLra (rq_lra (aq_range a))) (rq_dur (aq_range a))] ++
                  [SAgg V (KAggOp (aq_fn a)) (rq_dur (aq_range a))] ++ cmp_stage V (aq_cmp a))%list.
Proof. exact InternalEnginePlanProofs.group_first_only_moves_the_regrouping. Qed.
Print Assumptions regrouping_first_only_moves_a_stage_without_inner_comparison.

Example regrouping_first_hypotheses_met :
  group_first Z w_plain = true /\ rq_cmp (aq_range w_plain) = None /\ plan_agg Z w_plain <> plan_agg_group_first Z w_plain.
Proof. exact InternalEnginePlanProofs.group_first_only_moves_the_regrouping_applies. Qed.

(* ... and with one it is wrong: sum by (lvl) (count_over_time(..[60s]) > 1) over two lines of two hosts is empty by the
   definition (reference semantics sem_chain over plan_agg) and {lvl="warn"} = 2 when the regrouping comes first *)
Theorem regrouping_before_the_range_aggregation_refuted :
  exists (c : ctx) (a : aggq Z) (l : list (entry Z)),
    group_first Z a = true /\ zsem c (plan_agg Z a) l = [] /\ zsem c (plan_agg_group_first Z a) l <> [].
Proof. exact InternalEnginePlanProofs.group_first_refuted. Qed.
Print Assumptions regrouping_before_the_range_aggregation_refuted.
