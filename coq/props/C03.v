(* Property C03 — log and metric ingest decodes every entry to exactly one faithful row.
   Only statements; proofs by reference to proofs/DecodeProofs.v.  Model: model/Decode.v.

   In every theorem the fingerprint function fp, the encoded-label length enc_len, the fingerprint cache
   (state type CS, transition cache_add, initial state cache0), the size threshold of onEntries (1 MiB in the
   code), the point limit of the remote-write decoder (1000 in the code) and the request's X-Ttl-Days value
   are universally quantified; bodies are arbitrary lists (any number of streams and entries, including
   streams without entries, any label bytes). *)
From Coq Require Import List ZArith NArith Bool Ascii String Lia.
From Coq Require Permutation.
From Qryn Require Import gen.DecodeConsts model.Decode proofs.DecodeProofs model.LokiLabels proofs.LokiLabelsProofs model.LokiTime proofs.LokiTimeProofs model.LokiJson proofs.LokiJsonProofs model.DatadogJson proofs.DatadogJsonProofs model.NdjsonWalk proofs.NdjsonWalkProofs model.ReqOpts proofs.ReqOptsProofs.
Import ListNotations.
Open Scope Z_scope.

(* shared.go fastFillArray (the doubling copy loop) yields n copies of the value, for every n including 0 *)
Theorem fast_fill_is_repeat : forall (A : Type) (zero v : A) (n : nat), fast_fill zero n v = repeat v n.
Proof. intros. apply fast_fill_spec. Qed.
Print Assumptions fast_fill_is_repeat.

(* builder.go onEntries + flush/reset, for ANY sequence of well-formed callback invocations: the goroutine does
   not panic, every emitted chunk is rectangular, and the concatenated sample rows are exactly the entries of
   the calls, in order, each with the fingerprint and TTL of its own call's label list *)
Theorem onentries_faithful :
  forall fp enc_len CS cache_add threshold ctx_ttl (ks : list call) (cache0 : CS), Forall call_wf ks ->
  exists out, run fp enc_len CS cache_add threshold ctx_ttl (empty_chunk, cache0) ks = Done out /\
              Forall chunk_rect out /\ rows_of out = rows_spec fp ctx_ttl (flat_map call_entries ks).
Proof. intros. now apply run_faithful. Qed.
Print Assumptions onentries_faithful.

(* responses are values: whatever has been sent on the channel after the first calls (steps ... ks1) stays, unchanged and
   in place, a prefix of the response sequence of the whole request, whatever calls follow (even a panicking one).
   The implementation must therefore not touch a response after sending it; the harness checks that (chunks_stable). *)
Theorem sent_responses_are_stable :
  forall fp enc_len CS cache_add threshold ctx_ttl (st : chunk * CS) (ks1 ks2 : list call),
  exists rest, result_chunks (run fp enc_len CS cache_add threshold ctx_ttl st (ks1 ++ ks2)) =
               (fst (steps fp enc_len CS cache_add threshold ctx_ttl st ks1) ++ rest)%list.
Proof. intros. apply sent_prefix_stable. Qed.
Print Assumptions sent_responses_are_stable.

(* decode_faithful_<proto>: the response sequence of each parser is a list of rectangular chunks whose
   concatenated rows are one row per submitted entry (entries_<proto> body), in submission order, with the entry's
   exact timestamp / line / value bits / type and the fingerprint (and TTL) of the entry's own stream *)
Theorem decode_faithful_loki_json :
  forall fp enc_len CS cache_add cache0 threshold flush_limit ctx_ttl (body : list (list lmember)),
  exists cs, decode fp enc_len CS cache_add cache0 threshold flush_limit ctx_ttl (BLoki body) = Done cs /\
             Forall chunk_rect cs /\ rows_of cs = rows_spec fp ctx_ttl (entries_loki_json body).
Proof. intros. exact (decode_faithful_all fp enc_len CS cache_add cache0 threshold flush_limit ctx_ttl (BLoki body)). Qed.
Print Assumptions decode_faithful_loki_json.

(* ... and when every stream object has exactly one label member ("stream" or "labels") and one entry member
   ("values" or "entries"), in ANY key order and with any unknown keys in between, the rows are those of the
   streams themselves: labels sanitised once, entries in order *)
Theorem decode_faithful_loki_json_any_key_order :
  forall fp enc_len CS cache_add cache0 threshold flush_limit ctx_ttl (body : list (list lmember)) (streams : list lstream),
  Forall2 wf_members body streams ->
  exists cs, decode fp enc_len CS cache_add cache0 threshold flush_limit ctx_ttl (BLoki body) = Done cs /\
             Forall chunk_rect cs /\ rows_of cs = rows_spec fp ctx_ttl (entries_loki_streams streams).
Proof.
  intros until streams. intros H. rewrite <- (entries_loki_json_wf body streams H).
  exact (decode_faithful_all fp enc_len CS cache_add cache0 threshold flush_limit ctx_ttl (BLoki body)).
Qed.
Print Assumptions decode_faithful_loki_json_any_key_order.

Theorem decode_faithful_loki_protobuf :
  forall fp enc_len CS cache_add cache0 threshold flush_limit ctx_ttl (body : list lstream),
  exists cs, decode fp enc_len CS cache_add cache0 threshold flush_limit ctx_ttl (BLokiPb body) = Done cs /\
             Forall chunk_rect cs /\ rows_of cs = rows_spec fp ctx_ttl (entries_loki_pb body).
Proof. intros. exact (decode_faithful_all fp enc_len CS cache_add cache0 threshold flush_limit ctx_ttl (BLokiPb body)). Qed.
Print Assumptions decode_faithful_loki_protobuf.

Theorem decode_faithful_promrw :
  forall fp enc_len CS cache_add cache0 threshold flush_limit ctx_ttl (body : list pseries),
  exists cs, decode fp enc_len CS cache_add cache0 threshold flush_limit ctx_ttl (BPrw body) = Done cs /\
             Forall chunk_rect cs /\ rows_of cs = rows_spec fp ctx_ttl (entries_prw body).
Proof. intros. exact (decode_faithful_all fp enc_len CS cache_add cache0 threshold flush_limit ctx_ttl (BPrw body)). Qed.
Print Assumptions decode_faithful_promrw.

Theorem decode_faithful_influx :
  forall fp enc_len CS cache_add cache0 threshold flush_limit ctx_ttl precision (ck : clock) (body : list iline),
  exists cs, decode fp enc_len CS cache_add cache0 threshold flush_limit ctx_ttl (BInflux precision ck body) = Done cs /\
             Forall chunk_rect cs /\ rows_of cs = rows_spec fp ctx_ttl (entries_influx precision ck body).
Proof. intros. exact (decode_faithful_all fp enc_len CS cache_add cache0 threshold flush_limit ctx_ttl (BInflux precision ck body)). Qed.
Print Assumptions decode_faithful_influx.

Theorem decode_faithful_datadog_logs :
  forall fp enc_len CS cache_add cache0 threshold flush_limit ctx_ttl (ck : clock) (body : list ddlog),
  exists cs, decode fp enc_len CS cache_add cache0 threshold flush_limit ctx_ttl (BDDLog ck body) = Done cs /\
             Forall chunk_rect cs /\ rows_of cs = rows_spec fp ctx_ttl (entries_ddlog ck body).
Proof. intros. exact (decode_faithful_all fp enc_len CS cache_add cache0 threshold flush_limit ctx_ttl (BDDLog ck body)). Qed.
Print Assumptions decode_faithful_datadog_logs.

(* Datadog logs sent by Cloudflare (one JSON object per line, the row's text is the line) and Elasticsearch bulk bodies
   (the document lines behind an index / create action, with the labels of the LAST action line before them): for every
   clock, the rows are one per entry, in order, with the entry's own labels, text and timestamp *)
Theorem decode_faithful_cloudflare_logs :
  forall fp enc_len CS cache_add cache0 threshold flush_limit ctx_ttl (ddsource : string) (ck : clock) (body : list cfline),
  exists cs, decode fp enc_len CS cache_add cache0 threshold flush_limit ctx_ttl (BCf ddsource ck body) = Done cs /\
             Forall chunk_rect cs /\ rows_of cs = rows_spec fp ctx_ttl (entries_cf ddsource ck body).
Proof. intros. exact (decode_faithful_all fp enc_len CS cache_add cache0 threshold flush_limit ctx_ttl (BCf ddsource ck body)). Qed.
Print Assumptions decode_faithful_cloudflare_logs.

Theorem decode_faithful_elastic_bulk :
  forall fp enc_len CS cache_add cache0 threshold flush_limit ctx_ttl (ck : clock) (body : list esline),
  exists cs, decode fp enc_len CS cache_add cache0 threshold flush_limit ctx_ttl (BEs ck body) = Done cs /\
             Forall chunk_rect cs /\ rows_of cs = rows_spec fp ctx_ttl (entries_es ck body).
Proof. intros. exact (decode_faithful_all fp enc_len CS cache_add cache0 threshold flush_limit ctx_ttl (BEs ck body)). Qed.
Print Assumptions decode_faithful_elastic_bulk.

(* time.Now(): when every clock reading taken during the request lies between the clock just before and just after it
   (clock_okb), an entry that carries a timestamp keeps exactly that one, whatever the clock says, and an entry without one
   is stamped with a time inside the request: "the row's timestamp is the request's receive time" *)
Theorem clock_stamped_datadog_rows_are_within_the_request :
  forall (ck : clock) (body : list ddlog), clock_okb ck = true -> (List.length body <= List.length (ck_nows ck))%nat ->
  Forall2 (fun (l : ddlog) (e : entry) =>
             e_labels e = ddlog_labels l /\ e_msg e = dl_msg l /\
             (dl_ts l <> 0 -> e_ts e = wrap64 (dl_ts l * 1000000)) /\
             (dl_ts l = 0 -> ck_lo ck <= e_ts e <= ck_hi ck))
          body (entries_ddlog ck body).
Proof. exact ddlog_entries_times. Qed.
Print Assumptions clock_stamped_datadog_rows_are_within_the_request.

Theorem clock_stamped_cloudflare_rows_are_within_the_request :
  forall (ddsource : string) (ck : clock) (body : list cfline), clock_okb ck = true -> (List.length body <= List.length (ck_nows ck))%nat ->
  Forall2 (fun (l : cfline) (e : entry) =>
             e_labels e = cf_labels ddsource l /\ e_msg e = cf_text l /\
             (cf_ts l <> 0 -> e_ts e = cf_ts l) /\ (cf_ts l = 0 -> ck_lo ck <= e_ts e <= ck_hi ck))
          body (entries_cf ddsource ck body).
Proof. exact cf_entries_times. Qed.
Print Assumptions clock_stamped_cloudflare_rows_are_within_the_request.

(* an Influx line with a timestamp keeps it (scaled by the precision); a line without one is stamped with the clock reading taken
   for it, truncated to the precision (telegraf: timeFunc().Truncate(precision)): a multiple of the precision, less than one
   unit before the reading and never after it *)
Theorem influx_line_without_timestamp_gets_the_truncated_clock :
  forall precision now (l : iline), 0 < precision ->
  match il_ts l with
  | Some t => influx_ts precision now l = wrap64 (t * precision)
  | None => now - precision < influx_ts precision now l <= now /\ (influx_ts precision now l) mod precision = 0
  end.
Proof. exact influx_ts_bounds. Qed.
Print Assumptions influx_line_without_timestamp_gets_the_truncated_clock.

Theorem clock_irrelevant_for_timestamped_entries :
  forall (ck1 ck2 : clock) (body : list ddlog), Forall (fun l => dl_ts l <> 0) body -> entries_ddlog ck1 body = entries_ddlog ck2 body.
Proof. exact ddlog_clock_irrelevant. Qed.
Print Assumptions clock_irrelevant_for_timestamped_entries.

Theorem decode_faithful_datadog_metrics :
  forall fp enc_len CS cache_add cache0 threshold flush_limit ctx_ttl (ck : clock) (body : list ddseries),
  exists cs, decode fp enc_len CS cache_add cache0 threshold flush_limit ctx_ttl (BDDMet ck body) = Done cs /\
             Forall chunk_rect cs /\ rows_of cs = rows_spec fp ctx_ttl (entries_ddmet ck body).
Proof. intros. exact (decode_faithful_all fp enc_len CS cache_add cache0 threshold flush_limit ctx_ttl (BDDMet ck body)). Qed.
Print Assumptions decode_faithful_datadog_metrics.

Theorem decode_faithful_otlp_logs :
  forall fp enc_len CS cache_add cache0 threshold flush_limit ctx_ttl (body : list oreslog),
  exists cs, decode fp enc_len CS cache_add cache0 threshold flush_limit ctx_ttl (BOtlp body) = Done cs /\
             Forall chunk_rect cs /\ rows_of cs = rows_spec fp ctx_ttl (entries_otlp body).
Proof. intros. exact (decode_faithful_all fp enc_len CS cache_add cache0 threshold flush_limit ctx_ttl (BOtlp body)). Qed.
Print Assumptions decode_faithful_otlp_logs.

(* the concatenated rows do not depend on where the chunk boundaries fall: any two values of the 1 MiB threshold,
   any two values of the 1000-point limit, any two caches and any two size-accounting functions give the same rows *)
Theorem chunking_irrelevant :
  forall fp ctx_ttl (b : body)
         enc_len1 CS1 cache_add1 (cache1 : CS1) threshold1 flush_limit1
         enc_len2 CS2 cache_add2 (cache2 : CS2) threshold2 flush_limit2,
  result_rows (decode fp enc_len1 CS1 cache_add1 cache1 threshold1 flush_limit1 ctx_ttl b) =
  result_rows (decode fp enc_len2 CS2 cache_add2 cache2 threshold2 flush_limit2 ctx_ttl b).
Proof. intros. apply chunking_irrelevant_all. Qed.
Print Assumptions chunking_irrelevant.

(* decoding is a function of the body alone: in any history of requests decoded one after another by one process (any
   protocols, any bodies, streams shared or not, the announcement cache handed from one request to the next), request k
   is answered with rectangular chunks whose rows are exactly the rows of ITS OWN entries -- nothing of requests 1..k-1
   shows in them; the earlier requests can only influence which time_series rows are announced and where chunk
   boundaries fall. An implementation with any other memory between requests (a label cache, a reused buffer) departs
   from the model; the harness decodes histories in one process to find that. *)
Theorem decode_history_independent :
  forall fp enc_len CS cache_add threshold flush_limit (cache0 : CS) (reqs : list (N * body)),
  Forall2 (fun req r => exists cs, r = Done cs /\ Forall chunk_rect cs /\
                                   rows_of cs = rows_spec fp (fst req) (entries_of (snd req)))
          reqs (decode_history fp enc_len CS cache_add threshold flush_limit cache0 reqs).
Proof. intros. apply decode_history_faithful. Qed.
Print Assumptions decode_history_independent.

(* no body of any of the seven protocols makes the decoding goroutine panic (after the fixes of defects 7, 27, 28
   this needs no side condition: streams without entries, absent OTLP resource/scope/value are all decoded) *)
Theorem decode_total_on_wellformed :
  forall fp enc_len CS cache_add cache0 threshold flush_limit ctx_ttl (b : body),
  exists cs, decode fp enc_len CS cache_add cache0 threshold flush_limit ctx_ttl b = Done cs.
Proof.
  intros. destruct (decode_faithful_all fp enc_len CS cache_add cache0 threshold flush_limit ctx_ttl b) as [cs [H _]].
  now exists cs.
Qed.
Print Assumptions decode_total_on_wellformed.

(* Go visits the numeric fields of an Influx line in map order: whatever that order, the line contributes the
   same rows up to their order (each field is its own series) *)
Theorem influx_field_order_irrelevant :
  forall precision now meas tags ts f1 f2, Permutation.Permutation f1 f2 ->
  find is_message f1 = None -> find is_message f2 = None ->
  Permutation.Permutation (influx_line_entries precision now (IL meas tags f1 ts))
                          (influx_line_entries precision now (IL meas tags f2 ts)).
Proof. intros. now apply influx_fields_perm. Qed.
Print Assumptions influx_field_order_irrelevant.

(* unit conversions of timestamps (ms -> ns in remote write and Datadog logs, s -> ns in Datadog metrics,
   precision units in Influx) are exact whenever the product fits int64 *)
Theorem timestamp_scaling_exact :
  forall t k, -9223372036854775808 <= t * k < 9223372036854775808 -> wrap64 (t * k) = t * k.
Proof. intros. now apply wrap64_id. Qed.
Print Assumptions timestamp_scaling_exact.

(* ---------------------------------------------------------------- Loki label strings (parseLabelsLokiFormat, model/LokiLabels.v)
   unicode.IsLetter / unicode.IsDigit on runes outside ASCII are universally quantified (uletter, udigit). *)

(* A label list written in the Loki text syntax -- names [a-zA-Z_][a-zA-Z0-9_]*, every value between double quotes with each
   byte written in any of the forms raw ASCII / raw well-formed UTF-8 sequence / \a \b \f \n \r \t \v \\ and the escaped quote / \xHH / \ooo /
   \uXXXX of a rune below 65536 / \UXXXXXXXX of any rune up to U+10FFFF (the whole output alphabet of strconv.Quote; ANY byte
   string can be a value), pairs separated by a comma and any white space -- is read back as exactly that list, appended to
   the labels already in the buffer, whatever text follows the closing brace. No label is dropped, split or merged. *)
Theorem label_string_roundtrip :
  forall (uletter udigit : string -> bool) blank (ls : list (string * list qel)) rest buf,
  all_bytes is_ws blank = true -> ls <> [] -> forallb pair_ok ls = true ->
  parse_labels uletter udigit (print_labels blank ls ++ rest) buf = Some (buf ++ labels_written ls).
Proof. exact parse_print_roundtrip_l. Qed.
Print Assumptions label_string_roundtrip.

(* the same with label names beyond ASCII: a name is whatever scanIdentifier reads as ONE identifier (uname_ok: ASCII letters / digits /
   underscore and well-formed multi-byte runes the letter / digit oracles accept, no digit first); every name of the Loki syntax is such a
   name for every oracle (label_name_ok_uname), so this statement contains label_string_roundtrip *)
Theorem label_string_roundtrip_unicode_names :
  forall (uletter udigit : string -> bool) blank (ls : list (string * list qel)) rest buf,
  all_bytes is_ws blank = true -> ls <> [] -> forallb (upair_ok uletter udigit) ls = true ->
  parse_labels uletter udigit (print_labels blank ls ++ rest) buf = Some (buf ++ labels_written ls).
Proof. exact parse_print_roundtrip_u. Qed.
Print Assumptions label_string_roundtrip_unicode_names.

(* ... hence two label lists with the same text are the same list: a stream can not be taken for another one *)
Theorem label_strings_distinguish_label_lists :
  forall (uletter udigit : string -> bool) blank1 blank2 ls1 ls2,
  all_bytes is_ws blank1 = true -> all_bytes is_ws blank2 = true -> ls1 <> [] -> ls2 <> [] ->
  forallb pair_ok ls1 = true -> forallb pair_ok ls2 = true ->
  print_labels blank1 ls1 = print_labels blank2 ls2 -> labels_written ls1 = labels_written ls2.
Proof. exact written_texts_distinguish_l. Qed.
Print Assumptions label_strings_distinguish_label_lists.

Theorem label_strings_distinguish_label_lists_unicode_names :
  forall (uletter udigit : string -> bool) blank1 blank2 ls1 ls2,
  all_bytes is_ws blank1 = true -> all_bytes is_ws blank2 = true -> ls1 <> [] -> ls2 <> [] ->
  forallb (upair_ok uletter udigit) ls1 = true -> forallb (upair_ok uletter udigit) ls2 = true ->
  print_labels blank1 ls1 = print_labels blank2 ls2 -> labels_written ls1 = labels_written ls2.
Proof. exact written_texts_distinguish_u. Qed.
Print Assumptions label_strings_distinguish_label_lists_unicode_names.

(* whatever text is accepted (well-formed or not), the labels already in the buffer stay in front, untouched, and at least
   one label is added (the JSON decoder parses a "labels" member into the buffer filled by earlier members) *)
Theorem label_string_only_appends :
  forall (uletter udigit : string -> bool) text buf out,
  parse_labels uletter udigit text buf = Some out -> exists new, out = buf ++ new /\ new <> [].
Proof. exact parse_labels_extends. Qed.
Print Assumptions label_string_only_appends.

(* the Loki protobuf push with its label sets as TEXT (as on the wire): when every stream's text is a written label list,
   the texts are accepted, and the rows are one row per entry with the fingerprint of the sanitised written labels *)
Theorem decode_faithful_loki_protobuf_text :
  forall (uletter udigit : string -> bool) fp enc_len CS cache_add cache0 threshold flush_limit ctx_ttl blank
         (ws : list (list (string * list qel) * list lentry)),
  all_bytes is_ws blank = true -> forallb wstream_ok ws = true ->
  let streams := map (fun s => LS (labels_written (fst s)) (snd s)) ws in
  pb_streams_of_texts uletter udigit (map (fun s => (print_labels blank (fst s), snd s)) ws) = Some streams /\
  exists cs, decode fp enc_len CS cache_add cache0 threshold flush_limit ctx_ttl (BLokiPb streams) = Done cs /\
             Forall chunk_rect cs /\ rows_of cs = rows_spec fp ctx_ttl (entries_loki_pb streams).
Proof.
  intros. split; [now apply pb_texts_read_back|].
  exact (decode_faithful_all fp enc_len CS cache_add cache0 threshold flush_limit ctx_ttl (BLokiPb streams)).
Qed.
Print Assumptions decode_faithful_loki_protobuf_text.

(* ... and with label names beyond ASCII (uwstream_ok: a non-empty list of pairs whose names scanIdentifier reads as one identifier) *)
Theorem decode_faithful_loki_protobuf_text_unicode_names :
  forall (uletter udigit : string -> bool) fp enc_len CS cache_add cache0 threshold flush_limit ctx_ttl blank
         (ws : list (list (string * list qel) * list lentry)),
  all_bytes is_ws blank = true -> forallb (uwstream_ok uletter udigit) ws = true ->
  let streams := map (fun s => LS (labels_written (fst s)) (snd s)) ws in
  pb_streams_of_texts uletter udigit (map (fun s => (print_labels blank (fst s), snd s)) ws) = Some streams /\
  exists cs, decode fp enc_len CS cache_add cache0 threshold flush_limit ctx_ttl (BLokiPb streams) = Done cs /\
             Forall chunk_rect cs /\ rows_of cs = rows_spec fp ctx_ttl (entries_loki_pb streams).
Proof.
  intros. split; [now apply pb_texts_read_back_u|].
  exact (decode_faithful_all fp enc_len CS cache_add cache0 threshold flush_limit ctx_ttl (BLokiPb streams)).
Qed.
Print Assumptions decode_faithful_loki_protobuf_text_unicode_names.

(* ---------------------------------------------------------------- timestamp texts (parseTime, model/LokiTime.v)
   time.Parse(time.RFC3339, .) is universally quantified (rfc). *)

(* a nanosecond timestamp written as a decimal integer -- either sign, any number of digits incl. leading zeros -- under ts /
   timestamp in the entries layout is read as exactly that number whenever it fits int64: no rounding, no float, and (since fix
   e276684) no detour through the date parser for the minus sign *)
Theorem parse_time_integer_exact :
  forall (rfc : string -> option Z) (neg : bool) (ds : list N), ds <> [] -> all_digits ds = true ->
  - 9223372036854775808 <= int_value neg ds < 9223372036854775808 ->
  parse_time rfc (int_text neg ds) = Some (int_value neg ds).
Proof. exact parse_time_integer_exact_l. Qed.
Print Assumptions parse_time_integer_exact.

(* every text is either handed to the library's RFC 3339 parser or read as a decimal integer: nothing else happens to it *)
Theorem parse_time_dispatch :
  forall (rfc : string -> option Z) s, parse_time rfc s = rfc s \/ parse_time rfc s = parse_int64 s.
Proof. exact parse_time_dispatch_l. Qed.
Print Assumptions parse_time_dispatch.

(* ---------------------------------------------------------------- the Loki JSON push as a document (model/LokiJson.v)
   push_members is the walk of pushRequestDec over the document; the unicode classes and time.Parse are quantified. *)

(* a push document {"streams":[{"stream":{...},"values":[[ts, line, number?, anything...], ...]}, ...]} -- any labels, every
   timestamp a decimal integer of either sign within int64, any line, an optional number third and anything behind it -- is
   walked into exactly the streams it was written from, and is answered with one faithful row per written element *)
Theorem decode_faithful_loki_json_document :
  forall (uletter udigit : string -> bool) (rfc : string -> option Z) fp enc_len CS cache_add cache0 threshold flush_limit ctx_ttl
         (ints : N -> option Z) (rest : list jv) (ws : list wstream),
  Forall (fun s => Forall wvalue_ok (snd s)) ws ->
  let streams := map wstream_stream ws in
  push_members uletter udigit rfc (push_doc ints rest ws) = Some (map members_of streams) /\
  exists cs, decode fp enc_len CS cache_add cache0 threshold flush_limit ctx_ttl (BLoki (map members_of streams)) = Done cs /\
             Forall chunk_rect cs /\ rows_of cs = rows_spec fp ctx_ttl (entries_loki_streams streams).
Proof.
  intros until ws. intros H streams. split.
  - unfold streams. rewrite map_map. now apply push_members_written_l.
  - assert (W : Forall2 wf_members (map members_of streams) streams).
    { clear. induction streams; constructor; [split; reflexivity | assumption]. }
    rewrite <- (entries_loki_json_wf _ _ W).
    exact (decode_faithful_all fp enc_len CS cache_add cache0 threshold flush_limit ctx_ttl (BLoki (map members_of streams))).
Qed.
Print Assumptions decode_faithful_loki_json_document.

(* an element of the entries layout {"ts" | "timestamp": text, "line"?: s, "value"?: number} whose timestamp text parseTime
   reads as ts is walked into the entry (ts, line, value): the sample type follows from which of line / value are present *)
Theorem entries_element_read :
  forall (rfc : string -> option Z) (w : wentry) ts, wentry_ts rfc w = Some ts ->
  entry_entry rfc (wentry_doc w) = Some (wentry_entry ts w).
Proof. exact entry_entry_written. Qed.
Print Assumptions entries_element_read.

(* a body whose reader fails part-way (truncated or corrupted gzip / snappy stream, broken connection; decode_cut: the
   decoder gets through n callback invocations before the error ends it; only with nothing left to decode may the error go
   unnoticed): the request FAILS -- and what it had sent before is a prefix of the whole body's response sequence --, or it
   is answered exactly as the whole body is: never an acknowledged prefix of the rows *)
Theorem cut_body_fails_or_is_answered_in_full :
  forall fp enc_len CS cache_add cache0 threshold flush_limit ctx_ttl (n : nat) (noticed : bool) (b : body),
  match decode_cut fp enc_len CS cache_add cache0 threshold flush_limit ctx_ttl n noticed b with
  | ReadFailed sent => exists rest, result_chunks (decode fp enc_len CS cache_add cache0 threshold flush_limit ctx_ttl b) = (sent ++ rest)%list
  | Answered r => exists cs, r = Done cs /\ Forall chunk_rect cs /\ rows_of cs = rows_spec fp ctx_ttl (entries_of b)
  end.
Proof. intros. apply cut_fails_or_full. Qed.
Print Assumptions cut_body_fails_or_is_answered_in_full.

(* key order inside an element of "entries": when each of the three slots -- the timestamp (ts or timestamp), line, value -- is
   written by at most one member, the members can come in ANY order, with any unknown members between them: the element is read
   as the same entry (or refused alike) *)
Theorem entries_element_key_order_irrelevant :
  forall (rfc : string -> option Z) (ms1 ms2 : list (string * jv)),
  Permutation.Permutation ms1 ms2 -> slots_once ms1 -> entry_entry rfc (JObj ms1) = entry_entry rfc (JObj ms2).
Proof. intros. unfold entry_entry. now apply entry_members_perm. Qed.
Print Assumptions entries_element_key_order_irrelevant.

(* ---------------------------------------------------------------- newline-delimited bodies as documents (model/NdjsonWalk.v) *)

(* an Elasticsearch bulk body written as index / create action lines, each followed by its document -- the action object with
   any members, the document with ANY members (fields called index, create, update or delete included: defect
   elastic-document-with-action-key, fixed) -- is walked into exactly these pairs and answered with one row per document:
   the document's own text, the labels of its own action, the clock as timestamp *)
Theorem decode_faithful_elastic_bulk_document :
  forall fp enc_len CS cache_add cache0 threshold flush_limit ctx_ttl (target : string) (ck : clock) (ws : list wpair),
  let lines := flat_map (wp_eslines target) ws in
  es_walk target false (flat_map wp_lines ws) = Some lines /\
  entries_es ck lines = map (fun p => E (es_action_labels target (wp_ams (snd p))) (fst p) (wp_dtext (snd p)) 0%N TYPE_LOG) (clocked (ck_nows ck) ws) /\
  exists cs, decode fp enc_len CS cache_add cache0 threshold flush_limit ctx_ttl (BEs ck lines) = Done cs /\
             Forall chunk_rect cs /\ rows_of cs = rows_spec fp ctx_ttl (entries_es ck lines).
Proof.
  intros. split; [apply es_walk_pairs|]. split.
  - unfold entries_es, lines. rewrite es_entry_lines_pairs. generalize (ck_nows ck). induction ws as [|w r IH]; intro nows; [reflexivity|].
    cbn [map clocked fst snd]. f_equal. apply IH.
  - exact (decode_faithful_all fp enc_len CS cache_add cache0 threshold flush_limit ctx_ttl (BEs ck lines)).
Qed.
Print Assumptions decode_faithful_elastic_bulk_document.

(* Cloudflare trace events written one per line (optional millisecond timestamp, script name, outcome, event type, optional
   action result, any members the decoder does not know) are read back as exactly these records, one faithful row per line *)
Theorem decode_faithful_cloudflare_document :
  forall fp enc_len CS cache_add cache0 threshold flush_limit ctx_ttl (ddsource : string) (ck : clock) (ints : Z -> N) (ws : list wcf),
  Forall (fun w => forallb (fun kv => negb (cf_known (fst kv))) (wc_extra w) = true) ws ->
  let lines := map wcf_line ws in
  all_some cf_line (map (fun w => (wc_text w, Some (wcf_doc ints w))) ws) = Some lines /\
  exists cs, decode fp enc_len CS cache_add cache0 threshold flush_limit ctx_ttl (BCf ddsource ck lines) = Done cs /\
             Forall chunk_rect cs /\ rows_of cs = rows_spec fp ctx_ttl (entries_cf ddsource ck lines).
Proof.
  intros. split; [now apply cf_lines_written|].
  exact (decode_faithful_all fp enc_len CS cache_add cache0 threshold flush_limit ctx_ttl (BCf ddsource ck lines)).
Qed.
Print Assumptions decode_faithful_cloudflare_document.

(* ---------------------------------------------------------------- Datadog log tags (tagPattern, model/DatadogJson.v) *)

(* a Datadog log document written by a client -- an array of objects with ddtags written k:v,k:v, optional ddsource / service /
   hostname / source_type, a message, an unknown member and an integer timestamp -- is walked into exactly the logs it was written
   from, and is answered with one faithful row per log *)
Theorem decode_faithful_datadog_logs_document :
  forall (uletter : string -> bool) fp enc_len CS cache_add cache0 threshold flush_limit ctx_ttl (ck : clock) (ws : list wlog),
  Forall (fun w => forallb tag_ok (wl_tags w) = true) ws ->
  let logs := map wlog_ddlog ws in
  dd_document uletter dd_int_of (JArr (map wlog_doc ws)) = Some logs /\
  exists cs, decode fp enc_len CS cache_add cache0 threshold flush_limit ctx_ttl (BDDLog ck logs) = Done cs /\
             Forall chunk_rect cs /\ rows_of cs = rows_spec fp ctx_ttl (entries_ddlog ck logs).
Proof.
  intros. split; [now apply dd_document_written_l|].
  exact (decode_faithful_all fp enc_len CS cache_add cache0 threshold flush_limit ctx_ttl (BDDLog ck logs)).
Qed.
Print Assumptions decode_faithful_datadog_logs_document.

(* the same for Datadog metrics: {"series":[{metric?, resources:[{k:v..}..], points:[{timestamp, value}..], type}..]} is walked into
   the series it was written from; one faithful row per point, with the labels __name__ / resource<i>_<key> of its own series *)
Theorem decode_faithful_datadog_metrics_document :
  forall fp enc_len CS cache_add cache0 threshold flush_limit ctx_ttl (ck : clock) (ws : list wseries),
  let series := map wseries_series ws in
  ddmet_document (JObj [("series"%string, JArr (map wseries_doc ws))]) = WOk series /\
  exists cs, decode fp enc_len CS cache_add cache0 threshold flush_limit ctx_ttl (BDDMet ck series) = Done cs /\
             Forall chunk_rect cs /\ rows_of cs = rows_spec fp ctx_ttl (entries_ddmet ck series).
Proof.
  intros. split; [apply ddmet_document_written_l|].
  exact (decode_faithful_all fp enc_len CS cache_add cache0 threshold flush_limit ctx_ttl (BDDMet ck series)).
Qed.
Print Assumptions decode_faithful_datadog_metrics_document.

(* tags written k1:v1,k2:v2,... -- every key a letter followed by letters, digits and _ - . \ / ; every value a non-empty run of
   those and colons -- are found as exactly that list: none is dropped, merged with its neighbour or cut at a colon of its value *)
Theorem datadog_tags_read_back :
  forall (uletter : string -> bool) (ts : labels), forallb tag_ok ts = true -> dd_tags uletter (print_tags ts) = ts.
Proof. exact dd_tags_written_l. Qed.
Print Assumptions datadog_tags_read_back.

(* the hypotheses above are met by non-trivial values; the model computes *)
Example onentries_hypothesis_met :
  Forall call_wf [K [("app", "a")]%string [1; 2] [""; "x"]%string [0; 0]%N [1; 1]%N; K [] [] [] [] []].
Proof. constructor; [|constructor; [|constructor]]; unfold call_wf; cbn; repeat split; repeat constructor; lia. Qed.
Example key_order_hypothesis_met :
  wf_members [MOther; MEnt [LE 1 (Some "x"%string) None; LE 2 None (Some 3%N)]; MOther; MLbl [("app", "a")]%string]
             (LS [("app", "a")]%string [LE 1 (Some "x"%string) None; LE 2 None (Some 3%N)]).
Proof. split; reflexivity. Qed.
Example scaling_hypothesis_met : -9223372036854775808 <= 1700000000000 * 1000000 < 9223372036854775808.
Proof. lia. Qed.
Example influx_perm_hypothesis_met :
  Permutation.Permutation [("a", FNum 1%N); ("b", FUint 2%N)]%string [("b", FUint 2%N); ("a", FNum 1%N)]%string /\
  find is_message [("a", FNum 1%N); ("b", FUint 2%N)]%string = None.
Proof. split; [apply Permutation.perm_swap|reflexivity]. Qed.
(* two thresholds, two different chunkings, same rows: 3 entries of 2 streams, flushed after every call (threshold 0)
   or never (threshold 10^9) *)
Example chunkings_differ_rows_agree :
  let b := BLoki [members_of (LS [("app", "a")]%string [LE 1 (Some "x"%string) None; LE 2 (Some "y"%string) None]);
                  members_of (LS [("app", "b")]%string [LE 3 None (Some 7%N)])] in
  let fp := fun l : labels => N.of_nat (List.length l) in
  let d := fun th => decode fp (fun _ => 0) unit miss_cache tt th 1000%N 0%N b in
  (match d 0, d 1000000000 with Done c1, Done c2 => (List.length c1, List.length c2) | _, _ => (0, 0)%nat end) = (3, 1)%nat /\
  result_rows (d 0) = result_rows (d 1000000000) /\ List.length (result_rows (d 0)) = 3%nat.
Proof. vm_compute. repeat split. Qed.

(* a written label list with every escape form, a multi-byte rune, a byte that is not UTF-8 and an empty value *)
Example label_string_hypotheses_met :
  let ls := [("app", [QByte "a"%char; QSimple "n"%char; QHex 255%N; QRune "é"; QSimple """"%char; QByte "}"%char; QOct 200%N; QU4 8203%N]); ("__name__", []); ("x_9", [QRune "名"; QHex 0%N; QOct 0%N; QU4 233%N; QU8 128512%N; QU8 65%N])]%string in
  forallb pair_ok ls = true /\ all_bytes is_ws (String (Ascii.ascii_of_N 32) (String (Ascii.ascii_of_N 10) EmptyString)) = true /\
  wstream_ok (ls, [LE 1 (Some "x"%string) None]) = true /\
  parse_labels (fun _ => false) (fun _ => false) (print_labels " " ls ++ " trailing")%string [("pre", "1")]%string
  = Some ([("pre", "1")]%string ++ labels_written ls) /\
  List.length (labels_written ls) = 3%nat.
Proof. vm_compute. repeat split. Qed.
(* texts that must not be (and are not) accepted *)
Example malformed_label_strings_rejected :
  let p := fun t => parse_labels (fun _ => false) (fun _ => false) t [] in
  p "{}"%string = None /\ p "{a=""b"",}"%string = None /\ p "{a=""b"" c=""d""}"%string = None /\ p "{a=`b`}"%string = None /\
  p "{a=""b"%string = None /\ p "{1a=""b""}"%string = None /\ p "{a=""\q""}"%string = None /\ p "a=""b""}"%string = None /\ p "{a=""b"";c=""d""}"%string = None.
Proof. vm_compute. repeat split. Qed.

Example integer_timestamp_hypotheses_met :
  let ds := [1; 7; 0; 0; 0; 0; 0; 0; 0; 0; 0; 0; 0; 0; 0; 0; 0; 0; 7]%N in
  all_digits ds = true /\ int_value true ds = -1700000000000000007 /\ int_text true ds = "-1700000000000000007"%string /\
  parse_time (fun _ => None) (int_text true ds) = Some (-1700000000000000007) /\
  parse_time (fun _ => None) "-9223372036854775808"%string = Some (-9223372036854775808) /\
  parse_time (fun _ => None) "9223372036854775808"%string = None /\
  parse_time (fun _ => Some 5) "2023-11-14T22:13:20Z"%string = Some 5.
Proof. vm_compute. repeat split. Qed.

Example json_document_hypotheses_met :
  let ws : list wstream := [([("app", "a"); ("9x", "b")]%string, [(true, [1; 7]%N, "before 1970"%string, None); (false, [0; 5]%N, "x"%string, Some 7%N)]);
                            ([("app", "b")]%string, [])] in
  Forall (fun s => Forall wvalue_ok (snd s)) ws /\
  push_members (fun _ => false) (fun _ => false) (fun _ => None) (push_doc (fun _ => None) [JObj [("trace_id"%string, JStr "abc")]] ws)
  = Some (map (fun s => members_of (wstream_stream s)) ws) /\
  map (fun s => map le_ts (ls_entries (wstream_stream s))) ws = [[-17; 5]; []].
Proof.
  split; [|split; vm_compute; reflexivity].
  repeat constructor; cbn; try discriminate; lia.
Qed.
Example entries_element_hypotheses_met :
  wentry_ts (fun s => if String.eqb s "2023-11-14T22:13:20Z" then Some 1700000000000000000 else None) (true, "2023-11-14T22:13:20Z"%string, Some "l"%string, Some 3%N)
  = Some 1700000000000000000 /\ wentry_ts (fun _ => None) (false, "-5"%string, None, None) = Some (-5).
Proof. vm_compute. split; reflexivity. Qed.

Example datadog_tags_hypotheses_met :
  let ts := [("env", "prod"); ("app.kubernetes.io/name", "pod-7f9c"); ("k", "host:8080"); ("a-b.c", "::")]%string in
  forallb tag_ok ts = true /\ print_tags ts = "env:prod,app.kubernetes.io/name:pod-7f9c,k:host:8080,a-b.c:::"%string /\
  dd_tags (fun _ => false) "bad,9env:prod, x:1,k:v w,_k:v"%string = [("env", "prod"); ("x", "1"); ("k", "v")]%string.
Proof. vm_compute. repeat split. Qed.

Example datadog_document_hypotheses_met :
  let ws := [WL [("env", "prod"); ("k", "host:8080")]%string (Some "nginx"%string) None (Some ""%string) None "GET / 200"%string 1700000000123 0%N;
             WL [] None (Some "web"%string) None (Some "kubernetes"%string) ""%string 1700000000456 0%N] in
  Forall (fun w => forallb tag_ok (wl_tags w) = true) ws /\
  dd_document (fun _ => false) dd_int_of (JArr (map wlog_doc ws)) = Some (map wlog_ddlog ws) /\
  map (fun l => List.length (ddlog_labels l)) (map wlog_ddlog ws) = [4; 3]%nat.
Proof. split; [repeat constructor|split; vm_compute; reflexivity]. Qed.

Example datadog_metrics_document_computes :
  let ws := [WS (Some "system.load.1"%string) [[("name", "host-a"); ("type", "host")]%string; [("name", "db1")]%string] [(1700000000, 5%N); (1700000010, 7%N)] (fun _ => 0%N) (fun _ => None);
             WS None [] [] (fun _ => 0%N) (fun _ => None)] in
  ddmet_document (JObj [("series"%string, JArr (map wseries_doc ws))]) = WOk (map wseries_series ws) /\
  map (fun s => List.length (ddseries_labels s)) (map wseries_series ws) = [4; 0]%nat.
Proof. vm_compute. split; reflexivity. Qed.

Example clock_hypotheses_met :
  let ck := CK 1700000000000000000 1700000000000900000 [1700000000000000100; 1700000000000000200] in
  let body := [DL [("env", "prod")]%string None None None None "with its own time"%string 1600000000123;
               DL [] None (Some "web"%string) None None "stamped"%string 0] in
  clock_okb ck = true /\ (List.length body <= List.length (ck_nows ck))%nat /\
  map e_ts (entries_ddlog ck body) = [1600000000123000000; 1700000000000000200].
Proof. split; [reflexivity|split; [apply le_n|vm_compute; reflexivity]]. Qed.

Example elastic_bulk_lines_computed :
  let body := [EL "d0"%string EsDoc; EL "a1"%string (EsSet [("type", "elastic"); ("_id", "7")]%string); EL "d1"%string EsDoc; EL ""%string EsBlank;
               EL "d2"%string EsDoc; EL "a2"%string EsClear; EL "d3"%string EsDoc] in
  map (fun e => (List.length (e_labels e), e_msg e, e_ts e)) (entries_es (CK 0 9 [5; 6; 7]) body) = [(2%nat, "d1"%string, 5); (2%nat, "d2"%string, 6)].
Proof. vm_compute. reflexivity. Qed.

Example cut_body_computed :
  let b := BLokiPb [LS [("a", "1")]%string [LE 1 (Some "x"%string) None]; LS [("b", "2")]%string [LE 2 (Some "y"%string) None]] in
  let cut n noticed := decode_cut (fun _ => 7%N) (fun _ => 10) unit miss_cache tt 0 1000%N 0%N n noticed b in
  (match cut 1%nat false with ReadFailed sent => List.length sent | Answered _ => 99%nat end) = 1%nat /\
  (match cut 2%nat true with ReadFailed sent => List.length sent | Answered _ => 99%nat end) = 2%nat /\
  (match cut 2%nat false with Answered (Done cs) => List.length (rows_of cs) | _ => 99%nat end) = 2%nat.
Proof. vm_compute. repeat split. Qed.

Example entries_key_order_hypotheses_met :
  let ms := [("line", JStr "x"); ("foo", JNull); ("timestamp", JStr "5"); ("value", JNum 0%N None)]%string in
  slots_once ms /\ Permutation.Permutation ms (rev ms) /\
  entry_entry (fun _ => None) (JObj (rev ms)) = Some (LE 5 (Some "x"%string) (Some 0%N)).
Proof.
  split; [|split].
  - intros s Hs. do 4 (destruct s as [|s]; [try congruence; cbn; lia|]). cbn. lia.
  - apply Permutation.Permutation_rev.
  - vm_compute. reflexivity.
Qed.

Example ndjson_document_hypotheses_met :
  let ws := [WP false "a1" [("_id", JStr "1"); ("n", JNull)] "d1" [("message", JStr "x"); ("delete", JStr "a field")];
             WP true "a2" [("_index", JStr "other"); ("type", JStr "t")] "d2" [("index", JNum 0%N None)]]%string in
  es_walk "idx" false (flat_map wp_lines ws) = Some (flat_map (wp_eslines "idx") ws) /\
  map (fun e => (e_labels e, e_msg e)) (entries_es (CK 0 9 [1; 2]) (flat_map (wp_eslines "idx") ws)) =
  [([("type", "elastic"); ("_index", "idx"); ("_id", "1")], "d1"); ([("type", "elastic"); ("_index", "idx")], "d2")]%string /\
  let cfs := [WCF "l1" (Some 1700000000123) "w" "ok" "fetch" (Some true) [("Logs", JArr [])]; WCF "l2" None "" "" "" None []]%string in
  Forall (fun w => forallb (fun kv => negb (cf_known (fst kv))) (wc_extra w) = true) cfs /\
  map cf_ts (map wcf_line cfs) = [1700000000123000000; 0].
Proof. vm_compute. repeat split; repeat constructor. Qed.

(* an Influx "message" line with further fields: the row's text is the logfmt rendering (message first, keys filtered, values
   quoted where needed); a line whose only field is message keeps its text as it is *)
Example influx_message_line_computed :
  let l := IL "app"%string [("host", "a")]%string
              [("message", FStr "hello world"); ("status code", FIntT (-7)); ("k=v", FStr "null"); ("ok", FBoolT true);
               ("q", FStr (String (Ascii.ascii_of_N 9) "x"))]%string (Some 5) in
  iline_modelled l = true /\
  map e_msg (influx_line_entries 1000 0 l) =
    [("message=""hello world"" statuscode=-7 kv=""null"" ok=true q=""" ++ String (Ascii.ascii_of_N 92) "tx""")%string] /\
  map e_msg (influx_line_entries 1 0 (IL "app"%string [] [("message", FStr "a=b c")]%string (Some 5))) = ["a=b c"%string] /\
  (* a line without a timestamp: the clock reading truncated to the precision (here: seconds) *)
  map e_ts (influx_line_entries 1000000000 1700000000123456789 (IL "app"%string [] [("v", FNum 0%N)]%string None)) = [1700000000000000000].
Proof. vm_compute. repeat split. Qed.

(* a label list with names outside ASCII (the oracle accepts e-acute and the CJK rune as letters, the Arabic-Indic digit three as a digit) *)
Example unicode_label_names_hypotheses_met :
  let uletter := fun s => String.eqb s "é" || String.eqb s "名" in
  let udigit := fun s => String.eqb s "٣" in
  let ls := [("région", [QByte "x"%char]); ("名٣_a9", [QRune "é"]); ("plain_1", [])]%string in
  forallb (upair_ok uletter udigit) ls = true /\ uwstream_ok uletter udigit (ls, [LE 1 (Some "x"%string) None]) = true /\
  uname_ok uletter udigit "٣x"%string = false /\ uname_ok (fun _ => false) udigit "région"%string = false /\
  parse_labels uletter udigit (print_labels "" ls) [] = Some (labels_written ls) /\
  map fst (labels_written ls) = ["région"; "名٣_a9"; "plain_1"]%string.
Proof. vm_compute. repeat split. Qed.

(* Datadog metric points without a timestamp: the leading ones carry the clock reading taken when the points array began *)
Example datadog_metric_points_without_timestamp_computed :
  let doc := JObj [("series", JArr [JObj [("metric", JStr "m"); ("points", JArr [JObj [("value", JNum 5%N None)]; JObj [("value", JNum 6%N None)];
                                            JObj [("timestamp", JNum 0%N (Some 1700000000)); ("value", JNum 7%N None)]; JObj [("value", JNum 8%N None)]])]])]%string in
  ddmet_document doc = WOk [DS (Some "m"%string) [] [(1700000000, 7%N); (1700000000, 8%N)] [5%N; 6%N]] /\
  map e_ts (entries_ddmet (CK 0 9 [4; 4]) [DS (Some "m"%string) [] [(1700000000, 7%N); (1700000000, 8%N)] [5%N; 6%N]]) = [4; 4; 1700000000000000000; 1700000000000000000].
Proof. vm_compute. split; reflexivity. Qed.


(* ---------------------------------------------------------------- the request options in front of the decoders (model/ReqOpts.v)
   Round 8.  ctx_ttl and the Influx precision were numbers given to the decoder model; here they are what
   WithOverallContextMiddleware reads from the X-Ttl-Days header text (strconv.ParseUint(., 10, 16), unreadable = none) and what
   PushInfluxV2 reads from the precision parameter ("" | ns | us | ms | s, anything else = 400 before the parser starts). *)

(* a header written as the decimal digits of a number up to 65535, with any number of leading zeros, is read as exactly
   that number *)
Theorem ttl_header_read_exactly :
  forall ds, ds <> [] -> all_digits ds = true -> digits_value ds <= 65535 ->
  ttl_of_header (digits_text ds) = Z.to_N (digits_value ds).
Proof. exact ttl_header_read_l. Qed.
Print Assumptions ttl_header_read_exactly.

(* and nothing else gives a TTL: a request carries a TTL of its own only when its header text is such a digit text (no
   sign, no blank, no underscore, no hex, not above 65535) - every other text is "no TTL", never another number *)
Theorem ttl_header_only_from_numbers :
  forall h, ttl_of_header h <> 0%N ->
  exists ds, ds <> [] /\ all_digits ds = true /\ h = digits_text ds /\ 0 < digits_value ds <= 65535 /\
             ttl_of_header h = Z.to_N (digits_value ds).
Proof. exact ttl_header_only_from_numbers_l. Qed.
Print Assumptions ttl_header_only_from_numbers.

(* the precision parameter: exactly the five spellings are accepted, each with its own unit *)
Theorem precision_parameter_read_exactly :
  forall q p, precision_of_query q = Some p <-> exists u, q = punit_text u /\ p = punit_ns u.
Proof.
  intros q p. split; [apply precision_only_units_l|]. intros [u [A B]]. subst. apply precision_read_l.
Qed.
Print Assumptions precision_parameter_read_exactly.

(* any push route, any protocol: under a header written from the number n the body is answered with one faithful row per
   entry under TTL n (for n > 0 every row carries exactly n, whatever __ttl_days__ labels say) *)
Theorem push_request_with_ttl_header_is_faithful :
  forall fp enc_len CS cache_add cache0 threshold flush_limit ds (b : body),
  ds <> [] -> all_digits ds = true -> digits_value ds <= 65535 ->
  exists cs, push_request fp enc_len CS cache_add cache0 threshold flush_limit (digits_text ds) b = Done cs /\
             Forall chunk_rect cs /\ rows_of cs = rows_spec fp (Z.to_N (digits_value ds)) (entries_of b) /\
             (0 < digits_value ds -> Forall (fun r => r_ttl r = Z.to_N (digits_value ds)) (rows_of cs)).
Proof.
  intros fp enc_len CS cache_add cache0 threshold flush_limit ds b H1 H2 H3.
  destruct (push_request_faithful_l fp enc_len CS cache_add cache0 threshold flush_limit ds b H1 H2 H3) as [cs [A [B C]]].
  exists cs. split; [exact A|split; [exact B|split; [exact C|]]].
  intro G. rewrite C. apply rows_spec_ctx_ttl. lia.
Qed.
Print Assumptions push_request_with_ttl_header_is_faithful.

(* a header that is no such digit text (absent, empty, signed, blank-padded, out of range ...) leaves the request without a
   TTL of its own: the rows are those of the body with the TTL of each stream's own __ttl_days__ label *)
Theorem push_request_with_unreadable_ttl_header_is_faithful :
  forall fp enc_len CS cache_add cache0 threshold flush_limit h (b : body),
  (forall ds, ds <> [] -> all_digits ds = true -> digits_value ds <= 65535 -> h <> digits_text ds) ->
  exists cs, push_request fp enc_len CS cache_add cache0 threshold flush_limit h b = Done cs /\
             Forall chunk_rect cs /\ rows_of cs = rows_spec fp 0%N (entries_of b).
Proof. exact push_request_unreadable_l. Qed.
Print Assumptions push_request_with_unreadable_ttl_header_is_faithful.

(* the Influx route as a whole: header written from n, precision written as one of the five spellings, any clock, any
   lines: accepted, one faithful row per entry with the line's timestamp scaled by exactly that unit and TTL n *)
Theorem influx_request_with_options_is_faithful :
  forall fp enc_len CS cache_add cache0 threshold flush_limit ds (u : punit) (ck : clock) (lines : list iline),
  ds <> [] -> all_digits ds = true -> digits_value ds <= 65535 ->
  exists cs, influx_request fp enc_len CS cache_add cache0 threshold flush_limit (digits_text ds) (punit_text u) ck lines
             = Parsed (Done cs) /\
             Forall chunk_rect cs /\
             rows_of cs = rows_spec fp (Z.to_N (digits_value ds)) (entries_influx (punit_ns u) ck lines).
Proof. exact influx_request_faithful_l. Qed.
Print Assumptions influx_request_with_options_is_faithful.

(* any other precision text is refused before a single line is decoded (no rows under a guessed unit) *)
Theorem influx_request_with_unknown_precision_is_refused :
  forall fp enc_len CS cache_add cache0 threshold flush_limit h q (ck : clock) (lines : list iline),
  (forall u, q <> punit_text u) ->
  influx_request fp enc_len CS cache_add cache0 threshold flush_limit h q ck lines = Refused400.
Proof. exact influx_request_refused_l. Qed.
Print Assumptions influx_request_with_unknown_precision_is_refused.

(* the Cloudflare-Datadog route (PushCfDatadogV2): whatever the ddsource parameter says (absent, empty, any text), under a
   header written from n the lines are answered with one faithful row per line under TTL n, and every line's stream carries
   the label ddsource in front with a value that is never empty: the parameter's own text, or "unknown" when it is absent or
   empty - so lines pushed under different ddsource values are never stored under one stream *)
Theorem cloudflare_request_with_options_is_faithful :
  forall fp enc_len CS cache_add cache0 threshold flush_limit ds (q : string) (ck : clock) (lines : list cfline),
  ds <> [] -> all_digits ds = true -> digits_value ds <= 65535 ->
  let src := ddsource_of_query q in
  exists cs, cf_request fp enc_len CS cache_add cache0 threshold flush_limit (digits_text ds) q ck lines = Done cs /\
             Forall chunk_rect cs /\
             rows_of cs = rows_spec fp (Z.to_N (digits_value ds)) (entries_cf src ck lines) /\
             Forall (fun e => exists rest, e_labels e = ("ddsource"%string, src) :: rest) (entries_cf src ck lines) /\
             src <> EmptyString /\ (q <> EmptyString -> src = q).
Proof. exact cf_request_faithful_l. Qed.
Print Assumptions cloudflare_request_with_options_is_faithful.
