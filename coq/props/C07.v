(* C07 - the SQL generated for a LogQL log query selects exactly the matching lines.
   Statements only; proofs in proofs/SqlEvalProofs.v, proofs/LogqlSemProofs.v, proofs/LogqlRegexpProofs.v, proofs/LogqlSem2Base.v
   and proofs/LogqlSem2Proofs.v.
   Relative to the ClickHouse-subset semantics model/SqlEval.v (trusted) and the planner model
   model/LogqlPlan.v (tied to the Go planners byte for byte by checks/sqltext.py). *)
From Coq Require Import List ZArith NArith QArith String Ascii Bool Permutation.
From Qryn Require Import lib.Strs model.Sql model.Logql model.LogqlRegexp model.LogqlPlan model.SqlEval model.LogqlSem model.LogqlSemCheck
  proofs.SqlEvalProofs proofs.LogqlSemProofs proofs.LogqlSemCheckProofs proofs.LogqlRegexpProofs proofs.LogqlSem2Base proofs.LogqlSem2Proofs
  model.LogqlSemZone proofs.LogqlSemZoneProofs proofs.LogqlSemReexecProofs proofs.LogqlSemUnfinProofs.
(* RG : ReGroups is the extraction oracle of the regexp stage (model/SqlEval.v); it is an implicit (type class) argument of
   the evaluator and of the reference semantics, universally quantified in every theorem below that names it; a statement
   that does not name it is about the default instance no_groups (no regexp stage can be evaluated). *)
Import ListNotations.
Open Scope string_scope.

(* Full statement over the modelled fragment (matchers = != =~ !~; line filters |= != |~ !~; label
   filters before any parser, string and numeric, and/or/parentheses; limit; direction; cluster or not):
   FALSE for the code as it is - witness {b="1", a!="x"} over a series {b="1"} (defect #16: the label
   index has no row for an absent label, so a matcher that accepts "" never selects such a series). *)
Theorem logql_log_sound_complete_refuted : ~ log_sound_complete_stmt.
Proof. exact logql_log_sound_complete_refuted_proof. Qed.
Print Assumptions logql_log_sound_complete_refuted.

(* The strongest true statement: for every regex / float oracle, every tie-breaking of ClickHouse, every
   query of the fragment, every context and every database that the writer's invariants (db_ok) allow,
   if no matcher that accepts "" meets a series lacking its label, and there are at most 63 matchers (the
   bitmask is a UInt64 since fix 052673d and Go builds its constant from an int), then
   the planners produce a SELECT, it evaluates, and its rows are exactly the reference answer
   (a permutation of all matching lines without limit; a top-L set in the query direction with limit L),
   each line carrying its own stream's labels. Line filters and label filters are covered in full. *)
Theorem logql_log_partial :
  forall (RG : ReGroups) re_match parse_float json_get hash_labels (tie : forall A : Type, list A -> list A),
    (forall A (l : list A), Permutation (tie A l) l) ->
    forall q c d, in_fragment q = true -> oracle_ok re_match parse_float q -> ctx_ok c = true -> db_ok c d ->
    width_guard q = true -> absent_guard re_match q d ->
    log_correct re_match parse_float json_get hash_labels tie q c d.
Proof. exact logql_log_partial_proof. Qed.
Print Assumptions logql_log_partial.

(* ---- supporting theorems, meaningful on their own ---- *)

(* groupBitOr(bitShiftLeft(c0,0) + ... + bitShiftLeft(c(n-1),n-1)) == 2^n - 1 over a group of rows
   iff every condition holds on some row of the group; n <= 64 (UInt64 width of the shifted condition) *)
Theorem bitmask_having : forall (n : nat) (rows : list (list bool)),
  (n <= 64)%nat -> (forall bs, List.In bs rows -> List.length bs = n) ->
  (fold_left N.lor (map row_mask rows) 0%N = (2 ^ N.of_nat n - 1)%N
   <-> forall i, (i < n)%nat -> exists bs, List.In bs rows /\ nth i bs false = true).
Proof. exact SqlEvalProofs.bitmask_having. Qed.
Print Assumptions bitmask_having.

(* like(s, '%' ++ escaped v ++ '%') is "s contains v", for the escaping done by doLike after the fix 0add983 *)
Theorem like_contains : forall v s, like_sem (like_pattern v) s = contains v s.
Proof. exact SqlEvalProofs.like_contains. Qed.
Print Assumptions like_contains.

Theorem ilike_contains : forall v s, ilike_sem (like_pattern v) s = contains (to_lower v) (to_lower s).
Proof. exact SqlEvalProofs.ilike_contains. Qed.
Print Assumptions ilike_contains.

(* ORDER BY ... LIMIT k keeps min(k, n) rows and no dropped row sorts before a kept one *)
Theorem limit_topk : forall (A : Type) (leb : A -> A -> bool),
  (forall a b, leb a b = true \/ leb b a = true) ->
  (forall a b c, leb a b = true -> leb b c = true -> leb a c = true) ->
  forall (l : list A) (k : nat),
  exists rest, Permutation l (firstn k (isort leb l) ++ rest)
    /\ List.length (firstn k (isort leb l)) = Nat.min k (List.length l)
    /\ forall r o, List.In r (firstn k (isort leb l)) -> List.In o rest -> leb r o = true.
Proof. exact (@SqlEvalProofs.limit_topk). Qed.
Print Assumptions limit_topk.

(* the fp_sel CTE of StreamSelectPlanner, evaluated by SqlEval, returns exactly the fingerprints for
   which every matcher is witnessed by a label-index row inside the date / type bounds *)
Theorem fp_sel_correct :
  forall (RG : ReGroups) re_match parse_float json_get hash_labels (tie : forall A : Type, list A -> list A) c d, ctx_ok c = true ->
  forall ms, ms <> [] -> (List.length ms <= 64)%nat ->
    esel re_match parse_float json_get hash_labels tie (to_sqldb c d) (stream_select c ms) = Some (map fp_row (fp_sel_list re_match c d ms))
    /\ forall fp, (List.In fp (fp_sel_list re_match c d ms) <->
         forall m, List.In m ms -> exists g, List.In g (d_gin d) /\ g_fp g = fp /\ (from_day (c_from_ns c) <= g_day g)%Z
                                        /\ type_in c (g_type g) = true /\ clause_b re_match m (g_key g) (g_val g) = true).
Proof.
  intros RG re_match parse_float json_get hash_labels tie c d Hctx ms Hne Hlen. split.
  - now apply es_stream_select.
  - intros fp. now apply fp_sel_list_in.
Qed.
Print Assumptions fp_sel_correct.

(* every line-filter predicate the planner emits (like / notLike / ilike / notILike / match == 1 / == 0)
   means the LogQL line filter, for all four operators, on every row that carries the line text under the
   name `samples.string` - the stored column of the source, never the alias `string` of the select (strengthened with the
   repair regex-line-filter-reads-alias of /repo: the match() form read the bare name `string`, i.e. the line a line_format
   stage written BEHIND the filter in the same select produces; the hypothesis asked for both names before) *)
Theorem line_filter_correct :
  forall (RG : ReGroups) re_match parse_float json_get hash_labels (tie : forall A : Type, list A -> list A) c d op val re_lit r g line,
    lookup "samples.string" r = Some (VStr line) ->
    stage_oracle_ok re_match parse_float (PLineFilter op val re_lit) ->
    ev re_match parse_float json_get hash_labels tie (to_sqldb c d) (line_filter_clause op val re_lit) (r :: g)
    = Some (vbool (line_ok re_match line op val)).
Proof.
  intros RG re_match parse_float json_get hash_labels tie c d op val re_lit r g line Hr H.
  exact (ev_lft_clause re_match parse_float json_get hash_labels tie c d (op, val, re_lit) r g line Hr H).
Qed.
Print Assumptions line_filter_correct.

(* the hypotheses of logql_log_partial are met by an ordinary query (two matchers, |= and !~ line filters,
   a label filter, limit 1, forward, cluster table names) over a non-empty database, and the SELECT the
   planners build for it evaluates to the one matching line *)
Theorem logql_log_partial_guards_met :
  in_fragment ex_query = true /\ oracle_ok no_re no_float ex_query /\ ctx_ok ex_ctx = true /\ db_ok ex_ctx w_db
  /\ width_guard ex_query = true /\ absent_guard no_re ex_query w_db
  /\ exists sel, log_select ex_query ex_ctx = Some sel
       /\ option_map (map row_out) (eval no_re no_float no_json no_hash LogqlSemProofs.tie_id (to_sqldb ex_ctx w_db) sel)
          = Some [Some {| o_fp := 7; o_labels := [("b", "1")]; o_line := "hello"; o_ts := 1700000000000000005 |}].
Proof. exact partial_guards_met. Qed.
Print Assumptions logql_log_partial_guards_met.

(* the boolean oracle that the check runs on the rows of the implementation's SQL decides the reference
   semantics exactly (it neither accepts a wrong answer nor rejects a right one) *)
Theorem spec_oracle_decides : forall (RG : ReGroups) re_match parse_float q c d res,
  sem_b re_match parse_float q c d res = true <-> logql_sem re_match parse_float q c d res.
Proof. exact @sem_b_iff. Qed.
Print Assumptions spec_oracle_decides.

(* a selector with nine matchers selects its series (it returned nothing before fix 052673d) *)
Theorem nine_matchers_select :
  exists sel, log_select w9_query w_ctx = Some sel
    /\ option_map (map row_out) (eval no_re no_float no_json no_hash LogqlSemProofs.tie_id (to_sqldb w_ctx w9_db) sel)
       = Some [Some {| o_fp := 7; o_labels := ts_labels w9_series; o_line := "hello"; o_ts := 1700000000000000005 |}].
Proof. exact LogqlSemProofs.nine_matchers_select. Qed.
Print Assumptions nine_matchers_select.

(* ... and the same for the whole SQL-planned pipeline (json parameters, drop, filters in any order) *)
Theorem spec_oracle2_decides : forall (RG : ReGroups) re_match parse_float json_get hash_labels q c d res,
  sem2_b re_match parse_float json_get hash_labels q c d res = true
  <-> logql_sem2 re_match parse_float json_get hash_labels q c d res.
Proof. exact @sem2_b_iff. Qed.
Print Assumptions spec_oracle2_decides.

(* The whole SQL-planned pipeline: for every regex / float / json-extraction / regexp-extraction / label-hash oracle, every
   tie-breaking of ClickHouse, every query whose pipeline is made of line filters, label filters (string and numeric,
   and/or/nesting), json stages with parameters, regexp stages (an expression the planner's grammar accepts, named groups
   with distinct names; oracle_ok: the expression sent has as many capture groups as the text opens) and drop stages IN ANY
   ORDER (in_fragment2: at least one json, regexp or drop), every context and every
   database satisfying db_ok, under the same two guards as logql_log_partial (no matcher accepting "" meets a series lacking
   its label; at most 63 matchers): the planners produce a SELECT, it evaluates, and its rows are exactly the reference
   answer logql_sem2 - every line travels through the stages with its current label map and fingerprint (run_stages: a json
   stage writes the extracted values over the labels and re-fingerprints, a regexp stage writes the non-empty texts of its
   NAMED capture groups - group i is the i-th opening parenthesis of the expression -, a drop removes labels, a filter reads the CURRENT
   labels / the line text), restricted to the window and the queried type, a permutation of all surviving lines without
   limit, a top-L set in the query direction with limit L, each line with its current labels.
   Proved by induction over the pipeline (proofs/LogqlSem2Proofs.v: spl_rest) with an invariant relating the open select of
   the planner built for a prefix to the live states of run_stages on that prefix (proofs/LogqlSem2Base.v: sinv). *)
Theorem logql_log_partial_parsers :
  forall (RG : ReGroups) re_match parse_float json_get hash_labels (tie : forall A : Type, list A -> list A),
    (forall A (l : list A), Permutation (tie A l) l) ->
    forall q c d, in_fragment2 q = true -> oracle_ok re_match parse_float q -> ctx_ok c = true -> db_ok c d ->
    width_guard q = true -> absent_guard re_match q d ->
    log_correct2 re_match parse_float json_get hash_labels tie q c d.
Proof. exact logql_log_partial_parsers_proof. Qed.
Print Assumptions logql_log_partial_parsers.

(* its hypotheses are met by an ordinary query: |= "lev" | json lvl="level", m="msg" | lvl="info" | drop b, m="nope" != "zzz"
   | json lvl="nothing" (limit 1, forward, cluster table names) over two lines of one stream; the SELECT the planners build
   evaluates to the one surviving line with its final labels (lvl kept: the last extraction finds nothing and writes no label since the repair json-missing-path-overwrites; b dropped) and the
   fingerprint of the last json stage *)
Theorem logql_log_partial_parsers_guards_met :
  in_fragment2 ex2_query = true /\ oracle_ok no_re no_float ex2_query /\ ctx_ok ex_ctx = true /\ db_ok ex_ctx ex2_db
  /\ width_guard ex2_query = true /\ absent_guard no_re ex2_query ex2_db
  /\ match log_select ex2_query ex_ctx with
     | Some sel => option_map (map row_out) (eval no_re no_float ex2_json ex2_hash LogqlSemProofs.tie_id (to_sqldb ex_ctx ex2_db) sel)
     | None => None end
     = Some [Some {| o_fp := 102; o_labels := [("lvl", "info"); ("m", "ok")]; o_line := ex2_line; o_ts := 1700000000000000005 |}].
Proof. exact partial_parsers_guards_met. Qed.
Print Assumptions logql_log_partial_parsers_guards_met.

(* the regexp stage: for every expression the planner accepts, the expression it sends is the text with every `(?P<name>`
   replaced by `(`, and the label names it pairs with the capture groups (regexAST.collectGroupNames, transcribed) are the
   names written in the groups IN THE ORDER OF THEIR OPENING PARENTHESES - the numbering of RE2 and of
   extractAllGroupsHorizontal - also when a group is nested inside a named group *)
Theorem regexp_names_by_opening_parenthesis : forall re sent names, re_plan re = Some (sent, names) ->
  exists ts, lex_re re = Some ts /\ sent = tok_sent ts /\ names = tok_names ts.
Proof. exact re_plan_by_opening_parenthesis. Qed.
Print Assumptions regexp_names_by_opening_parenthesis.

(* the hypotheses of logql_log_partial_parsers are met by a query with a regexp stage:
   | regexp "(?P<ip>(?P<n>\d+)\.\d+) (?P<verb>\w+)" | n="10" | drop ip  over a matching and a non-matching line; the SELECT the
   planners build evaluates (under an oracle that knows the groups of that one expression) to the matching line with the
   labels n and verb added, ip dropped, and the fingerprint of the drop stage *)
Theorem logql_log_partial_regexp_guards_met :
  in_fragment2 ex3_query = true /\ oracle_ok (RG := ex3_groups) no_re no_float ex3_query /\ ctx_ok ex_ctx = true /\ db_ok ex_ctx ex3_db
  /\ width_guard ex3_query = true /\ absent_guard no_re ex3_query ex3_db
  /\ match log_select ex3_query ex_ctx with
     | Some sel => option_map (map row_out) (eval (RG := ex3_groups) no_re no_float ex2_json ex2_hash LogqlSemProofs.tie_id (to_sqldb ex_ctx ex3_db) sel)
     | None => None end
     = Some [Some {| o_fp := 103; o_labels := [("b", "1"); ("n", "10"); ("verb", "get")]; o_line := ex3_line; o_ts := 1700000000000000005 |}].
Proof. exact partial_regexp_guards_met. Qed.
Print Assumptions logql_log_partial_regexp_guards_met.

(* Plan(script, false): the statement whose rows feed the in-process engine when the pipeline has a stage that is not planned
   in SQL (`| json` without parameters, `| logfmt`, `| line_format`: logql_transpiler_v2.Plan breaks the script in front of it
   and plans the prefix with finalize = false). For every query of either fragment (filters only - the usual prefix -, or
   json / regexp / drop stages in any order), under the hypotheses of logql_log_partial[_parsers]: the planners produce a
   SELECT, it evaluates, and its rows are ALL the lines the prefix lets through, each with its current labels and
   fingerprint, whatever ctx.Limit says (the limit is the in-process LimitPlanner's business), in timestamp order of the
   query direction (what that LimitPlanner relies on when it keeps the first N). *)
Theorem logql_breakpoint_plan :
  forall (RG : ReGroups) re_match parse_float json_get hash_labels (tie : forall A : Type, list A -> list A),
    (forall A (l : list A), Permutation (tie A l) l) ->
    forall q c d, in_fragment q || in_fragment2 q = true -> oracle_ok re_match parse_float q -> ctx_ok c = true -> db_ok c d ->
    width_guard q = true -> absent_guard re_match q d ->
    bp_correct2 re_match parse_float json_get hash_labels tie q c d.
Proof. exact logql_breakpoint_plan_proof. Qed.
Print Assumptions logql_breakpoint_plan.

(* its hypotheses are met by the query of logql_log_partial_guards_met over three lines: ctx.Limit is 1, the statement of
   Plan(script, false) returns both matching lines, the older one first (forward) *)
Theorem logql_breakpoint_plan_guards_met :
  in_fragment ex_query || in_fragment2 ex_query = true /\ oracle_ok (RG := no_groups) no_re no_float ex_query /\ ctx_ok ex_ctx = true
  /\ db_ok ex_ctx bp_db /\ width_guard ex_query = true /\ absent_guard no_re ex_query bp_db /\ c_limit ex_ctx = 1%Z
  /\ match bp_select ex_query ex_ctx with
     | Some sel => option_map (map row_out) (eval (RG := no_groups) no_re no_float no_json no_hash LogqlSemProofs.tie_id (to_sqldb ex_ctx bp_db) sel)
     | None => None end
     = Some [Some {| o_fp := 7; o_labels := [("b", "1")]; o_line := "well"; o_ts := 1700000000000000003 |};
             Some {| o_fp := 7; o_labels := [("b", "1")]; o_line := "hello"; o_ts := 1700000000000000005 |}].
Proof. exact breakpoint_guards_met. Qed.
Print Assumptions logql_breakpoint_plan_guards_met.

(* the boolean oracle the check runs on the rows of a Plan(script, false) statement decides that specification *)
Theorem spec_oracle_bp_decides : forall (RG : ReGroups) re_match parse_float json_get hash_labels q c d res,
  sem2_bp_b re_match parse_float json_get hash_labels q c d res = true
  <-> Permutation res (log_rows2 re_match parse_float json_get hash_labels q c d) /\ ts_sorted (c_asc c) res.
Proof. exact @sem2_bp_b_iff. Qed.
Print Assumptions spec_oracle_bp_decides.

(* THE PROPERTY IN ONE STATEMENT, over both fragments: matchers = != =~ !~; a pipeline of line filters, label filters (string and
   numeric, and/or/parentheses), json stages with parameters, regexp stages and drop stages in any order (possibly none of the
   relabelling ones); every context (window, limit, direction, type, cluster or not); every database the writer's invariants
   allow; every oracle and tie-breaking - under the two guards (defect #16: a matcher that accepts "" meeting a series lacking
   its label; at most 63 matchers), the SQL the planners generate returns exactly the lines whose stream satisfies every
   matcher, whose text passes every line filter and whose CURRENT labels pass every label filter, inside [from, to) and of the
   queried type, each with its current labels; with a limit the newest (oldest, forward) ones. On a pipeline of filters the
   reference of logql_log_partial (log_rows) and this one (log_rows2) are the same list (log_rows2_filters). *)
Theorem logql_log_correct :
  forall (RG : ReGroups) re_match parse_float json_get hash_labels (tie : forall A : Type, list A -> list A),
    (forall A (l : list A), Permutation (tie A l) l) ->
    forall q c d, in_fragment q || in_fragment2 q = true -> oracle_ok re_match parse_float q -> ctx_ok c = true -> db_ok c d ->
    width_guard q = true -> absent_guard re_match q d ->
    log_correct2 re_match parse_float json_get hash_labels tie q c d.
Proof. exact logql_log_correct_proof. Qed.
Print Assumptions logql_log_correct.

(* the fuel of the transcribed lexer / recursive descent never decides: with more fuel the answers are the same, so a `None`
   of re_plan is a byte without a lexer rule or a grammar error (what the Go parser reports), never an exhausted fuel *)
Theorem regexp_grammar_fuel_irrelevant :
  (forall f re, (String.length re <= f)%nat -> lex f re = lex_re re)
  /\ (forall f ts, (List.length ts < f)%nat -> parts f ts = parts (S (List.length ts)) ts).
Proof. exact grammar_fuel_irrelevant. Qed.
Print Assumptions regexp_grammar_fuel_irrelevant.

(* ---- line_format on the ClickHouse planner (builder b4-lf; model/LogqlTemplate.v = the part of text/template the planner
   reaches, tied byte for byte; format() = a reading of the ClickHouse documentation: {{ }} escapes, {n} = argument n).
   The LINE such a query returns: the column expression LineFormatPlanner prints for a parsed template evaluates, over a row with
   label map lbls (labels['x'] = '' for an absent key), to the text nodes and the label values of the fields visitNodes reaches, in
   order - for EVERY template of the transcribed fragment ... *)
From Qryn Require model.LogqlTemplate proofs.LogqlTemplateProofs.
Theorem line_format_column_value : forall ns lbls,
  LogqlTemplate.tpl_sql_value ns lbls = Some (LogqlTemplateProofs.render_pieces (LogqlTemplate.pieces ns) lbls).
Proof. exact LogqlTemplateProofs.tpl_sql_value_pieces. Qed.
Print Assumptions line_format_column_value.
(* ... which is the template's own output wherever executing it (text/template over map[string]string) succeeds with a plain
   text: every action a single field {{.name}}. Longer chains, several operands and pipes into fields fail at execution while
   the planner silently reads the first identifier; the dot prints Go's map syntax: outside the claim (tpl_exec = None). *)
Theorem line_format_column_renders_the_template : forall ns lbls out,
  LogqlTemplate.tpl_exec ns lbls = Some out -> LogqlTemplate.tpl_sql_value ns lbls = Some out.
Proof. exact LogqlTemplateProofs.line_format_sql_value. Qed.
Print Assumptions line_format_column_renders_the_template.
Example line_format_column_hyp :
  exists ns, LogqlTemplate.tpl_parse "lvl={{.level}} {msg}{{- .x -}} !" = LogqlTemplate.TOk ns /\
             LogqlTemplate.tpl_exec ns [("level", "warn")] = Some "lvl=warn {msg}!" /\
             LogqlTemplate.tpl_sql_value ns [("level", "warn")] = Some "lvl=warn {msg}!".
Proof. exact LogqlTemplateProofs.line_format_sql_value_hyp. Qed.

(* a stage behind line_format reads the REWRITTEN line (repair 42297ce of /repo: the select is closed behind a line_format; before it the
   line filter of {b="1"} | line_format "zzz" |= "zzz" tested samples.string inside the select that joins the labels, which has
   no such column - the statement was refused): the planned statement, executed by SqlEval over C07's example database (stored
   line "hello"), returns the row with the line zzz; with |= "ell" it returns nothing *)
From Qryn Require proofs.LogqlLineFormatExamples.
Example line_filter_behind_line_format_reads_the_formatted_line :
  LogqlLineFormatExamples.lff_rows LogqlLineFormatExamples.lff_query
  = Some [Some {| o_fp := 7; o_labels := [("b", "1")]; o_line := "zzz"; o_ts := 1700000000000000005 |}] /\
  LogqlLineFormatExamples.lff_rows {| sel_matchers := sel_matchers LogqlLineFormatExamples.lff_query;
                                      sel_pipeline := [PLineFormat "zzz"; PLineFilter LFContains "ell" None] |} = Some [].
Proof. split; [exact LogqlLineFormatExamples.line_filter_behind_line_format_reads_the_formatted_line
              | exact LogqlLineFormatExamples.line_filter_behind_line_format_ignores_the_stored_line]. Qed.

(* ---- `| line_format` pipelines (round 4, builder b4-c07): the LINE travels with the state. Reference run_lstages / log_rows3
   (model/LogqlSem.v): a line_format stage replaces the line by the output of its template over the CURRENT labels
   (LogqlTemplate.tpl_exec: text copied, {{.name}} = the label, "" when absent); every later stage (line filters, json /
   regexp extraction) reads the new line and the query returns it; labels and fingerprint stay. Fragment 3 = the stages of
   fragment 2 and line_format stages whose template is inside the transcribed part of text/template with every action one
   plain field, in any order (lfmt_simple_ok: no label filter between a line_format that is the first stage to need the
   labels and the first parser / drop). Under the same hypotheses as logql_log_partial_parsers the planned statement,
   evaluated by SqlEval (new clause format('<pattern>', a0, ...) = LogqlTemplate.format_eval), returns logql_sem3. ---- *)
Theorem logql_log_line_format :
  forall (RG : ReGroups) re_match parse_float json_get hash_labels (tie : forall A : Type, list A -> list A),
    (forall A (l : list A), Permutation (tie A l) l) ->
    forall q c d, in_fragment3 q = true -> oracle_ok re_match parse_float q -> ctx_ok c = true -> db_ok c d ->
    width_guard q = true -> absent_guard re_match q d ->
    log_correct3 re_match parse_float json_get hash_labels tie q c d.
Proof. exact logql_log_line_format_proof. Qed.
Print Assumptions logql_log_line_format.
(* the hypotheses are met by {b="1"} | json lvl="level" |~ "l.v" | line_format "{{.lvl}}: done {x}" |= "info: d": the regular-
   expression filter and the line_format share a select and the filter tests the STORED line (it tested the formatted one before
   the repair and dropped the row); the statement evaluates to the one line `info: done {x}` *)
Example logql_log_line_format_guards_met :
  in_fragment3 ex4_query = true /\ oracle_ok (RG := no_groups) ex4_re no_float ex4_query /\ ctx_ok ex_ctx = true /\ db_ok ex_ctx ex2_db
  /\ width_guard ex4_query = true /\ absent_guard ex4_re ex4_query ex2_db
  /\ match log_select ex4_query ex_ctx with
     | Some sel => option_map (map row_out) (eval (RG := no_groups) ex4_re no_float ex2_json ex2_hash tie_id (to_sqldb ex_ctx ex2_db) sel)
     | None => None end
     = Some [Some {| o_fp := 102; o_labels := [("b", "1"); ("lvl", "info")]; o_line := "info: done {x}"; o_ts := 1700000000000000005 |}].
Proof. exact line_format_guards_met. Qed.
(* on a pipeline without line_format the two references are the same list *)
Theorem log_rows3_is_log_rows2_without_line_format :
  forall (RG : ReGroups) re_match parse_float json_get hash_labels q c d, no_lfmt (sel_pipeline q) = true ->
    log_rows3 re_match parse_float json_get hash_labels q c d = log_rows2 re_match parse_float json_get hash_labels q c d.
Proof. exact @log_rows3_no_lfmt. Qed.
Print Assumptions log_rows3_is_log_rows2_without_line_format.
(* THE PROPERTY IN ONE STATEMENT over the three fragments *)
Theorem logql_log_correct_all :
  forall (RG : ReGroups) re_match parse_float json_get hash_labels (tie : forall A : Type, list A -> list A),
    (forall A (l : list A), Permutation (tie A l) l) ->
    forall q c d, in_fragment q || in_fragment2 q || in_fragment3 q = true -> oracle_ok re_match parse_float q -> ctx_ok c = true ->
    db_ok c d -> width_guard q = true -> absent_guard re_match q d ->
    log_correct3 re_match parse_float json_get hash_labels tie q c d.
Proof. exact logql_log_correct3_proof. Qed.
Print Assumptions logql_log_correct_all.

(* ---- round 5: line_format pipelines inside the failing-input search, and their Plan(script, false) ---- *)
(* the boolean oracles that judge EVERY case of the search since round 5 (reference log_rows3: the line travels with the state;
   = log_rows2 without line_format, log_rows3_is_log_rows2_without_line_format) decide the specification *)
Theorem spec_oracle3_decides : forall (RG : ReGroups) re_match parse_float json_get hash_labels q c d res,
  sem3_b re_match parse_float json_get hash_labels q c d res = true
  <-> logql_sem3 re_match parse_float json_get hash_labels q c d res.
Proof. exact @sem3_b_iff. Qed.
Print Assumptions spec_oracle3_decides.
Theorem spec_oracle3_bp_decides : forall (RG : ReGroups) re_match parse_float json_get hash_labels q c d res,
  sem3_bp_b re_match parse_float json_get hash_labels q c d res = true
  <-> Permutation res (log_rows3 re_match parse_float json_get hash_labels q c d) /\ ts_sorted (c_asc c) res.
Proof. exact @sem3_bp_b_iff. Qed.
Print Assumptions spec_oracle3_bp_decides.
(* Plan(script, false).Process of a fragment-3 pipeline (the statement without MainLimitPlanner whose rows feed the in-process
   engine): every line the pipeline lets through - the FORMATTED line, with its current labels -, whatever ctx.Limit says,
   sorted by timestamp in the query direction. (bp_correct2 written out over log_rows3.) *)
Theorem logql_breakpoint_plan_line_format :
  forall (RG : ReGroups) re_match parse_float json_get hash_labels (tie : forall A : Type, list A -> list A),
    (forall A (l : list A), Permutation (tie A l) l) ->
    forall q c d, in_fragment3 q = true -> oracle_ok re_match parse_float q -> ctx_ok c = true -> db_ok c d ->
    width_guard q = true -> absent_guard re_match q d ->
    exists sel rows outs,
      bp_select q c = Some sel
      /\ eval re_match parse_float json_get hash_labels tie (to_sqldb c d) sel = Some rows
      /\ map row_out rows = map Some outs
      /\ Permutation outs (log_rows3 re_match parse_float json_get hash_labels q c d)
      /\ ts_sorted (c_asc c) outs.
Proof. exact logql_breakpoint_plan_line_format_proof. Qed.
Print Assumptions logql_breakpoint_plan_line_format.
(* the hypotheses are those of logql_log_line_format (met: logql_log_line_format_guards_met, same query, context and database);
   the breakpoint statement of that query evaluates (SqlEval) to the formatted line *)
Example logql_breakpoint_plan_line_format_evaluates :
  match bp_select ex4_query ex_ctx with
  | Some sel => option_map (map row_out) (eval (RG := no_groups) ex4_re no_float ex2_json ex2_hash tie_id (to_sqldb ex_ctx ex2_db) sel)
  | None => None end
  = Some [Some {| o_fp := 102; o_labels := [("b", "1"); ("lvl", "info")]; o_line := "info: done {x}"; o_ts := 1700000000000000005 |}].
Proof. exact line_format_bp_evaluates. Qed.
(* ... and over the three fragments in one statement *)
Theorem logql_breakpoint_plan_all :
  forall (RG : ReGroups) re_match parse_float json_get hash_labels (tie : forall A : Type, list A -> list A),
    (forall A (l : list A), Permutation (tie A l) l) ->
    forall q c d, in_fragment q || in_fragment2 q || in_fragment3 q = true -> oracle_ok re_match parse_float q -> ctx_ok c = true ->
    db_ok c d -> width_guard q = true -> absent_guard re_match q d ->
    exists sel rows outs,
      bp_select q c = Some sel
      /\ eval re_match parse_float json_get hash_labels tie (to_sqldb c d) sel = Some rows
      /\ map row_out rows = map Some outs
      /\ Permutation outs (log_rows3 re_match parse_float json_get hash_labels q c d)
      /\ ts_sorted (c_asc c) outs.
Proof. exact logql_breakpoint_plan_all_proof. Qed.
Print Assumptions logql_breakpoint_plan_all.

(* ---------- round 6: the zone of the reader process (seeded change C07-f) ----------
   The services build the window with time.Unix(0, ns): a time in the zone of the PROCESS. FormatFromDate converts it to
   UTC before it prints the day bound of the series-index reads, because the writer dates index rows by the UTC day. The
   planner model therefore has no zone parameter, and the check plans every statement under a sweep of process zones
   (harness logqlsql: ctx.tz, and one run under TZ=Asia/Tokyo) and requires the text of the zone-free model.
   model/LogqlSemZone.v is the variant WITHOUT the conversion: zone_select off q c = the statement of log_select with every
   date literal replaced by local_from_day off (c_from_ns c), the calendar day of a process `off` seconds east of UTC. *)

(* logql_log_partial, word for word, is FALSE for a reader process in UTC+9: {app="billing"} |= "error" over
   [2024-03-10T21:00Z, 22:00Z) and one stream whose index rows carry that UTC day only - the bound printed is 2024-03-11,
   the stream is in no fingerprint set and the matching line is not returned (z_east_answer: the statement evaluates to
   no row). The same witness is a row of corpus/C07/sem.jsonl, replayed on the real planners under that zone. *)
Theorem day_bound_in_process_zone_refuted : ~ zone_stmt 32400.
Proof. exact day_bound_in_process_zone_refuted_proof. Qed.
Print Assumptions day_bound_in_process_zone_refuted.

(* the hypotheses of zone_stmt are met by that witness; the statement of the planners as they are (and of the variant in
   a UTC process, the same tree) returns the matching line with its stream's labels, so does the variant west of UTC
   (New York); the variant in UTC+9 returns nothing *)
Example day_bound_witness :
  in_fragment z_query = true /\ oracle_ok no_re no_float z_query /\ ctx_ok z_ctx = true /\ db_ok z_ctx z_db
  /\ width_guard z_query = true /\ absent_guard no_re z_query z_db
  /\ (exists sel, log_select z_query z_ctx = Some sel /\ zone_select 0 z_query z_ctx = Some sel
        /\ option_map (map row_out) (eval no_re no_float no_json no_hash tie_id (to_sqldb z_ctx z_db) sel) = Some [Some z_out])
  /\ (exists sel, zone_select (-18000) z_query z_ctx = Some sel
        /\ option_map (map row_out) (eval no_re no_float no_json no_hash tie_id (to_sqldb z_ctx z_db) sel) = Some [Some z_out])
  /\ (exists sel, zone_select 32400 z_query z_ctx = Some sel
        /\ eval no_re no_float no_json no_hash tie_id (to_sqldb z_ctx z_db) sel = Some []).
Proof.
  destruct z_guards as [H1 [H2 [H3 [H4 [H5 H6]]]]].
  split; [exact H1|]. split; [exact H2|]. split; [exact H3|]. split; [exact H4|]. split; [exact H5|]. split; [exact H6|].
  split; [exact z_utc_answer|]. split; [exact z_west_answer|exact z_east_answer].
Qed.

(* which windows: in a process 0 .. 24 h east of UTC the day printed without the conversion is the UTC day or the NEXT
   one - the next one exactly when the UTC time of day of (start - 30 min) lies within the offset of midnight (for
   UTC+9: every window that starts at or after 15:30 UTC); in a UTC process it is the UTC day (why no run in a UTC
   container sees the change); west of UTC it is the UTC day or the one before, a bound that is never later than the
   right one. The generator class process-zone of harness logqlsem puts its windows on exactly these intervals and edges. *)
Theorem zone_day_utc_process : forall f, local_from_day 0 f = from_day f.
Proof. exact local_from_day_utc. Qed.
Print Assumptions zone_day_utc_process.
Theorem zone_day_east_of_utc : forall off f, (0 <= off <= 86400)%Z ->
  (from_day f <= local_from_day off f <= from_day f + 1)%Z
  /\ (local_from_day off f = from_day f + 1 <->
      (86400 - off) * 1000000000 <= (f - 1800 * 1000000000) mod (86400 * 1000000000))%Z.
Proof. intros off f H. split; [exact (local_from_day_east off f H)|exact (local_from_day_east_next off f H)]. Qed.
Print Assumptions zone_day_east_of_utc.
Theorem zone_day_west_of_utc : forall off f, (-86400 <= off <= 0)%Z ->
  (from_day f - 1 <= local_from_day off f <= from_day f)%Z.
Proof. exact local_from_day_west. Qed.
Print Assumptions zone_day_west_of_utc.
Example zone_day_witness :
  from_day (c_from_ns z_ctx) = 19792%Z /\ local_from_day 32400 (c_from_ns z_ctx) = 19793%Z
  /\ local_from_day (-18000) (c_from_ns z_ctx) = 19792%Z.
Proof. exact z_days. Qed.

(* ---------- round 7: a plan object processed again with another window (seeded change C07-g) ----------
   QueryRangeService.Tail transpiles once and calls Process on the one plan object every second, each time with a context
   of its own. In the model a planner is a value and process builds the statement from the context it is handed: the
   statement of a later call is log_select q c2 and the theorems above apply to it (the check's re-execution mode processes
   the REAL plan object two or three times and judges the last statement against the last window). The seeded
   LabelFilterPlanner answers every later call with the select of its first call: reuse_correct is log_correct2 with the
   statement planned for c1 read for the window c2; reuse_stmt = logql_log_partial_parsers word for word for it (contexts
   that differ in the window only, db_ok for both). Refuted by the demonstration of the seed, a row of corpus/C07/sem.jsonl. *)
Theorem reused_first_statement_refuted : ~ reuse_stmt.
Proof. exact reused_first_statement_refuted_proof. Qed.
Print Assumptions reused_first_statement_refuted.

(* with the window it was planned for, the statement is the one of logql_log_partial_parsers *)
Theorem reuse_same_window_is_log_correct2 :
  forall (RG : ReGroups) re_match parse_float json_get hash_labels (tie : forall A : Type, list A -> list A) q c d,
    reuse_correct re_match parse_float json_get hash_labels tie q c c d <-> log_correct2 re_match parse_float json_get hash_labels tie q c d.
Proof. intros. apply reuse_same_window. Qed.
Print Assumptions reuse_same_window_is_log_correct2.

(* the hypotheses of reuse_stmt are met by the witness ({app="shop"} | drop pod | app="shop", windows [t0, t0+10s) and
   [t0+10s, t0+20s), lines at t0+1s, +4s, +11s); each call's own statement returns the lines of its own window; the first
   call's statement read for the second window returns lines 1 and 2 where the reference has line 3 *)
Example reused_statement_witness :
  (in_fragment2 r_query = true /\ oracle_ok no_re no_float r_query /\ ctx_ok r_c1 = true /\ ctx_ok r_c2 = true
   /\ same_but_window r_c1 r_c2 /\ db_ok r_c1 r_db /\ db_ok r_c2 r_db /\ width_guard r_query = true /\ absent_guard no_re r_query r_db)
  /\ (exists sel, log_select r_query r_c2 = Some sel
        /\ option_map (map row_out) (eval no_re no_float no_json no_hash tie_id (to_sqldb r_c2 r_db) sel) = Some [Some (r_out 11 "n=3")])
  /\ (exists sel, log_select r_query r_c1 = Some sel
        /\ option_map (map row_out) (eval no_re no_float no_json no_hash tie_id (to_sqldb r_c2 r_db) sel) = Some [Some (r_out 1 "n=1"); Some (r_out 4 "n=2")]
        /\ log_rows2 no_re no_float no_json no_hash r_query r_c2 r_db = [r_out 11 "n=3"]).
Proof. split; [exact r_guards|]. split; [exact (proj2 r_own_answers)|exact r_stale_answer]. Qed.

(* ---------- round 8: the configuration branch ctx.CHFinalize (planner_main_finalizer.go) ----------
   Every theorem above asks `c_finalize c = true` through ctx_ok: the reader's services set the flag. MainFinalizerPlanner.Process
   begins `if !ctx.CHFinalize { return req, nil }`: a PlannerContext built without the flag (its zero value) makes
   Plan(script, true).Process return the select UNDER the outermost one - five columns (timestamp_ns, fingerprint, labels,
   string, value), ORDER BY timestamp_ns, LIMIT, no `prefinal`. ctx_ok_any is ctx_ok without the demand on the flag.
   The statement selects exactly the matching lines for EITHER value of the flag, for every query of the three fragments
   (reference logql_sem3: on pipelines without line_format it is logql_sem2, on filters logql_sem), under the same hypotheses
   as logql_log_partial / _parsers / line_format. Proof: no planner below the root reads the flag (process_fin_irrel, induction
   over the planner object; plan_log_nofin), so the statement without the flag is the operand of the outermost select with it
   (log_select_unfin), and that operand already evaluates to rows that read back as the reference answer (log_plan_inner,
   log_plan2_inner). The check drives the real planners with CHFinalize = false (class `unfinalized` of logqlsem). *)
Theorem logql_log_correct_any_finalize :
  forall (RG : ReGroups) re_match parse_float json_get hash_labels (tie : forall A : Type, list A -> list A),
    (forall A (l : list A), Permutation (tie A l) l) ->
    forall q c d, in_fragment q || in_fragment2 q || in_fragment3 q = true -> oracle_ok re_match parse_float q ->
    ctx_ok_any c = true ->
    db_ok c d -> width_guard q = true -> absent_guard re_match q d ->
    log_correct3 re_match parse_float json_get hash_labels tie q c d.
Proof. exact logql_log_correct_any_finalize_proof. Qed.
Print Assumptions logql_log_correct_any_finalize.

(* the flag is the ONLY thing the statement without it lacks: it is the FROM operand of the statement with it *)
Theorem unfinalized_statement_is_the_operand :
  forall q c sel, c_finalize c = false -> log_select q (set_fin c true) = Some sel ->
    exists req, log_select q c = Some req /\ sel = final_select (set_fin c true) req.
Proof. exact log_select_unfin. Qed.
Print Assumptions unfinalized_statement_is_the_operand.

(* no planner below MainFinalizerPlanner reads ctx.CHFinalize (any planner object, log or metric side) *)
Theorem only_the_finalizer_reads_the_flag :
  forall p c b st, nofin p = true -> process p (set_fin c b) st = process p c st.
Proof. exact process_fin_irrel. Qed.
Print Assumptions only_the_finalizer_reads_the_flag.

(* the hypotheses are met with the flag NOT set (ctx_ok fails, ctx_ok_any holds): the query of partial_parsers_guards_met,
   limit 1, forward, cluster names; the statement has the five columns of the operand and evaluates to the surviving line *)
Example unfinalized_witness :
  in_fragment ex2_query || in_fragment2 ex2_query || in_fragment3 ex2_query = true /\ oracle_ok no_re no_float ex2_query
  /\ ctx_ok_any ex_ctx_unfin = true /\ c_finalize ex_ctx_unfin = false /\ ctx_ok ex_ctx_unfin = false /\ db_ok ex_ctx_unfin ex2_db
  /\ width_guard ex2_query = true /\ absent_guard no_re ex2_query ex2_db
  /\ match log_select ex2_query ex_ctx_unfin with
     | Some sel => (map col_name (s_cols sel),
                    option_map (map row_out) (eval no_re no_float ex2_json ex2_hash tie_id (to_sqldb ex_ctx_unfin ex2_db) sel))
     | None => ([], None) end
     = (["timestamp_ns"; "fingerprint"; "labels"; "string"; "value"],
        Some [Some {| o_fp := 102; o_labels := [("lvl", "info"); ("m", "ok")]; o_line := ex2_line; o_ts := 1700000000000000005 |}]).
Proof. exact unfinalized_guards_met. Qed.
