(* Property C10 — request strings can never change the structure of SQL sent to ClickHouse.
   Only statements; proofs by reference. *)
From Qryn Require Import lib.Strs model.Sql model.SqlRender.   (* first: List.In, Quote.esc/quote below shadow Sql.In, SqlRender.esc/quote *)
From Coq Require Import List String Ascii Bool ZArith.
From Qryn Require Import model.Quote model.ChLex model.Like model.SqlSites model.SqlTemplate model.SqlPieces gen.GenC10Sites.
From Qryn Require Import proofs.QuoteProofs proofs.ChLexProofs proofs.LikeProofs proofs.SqlSitesProofs proofs.SqlTemplateProofs
  proofs.SqlPiecesProofs.
From Qryn Require model.TqSql model.TqPieces proofs.TqPiecesProofs.   (* qualified: TqSql re-uses the names of Sql *)
From Qryn Require model.Traceql model.TraceqlPlan proofs.TqEraseProofs.
From Qryn Require Import model.WSites gen.GenC10WSites proofs.WSitesProofs.
From Qryn Require model.Logql model.LogqlPlan model.PromSel model.ProfSel model.SqlPiecesSel proofs.SqlEraseProofs.   (* qualified *)
Import ListNotations.
Open Scope string_scope.

(* the escape table the model uses is the one in the source (regenerated on every run) *)
Theorem escape_table_is_source : gen_escape_table = escape_table.
Proof. reflexivity. Qed.
Print Assumptions escape_table_is_source.

(* StringVal.String's loop of eight strings.Replace calls over that table is the per-byte map esc *)
Theorem esc_is_sequential_replace : forall s, esc_seq gen_escape_table s = esc s.
Proof. exact esc_seq_is_esc. Qed.
Print Assumptions esc_is_sequential_replace.

(* For every byte string s, the text StringVal.String produces is exactly one ClickHouse string
   literal: it ends at the closing quote and decodes to s (the following text must not begin
   with a quote, because '' inside a literal is an escaped quote). *)
Theorem quote_is_one_literal : forall s rest, safe_rest rest ->
  lex_string (quote_seq s ++ rest) = Some (s, rest).
Proof. intros s rest H. rewrite quote_seq_is_quote. exact (quote_is_one_literal_l s rest H). Qed.
Print Assumptions quote_is_one_literal.

(* Statement level: wherever a quote opens a literal (the lexer, having read pre, is not inside a
   literal, quoted identifier or comment, nor right behind a closing quote), the tokens of
   pre ++ quote s ++ post  are the tokens of pre, ONE string literal decoding to s, and the tokens of post. *)
Theorem quoted_value_is_one_token : forall pre s post,
  opens_literal (after QN pre) = true -> safe_rest post ->
  lex (pre ++ quote_seq s ++ post) =
  (outs QN pre ++ snd (step (after QN pre) "'") ++ TStr s :: lex post)%list.
Proof. intros pre s post H1 H2. rewrite quote_seq_is_quote. exact (lex_around_quote pre s post H1 H2). Qed.
Print Assumptions quoted_value_is_one_token.

(* hence the token skeleton does not depend on the value, *)
Theorem token_skeleton_invariant : forall pre post s1 s2,
  opens_literal (after QN pre) = true -> safe_rest post ->
  skeleton (lex (pre ++ quote_seq s1 ++ post)) = skeleton (lex (pre ++ quote_seq s2 ++ post)).
Proof. intros pre post s1 s2 H1 H2. rewrite !quote_seq_is_quote. exact (token_skeleton_invariant_l pre post s1 s2 H1 H2). Qed.
Print Assumptions token_skeleton_invariant.

(* and the statement's literals are those of the context plus exactly the value *)
Theorem literal_at_hole_is_value : forall pre s post,
  opens_literal (after QN pre) = true -> safe_rest post ->
  lits (lex (pre ++ quote_seq s ++ post)) =
  (lits (outs QN pre ++ snd (step (after QN pre) "'")) ++ s :: lits (lex post))%list.
Proof. intros pre s post H1 H2. rewrite quote_seq_is_quote. exact (literals_around_quote pre s post H1 H2). Qed.
Print Assumptions literal_at_hole_is_value.

(* the hypotheses are met by a real statement prefix/suffix of the stream selector *)
Example ctx_example :
  opens_literal (after QN "SELECT fingerprint FROM ts_gin WHERE ((key) == ('a')) and ((val) == (") = true
  /\ safe_restb ")) GROUP BY fingerprint" = true.
Proof. split; reflexivity. Qed.

(* ---- whole statements with the value written at several places (WHERE and HAVING of the stream
   selector, ...): a statement shape is the list of texts between the places where the quoted value goes.
   If the shape passes the value-independent check tpl_ok (every place is reached in a state where a quote
   opens a literal, the text after it neither begins with a quote nor is empty before the end), then for
   ALL values the instance has the token list tpl_toks: the tokens of the texts and one literal decoding to
   the value at each place.  The check evaluates tpl_ok on every baseline statement of the correspondence
   and compares every observed statement with its shape instantiated by quote_seq. *)
Theorem template_instance_tokens : forall t rest s, tpl_ok QN t rest = true ->
  lex (fill t rest (quote_seq s)) = tpl_toks QN t rest s.
Proof. intros t rest s H. rewrite quote_seq_is_quote. exact (tpl_instance_tokens t rest s H). Qed.
Print Assumptions template_instance_tokens.

Theorem template_skeleton_invariant : forall t rest s1 s2, tpl_ok QN t rest = true ->
  skeleton (lex (fill t rest (quote_seq s1))) = skeleton (lex (fill t rest (quote_seq s2))).
Proof. intros t rest s1 s2 H. rewrite !quote_seq_is_quote. exact (tpl_skeleton_invariant t rest s1 s2 H). Qed.
Print Assumptions template_skeleton_invariant.

(* General form: the planner may wrap the value ('%...%' for LIKE, '^(?:...)$' for anchored regexes): the
   shape's texts then contain the quotes and the wrapping, the places lie inside literal bodies, and what
   is written there is the escape loop's output for the value.  If, running the lexer over the texts
   alone, every place is inside the body of a string literal (tplq_ok), the token skeleton is the same for
   ALL values.  This is the theorem instantiated on every baseline statement of the correspondence. *)
Theorem statement_shape_invariant : forall t rest s1 s2, tplq_ok QN t rest = true ->
  skeleton (lex (fill t rest (esc_seq gen_escape_table s1))) =
  skeleton (lex (fill t rest (esc_seq gen_escape_table s2))).
Proof. intros t rest s1 s2 H. rewrite !esc_seq_is_esc. exact (tplq_skeleton_invariant t rest s1 s2 H). Qed.
Print Assumptions statement_shape_invariant.

Example shape_example_wrapped :
  let '(t0, rest) := split_all "zqxmark"
    "SELECT 1 WHERE ((match(val, '^(?:zqxmark)$')) == (1)) and ((like(samples.string, '%zqxmark%')) == (1)) -- x" in
  List.length rest = 2%nat /\ tplq_ok QN t0 rest = true.
Proof. vm_compute. split; reflexivity. Qed.

(* a real two-place statement (fingerprint selection of {a="zqxmark"}), split at the marker's literal *)
Example shape_example :
  let '(t0, rest) := split_all (quote_seq "zqxmark")
    "SELECT fingerprint FROM ts_gin WHERE ((date) >= ('2023-11-14')) and (type IN (1,0)) and ((((key) == ('a')) and ((val) == ('zqxmark')))) GROUP BY fingerprint HAVING ((groupBitOr(bitShiftLeft(((key) == ('a')) and ((val) == ('zqxmark')), 0))) == (1))" in
  List.length rest = 2%nat /\ tpl_ok QN t0 rest = true.
Proof. vm_compute. split; reflexivity. Qed.

(* ---- LIKE line filters (doLike after fix 0add983) *)
Theorem like_table_is_source : gen_like_table = like_table.
Proof. reflexivity. Qed.
Print Assumptions like_table_is_source.

(* the literal doLike writes is one literal, for every value *)
Theorem doLike_is_one_literal : forall v rest, safe_rest rest ->
  lex_string (do_like_lit v ++ rest) = Some (like_pattern v, rest).
Proof. exact do_like_one_literal. Qed.
Print Assumptions doLike_is_one_literal.

(* and as a LIKE pattern it means "the line contains v", for every value *)
Theorem like_literal_intended : forall v, like_parse (like_pattern v) = contains_pattern v.
Proof. exact like_pattern_means_contains. Qed.
Print Assumptions like_literal_intended.

(* ---- identifiers *)
Theorem lexer_rules_are_reviewed : gen_ident_rules = expected_ident_rules.
Proof. reflexivity. Qed.
Print Assumptions lexer_rules_are_reviewed.

(* a string over the alphabet of any identifier rule of the query lexers is copied unchanged by the
   escaper and, written between two quotes by a site ('%s'), is one literal decoding to itself *)
Theorem identifier_sites_safe : forall rule alpha s rest,
  In (rule, alpha) gen_ident_alphabets -> over alpha s = true -> safe_rest rest ->
  esc s = s /\ lex_string ("'" ++ s ++ "'" ++ rest) = Some (s, rest).
Proof. exact (ident_literal gen_ident_alphabets eq_refl). Qed.
Print Assumptions identifier_sites_safe.

Example ident_example : over "0123456789ABCDEFGHIJKLMNOPQRSTUVWXYZ_abcdefghijklmnopqrstuvwxyz" "level_2" = true.
Proof. reflexivity. Qed.

(* ---- numbers: every text Go prints for an integer or a float64 (%d, %f, strconv.Itoa, FormatInt,
   FormatUint, FormatFloat in any format, including NaN, +Inf, -Inf) is over numeric_alphabet, which
   contains no quote, backslash, double quote, back-quote, slash, star, hash or white space
   (numeric_alphabet_harmless, computed): such a text is unchanged by the escaper, inside a literal it stays
   inside it, and outside it can only add word, number, sign and point tokens; the one marker a leading
   minus could complete, "--", is excluded per site by safe_site. *)
Theorem numeric_sites_safe : numeric_alphabet_harmless = true /\
  forall s acc, over numeric_alphabet s = true ->
  esc s = s /\ after (QStr acc) s = QStr (acc ++ s) /\ outs (QStr acc) s = [].
Proof. split; [reflexivity|]. exact (numeric_text numeric_alphabet eq_refl). Qed.
Print Assumptions numeric_sites_safe.

Example numeric_example : over numeric_alphabet "-1.5e+300" = true /\ over numeric_alphabet "+Inf" = true /\ over numeric_alphabet "NaN" = true.
Proof. repeat split; reflexivity. Qed.

(* ---- every SQL construction site of the reader formats only classified material, quoted values
   arrive where a quote opens a literal, and no site leaves a literal or comment open *)
Theorem all_sql_sites_classified : forallb safe_site gen_sql_sites = true.
Proof. vm_compute. reflexivity. Qed.
Print Assumptions all_sql_sites_classified.

(* ---- THROUGH THE RENDERER (model/SqlRender.v: the byte-exact model of reader/utils/sql_select that C07/C08 tie to
   the real planners byte for byte).  model/SqlPieces.v renders the same tree into a SEGMENTED text: the planner's
   own text, and one piece per StrV node (a value) or QRaw node (an identifier spliced between quotes). *)

(* the renderer is the flattening of the segmented renderer: for every tree, every option set, every counter state *)
Theorem renderer_factors_through_pieces : forall q cluster,
  render q cluster = option_map flat (pieces q cluster).
Proof. exact render_pieces. Qed.
Print Assumptions renderer_factors_through_pieces.

(* Structure of every rendered statement.  pok is computed on the segmented text and never looks inside a value:
   every value piece is reached where a quote opens a literal, no text after a value begins with a quote, raw-quoted
   identifiers consist of bytes the escaper copies unchanged.  Then the token list of the statement is etoks: the
   tokens of the planner's text and exactly ONE string literal token per value, decoding to the value. *)
Theorem rendered_statement_tokens : forall q cluster p, pieces q cluster = Some p -> pok QN p = true ->
  exists txt, render q cluster = Some txt /\ lex txt = etoks QN p /\ lits (lex txt) = elits QN p.
Proof. exact rendered_tokens. Qed.
Print Assumptions rendered_statement_tokens.

(* The property over trees, for ALL values: replace the content of every StrV node of a tree by anything (f; with
   f = "put the request string where the harmless marker was" this is the tree for the request string) - the
   statement keeps its token skeleton, it has exactly one literal per value piece, and those literals decode to the
   new values.  No hypothesis on f. *)
Theorem request_values_keep_statement_structure : forall f q cluster p,
  pieces q cluster = Some p -> pok QN p = true ->
  exists txt txt', render q cluster = Some txt /\ render (subst_sel f q) cluster = Some txt' /\
    skeleton (lex txt') = skeleton (lex txt) /\
    lex txt' = etoks QN (pm f p) /\ rvalues (pm f p) = map f (rvalues p).
Proof. exact values_keep_structure. Qed.
Print Assumptions request_values_keep_statement_structure.

(* ---- Prometheus label matchers and Pyroscope selectors: C17's planner models (model/PromSel.v transpile_label_matchers /
   ..._downsample / querier_transpile, model/ProfSel.v prof_selector_abs, tied byte for byte to reader/promql/transpiler and
   reader/prof/transpiler by C17) build model/Sql.v trees and print through model/SqlRender.v, so the renderer theorem is about
   them: for every oracle, hints, context, matcher list and EVERY replacement f of the values of the planned tree, the statement
   keeps its token skeleton and its value literals decode to the new values, provided the value-independent check pok holds for
   the tree - which checks/c10sel.py evaluates on the model's tree for hostile matcher values and label names, together with
   flat(pieces) = the SQL the real planners print. *)
Corollary promql_selection_values_keep_statement_structure : forall f (c : PromSel.pcase) p,
  pieces (SqlPiecesSel.pcase_tree c) (LogqlPlan.c_cluster (PromSel.pc_ctx c)) = Some p -> pok QN p = true ->
  exists txt txt', render (SqlPiecesSel.pcase_tree c) (LogqlPlan.c_cluster (PromSel.pc_ctx c)) = Some txt /\
    render (subst_sel f (SqlPiecesSel.pcase_tree c)) (LogqlPlan.c_cluster (PromSel.pc_ctx c)) = Some txt' /\
    skeleton (lex txt') = skeleton (lex txt) /\
    lex txt' = etoks QN (pm f p) /\ rvalues (pm f p) = map f (rvalues p).
Proof. intros f c p. exact (values_keep_structure f _ _ p). Qed.
Print Assumptions promql_selection_values_keep_statement_structure.

Corollary profile_selection_values_keep_statement_structure : forall f (c : ProfSel.fcase) p,
  pieces (SqlPiecesSel.fcase_tree c) (ProfSel.fc_cluster c) = Some p -> pok QN p = true ->
  exists txt txt', render (SqlPiecesSel.fcase_tree c) (ProfSel.fc_cluster c) = Some txt /\
    render (subst_sel f (SqlPiecesSel.fcase_tree c)) (ProfSel.fc_cluster c) = Some txt' /\
    skeleton (lex txt') = skeleton (lex txt) /\
    lex txt' = etoks QN (pm f p) /\ rvalues (pm f p) = map f (rvalues p).
Proof. intros f c p. exact (values_keep_structure f _ _ p). Qed.
Print Assumptions profile_selection_values_keep_statement_structure.

(* the hypotheses are met by the model's tree of up{job=~"zqxmark"} / of a profile selector {job="zqxmark"} *)
Example promql_selection_example :
  let c := {| PromSel.pc_id := 1%Z; PromSel.pc_kind := PromSel.KRaw;
              PromSel.pc_hints := {| PromSel.h_start := 1700000000000%Z; PromSel.h_end := 1700003600000%Z; PromSel.h_step := 15000%Z;
                                     PromSel.h_func := "rate"; PromSel.h_range := 60000%Z |};
              PromSel.pc_ctx := {| LogqlPlan.c_from_ns := 1700000000000000000%Z; LogqlPlan.c_to_ns := 1700003600000000000%Z; LogqlPlan.c_limit := 0%Z;
                                   LogqlPlan.c_asc := false; LogqlPlan.c_cluster := false; LogqlPlan.c_type := 2%Z; LogqlPlan.c_finalize := false;
                                   LogqlPlan.c_step_ns := 0%Z; LogqlPlan.t_gin := "time_series_gin"; LogqlPlan.t_samples := "samples_v3";
                                   LogqlPlan.t_ts := "time_series"; LogqlPlan.t_ts_dist := "time_series_dist"; LogqlPlan.t_m15 := "metrics_15s" |};
              PromSel.pc_ms := [ {| Logql.m_name := "job"; Logql.m_op := Logql.MRe; Logql.m_val := "zqxmark" |} ];
              PromSel.pc_full := [] |} in
  match pieces (SqlPiecesSel.pcase_tree c) false with
  | Some p => pok QN p = true /\ existsb (String.eqb "^(?:zqxmark)$") (rvalues p) = true
  | None => False
  end.
Proof. vm_compute. split; reflexivity. Qed.
Example profile_selection_example :
  let c := {| ProfSel.fc_id := 1%Z; ProfSel.fc_table := "profiles_series_gin"; ProfSel.fc_from_ns := 1700000000000000000%Z;
              ProfSel.fc_to_ns := 1700003600000000000%Z; ProfSel.fc_cluster := false;
              ProfSel.fc_sels := [ {| ProfSel.sl_name := "job"; ProfSel.sl_op := Logql.MEq; ProfSel.sl_val := "zqxmark" |} ];
              ProfSel.fc_full := [] |} in
  match pieces (SqlPiecesSel.fcase_tree c) false with
  | Some p => pok QN p = true /\ existsb (String.eqb "zqxmark") (rvalues p) = true
  | None => False
  end.
Proof. vm_compute. split; reflexivity. Qed.

(* ---- VALUE-INDEPENDENCE OF A PLANNER, for all requests.  erase_sel q = q with the content of every StringVal erased: two trees with
   the same erasure differ only inside their values.  Such trees print statements with the same token structure (one literal per
   value each): *)
Theorem trees_differing_only_in_values_have_the_same_structure : forall q q' cluster p,
  SqlPiecesSel.erase_sel q = SqlPiecesSel.erase_sel q' -> pieces q cluster = Some p -> pok QN p = true ->
  exists p', pieces q' cluster = Some p' /\ pok QN p' = true /\ shape p' = shape p /\
    render q cluster = Some (flat p) /\ render q' cluster = Some (flat p') /\
    skeleton (lex (flat p')) = skeleton (lex (flat p)) /\
    lex (flat p') = etoks QN p' /\ List.length (rvalues p') = List.length (rvalues p).
Proof. exact SqlEraseProofs.erased_equal_same_structure. Qed.
Print Assumptions trees_differing_only_in_values_have_the_same_structure.

(* The Pyroscope selector planner (model/ProfSel.v prof_selector_abs = StreamSelectorPlanner.Process, tied byte for byte by C17) is
   value-independent: two selector lists with the same operators and the same pseudo labels (names of stored labels and all values
   arbitrary), to which the planner's one question about a value - does the selector accept the empty string - has the same
   answers, are planned into trees with the same erasure; hence, for ALL profile selectors: the statement for any values has the
   token structure of the statement for harmless values in the same positions, with exactly one literal per value.  (The
   hypothesis about the empty string is not a guard on hostile input: it only says which of the two plans is compared.) *)
Theorem profile_selector_planner_is_value_independent : forall re t a b cluster sels sels' p,
  Forall2 (fun s s' => SqlPiecesSel.sel_variant s s' /\ ProfSel.sel_accepts_absent re s = ProfSel.sel_accepts_absent re s') sels sels' ->
  pieces (ProfSel.prof_selector_abs re t a b sels) cluster = Some p -> pok QN p = true ->
  exists p', pieces (ProfSel.prof_selector_abs re t a b sels') cluster = Some p' /\ pok QN p' = true /\ shape p' = shape p /\
    render (ProfSel.prof_selector_abs re t a b sels) cluster = Some (flat p) /\
    render (ProfSel.prof_selector_abs re t a b sels') cluster = Some (flat p') /\
    skeleton (lex (flat p')) = skeleton (lex (flat p)) /\
    lex (flat p') = etoks QN p' /\ List.length (rvalues p') = List.length (rvalues p).
Proof. exact SqlEraseProofs.profile_selector_value_independent. Qed.
Print Assumptions profile_selector_planner_is_value_independent.

Example profile_selector_variant_example :
  let re := fun _ _ : string => false in
  let s := {| ProfSel.sl_name := "job"; ProfSel.sl_op := Logql.MRe; ProfSel.sl_val := "zqxmark" |} in
  let s' := {| ProfSel.sl_name := "pod"; ProfSel.sl_op := Logql.MRe; ProfSel.sl_val := "x') OR ('1'='1" |} in
  let t := {| ProfSel.sl_name := "__name__"; ProfSel.sl_op := Logql.MNeq; ProfSel.sl_val := "cpu" |} in
  let t' := {| ProfSel.sl_name := "__name__"; ProfSel.sl_op := Logql.MNeq; ProfSel.sl_val := "\'; --" |} in
  Forall2 (fun s s' => SqlPiecesSel.sel_variant s s' /\ ProfSel.sel_accepts_absent re s = ProfSel.sel_accepts_absent re s') [s; t] [s'; t'] /\
  match pieces (ProfSel.prof_selector_abs re "profiles_series_gin" 1700000000000000000 1700003600000000000 [s; t]) false with
  | Some p => pok QN p = true /\ rvalues p = [":"; "cpu"; "job"; "^(?:zqxmark)$"; "job"; "^(?:zqxmark)$"]
  | None => False
  end.
Proof.
  split; [|vm_compute; split; reflexivity].
  constructor; [split; [split; reflexivity|reflexivity]|].
  constructor; [split; [split; reflexivity|reflexivity]|constructor].
Qed.

(* The PromQL matcher planner (model/PromSel.v querier_transpile = what CLokiQuerier.Select plans: TranspileLabelMatchers or
   TranspileLabelMatchersDownsample over fingerprintsQuery, StreamSelectPlanner, the hints planners and the WITH hoisting of
   Select.AddWith; tied byte for byte by C17) is value-independent: two matcher lists with the same operators (label names and
   values arbitrary), to which the planner's one question about a value - does the matcher accept the empty string - has the
   same answers, are planned into trees with the same erasure.  Hence, for ALL matcher lists, hints and contexts: the statement
   for any values has the token structure of the statement for harmless values, with exactly one literal per value. *)
Theorem promql_matcher_planner_is_value_independent : forall re cluster db h ms ms' p,
  Forall2 (fun m m' => SqlPiecesSel.matcher_variant m m' /\ PromSel.accepts_empty re m = PromSel.accepts_empty re m') ms ms' ->
  pieces (fst (PromSel.querier_transpile re cluster db h ms)) cluster = Some p -> pok QN p = true ->
  exists p', pieces (fst (PromSel.querier_transpile re cluster db h ms')) cluster = Some p' /\ pok QN p' = true /\ shape p' = shape p /\
    PromSel.select_sql re cluster db h ms = Some (flat p) /\ PromSel.select_sql re cluster db h ms' = Some (flat p') /\
    skeleton (lex (flat p')) = skeleton (lex (flat p)) /\
    lex (flat p') = etoks QN p' /\ List.length (rvalues p') = List.length (rvalues p).
Proof. exact SqlEraseProofs.promql_querier_value_independent. Qed.
Print Assumptions promql_matcher_planner_is_value_independent.

(* the same for the exported transpiler entry point with any planner context (TranspileLabelMatchers) *)
Theorem promql_transpiler_is_value_independent : forall re h c cluster ms ms' p,
  Forall2 (fun m m' => SqlPiecesSel.matcher_variant m m' /\ PromSel.accepts_empty re m = PromSel.accepts_empty re m') ms ms' ->
  pieces (PromSel.transpile_label_matchers re h c ms) cluster = Some p -> pok QN p = true ->
  exists p', pieces (PromSel.transpile_label_matchers re h c ms') cluster = Some p' /\ pok QN p' = true /\ shape p' = shape p /\
    render (PromSel.transpile_label_matchers re h c ms) cluster = Some (flat p) /\
    render (PromSel.transpile_label_matchers re h c ms') cluster = Some (flat p') /\
    skeleton (lex (flat p')) = skeleton (lex (flat p)) /\
    lex (flat p') = etoks QN p' /\ List.length (rvalues p') = List.length (rvalues p).
Proof. exact SqlEraseProofs.promql_matchers_value_independent. Qed.
Print Assumptions promql_transpiler_is_value_independent.

Example promql_matcher_variant_example :
  let re := fun _ _ : string => false in
  let h := {| PromSel.h_start := 1700000000000%Z; PromSel.h_end := 1700003600000%Z; PromSel.h_step := 15000%Z; PromSel.h_func := "rate"; PromSel.h_range := 60000%Z |} in
  let ms := [ {| Logql.m_name := "__name__"; Logql.m_op := Logql.MEq; Logql.m_val := "up" |}; {| Logql.m_name := "job"; Logql.m_op := Logql.MNre; Logql.m_val := "zqxmark" |} ] in
  let ms' := [ {| Logql.m_name := "a'b"; Logql.m_op := Logql.MEq; Logql.m_val := "\" |}; {| Logql.m_name := "x"; Logql.m_op := Logql.MNre; Logql.m_val := "') OR 1=1 --" |} ] in
  Forall2 (fun m m' => SqlPiecesSel.matcher_variant m m' /\ PromSel.accepts_empty re m = PromSel.accepts_empty re m') ms ms' /\
  match pieces (fst (PromSel.querier_transpile re false "qryn" h ms)) false with
  | Some p => pok QN p = true /\ List.length (rvalues p) = 8%nat
  | None => False
  end.
Proof.
  split; [|vm_compute; split; reflexivity].
  constructor; [split; reflexivity|]. constructor; [split; reflexivity|constructor].
Qed.

(* the LogQL stream selector planner (StreamSelectPlanner, model/LogqlPlan.v stream_select: the fingerprint sub-select of every LogQL
   request), for ALL matcher lists: label names and values arbitrary, same operators *)
Theorem logql_stream_selector_is_value_independent : forall c cluster ms ms' p,
  Forall2 SqlPiecesSel.matcher_variant ms ms' -> pieces (LogqlPlan.stream_select c ms) cluster = Some p -> pok QN p = true ->
  exists p', pieces (LogqlPlan.stream_select c ms') cluster = Some p' /\ pok QN p' = true /\ shape p' = shape p /\
    render (LogqlPlan.stream_select c ms) cluster = Some (flat p) /\ render (LogqlPlan.stream_select c ms') cluster = Some (flat p') /\
    skeleton (lex (flat p')) = skeleton (lex (flat p)) /\
    lex (flat p') = etoks QN p' /\ List.length (rvalues p') = List.length (rvalues p).
Proof. exact SqlEraseProofs.logql_stream_select_value_independent. Qed.
Print Assumptions logql_stream_selector_is_value_independent.

(* text level: two segmented texts that differ only inside their value pieces *)
Theorem same_shape_same_structure : forall p p', shape p = shape p' ->
  forallb (all_chars plain_char) (rqids p') = true -> pok QN p = true ->
  pok QN p' = true /\ skeleton (lex (flat p')) = skeleton (lex (flat p)).
Proof. exact same_shape_same_skeleton. Qed.
Print Assumptions same_shape_same_structure.

(* the hypotheses are met by a real tree: the label-filter statement of {a="zqxmark"} | b = "zqxmark" with the
   JSONExtractString(labels, 'b') form (QRaw), a date literal and a LIMIT *)
Example tree_example :
  let q := mkSel false [Col (Id "fingerprint") ""; Col (Fn "JSONExtractString" [Id "labels"; QRaw "b"]) "v"]
             (Some (Id "time_series")) (Some (LOp OAnd [LOp OGe [Id "date"; DateV 19675];
                                                         LOp OEq [Id "key"; StrV "a"]; LOp OEq [Id "val"; StrV "zqxmark"];
                                                         Sql.In (Id "type") [IntV 1; IntV 0]]))
             None (Some (LOp ONeq [Fn "JSONExtractString" [Id "labels"; QRaw "b"]; StrV "zqxmark"])) [Id "fingerprint"] [] (Some (IntV 100)) None [] [] [] [] in
  match pieces q false with
  | Some p => pok QN p = true /\ rvalues p = ["a"; "zqxmark"; "zqxmark"] /\ rqids p = ["b"; "b"]
  | None => False
  end.
Proof. vm_compute. repeat split; reflexivity. Qed.

(* ---- the same for C11's TraceQL renderer (model/TqSql.v: Select.String and the planner-local SQL objects of
   clickhouse_transpiler, tied byte for byte to the real planners by C11): StringVal nodes, the expression of matchRe and
   the attribute name of sqlAttrValue are value pieces, 's' written by Sprintf is a raw-quoted piece *)
Theorem traceql_renderer_factors_through_pieces : forall s, TqSql.render s = flat (TqPieces.tq_pieces s).
Proof. exact TqPiecesProofs.tq_render_pieces. Qed.
Print Assumptions traceql_renderer_factors_through_pieces.

Theorem traceql_statement_tokens : forall s, pok QN (TqPieces.tq_pieces s) = true ->
  lex (TqSql.render s) = etoks QN (TqPieces.tq_pieces s) /\
  lits (lex (TqSql.render s)) = elits QN (TqPieces.tq_pieces s).
Proof. exact TqPiecesProofs.tq_rendered_tokens. Qed.
Print Assumptions traceql_statement_tokens.

(* The property over TraceQL trees, for ALL values: replace the content of every StringVal node, of every matchRe expression and
   of every sqlAttrValue name of a tree by anything (f; with f = "put the request string where the harmless marker was" this is
   the tree for the request string: checks/c10.py verifies on the real trees, dumped by C11's harness, that the tree for the
   hostile request IS tq_marker_subst of the tree for the marker) - the statement keeps its token skeleton, has exactly one
   literal per value piece, and those literals decode to the new values.  No hypothesis on f. *)
Theorem traceql_request_values_keep_statement_structure : forall f s, pok QN (TqPieces.tq_pieces s) = true ->
  pok QN (TqPieces.tq_pieces (TqPieces.tq_subst_sel f s)) = true /\
  skeleton (lex (TqSql.render (TqPieces.tq_subst_sel f s))) = skeleton (lex (TqSql.render s)) /\
  lex (TqSql.render (TqPieces.tq_subst_sel f s)) = etoks QN (pm f (TqPieces.tq_pieces s)) /\
  lits (lex (TqSql.render (TqPieces.tq_subst_sel f s))) = elits QN (pm f (TqPieces.tq_pieces s)) /\
  rvalues (pm f (TqPieces.tq_pieces s)) = map f (rvalues (TqPieces.tq_pieces s)).
Proof. exact TqPiecesProofs.tq_values_keep_structure. Qed.
Print Assumptions traceql_request_values_keep_statement_structure.

Example traceql_tree_example :
  let q := TqSql.Sel [] false [TqSql.Col (TqSql.Id "trace_id") ""; TqSql.GroupBitOr (TqSql.BitSet [TqSql.LOp TqSql.OEq [TqSql.Id "key"; TqSql.StrV "zqxmark"]]) "bsCond"]
             (Some (TqSql.Id "tempo_traces_attrs_gin")) [] None
             (Some (TqSql.LOp TqSql.OAnd [TqSql.LOp TqSql.OEq [TqSql.Id "key"; TqSql.StrV "zqxmark"];
                                            TqSql.LOp TqSql.OEq [TqSql.MatchRe (TqSql.Id "val") "^(?:zqxmark)$"; TqSql.IntV 1]]))
             (Some (TqSql.LOp TqSql.OGt [TqSql.AttrValue "zqxmark"; TqSql.FloatV "5"])) [TqSql.Id "trace_id"] [] (Some (TqSql.IntV 20)) in
  pok QN (TqPieces.tq_pieces q) = true /\ List.length (rvalues (TqPieces.tq_pieces q)) = 4%nat.
Proof. vm_compute. split; reflexivity. Qed.

(* the same tree with a hostile request string in place of the marker: four literals, decoding to the hostile bytes *)
Example traceql_subst_example :
  let q := TqSql.Sel [] false [TqSql.Col (TqSql.Id "trace_id") ""; TqSql.GroupBitOr (TqSql.BitSet [TqSql.LOp TqSql.OEq [TqSql.Id "key"; TqSql.StrV "zqxmark"]]) "bsCond"]
             (Some (TqSql.Id "tempo_traces_attrs_gin")) [] None
             (Some (TqSql.LOp TqSql.OAnd [TqSql.LOp TqSql.OEq [TqSql.Id "key"; TqSql.StrV "zqxmark"];
                                            TqSql.LOp TqSql.OEq [TqSql.MatchRe (TqSql.Id "val") "^(?:zqxmark)$"; TqSql.IntV 1]]))
             (Some (TqSql.LOp TqSql.OGt [TqSql.AttrValue "zqxmark"; TqSql.FloatV "5"])) [TqSql.Id "trace_id"] [] (Some (TqSql.IntV 20)) in
  lits (lex (TqSql.render (TqPieces.tq_marker_subst "zqxmark" "x') OR ('1'='1" q))) =
  ["x') OR ('1'='1"; "x') OR ('1'='1"; "^(?:x') OR ('1'='1)$"; "x') OR ('1'='1"]
  /\ skeleton (lex (TqSql.render (TqPieces.tq_marker_subst "zqxmark" "x') OR ('1'='1" q))) = skeleton (lex (TqSql.render q)).
Proof. vm_compute. split; reflexivity. Qed.

(* ---- THE WRITE SIDE: every statement that writer/ and ctrl/ hand to ClickHouse (Exec / Query / QueryRow / PrepareBatch / Select
   ... of clickhouse-go, database/sql and the repository's client wrappers, and the bodies of ch-go queries), regenerated from
   the source with the provenance of every part of the statement text (translate/gen_wsqlsites, go/types).  No part is of
   unknown provenance (a request-derived value has no rule): each is constant text, an embedded SQL script, a field of a
   configuration struct, a number, or a parameter of the enclosing function - and then every call site of that function in the
   module is in the list again, classified the same way (or the function is a reviewed entry point without a caller).
   A future fmt.Sprintf("... %s", userValue) on the write side makes this theorem fail, naming the site. *)
Theorem writer_entry_points_are_reviewed : gen_writer_entry = reviewed_writer_entry.
Proof. reflexivity. Qed.
Print Assumptions writer_entry_points_are_reviewed.

Theorem no_request_string_reaches_a_writer_statement : wsites_ok gen_writer_sites gen_writer_entry = true.
Proof. vm_compute. reflexivity. Qed.
Print Assumptions no_request_string_reaches_a_writer_statement.

(* what the computed judgement says, for any census *)
Theorem writer_census_meaning : forall sites entry, wsites_ok sites entry = true ->
  sites <> [] /\
  forall s, In s sites -> forall c d, In (c, d) (ws_pieces s) ->
    c <> WUnclassified /\
    (c = WPass -> (exists k, In k sites /\ ws_call k = true /\ ws_sink k = d) \/ In d entry).
Proof. exact wsites_ok_meaning. Qed.
Print Assumptions writer_census_meaning.

Example writer_census_example :
  wsites_ok [ {| ws_file := "a.go"; ws_line := 1%Z; ws_call := false; ws_sink := "Exec"; ws_pieces := [(WConst, ""); (WPass, "parameter t of f")] |};
              {| ws_file := "b.go"; ws_line := 2%Z; ws_call := true; ws_sink := "parameter t of f"; ws_pieces := [(WConfig, "")] |} ] [] = true
  /\ wsites_ok [ {| ws_file := "a.go"; ws_line := 1%Z; ws_call := false; ws_sink := "Exec"; ws_pieces := [(WUnclassified, "req.URL.Query().Get(x)")] |} ] [] = false.
Proof. split; reflexivity. Qed.

(* ---- VALUE-INDEPENDENCE OF THE TRACEQL PLANNERS (C11's model/TraceqlPlan.v: planner.plan over simpleExpressionPlanner, AttrConditionPlanner,
   the index / aggregator / traces-data / tags / values planners; tied to the real planners per case by C11 and, on hostile requests, by the
   TraceQL tree-level tie above), for every request with ONE selector and all three entry points.  Two selectors are variants when the
   term analysis (de-duplication of terms by their text) finds the same condition over pointwise variant terms - same operator, same KIND
   of label (scope prefix, duration, name; the attribute name behind the prefix is arbitrary), the same value or two quoted strings (both
   decodable or both not) - and the aggregators are equal.  Then the two plans fail with the same error, or both give a statement, and
   the statements have the same token structure with one literal per value. *)
Theorem traceql_planner_is_value_independent : forall c h h' ao ao' m m' n,
  TqEraseProofs.selector_variant h h' -> TqEraseProofs.mode_variant m m' ->
  match TraceqlPlan.plan (Traceql.Script h ao None) m c n, TraceqlPlan.plan (Traceql.Script h' ao' None) m' c n with
  | TraceqlPlan.Ok s, TraceqlPlan.Ok s' =>
      pok QN (TqPieces.tq_pieces s) = true ->
      pok QN (TqPieces.tq_pieces s') = true /\ shape (TqPieces.tq_pieces s') = shape (TqPieces.tq_pieces s) /\
      skeleton (lex (TqSql.render s')) = skeleton (lex (TqSql.render s)) /\
      lex (TqSql.render s') = etoks QN (TqPieces.tq_pieces s') /\
      List.length (rvalues (TqPieces.tq_pieces s')) = List.length (rvalues (TqPieces.tq_pieces s))
  | TraceqlPlan.Err e, TraceqlPlan.Err e' => e = e'
  | TraceqlPlan.Panic, TraceqlPlan.Panic => True
  | _, _ => False
  end.
Proof. exact TqEraseProofs.traceql_planner_value_independent. Qed.
Print Assumptions traceql_planner_is_value_independent.

(* The hypothesis on the term analysis follows from how the two requests are WRITTEN: two attribute expressions of the same shape
   (same parentheses, same && / ||), whose terms are pointwise variants, and a translation phi of term texts that maps the text of
   each term to the text of the corresponding term and is injective on the texts of the first request (equal terms correspond to
   equal terms, distinct to distinct: analyzeCond de-duplicates terms by their text). *)
Theorem traceql_requests_of_the_same_shape_have_the_same_structure : forall phi c e e' ag ao ao' m m' n,
  TqEraseProofs.exp_variant phi e e' -> TqEraseProofs.inj_on phi (TqEraseProofs.exp_keys e) -> TqEraseProofs.mode_variant m m' ->
  match TraceqlPlan.plan (Traceql.Script {| Traceql.sel_attr := Some e; Traceql.sel_agg := ag |} ao None) m c n,
        TraceqlPlan.plan (Traceql.Script {| Traceql.sel_attr := Some e'; Traceql.sel_agg := ag |} ao' None) m' c n with
  | TraceqlPlan.Ok s, TraceqlPlan.Ok s' =>
      pok QN (TqPieces.tq_pieces s) = true ->
      pok QN (TqPieces.tq_pieces s') = true /\ shape (TqPieces.tq_pieces s') = shape (TqPieces.tq_pieces s) /\
      skeleton (lex (TqSql.render s')) = skeleton (lex (TqSql.render s)) /\
      lex (TqSql.render s') = etoks QN (TqPieces.tq_pieces s') /\
      List.length (rvalues (TqPieces.tq_pieces s')) = List.length (rvalues (TqPieces.tq_pieces s))
  | TraceqlPlan.Err x, TraceqlPlan.Err x' => x = x'
  | TraceqlPlan.Panic, TraceqlPlan.Panic => True
  | _, _ => False
  end.
Proof. exact TqEraseProofs.traceql_same_shape_requests. Qed.
Print Assumptions traceql_requests_of_the_same_shape_have_the_same_structure.

(* ... and for ALL THREE entry points with ANY number of selectors joined by && and || (the tags and values planners refuse several
   selectors: both plans then fail alike): script_variant = pointwise selector_variant and the same operators between the selectors.  planComplex builds the same tree of expression planners
   (plan_complex_variant), every operand is planned alike, ComplexAndPlanner / ComplexOrPlanner wrap them alike. *)
Theorem traceql_search_planner_is_value_independent : forall q q' m m' c n,
  TqEraseProofs.script_variant q q' -> TqEraseProofs.mode_variant m m' ->
  match TraceqlPlan.plan q m c n, TraceqlPlan.plan q' m' c n with
  | TraceqlPlan.Ok s, TraceqlPlan.Ok s' =>
      pok QN (TqPieces.tq_pieces s) = true ->
      pok QN (TqPieces.tq_pieces s') = true /\ shape (TqPieces.tq_pieces s') = shape (TqPieces.tq_pieces s) /\
      skeleton (lex (TqSql.render s')) = skeleton (lex (TqSql.render s)) /\
      lex (TqSql.render s') = etoks QN (TqPieces.tq_pieces s') /\
      List.length (rvalues (TqPieces.tq_pieces s')) = List.length (rvalues (TqPieces.tq_pieces s))
  | TraceqlPlan.Err e, TraceqlPlan.Err e' => e = e'
  | TraceqlPlan.Panic, TraceqlPlan.Panic => True
  | _, _ => False
  end.
Proof. exact TqEraseProofs.traceql_planners_value_independent. Qed.
Print Assumptions traceql_search_planner_is_value_independent.

(* two TraceQL trees with the same erasure have the same statement structure *)
Theorem traceql_trees_differing_only_in_values_have_the_same_structure : forall s s',
  TqPieces.tq_erase_sel s = TqPieces.tq_erase_sel s' -> pok QN (TqPieces.tq_pieces s) = true ->
  pok QN (TqPieces.tq_pieces s') = true /\ shape (TqPieces.tq_pieces s') = shape (TqPieces.tq_pieces s) /\
  skeleton (lex (TqSql.render s')) = skeleton (lex (TqSql.render s)) /\
  lex (TqSql.render s') = etoks QN (TqPieces.tq_pieces s') /\
  List.length (rvalues (TqPieces.tq_pieces s')) = List.length (rvalues (TqPieces.tq_pieces s)).
Proof. exact TqEraseProofs.tq_erased_equal_same_structure. Qed.
Print Assumptions traceql_trees_differing_only_in_values_have_the_same_structure.

(* the hypotheses are met by {.foo=~"zqxmark"} and {.b-c=~"x') OR ('1'='1"} *)
Example traceql_variant_example :
  let sv := fun tok unq => {| Traceql.v_time := ""; Traceql.v_f := ""; Traceql.v_str := Some tok; Traceql.v_unq := Some unq;
                              Traceql.v_ffmt := None; Traceql.v_dur := None |} in
  let t := {| Traceql.a_label := ".foo"; Traceql.a_op := Traceql.CRe; Traceql.a_val := sv """zqxmark""" "zqxmark" |} in
  let t' := {| Traceql.a_label := ".b-c"; Traceql.a_op := Traceql.CRe; Traceql.a_val := sv """x') OR ('1'='1""" "x') OR ('1'='1" |} in
  let h := {| Traceql.sel_attr := Some (Traceql.AExp (Traceql.HTerm t) Traceql.AONone None); Traceql.sel_agg := None |} in
  let h' := {| Traceql.sel_attr := Some (Traceql.AExp (Traceql.HTerm t') Traceql.AONone None); Traceql.sel_agg := None |} in
  let c := {| TraceqlPlan.from_ns := 1700000000000000000%Z; TraceqlPlan.to_ns := 1700003600000000000%Z;
              TraceqlPlan.from_date := "2023-11-14"; TraceqlPlan.to_date := "2023-11-14"; TraceqlPlan.ffd_from := "2023-11-14"; TraceqlPlan.ffd_to := "2023-11-14";
              TraceqlPlan.limit := 20%Z; TraceqlPlan.is_cluster := false; TraceqlPlan.rf_max := 0%Z; TraceqlPlan.rf_i := 0%Z; TraceqlPlan.cached := [];
              TraceqlPlan.attrs_table := "tempo_traces_attrs_gin"; TraceqlPlan.attrs_dist_table := "tempo_traces_attrs_gin_dist";
              TraceqlPlan.traces_table := "tempo_traces"; TraceqlPlan.traces_dist_table := "tempo_traces_dist"; TraceqlPlan.kv_dist_table := "tempo_traces_kv_dist" |} in
  TqEraseProofs.selector_variant h h' /\
  match TraceqlPlan.plan (Traceql.Script h Traceql.AONone None) TraceqlPlan.MSearch c 1 with
  | TraceqlPlan.Ok s => pok QN (TqPieces.tq_pieces s) = true /\ List.length (rvalues (TqPieces.tq_pieces s)) = 6%nat
  | _ => False
  end.
Proof.
  split; [|vm_compute; split; reflexivity].
  split; [reflexivity|]. split; [|reflexivity].
  constructor; [|constructor].
  split; [reflexivity|]. split; [reflexivity|]. right.
  split; [discriminate|]. split; [discriminate|]. split; [split; intro H; vm_compute in H; discriminate|]. split; reflexivity.
Qed.

(* {.foo=~"zqxmark"} && {name="zqxmark"} | count() > 1   vs   {.b-c=~"x') OR ('1'='1"} && {name="\'--"} | count() > 1 *)
Example traceql_search_variant_example :
  let sv := fun tok unq => {| Traceql.v_time := ""; Traceql.v_f := ""; Traceql.v_str := Some tok; Traceql.v_unq := Some unq;
                              Traceql.v_ffmt := None; Traceql.v_dur := None |} in
  let tm := fun l op tok unq => {| Traceql.a_label := l; Traceql.a_op := op; Traceql.a_val := sv tok unq |} in
  let ag := {| Traceql.g_fn := Traceql.AgCount; Traceql.g_attr := ""; Traceql.g_cmp := Traceql.CGt; Traceql.g_num := "1"; Traceql.g_meas := "";
               Traceql.g_ffmt := Some "1"; Traceql.g_durf := None |} in
  let sel := fun t a => {| Traceql.sel_attr := Some (Traceql.AExp (Traceql.HTerm t) Traceql.AONone None); Traceql.sel_agg := a |} in
  let q := Traceql.Script (sel (tm ".foo" Traceql.CRe """zqxmark""" "zqxmark") None) Traceql.AOAnd
             (Some (Traceql.Script (sel (tm "name" Traceql.CEq """zqxmark""" "zqxmark") (Some ag)) Traceql.AONone None)) in
  let q' := Traceql.Script (sel (tm ".b-c" Traceql.CRe """x') OR ('1'='1""" "x') OR ('1'='1") None) Traceql.AOAnd
             (Some (Traceql.Script (sel (tm "name" Traceql.CEq """\'--""" "\'--") (Some ag)) Traceql.AONone None)) in
  let c := {| TraceqlPlan.from_ns := 1700000000000000000%Z; TraceqlPlan.to_ns := 1700003600000000000%Z;
              TraceqlPlan.from_date := "2023-11-14"; TraceqlPlan.to_date := "2023-11-14"; TraceqlPlan.ffd_from := "2023-11-14"; TraceqlPlan.ffd_to := "2023-11-14";
              TraceqlPlan.limit := 20%Z; TraceqlPlan.is_cluster := false; TraceqlPlan.rf_max := 0%Z; TraceqlPlan.rf_i := 0%Z; TraceqlPlan.cached := [];
              TraceqlPlan.attrs_table := "tempo_traces_attrs_gin"; TraceqlPlan.attrs_dist_table := "tempo_traces_attrs_gin_dist";
              TraceqlPlan.traces_table := "tempo_traces"; TraceqlPlan.traces_dist_table := "tempo_traces_dist"; TraceqlPlan.kv_dist_table := "tempo_traces_kv_dist" |} in
  TqEraseProofs.script_variant q q' /\
  match TraceqlPlan.plan q TraceqlPlan.MSearch c 1 with
  | TraceqlPlan.Ok s => pok QN (TqPieces.tq_pieces s) = true /\ List.length (rvalues (TqPieces.tq_pieces s)) = 12%nat
  | _ => False
  end.
Proof.
  split; [|vm_compute; split; reflexivity].
  assert (V : forall l l' op tok unq tok' unq', TqEraseProofs.label_class l = TqEraseProofs.label_class l' ->
     Traceql.unquoted {| Traceql.v_time := ""; Traceql.v_f := ""; Traceql.v_str := Some tok; Traceql.v_unq := Some unq; Traceql.v_ffmt := None; Traceql.v_dur := None |} <> None ->
     Traceql.unquoted {| Traceql.v_time := ""; Traceql.v_f := ""; Traceql.v_str := Some tok'; Traceql.v_unq := Some unq'; Traceql.v_ffmt := None; Traceql.v_dur := None |} <> None ->
     TqEraseProofs.term_variant
       {| Traceql.a_label := l; Traceql.a_op := op; Traceql.a_val := {| Traceql.v_time := ""; Traceql.v_f := ""; Traceql.v_str := Some tok; Traceql.v_unq := Some unq; Traceql.v_ffmt := None; Traceql.v_dur := None |} |}
       {| Traceql.a_label := l'; Traceql.a_op := op; Traceql.a_val := {| Traceql.v_time := ""; Traceql.v_f := ""; Traceql.v_str := Some tok'; Traceql.v_unq := Some unq'; Traceql.v_ffmt := None; Traceql.v_dur := None |} |}).
  { intros l l' op tok unq tok' unq' Hc H1 H2. split; [exact Hc|]. split; [reflexivity|]. right.
    split; [discriminate|]. split; [discriminate|]. split; [split; intro H; contradiction|]. split; reflexivity. }
  split; [|split; [reflexivity|]].
  - split; [reflexivity|]. split; [|reflexivity]. constructor; [|constructor]. apply V; [reflexivity| |]; vm_compute; discriminate.
  - split; [|split; [reflexivity|exact I]].
    split; [reflexivity|]. split; [|reflexivity]. constructor; [|constructor]. apply V; [reflexivity| |]; vm_compute; discriminate.
Qed.

(* {.foo="a" && .foo="a" || .bar!="b"} (the first two terms are ONE term for analyzeCond) and the same shape with hostile values *)
Example traceql_same_shape_example :
  let sv := fun tok unq => {| Traceql.v_time := ""; Traceql.v_f := ""; Traceql.v_str := Some tok; Traceql.v_unq := Some unq;
                              Traceql.v_ffmt := None; Traceql.v_dur := None |} in
  let tm := fun l op tok unq => {| Traceql.a_label := l; Traceql.a_op := op; Traceql.a_val := sv tok unq |} in
  let a := tm ".foo" Traceql.CEq """a""" "a" in let b := tm ".bar" Traceql.CNeq """b""" "b" in
  let a' := tm ".x" Traceql.CEq """') --""" "') --" in let b' := tm ".y" Traceql.CNeq """\""" "\" in
  let ex := fun x y => Traceql.AExp (Traceql.HTerm x) Traceql.AOAnd (Some (Traceql.AExp (Traceql.HTerm x) Traceql.AOOr (Some (Traceql.AExp (Traceql.HTerm y) Traceql.AONone None)))) in
  let phi := fun k => if String.eqb k (Traceql.attr_sel_string a) then Traceql.attr_sel_string a' else Traceql.attr_sel_string b' in
  TqEraseProofs.exp_variant phi (ex a b) (ex a' b') /\ TqEraseProofs.inj_on phi (TqEraseProofs.exp_keys (ex a b)).
Proof.
  assert (V : forall l l' op tok unq tok' unq', TqEraseProofs.label_class l = TqEraseProofs.label_class l' ->
     Traceql.unquoted {| Traceql.v_time := ""; Traceql.v_f := ""; Traceql.v_str := Some tok; Traceql.v_unq := Some unq; Traceql.v_ffmt := None; Traceql.v_dur := None |} <> None ->
     Traceql.unquoted {| Traceql.v_time := ""; Traceql.v_f := ""; Traceql.v_str := Some tok'; Traceql.v_unq := Some unq'; Traceql.v_ffmt := None; Traceql.v_dur := None |} <> None ->
     TqEraseProofs.term_variant
       {| Traceql.a_label := l; Traceql.a_op := op; Traceql.a_val := {| Traceql.v_time := ""; Traceql.v_f := ""; Traceql.v_str := Some tok; Traceql.v_unq := Some unq; Traceql.v_ffmt := None; Traceql.v_dur := None |} |}
       {| Traceql.a_label := l'; Traceql.a_op := op; Traceql.a_val := {| Traceql.v_time := ""; Traceql.v_f := ""; Traceql.v_str := Some tok'; Traceql.v_unq := Some unq'; Traceql.v_ffmt := None; Traceql.v_dur := None |} |}).
  { intros l l' op tok unq tok' unq' Hc H1 H2. split; [exact Hc|]. split; [reflexivity|]. right.
    split; [discriminate|]. split; [discriminate|]. split; [split; intro H; contradiction|]. split; reflexivity. }
  split.
  - split; [reflexivity|]. split; [split; [apply V; [reflexivity| |]; vm_compute; discriminate|reflexivity]|].
    split; [reflexivity|]. split; [split; [apply V; [reflexivity| |]; vm_compute; discriminate|reflexivity]|].
    split; [reflexivity|]. split; [split; [apply V; [reflexivity| |]; vm_compute; discriminate|reflexivity]|exact I].
  - intros x y Hx Hy. vm_compute in Hx, Hy.
    destruct Hx as [Hx|[Hx|[Hx|[]]]]; destruct Hy as [Hy|[Hy|[Hy|[]]]]; subst x y; intro H; try reflexivity; vm_compute in H; discriminate.
Qed.


(* ---------- round 4: the LogQL planners (clickhouse_planner: planner.plan() and every Process method, model/LogqlPlan.v), for ALL requests.
   model/LogqlVariant.v: two requests are variants when they are the same request up to the content of their string VALUES (stream-selector
   names and values, string operands of label filters, line-filter texts, json path keys, the expression of `| regexp`, drop labels and
   values, by/without labels, the unwrapped label) and give the same answers to the planners' few questions about a value (is the regex of
   a line filter one literal, is a line filter / drop value empty, how many groups does `| regexp` name, is the unwrapped label `_entry`).
   The relation on trees is "same erasure" (SqlPiecesSel.erase_sel), carried through the WithId closures of the tree by rewriting the closed
   parts of a closure body: no function extensionality. *)
From Qryn Require model.LogqlVariant proofs.LogqlEraseProofs model.SqlPiecesCases model.LogqlVariantB proofs.LogqlVariantBProofs.

(* every Process method, for every planner object tree, context and planner state (id counter, cached WITHs): variant planner objects give
   trees with the same erasure, variant states and variant successor objects - or both fail *)
Theorem logql_process_is_value_independent : forall p p' c st st',
  LogqlVariant.planner_variant p p' -> LogqlVariant.pst_variant st st' ->
  LogqlVariant.result_variant (LogqlPlan.process p c st) (LogqlPlan.process p' c st').
Proof. exact LogqlEraseProofs.process_variant. Qed.
Print Assumptions logql_process_is_value_independent.

(* planner.plan(): variant requests (log and metric: rate / *_over_time / unwrap, vector aggregations, topk, quantile_over_time, comparisons,
   the 15-second shortcut) get variant trees of planner objects, or are both refused *)
Theorem logql_plan_is_value_independent : forall s s' finalize,
  LogqlVariant.script_variant s s' ->
  LogqlVariant.opt_planner_variant (LogqlPlan.plan_script s finalize) (LogqlPlan.plan_script s' finalize).
Proof. exact LogqlEraseProofs.plan_script_variant. Qed.
Print Assumptions logql_plan_is_value_independent.

(* request -> statements, as the tree-level tie evaluates it (SqlPiecesCases.script_pieces: plan, then run the plan k times as a live tail
   does): if the statement for one request passes the value-independent check pok, the statement for every variant request passes it too,
   has the same token skeleton, lexes to one literal token per value, and there are as many values *)
Theorem logql_requests_differing_only_in_values_have_the_same_structure : forall s s' finalize c k,
  LogqlVariant.script_variant s s' ->
  Forall2 LogqlVariant.stmt_variant (SqlPiecesCases.script_pieces s finalize c k) (SqlPiecesCases.script_pieces s' finalize c k).
Proof. exact LogqlEraseProofs.script_pieces_variant. Qed.
Print Assumptions logql_requests_differing_only_in_values_have_the_same_structure.

(* the hypothesis as a boolean check (model/LogqlVariantB.v), which the tree-level tie evaluates on the ASTs the real LogQL parser produced
   for every hostile request and its baseline *)
Theorem logql_variant_check_is_sound : forall s s', LogqlVariantB.script_variantb s s' = true -> LogqlVariant.script_variant s s'.
Proof. exact LogqlVariantBProofs.script_variantb_sound. Qed.
Print Assumptions logql_variant_check_is_sound.

(* hypotheses met by a real pair: {job=~"zqxmark"} |= "zqxmark" | json a="b.c" | a = "zqxmark" | drop x="zqxmark" against the same request
   with hostile strings; both statements exist, the first passes pok and carries 16 values *)
Example logql_variant_example :
  let c := {| LogqlPlan.c_from_ns := 1700000000000000000%Z; LogqlPlan.c_to_ns := 1700003600000000000%Z; LogqlPlan.c_limit := 100%Z;
              LogqlPlan.c_asc := false; LogqlPlan.c_cluster := false; LogqlPlan.c_type := 1%Z; LogqlPlan.c_finalize := true;
              LogqlPlan.c_step_ns := 1000000000%Z; LogqlPlan.t_gin := "ts_gin"; LogqlPlan.t_samples := "samples"; LogqlPlan.t_ts := "ts";
              LogqlPlan.t_ts_dist := "ts_dist"; LogqlPlan.t_m15 := "m15" |} in
  let mk := fun name v lf path dk dv =>
    Logql.SLog {| Logql.sel_matchers := [ {| Logql.m_name := name; Logql.m_op := Logql.MRe; Logql.m_val := v |} ];
                  Logql.sel_pipeline := [ Logql.PLineFilter Logql.LFContains lf None;
                                          Logql.PParser Logql.PJson [ {| Logql.pp_label := "a"; Logql.pp_val := "b.c"; Logql.pp_path := Some path |} ];
                                          Logql.PLabelFilter (Logql.LF (Logql.HSimple {| Logql.slf_label := "a"; Logql.slf_fn := Logql.LEq;
                                                                                       Logql.slf_str := Some v; Logql.slf_num := None |}) None None);
                                          Logql.PDrop [ (dk, Some dv) ] ] |} in
  let s := mk "job" "zqxmark" "zqxmark" ["b"; "c"] "x" "zqxmark" in
  let s' := mk "jo'b" "^(?:api|web' OR '1'='1)$" "\' --" ["b'"; "\"] "x' /*" "') UNION ALL SELECT 1 --" in
  LogqlVariant.script_variant s s' /\
  match SqlPiecesCases.script_pieces s true c 1, SqlPiecesCases.script_pieces s' true c 1 with
  | [Some a], [Some b] => SqlPiecesCases.ps_ok a = true /\ List.length (rvalues (SqlPiecesCases.ps_pieces a)) = 16%nat /\
                          SqlPiecesCases.ps_flat a <> SqlPiecesCases.ps_flat b
  | _, _ => False
  end.
Proof.
  split.
  - cbn. split; [repeat constructor|].
    constructor; [repeat split|]. constructor; [split; [reflexivity|]; constructor; [vm_compute; reflexivity|constructor]|].
    constructor; [repeat split|]. constructor; [constructor; [reflexivity|constructor]|constructor].
  - vm_compute. split; [reflexivity|]. split; [reflexivity|]. discriminate.
Qed.

(* ---------- round 4: the Tempo v1 API (TempoService.Search / Query / Values, tempo.SQLIndexQuery.String as modelled by C13 in
   model/ScansTempo.v over Sql.v trees).  Tag keys and values, the trace id and the tag of a values request are values: requests with the
   same operators, limits and window give statements with the same structure, for ALL tag lists. *)
From Qryn Require model.Scans model.ScansTempo model.SqlPiecesTempo proofs.TempoEraseProofs.

Theorem tempo_v1_statements_are_value_independent : forall (c c' : ScansTempo.tv1_case) p,
  ScansTempo.tv_db c = ScansTempo.tv_db c' -> ScansTempo.tv_cluster c = ScansTempo.tv_cluster c' ->
  ScansTempo.tv_from c = ScansTempo.tv_from c' -> ScansTempo.tv_to c = ScansTempo.tv_to c' ->
  TempoEraseProofs.treq_variant (ScansTempo.tv_req c) (ScansTempo.tv_req c') ->
  pieces (ScansTempo.tv1_select c) false = Some p -> pok QN p = true ->
  exists p', pieces (ScansTempo.tv1_select c') false = Some p' /\ pok QN p' = true /\ shape p' = shape p /\
    render (ScansTempo.tv1_select c) false = Some (flat p) /\ render (ScansTempo.tv1_select c') false = Some (flat p') /\
    skeleton (lex (flat p')) = skeleton (lex (flat p)) /\
    lex (flat p') = etoks QN p' /\ List.length (rvalues p') = List.length (rvalues p).
Proof. exact TempoEraseProofs.tempo_v1_value_independent. Qed.
Print Assumptions tempo_v1_statements_are_value_independent.

Theorem tempo_index_query_is_value_independent : forall db dist tags tags' f t mn mx lim v2 q p,
  Forall2 SqlPiecesTempo.tag_variant tags tags' ->
  ScansTempo.index_query db dist tags f t mn mx lim v2 = Some q -> pieces q false = Some p -> pok QN p = true ->
  exists q' p', ScansTempo.index_query db dist tags' f t mn mx lim v2 = Some q' /\ pieces q' false = Some p' /\ pok QN p' = true /\
    shape p' = shape p /\ skeleton (lex (flat p')) = skeleton (lex (flat p)) /\ lex (flat p') = etoks QN p' /\
    List.length (rvalues p') = List.length (rvalues p).
Proof. exact TempoEraseProofs.tempo_index_query_value_independent. Qed.
Print Assumptions tempo_index_query_is_value_independent.

(* hypotheses met: the search svc="zqxmark" x!="y" against svc="' OR 1=1 --" x!="\": same operators; the statement passes pok with 8 values *)
Example tempo_variant_example :
  let mk := fun tags => {| ScansTempo.tv_id := 0%Z; ScansTempo.tv_db := "qryn"; ScansTempo.tv_cluster := false;
                           ScansTempo.tv_from := 1700000000000000000%Z; ScansTempo.tv_to := 1700003600000000000%Z;
                           ScansTempo.tv_req := ScansTempo.TSearch tags 20%Z 0%Z 0%Z false; ScansTempo.tv_sql := "" |} in
  let t := fun k op v => {| ScansTempo.tg_key := k; ScansTempo.tg_op := op; ScansTempo.tg_val := v |} in
  let c := mk [t "svc" ScansTempo.TgEq "zqxmark"; t "x" ScansTempo.TgNeq "y"] in
  let c' := mk [t "sv'c" ScansTempo.TgEq "' OR 1=1 --"; t "x\" ScansTempo.TgNeq "\"] in
  TempoEraseProofs.treq_variant (ScansTempo.tv_req c) (ScansTempo.tv_req c') /\
  match pieces (ScansTempo.tv1_select c) false with
  | Some p => pok QN p = true /\ List.length (rvalues p) = 8%nat
  | None => False
  end.
Proof.
  split; [|vm_compute; split; reflexivity].
  cbn. split; [|auto]. constructor; [reflexivity|]. constructor; [reflexivity|constructor].
Qed.

(* ---- a line_format template as a request string (builder b4-lf): a template in which no action opens ("{{" does not occur -
   the case of a hostile value put where a template is expected) parses to its own text, LineFormatPlanner prints it as ONE string
   literal, and any two such templates are variants of each other (LogqlVariant.tpl_variant): by
   logql_requests_differing_only_in_values_have_the_same_structure the statements have the same structure *)
From Qryn Require model.LogqlTemplate proofs.LogqlTemplateTextProofs.
Theorem line_format_text_is_one_literal : forall t, LogqlTemplateTextProofs.no_open t = true ->
  exists ns, LogqlTemplate.tpl_parse t = LogqlTemplate.TOk ns /\ LogqlTemplate.tpl_sql ns = StrV t.
Proof. exact LogqlTemplateTextProofs.text_template_is_one_literal. Qed.
Print Assumptions line_format_text_is_one_literal.
Theorem line_format_texts_are_variants : forall t t',
  LogqlTemplateTextProofs.no_open t = true -> LogqlTemplateTextProofs.no_open t' = true -> LogqlVariant.tpl_variant t t'.
Proof. exact LogqlTemplateTextProofs.text_templates_are_variants. Qed.
Print Assumptions line_format_texts_are_variants.
Example line_format_text_hyp :
  LogqlTemplateTextProofs.no_open "it's }} { 100% \" = true /\ LogqlTemplateTextProofs.no_open "" = true /\ LogqlTemplateTextProofs.no_open "a{{.b}}" = false.
Proof. exact LogqlTemplateTextProofs.text_templates_hyp. Qed.

(* ---------- round 4: the label-values and series endpoints (QueryLabelsService.Values / PromValues / Series as modelled by C13 in
   model/ScansPlanners.v: ValuesPlanner, SeriesPlanner, MultiStreamSelectPlanner over the LogQL stream selector).  The label name of the URL
   and the label names and values of the match[] selectors are values: for ALL lists of selectors. *)
From Qryn Require model.ScansPlanners model.SqlPiecesLabels proofs.LabelsEraseProofs.

Theorem label_values_statement_is_value_independent : forall c key key' sels sels' q p,
  SqlPiecesLabels.sels_variant sels sels' ->
  SqlPiecesLabels.values_tree c key sels = Some q -> pieces q false = Some p -> pok QN p = true ->
  exists q' p', SqlPiecesLabels.values_tree c key' sels' = Some q' /\ pieces q' false = Some p' /\ pok QN p' = true /\ shape p' = shape p /\
    ScansPlanners.values_sql c key sels = Some (flat p) /\ ScansPlanners.values_sql c key' sels' = Some (flat p') /\
    skeleton (lex (flat p')) = skeleton (lex (flat p)) /\ lex (flat p') = etoks QN p' /\
    List.length (rvalues p') = List.length (rvalues p).
Proof. exact LabelsEraseProofs.label_values_value_independent. Qed.
Print Assumptions label_values_statement_is_value_independent.

Theorem series_statement_is_value_independent : forall c sels sels' q p,
  SqlPiecesLabels.sels_variant sels sels' ->
  SqlPiecesLabels.series_tree c sels = Some q -> pieces q false = Some p -> pok QN p = true ->
  exists q' p', SqlPiecesLabels.series_tree c sels' = Some q' /\ pieces q' false = Some p' /\ pok QN p' = true /\ shape p' = shape p /\
    ScansPlanners.series_sql c sels = Some (flat p) /\ ScansPlanners.series_sql c sels' = Some (flat p') /\
    skeleton (lex (flat p')) = skeleton (lex (flat p)) /\ lex (flat p') = etoks QN p' /\
    List.length (rvalues p') = List.length (rvalues p).
Proof. exact LabelsEraseProofs.series_value_independent. Qed.
Print Assumptions series_statement_is_value_independent.

(* hypotheses met: /label/lbl/values?match[]={a="zqxmark"}&match[]={c=~"d"} against label `l'bl` with {a'="' OR 1=1 --"} and {c=~"^(?:x|y')$"} *)
Example label_values_variant_example :
  let c := {| LogqlPlan.c_from_ns := 1700000000000000000%Z; LogqlPlan.c_to_ns := 1700003600000000000%Z; LogqlPlan.c_limit := 10000%Z;
              LogqlPlan.c_asc := false; LogqlPlan.c_cluster := false; LogqlPlan.c_type := 1%Z; LogqlPlan.c_finalize := false;
              LogqlPlan.c_step_ns := 0%Z; LogqlPlan.t_gin := "time_series_gin"; LogqlPlan.t_samples := "samples"; LogqlPlan.t_ts := "time_series";
              LogqlPlan.t_ts_dist := "time_series_dist"; LogqlPlan.t_m15 := "m15" |} in
  let m := fun n op v => {| Logql.m_name := n; Logql.m_op := op; Logql.m_val := v |} in
  let sels := [[m "a" Logql.MEq "zqxmark"]; [m "c" Logql.MRe "d"]] in
  let sels' := [[m "a'" Logql.MEq "' OR 1=1 --"]; [m "c" Logql.MRe "^(?:x|y')$"]] in
  SqlPiecesLabels.sels_variant sels sels' /\
  match SqlPiecesLabels.values_tree c "lbl" sels with
  | Some q => match pieces q false with Some p => pok QN p = true /\ List.length (rvalues p) = 9%nat | None => False end
  | None => False
  end.
Proof.
  split; [|vm_compute; split; reflexivity].
  constructor; [constructor; [reflexivity|constructor]|]. constructor; [constructor; [reflexivity|constructor]|constructor].
Qed.

(* ---- round 5 (seeded change C10-e): text handed to package fmt as a FORMAT ------------------------------------------------------
   model/GoFmt.v = fmt's doPrintf over string operands (formats without flags, indexes, width, precision; anything else: None),
   tied to the real fmt.Sprintf on generated formats by checks/c10.py. *)
From Qryn Require model.GoFmt proofs.GoFmtProofs.

(* what the site census takes a constant format for (texts without a percent sign, %s between them, one operand per verb) is what
   Sprintf prints: the concatenation *)
Theorem constant_format_is_concatenation : forall texts args,
  forallb GoFmt.pct_free texts = true -> S (List.length args) = List.length texts ->
  GoFmt.fmt_go (GoFmt.mkformat texts) args = Some (GoFmt.interleave texts args).
Proof. exact GoFmtProofs.fmt_constant_format. Qed.
Print Assumptions constant_format_is_concatenation.

Theorem verb_free_format_is_printed_as_it_stands : forall t, GoFmt.pct_free t = true -> GoFmt.fmt_go t [] = Some t.
Proof. exact GoFmtProofs.fmt_verb_free_text. Qed.
Print Assumptions verb_free_format_is_printed_as_it_stands.

(* the JOIN clause of Select.String printed with the RENDERED sub-select inside the format (seeded C10-e) is the clause the code
   writes today only while the rendered text holds no percent sign ... *)
Theorem join_clause_as_format_is_the_text_only_without_percent : forall tp r, GoFmt.pct_free tp = true -> GoFmt.pct_free r = true ->
  GoFmtProofs.join_as_format tp r = Some (GoFmtProofs.join_as_text tp r).
Proof. exact GoFmtProofs.join_format_safe_only_without_percent. Qed.
Print Assumptions join_clause_as_format_is_the_text_only_without_percent.

(* ... and a request string breaks it: for the value %' the escaper writes '%\'' (it copies the percent sign), fmt consumes the
   backslash as a verb, the quote closes the literal and the statement no longer lexes, while the clause written as text does.
   Hence the census rule "a non-constant format is of unknown provenance whatever it is made of" *)
Theorem rendered_text_as_format_refuted :
  exists v out,
    GoFmtProofs.join_as_format "INNER ANY" ("(SELECT 1 WHERE val == " ++ quote_seq v ++ ")") = Some out /\
    has_err (lex out) = true /\
    has_err (lex (GoFmtProofs.join_as_text "INNER ANY" ("(SELECT 1 WHERE val == " ++ quote_seq v ++ ")"))) = false.
Proof. exact GoFmtProofs.rendered_text_as_format_refuted. Qed.
Print Assumptions rendered_text_as_format_refuted.

(* hypotheses met: a real constant format of the census (match(%s, %s)) and the two ways a verb changes a VALUE without breaking the lexing *)
Example constant_format_example :
  GoFmt.fmt_go (GoFmt.mkformat ["match("; ", "; ")"]) ["val"; "'x'"] = Some "match(val, 'x')" /\
  GoFmtProofs.join_as_format "INNER ANY" (quote_seq "50%%off") = Some (" INNER ANY JOIN " ++ quote_seq "50%off").
Proof. split; [reflexivity | exact (proj1 GoFmtProofs.rendered_text_as_format_changes_values)]. Qed.

(* ---- round 6 (seeded C10-f): the statement that reaches ClickHouse is what the DRIVER makes of (text, bind arguments).
   model/ChBind.v = clickhouse-go's client-side bind for string arguments (bindNumeric, bindPositional, the query-parameter test, the
   driver's own quoting), tied to the real driver on generated (text, arguments) pairs sent through the repository's session wrapper
   to a recording endpoint. *)
From Qryn Require model.ChBind proofs.ChBindProofs.

(* every session call of the reader hands the driver NO argument (census: gen_sql_sites has no "bind arguments beside a rendered
   statement" site): the statement leaves the driver byte for byte as rendered, so every theorem above speaks about the wire text *)
Theorem statement_without_bind_arguments_reaches_the_wire_unchanged : forall q, ChBind.bind_go q [] = Some q.
Proof. exact ChBindProofs.bind_no_args. Qed.
Print Assumptions statement_without_bind_arguments_reaches_the_wire_unchanged.

(* whatever the arguments: a text without `$`, `?`, `{` holds no placeholder syntax and is sent as it stands *)
Theorem placeholder_free_statement_reaches_the_wire_unchanged : forall q args,
  ChBind.ph_free q = true -> ChBind.bind_go q args = Some q.
Proof. exact ChBindProofs.bind_ph_free. Qed.
Print Assumptions placeholder_free_statement_reaches_the_wire_unchanged.

(* a CONSTANT statement with one placeholder (the allowed use of bind arguments): for ALL argument strings the driver writes its own
   quoted form at the placeholder ... *)
Theorem constant_statement_with_bound_string : forall pre post s,
  ChBind.ph_free pre = true -> ChBind.ph_free post = true -> ChBind.starts_with_digit post = false ->
  ChBind.bind_go (pre ++ "$1" ++ post) [s] = Some (pre ++ ChBind.drv_quote s ++ post).
Proof. exact ChBindProofs.bind_constant_statement. Qed.
Print Assumptions constant_statement_with_bound_string.

(* ... which is exactly one ClickHouse string literal decoding to the argument (the driver escapes backslash and quote only; every
   other byte stands for itself inside a literal) *)
Theorem driver_quoted_argument_is_one_literal : forall s rest, safe_rest rest ->
  lex_string (ChBind.drv_quote s ++ rest) = Some (s, rest).
Proof. exact ChBindProofs.drv_quote_is_one_literal. Qed.
Print Assumptions driver_quoted_argument_is_one_literal.

(* ... but bind arguments BESIDE rendered request values break the property (seeded C10-f: `key == $1` with the label name bound):
   for the matcher value x$1y and the label name ` or 1 or ` the driver writes the label name into the matcher's literal; the
   statement still lexes, with another token structure than for a harmless value, while the statement the code writes as text (no
   argument) keeps its structure.  Hence the census rule "bind arguments beside a non-constant statement are unclassified" and the
   observation point behind the driver *)
Theorem bound_argument_beside_rendered_values_refuted :
  exists v label out out0,
    ChBind.bind_go (ChBindProofs.values_stmt_bound v) [label] = Some out /\
    ChBind.bind_go (ChBindProofs.values_stmt_bound "zqxmark") [label] = Some out0 /\
    has_err (lex out) = false /\
    skeleton (lex out) <> skeleton (lex out0) /\
    ChBind.bind_go (ChBindProofs.values_stmt_text v label) [] = Some (ChBindProofs.values_stmt_text v label) /\
    skeleton (lex (ChBindProofs.values_stmt_text v label)) = skeleton (lex (ChBindProofs.values_stmt_text "zqxmark" label)).
Proof. exact ChBindProofs.bound_argument_beside_rendered_values_refuted. Qed.
Print Assumptions bound_argument_beside_rendered_values_refuted.

(* hypotheses met by real values: a rendered statement with a hostile literal survives an unused argument; a constant statement
   with a hostile argument; the witness of the refutation as the driver prints it *)
Example bind_examples :
  ChBind.bind_go (ChBindProofs.values_stmt_text "it's" "job") ["unused"] = Some (ChBindProofs.values_stmt_text "it's" "job") /\
  ChBind.bind_go ("SELECT val FROM t WHERE key == $1" ++ "") ["it's"] = Some ("SELECT val FROM t WHERE key == " ++ ChBind.drv_quote "it's") /\
  ChBind.bind_go (ChBindProofs.values_stmt_bound "x$1y") [" or 1 or "]
  = Some "SELECT val FROM t WHERE ((val) == ('x' or 1 or 'y')) and ((key) == (' or 1 or '))".
Proof. split; [exact (proj2 ChBindProofs.bind_ph_free_example)|split; [vm_compute; reflexivity|exact ChBindProofs.bound_label_witness]]. Qed.

(* ================= round 7 (seeded C10-g): a statement template with NAMED placeholders filled by successive strings.ReplaceAll =================
   proofs/TemplateFillProofs.v, over Quote.replace_all (= strings.Replace(s, old, new, -1), the function of esc_is_sequential_replace);
   regex_tpl is the seeded constant regexMapSql byte for byte, regex_fill_seq the four successive replacements (col, re, labels, id),
   regex_fill_text the concatenation the code as it stands prints (one Sprintf with a constant format) *)
From Qryn Require proofs.TemplateFillProofs.

(* a later substitution leaves alone ANY text that lacks the first byte of its search string ... *)
Theorem later_substitution_leaves_text_without_its_first_byte_alone : forall c o new a,
  TemplateFillProofs.lacks c a = true -> replace_all (String c o) new a = a.
Proof. exact TemplateFillProofs.replace_all_leaves_text_alone. Qed.
Print Assumptions later_substitution_leaves_text_without_its_first_byte_alone.

(* ... so for ALL operands without an opening brace the successive fill of the seeded template is the text the code prints today ... *)
Theorem successive_template_fill_is_the_text_only_without_braces : forall col re labels id,
  TemplateFillProofs.lacks TemplateFillProofs.lb col = true -> TemplateFillProofs.lacks TemplateFillProofs.lb (quote_seq re) = true ->
  TemplateFillProofs.lacks TemplateFillProofs.lb labels = true -> TemplateFillProofs.lacks TemplateFillProofs.lb id = true ->
  TemplateFillProofs.regex_fill_seq col re labels id = TemplateFillProofs.regex_fill_text col re labels id.
Proof. exact TemplateFillProofs.successive_fill_is_the_text_without_braces. Qed.
Print Assumptions successive_template_fill_is_the_text_only_without_braces.

(* ... and the request decides whether there is one: for the expression (\d+){labels}(\w+) with groups or / Or the successive fill still
   lexes, with another token skeleton than for the marker in the same position, while the text printed today keeps its skeleton.
   Hence: text that went through a replacement is unclassified in the census, and the placeholder words of the code under test are
   harvested and tried at every position *)
Theorem successive_template_fill_refuted :
  exists v,
    has_err (lex (TemplateFillProofs.regex_fill_seq "string" (TemplateFillProofs.expr v) TemplateFillProofs.groups "1")) = false /\
    skeleton (lex (TemplateFillProofs.regex_fill_seq "string" (TemplateFillProofs.expr v) TemplateFillProofs.groups "1"))
      <> skeleton (lex (TemplateFillProofs.regex_fill_seq "string" (TemplateFillProofs.expr "zqxmark") TemplateFillProofs.groups "1")) /\
    skeleton (lex (TemplateFillProofs.regex_fill_text "string" (TemplateFillProofs.expr v) TemplateFillProofs.groups "1"))
      = skeleton (lex (TemplateFillProofs.regex_fill_text "string" (TemplateFillProofs.expr "zqxmark") TemplateFillProofs.groups "1")).
Proof. exact TemplateFillProofs.successive_fill_refuted. Qed.
Print Assumptions successive_template_fill_refuted.

(* hypotheses met by a real value (quote, percent sign, backslashes); {id} inside the expression: one literal, other bytes *)
Example template_fill_examples :
  TemplateFillProofs.regex_fill_seq "string" "(\\d+)'%s\\" TemplateFillProofs.groups "1"
    = TemplateFillProofs.regex_fill_text "string" "(\\d+)'%s\\" TemplateFillProofs.groups "1" /\
  TemplateFillProofs.regex_fill_seq "string" "a{id}b" TemplateFillProofs.groups "1"
    = TemplateFillProofs.regex_fill_text "string" "a1b" TemplateFillProofs.groups "1".
Proof. split; [exact (proj2 (proj2 (proj2 (proj2 TemplateFillProofs.successive_fill_example))))|exact TemplateFillProofs.successive_fill_changes_values]. Qed.

(* ---- round 8: the numeric verb inside the model of package fmt.
   model/GoFmtInt.v = GoFmt.v (fmt's doPrintf, flag-free formats) with operands that are strings OR integers: %d / %v of an integer is
   strconv's decimal text (dec), %d of a string and %s of an integer are fmt's bad-verb notation, %b %o %c %U ...: None.  Tied to the
   real fmt.Sprintf on generated formats with mixed operands (harness sqlinject) and on EVERY constant format of the repository's own
   Sprintf sites (census, operands of the kinds the sites have).  Until round 7 the %d sites rested on go/types + numeric_sites_safe:
   that fmt prints a text over the numeric alphabet for an integer was taken for granted. *)
From Qryn Require model.GoFmtInt proofs.GoFmtIntProofs.

(* the round-5 model is the string-operand part of this one *)
Theorem fmt_model_with_integers_extends_the_string_model : forall f args,
  GoFmtInt.fmt_go2 f (map GoFmtInt.OStr args) = GoFmt.fmt_go f args.
Proof. exact GoFmtIntProofs.fmt_go2_refines_fmt_go. Qed.
Print Assumptions fmt_model_with_integers_extends_the_string_model.

(* the census's reading of a constant format with string AND numeric verbs, for all texts without a percent sign and all operands
   (each under the verb its kind calls for): fmt prints the concatenation, an integer as its decimal text *)
Theorem constant_format_with_numeric_verbs_is_concatenation : forall texts ops,
  forallb GoFmt.pct_free texts = true -> S (List.length ops) = List.length texts ->
  GoFmtInt.fmt_go2 (GoFmtInt.mkformat2 texts ops) ops = Some (GoFmt.interleave texts (map GoFmtInt.show ops)).
Proof. exact GoFmtIntProofs.fmt2_constant_format. Qed.
Print Assumptions constant_format_with_numeric_verbs_is_concatenation.

(* for EVERY integer (any Go integer type) %d prints a text over "-0123456789" between the two constant texts ... *)
Theorem numeric_verb_prints_a_number : forall pre post ty z, GoFmt.pct_free pre = true -> GoFmt.pct_free post = true ->
  GoFmtInt.fmt_go2 (pre ++ "%d" ++ post) [GoFmtInt.OInt ty z] = Some (pre ++ GoFmtInt.dec z ++ post) /\
  over GoFmtInt.dec_alphabet (GoFmtInt.dec z) = true.
Proof. exact GoFmtIntProofs.numeric_site_prints_a_number. Qed.
Print Assumptions numeric_verb_prints_a_number.

(* ... which the escaper copies unchanged and which, inside a literal, stays inside it (the hypothesis of numeric_sites_safe,
   discharged for what fmt prints) *)
Theorem printed_integer_is_harmless : forall z acc,
  esc (GoFmtInt.dec z) = GoFmtInt.dec z /\ after (QStr acc) (GoFmtInt.dec z) = QStr (acc ++ GoFmtInt.dec z) /\ outs (QStr acc) (GoFmtInt.dec z) = [].
Proof. exact GoFmtIntProofs.dec_is_harmless. Qed.
Print Assumptions printed_integer_is_harmless.

(* why go/types has to prove the operand an integer: a STRING under %d is printed with all its bytes outside any literal
   (for every string), and the request decides whether the statement still lexes *)
Theorem numeric_verb_over_a_string_prints_its_bytes : forall pre post s, GoFmt.pct_free pre = true -> GoFmt.pct_free post = true ->
  GoFmtInt.fmt_go2 (pre ++ "%d" ++ post) [GoFmtInt.OStr s] = Some (pre ++ "%!d(string=" ++ s ++ ")" ++ post).
Proof. exact GoFmtIntProofs.numeric_verb_over_string_operand. Qed.
Print Assumptions numeric_verb_over_a_string_prints_its_bytes.

Theorem numeric_verb_over_a_string_refuted :
  exists s out, GoFmtInt.fmt_go2 "SELECT 1 LIMIT %d" [GoFmtInt.OStr s] = Some out /\ has_err (lex out) = true /\
    forall ty z, exists out', GoFmtInt.fmt_go2 "SELECT 1 LIMIT %d" [GoFmtInt.OInt ty z] = Some out' /\ out' = "SELECT 1 LIMIT " ++ GoFmtInt.dec z.
Proof. exact GoFmtIntProofs.numeric_verb_over_string_operand_refuted. Qed.
Print Assumptions numeric_verb_over_a_string_refuted.

(* hypotheses met by real values: a format with three verbs, the extreme int64, operands under the wrong verbs *)
Example numeric_verb_examples :
  GoFmtInt.fmt_go2 (GoFmtInt.mkformat2 ["toDateTime("; ") AND val == "; " LIMIT "; ""]
                      [GoFmtInt.OInt "int64" (-1700000000); GoFmtInt.OStr "'x'"; GoFmtInt.OInt "int" 100])
          [GoFmtInt.OInt "int64" (-1700000000); GoFmtInt.OStr "'x'"; GoFmtInt.OInt "int" 100] = Some "toDateTime(-1700000000) AND val == 'x' LIMIT 100" /\
  GoFmtInt.dec 0 = "0" /\ GoFmtInt.dec (-9223372036854775808) = "-9223372036854775808" /\
  GoFmtInt.fmt_go2 "%s|%d|%v" [GoFmtInt.OInt "int" 5; GoFmtInt.OStr "a"; GoFmtInt.OInt "int64" 7; GoFmtInt.OStr "b"] = Some "%!s(int=5)|%!d(string=a)|7%!(EXTRA string=b)".
Proof. exact GoFmtIntProofs.fmt2_examples. Qed.

(* ---- round 8, second part: explicit argument indexes.  model/GoFmtIdx.v = doPrintf as one pass with a state (where the scan stands inside
   a directive, number of the next operand, "reordered"): %[n]verb takes operand n, the next plain verb operand n+1, a bad index prints
   %!v(BADINDEX), and once an index was seen fmt no longer reports unused operands.  The LogQL json / regexp parser planners place QUOTED
   REQUEST STRINGS with %[2]s ... %[1]s (planner_parser_json.go, planner_parser_regexp.go); the step planners print %d ... %[1]d. *)
From Qryn Require model.GoFmtIdx proofs.GoFmtIdxProofs.

(* on every format and operand list where the index-free model answers, this one gives the same text *)
Theorem fmt_model_with_indexes_extends_the_index_free_model : forall f ops o,
  GoFmtInt.fmt_go2 f ops = Some o -> GoFmtIdx.fmt_go3 f ops = Some o.
Proof. exact GoFmtIdxProofs.fmt_go3_refines_fmt_go2. Qed.
Print Assumptions fmt_model_with_indexes_extends_the_index_free_model.

(* the census's reading of a constant format whose directives NAME their operands: for all texts without a percent sign, all operand
   lists (strings with any bytes, any integers) and all index lists (each between 1 and 9 and at most the number of operands; an operand
   may be printed several times or never), fmt prints the texts with the named operands between them - nothing of an operand is read
   as a directive, no operand is reported as unused *)
Theorem constant_format_with_argument_indexes_is_concatenation : forall ops texts idxs,
  forallb GoFmt.pct_free texts = true -> S (List.length idxs) = List.length texts -> idxs <> [] ->
  forallb (GoFmtIdx.idx_ok ops) idxs = true ->
  GoFmtIdx.fmt_go3 (GoFmtIdx.mkformat3 ops texts idxs) ops
  = Some (GoFmt.interleave texts (map (fun i => GoFmtInt.show (nth (i - 1) ops (GoFmtInt.OStr ""))) idxs)).
Proof. exact GoFmtIdxProofs.fmt3_constant_format_idx. Qed.
Print Assumptions constant_format_with_argument_indexes_is_concatenation.

(* hypotheses met: the json parser planner's format with a quoted path holding a quote and a percent sign; a step planner's format;
   bad indexes; a format built by mkformat3 *)
Example argument_index_examples :
  GoFmtIdx.fmt_go3 "if(JSONType(%[2]s, %[1]s) == 'String', JSONExtractString(%[2]s, %[1]s), JSONExtractRaw(%[2]s, %[1]s))" [GoFmtInt.OStr "'a\'%s'"; GoFmtInt.OStr "string"]
  = Some "if(JSONType(string, 'a\'%s') == 'String', JSONExtractString(string, 'a\'%s'), JSONExtractRaw(string, 'a\'%s'))" /\
  GoFmtIdx.fmt_go3 "intDiv(timestamp_ns, %d) * %[1]d" [GoFmtInt.OInt "int64" 15000000000] = Some "intDiv(timestamp_ns, 15000000000) * 15000000000" /\
  GoFmtIdx.fmt_go3 "%[3]d|%[0]s|%[1]d %s" [GoFmtInt.OInt "int" 1; GoFmtInt.OStr "b"] = Some "%!d(BADINDEX)|%!s(BADINDEX)|1 b" /\
  GoFmtIdx.mkformat3 [GoFmtInt.OStr "x"; GoFmtInt.OInt "int" 5] ["a("; ", "; ")"] [2; 1] = "a(%[2]d, %[1]s)" /\
  GoFmtIdx.idx_ok [GoFmtInt.OStr "x"; GoFmtInt.OInt "int" 5] 2 = true /\
  GoFmtIdx.fmt_go3 "%d.%09d" [GoFmtInt.OInt "int64" 1700000000; GoFmtInt.OInt "int64" 5] = Some "1700000000.000000005" /\
  GoFmtIdx.pad0 9 (-5) = "-00000005" /\ GoFmtIdx.pad0 3 12345 = "12345" /\ GoFmtIdx.pad0 0 0 = "0".
Proof. exact GoFmtIdxProofs.fmt3_examples. Qed.

(* the one flagged directive of the repository, %0<w>d (secondsText's %d.%09d): for every width digit, every integer and all texts
   without a percent sign fmt prints the zero-padded number, a text over "-0123456789" (for EVERY width and integer) *)
Theorem zero_padded_numeric_verb_prints_a_number : forall pre post ty z w, GoFmt.pct_free pre = true -> GoFmt.pct_free post = true -> 1 <= w <= 9 ->
  GoFmtIdx.fmt_go3 (pre ++ String "%" (String "0" (String (GoFmtIdx.idx_digit w) (String "d" post)))) [GoFmtInt.OInt ty z]
    = Some (pre ++ GoFmtIdx.pad0 w z ++ post)
  /\ over GoFmtInt.dec_alphabet (GoFmtIdx.pad0 w z) = true.
Proof. exact GoFmtIdxProofs.go3_zero_padded. Qed.
Print Assumptions zero_padded_numeric_verb_prints_a_number.

Theorem zero_padded_integer_is_over_the_decimal_alphabet : forall w z, over GoFmtInt.dec_alphabet (GoFmtIdx.pad0 w z) = true.
Proof. exact GoFmtIdxProofs.pad0_over_dec_alphabet. Qed.
Print Assumptions zero_padded_integer_is_over_the_decimal_alphabet.
