(* Property C17 — Prometheus and Pyroscope label matchers select exactly the matching series;
   cursor honours the seek/next contract.  Only statements; proofs by reference. *)
From Coq Require Import List ZArith Bool.
From Qryn Require Import model.SeriesIt proofs.SeriesItProofs.
Import ListNotations.
Open Scope Z_scope.

(* Every script of Next/Seek calls on the cursor of an ascending sample array yields, call by
   call, the boolean and the current sample that the chunkenc.Iterator contract prescribes
   (Seek t: first sample at or after t that is not before the current position, or the end). *)
Theorem seek_contract : forall s ops, ascending s ->
  spec_run_ok s (-1) ops (run (iterator s) ops) = true.
Proof. intros s ops H. exact (run_meets_spec s H ops (-1)). Qed.
Print Assumptions seek_contract.

(* the same contract spelled out for a single Seek from any reachable position *)
Theorem seek_contract_one_call : forall s p t, ascending s -> -1 <= p ->
  let '(c', ok) := seek {| samples := s; idx := p |} t in
  let start := Z.max p 0 in
  start <= idx c' /\
  (forall j, start <= Z.of_nat j < idx c' -> (j < length s)%nat -> nthZ s j < t) /\
  (ok = true -> idx c' < Z.of_nat (length s) /\ t <= nthZ s (Z.to_nat (idx c'))) /\
  (ok = false -> forall j, start <= Z.of_nat j -> (j < length s)%nat -> nthZ s j < t).
Proof. exact seek_contract_step. Qed.
Print Assumptions seek_contract_one_call.

(* ======================= part 2: selection (matchers -> SQL -> rows -> series) =======================
   The meaning of SQL is that of the reference interpreter model/PromSem.v (trusted reading of
   ClickHouse); `re_match h p` is RE2 search (ClickHouse match()), `re_full v p` the anchored match
   of Prometheus; both are arbitrary functions related only by the anchoring law. *)
From Coq Require Import NArith String Sorting.Sorted.
From Qryn Require Import model.Sql model.Logql model.LogqlPlan model.PromSelect model.PromSel model.PromSem model.PromCase
  model.ProfSel model.ProfSem proofs.PromSelProofs proofs.ProfAbsProofs.

(* The reference interpreter applied to the planner's own fingerprint query (the tree whose rendering
   is compared byte for byte with the implementation's SQL) computes the list function fp_sel. *)
Theorem fp_sel_sql_meaning : forall re_match cte c ms gin,
  eval_fpq re_match cte (stream_select c ms) (map gin_env gin) =
  fp_sel re_match (from_day (c_from_ns c)) (sel_type c) (map clause_of ms) gin.
Proof. exact eval_fpq_stream_select. Qed.
Print Assumptions fp_sel_sql_meaning.

(* fp_sel selects exactly the fingerprints for which every matcher is witnessed by an index row of
   that fingerprint inside the date / type bounds (at most 63 matchers: 64-bit shifts and Go's int literal). *)
Theorem index_query_selects_witnessed : forall re_match D t cs gin fp, cs <> [] -> (List.length cs <= 63)%nat ->
  List.In fp (fp_sel re_match D t cs gin) <-> series_matches re_match D t cs gin fp.
Proof. exact fp_sel_correct. Qed.
Print Assumptions index_query_selects_witnessed.

(* The same for the statement fingerprintsQuery builds since fix e2b3950 (absent labels): the matchers that reject the
   empty string go through the label index (pos_clauses), each matcher that accepts it is planned as
   `fingerprint IN (SELECT .. <inverse matcher> ..) == 0` (neg_clauses): the interpreter on the planner's own tree
   computes the list function fp_sel_abs. *)
Theorem fingerprints_query_sql_meaning : forall re_match re_full c ms gin,
  eval_fp_sel re_match (fingerprints_query re_full c ms) gin =
  fp_sel_abs re_match (from_day (c_from_ns c)) (sel_type c) (pos_clauses re_full ms) (neg_clauses re_full ms) gin.
Proof. exact eval_fp_sel_fingerprints_query. Qed.
Print Assumptions fingerprints_query_sql_meaning.

(* fp_sel_abs selects exactly the fingerprints for which every positive clause is witnessed by an index row and no
   index row (inside the date / type bounds) satisfies an exclusion clause *)
Theorem index_query_with_exclusions : forall re_match D t pos neg gin fp, pos <> [] -> (List.length pos <= 63)%nat ->
  List.In fp (fp_sel_abs re_match D t pos neg gin) <->
  series_matches re_match D t pos gin fp /\
  ~ (exists n r, List.In n neg /\ List.In r gin /\ g_fp r = fp /\ D <= g_date r /\ (g_type r = t \/ g_type r = 0)
                 /\ eval_clause re_match n r = true).
Proof. exact fp_sel_abs_correct. Qed.
Print Assumptions index_query_with_exclusions.

(* THE SELECTION STATEMENT, in full (it was refuted before fix e2b3950: a matcher accepting the empty
   string never selected a series lacking the label; and the window was (Start, End] in nanoseconds).
   For every consistent database (db_ok: the label index describes the series table, C04's property), every matcher
   list of at most 63 matchers one of which rejects the empty string (Prometheus refuses any other selector), on the
   raw path with Step = 0: the rows answered to the statement Select sends are exactly the samples whose millisecond
   lies in [Start, End] of exactly the metric series whose labels satisfy every matcher in the Prometheus sense
   (absent label = "", regexes anchored), ordered by (fingerprint, time). *)
Theorem prom_select_exact_rows : forall (re_match re_full : string -> string -> bool),
  (forall v p, re_match v (anchor p) = re_full v p) ->
  forall cluster dbname h ms db, use_raw_data h = true -> h_step h = 0 ->
    db_ok (from_day (h_start h * 1000000)) (d_gin db) (d_series db) ->
    selective re_full ms = true -> (List.length ms <= 63)%nat ->
    prom_query_rows re_match re_full cluster dbname h ms db = Some (expected_rows re_full h ms db).
Proof. intros re_match re_full Hl. intros. now apply (prom_rows_exact re_match re_full Hl). Qed.
Print Assumptions prom_select_exact_rows.

(* ... and Select's row loop hands the engine each selected fingerprint once, with exactly its in-range
   samples, ascending in time (the `ascending` hypothesis of seek_contract). *)
Theorem prom_select_exact : forall (re_match re_full : string -> string -> bool),
  (forall v p, re_match v (anchor p) = re_full v p) ->
  forall cluster dbname h ms db, use_raw_data h = true -> h_step h = 0 ->
    db_ok (from_day (h_start h * 1000000)) (d_gin db) (d_series db) ->
    selective re_full ms = true -> (List.length ms <= 63)%nat ->
    exists rows, prom_query_rows re_match re_full cluster dbname h ms db = Some rows /\
      let ss := select_loop (snd (querier_transpile re_full cluster dbname h ms)) rows in
      NoDup (map ps_fp ss) /\
      (forall fp, List.In fp (map ps_fp ss) <->
                  List.In fp (expected_fps re_full (from_day (h_start h * 1000000)) ms (d_series db)) /\
                  exists s, List.In s (d_samples db) /\ window_ok h s = true /\ sm_fp s = fp) /\
      (forall s, List.In s ss ->
         ps_samples s = rows_of (ps_fp s) rows /\
         StronglySorted Z.le (map fst (ps_samples s)) /\
         (forall x, List.In x (ps_samples s) <->
            exists sm, List.In sm (d_samples db) /\ window_ok h sm = true /\ sm_fp sm = ps_fp s /\
                       x = (Z.quot (sm_ts_ns sm) 1000000, sm_value sm))).
Proof. intros re_match re_full Hl. intros. now apply (prom_select_series_exact re_match re_full Hl). Qed.
Print Assumptions prom_select_exact.

(* End to end (both statements answered by the reference interpreter, then labelsGetter, ReshuffleSeries and the
   final sort): Select returns each matching series that has a sample in the range exactly once, under its own
   label set, with exactly its in-range samples in ascending time order. Extra hypotheses: a series with a sample
   in the range is announced as a METRIC series between the date bounds of the labels request (C04's property; the
   request reads metric-typed rows only since the fix of prom-labels-fetch-untyped), and stored series with
   one label set carry one fingerprint (the fingerprint is a hash of the labels; ReshuffleSeries keys by the label
   list since fix 3acbc45, no longer by the ambiguous text "n=v n=v").  db_ok asks "one fingerprint, one label set" of the
   METRIC series rows only: the series rows of log streams are free, also to share a fingerprint with a metric series
   under another label set (select_ignores_log_streams below). *)
Theorem prom_select_exact_series : forall (re_match re_full : string -> string -> bool),
  (forall v p, re_match v (anchor p) = re_full v p) ->
  forall cluster dbname h ms db, use_raw_data h = true -> h_step h = 0 ->
    db_ok (day_from h) (d_gin db) (d_series db) -> selective re_full ms = true -> (List.length ms <= 63)%nat ->
    (forall sm, List.In sm (d_samples db) -> window_ok h sm = true ->
       exists s, List.In s (d_series db) /\ t_fp s = sm_fp sm /\ (t_type s = 2 \/ t_type s = 0) /\
                 day_from h <= t_date s /\ t_date s <= day_to h) ->
    (forall s1 s2, List.In s1 (d_series db) -> List.In s2 (d_series db) ->
       sort_labels (sort_labels (t_labels s1)) = sort_labels (sort_labels (t_labels s2)) -> t_fp s1 = t_fp s2) ->
    exists rows out, prom_query_rows re_match re_full cluster dbname h ms db = Some rows /\
      prom_select re_match re_full cluster dbname h ms db = Some out /\
      NoDup (map o_fp out) /\
      (forall fp, List.In fp (map o_fp out) <->
                  List.In fp (expected_fps re_full (day_from h) ms (d_series db)) /\
                  exists s, List.In s (d_samples db) /\ window_ok h s = true /\ sm_fp s = fp) /\
      (forall o, List.In o out ->
         (exists s, List.In s (d_series db) /\ t_fp s = o_fp o /\ prom_matches re_full ms (t_labels s) = true /\
                    o_labels o = sort_labels (sort_labels (t_labels s)) /\      (* the list itself: sorted by name, see series_labels_sorted *)
                    (forall kv, List.In kv (o_labels o) <-> List.In kv (t_labels s))) /\
         o_samples o = rows_of (o_fp o) rows /\
         StronglySorted Z.le (map fst (o_samples o))).
Proof. intros re_match re_full Hl. intros. now apply (prom_select_exact_series re_match re_full Hl). Qed.
Print Assumptions prom_select_exact_series.

(* Several Selects on ONE querier (a PromQL query with several selectors / offsets; model PromSelect.select_step
   with the labelsGetter as a stateful object and a querier state that could retain one): the series a Select
   returns are a function of its own hints (window of its labels request), MapResult flag, rows and of the
   database's reply -- whatever the querier did before, in whatever state it is. *)
Theorem select_independent_of_earlier_selects : forall answer st1 st2 pre1 pre2 c,
  last (run_selects answer st1 (pre1 ++ [c])) [] = last (run_selects answer st2 (pre2 ++ [c])) [] /\
  snd (select_step answer st1 c) =
  select_series (cl_mr c) (cl_rows c) (answer (cl_from c) (cl_to c) (planned_fps (cl_mr c) (cl_from c) (cl_to c) (cl_rows c))).
Proof. intros. split; [apply run_selects_independent|apply select_step_meaning]. Qed.
Print Assumptions select_independent_of_earlier_selects.

(* The row loop turns any fingerprint-contiguous row list into one series per fingerprint holding exactly
   that fingerprint's rows, in order (after MapResult when the down-sampled count_over_time installed it). *)
Theorem select_groups_rows : forall mr rows, contiguousb rows = true ->
  NoDup (map ps_fp (select_loop mr rows)) /\
  (forall fp, List.In fp (map r_fp rows) <-> List.In fp (map ps_fp (select_loop mr rows))) /\
  (forall s, List.In s (select_loop mr rows) ->
     ps_samples s = if mr then map_result_count (rows_of (ps_fp s) rows) else rows_of (ps_fp s) rows).
Proof. exact select_loop_spec. Qed.
Print Assumptions select_groups_rows.

(* The raw-sample path is taken exactly when the start is not a multiple of 15 s, or the step is below
   15 s, or a range below 15 s is asked for, or the function is one the 15 s roll-up cannot answer. *)
Theorem use_raw_data_decision : forall h,
  use_raw_data h = true <->
  (~ (15000 | h_start h) \/ h_step h < 15000 \/ 0 < h_range h < 15000 \/ List.In (h_func h) explicitly_unsupported).
Proof. exact use_raw_data_spec. Qed.
Print Assumptions use_raw_data_decision.

(* ---------- the storage contract the PromQL engine relies on, for the adapter model (proofs/PromStoreProofs.v) ---------- *)
From Coq Require Import Sorting.Permutation.
From Qryn Require Import proofs.PromStoreProofs.

(* SeriesSet: the engine's loop `for ss.Next() { ss.At() }` visits every returned series exactly once, in order, At()
   never indexes out of range inside the loop; once Next() has returned false it keeps returning false *)
Theorem series_set_visits_each_series_once : forall l fuel, (List.length l < fuel)%nat ->
  sset_drain fuel (sset_new l) = map Some l.
Proof. exact sset_drain_all. Qed.
Print Assumptions series_set_visits_each_series_once.

Theorem series_set_exhaustion_is_stable : forall s, -1 <= ss_idx s -> snd (sset_next s) = false ->
  snd (sset_next (fst (sset_next s))) = false /\ sset_at (fst (sset_next s)) = None.
Proof. exact sset_exhausted_stays. Qed.
Print Assumptions series_set_exhaustion_is_stable.

(* SeriesSet ordering: whatever the rows and the labels answered, Select returns its series sorted by Prometheus'
   labels.Compare (series_le a b := labels_compare (o_labels a) (o_labels b) <> Gt); the comparator of Select's final
   sort.Slice is exactly "labels.Compare <= 0" *)
Theorem series_set_sorted_by_labels_compare : forall mr rows fetch,
  StronglySorted series_le (select_series mr rows fetch) /\
  (forall a b, labels_less a b = true <-> labels_compare a b <> Datatypes.Gt).
Proof. intros. split; [apply select_series_sorted|intros; apply labels_less_compare]. Qed.
Print Assumptions series_set_sorted_by_labels_compare.

(* Labels(): sorted by name, a permutation of the pairs answered for the fingerprint; strictly ascending (hence the
   unique such list) when the names are distinct *)
Theorem series_labels_sorted : forall fetch fp,
  StronglySorted name_le (labels_get fetch fp) /\
  (forall l, fingerprints_has fetch fp = Some l -> Permutation (labels_get fetch fp) l) /\
  (NoDup (map fst (labels_get fetch fp)) ->
   StronglySorted (fun a b => str_ltb (fst a) (fst b) = true) (labels_get fetch fp)).
Proof.
  intros. destruct (labels_get_sorted fetch fp) as [H1 H2]. split; [exact H1|]. split; [exact H2|]. now apply sorted_strict.
Qed.
Print Assumptions series_labels_sorted.

(* the sample cursor after the end: once a call has returned false (the cursor is exhausted), every later Next() and
   Seek(t) returns false and At() has no value -- "Seek after exhaustion" *)
Theorem cursor_exhaustion_is_stable : forall ops c, len c <= idx c ->
  Forall (fun ob => ob = Obs false None) (run c ops).
Proof. exact cursor_exhausted_stays. Qed.
Print Assumptions cursor_exhaustion_is_stable.

(* At() has a value exactly after a call that returned true; a call that returns false leaves the cursor exhausted
   ("At after a failed Next" would index out of range in Go: the contract forbids the call, the model shows None) *)
Theorem cursor_at_defined_iff_call_succeeded : forall c o, -1 <= idx c ->
  let '(c', ob) := step c o in
  match ob with Obs b v => (b = true <-> v <> None) /\ (b = false -> len c' <= idx c') /\ -1 <= idx c' end.
Proof. exact cursor_at_defined. Qed.
Print Assumptions cursor_at_defined_iff_call_succeeded.

(* the hypothesis of seek_contract is what prom_select_exact / prom_select_exact_series deliver for every series
   (StronglySorted Z.le on the timestamps): the cursor over a selected series honours the contract *)
Theorem seek_contract_on_selected_series : forall s ops, StronglySorted Z.le s ->
  spec_run_ok s (-1) ops (run (iterator s) ops) = true.
Proof. exact seek_contract_for_sorted. Qed.
Print Assumptions seek_contract_on_selected_series.

(* ---------- profile (Pyroscope) selectors ----------
   prof_fp_sel is the list-function reading of the statement StreamSelectorPlanner emits (proved equal to the
   reference interpreter on the planner's own tree: prof_statement_sql_meaning); pgin_of derives
   profiles_series_gin from the stored series. *)

(* The reference interpreter applied to the profile selector planner's own tree (the one whose rendering is
   compared byte for byte with the implementation's SQL) computes the list function prof_fp_sel. *)
Theorem prof_statement_sql_meaning : forall re cte tbl from_ns to_ns sels rows,
  eval_fpq re cte (prof_selector tbl from_ns to_ns sels) (map pgin_env rows) =
  prof_fp_sel re (from_day from_ns) (to_ns / (86400 * 1000000000)) (map prof_selector_val sels) rows.
Proof. exact eval_prof_selector. Qed.
Print Assumptions prof_statement_sql_meaning.

(* which fingerprints the statement returns: with key/value selectors, those for which every such selector
   is witnessed by an index row inside the date bounds that also passes every pseudo-label condition;
   without, those with one such row *)
Theorem prof_statement_meaning : forall re D1 D2 sels rows fp,
  let '(g, kv) := split_selectors sels in
  (List.length kv <= 63)%nat ->
  (List.In fp (prof_fp_sel re D1 D2 sels rows) <->
   match kv with
   | [] => exists r, prow_sem re D1 D2 g rows fp r
   | _ => forall k, List.In k kv -> exists r, prow_sem re D1 D2 g rows fp r /\ eval_clause re (sel_clause_of k) (to_gin r) = true
   end).
Proof. exact prof_sel_correct. Qed.
Print Assumptions prof_statement_meaning.

(* Since the absent-label fix StreamSelectorPlanner.Process (model ProfSel.prof_selector_abs; prof_selector is its
   processIndexed) plans every selector on a stored label that accepts the empty string as the exclusion
   `fingerprint IN (SELECT .. <inverse selector> ..) == 0`: the reference interpreter applied to the planner's own tree
   computes the list function prof_fp_sel_abs (pos_sels = the indexed selectors, neg_sels = the inverses of the others). *)
Theorem prof_statement_abs_sql_meaning : forall re re_full rows tbl from_ns to_ns sels,
  eval_prof_sel re (prof_selector_abs re_full tbl from_ns to_ns sels) rows =
  prof_fp_sel_abs re (from_day from_ns) (to_ns / (86400 * 1000000000)) (pos_sels re_full sels) (neg_sels re_full sels) rows.
Proof. exact eval_prof_selector_abs. Qed.
Print Assumptions prof_statement_abs_sql_meaning.

(* THE PYROSCOPE SELECTION STATEMENT, in full (it was refuted before the fix: {region!="eu-west"} never selected a series
   without a region label; the former theorem prof_select_exact_refuted).  For every stored series table with labels
   functional per fingerprint, unique label names and at least one label per series (pdb_ok), every selector list with at
   most 63 indexed selectors on stored labels: the statement Process builds, under the reference interpreter over the index
   derived from the series, returns exactly the fingerprints of the stored series inside the date bounds that satisfy
   every selector in the Pyroscope / Prometheus sense (pseudo labels from type id / sample types / service name, other
   labels with absent = "", regexes anchored). *)
Theorem prof_select_exact : forall (re_match re_full : string -> string -> bool),
  (forall v p, re_match v (anchor p) = re_full v p) ->
  forall tbl from_ns to_ns sels series fp, pdb_ok series ->
    (List.length (snd (split_selectors (pos_sels re_full sels))) <= 63)%nat ->
    (List.In fp (eval_prof_sel re_match (prof_selector_abs re_full tbl from_ns to_ns sels) (pgin_of series)) <->
     List.In fp (prof_expected re_full (from_day from_ns) (to_ns / (86400 * 1000000000)) sels series)).
Proof. intros re_match re_full Hl. intros. now apply (prof_select_statement_exact re_match re_full Hl). Qed.
Print Assumptions prof_select_exact.

(* A Series request with several matchers (PlanSeries builds one UNION ALL member per matcher; since fix c94f1fe member i
   reads the WITH fp_i holding the selector statement of matcher i -- tied byte for byte on every run): the fingerprints the
   members read together are exactly the stored series satisfying at least one of the matchers. *)
Theorem prof_series_multi_matcher_exact : forall (re_match re_full : string -> string -> bool),
  (forall v p, re_match v (anchor p) = re_full v p) ->
  forall tbl from_ns to_ns scripts series fp, pdb_ok series ->
    (forall sels, List.In sels scripts -> (List.length (snd (split_selectors (pos_sels re_full sels))) <= 63)%nat) ->
    (List.In fp (prof_series_fps re_match re_full tbl from_ns to_ns scripts (pgin_of series)) <->
     exists sels, List.In sels scripts /\
                  List.In fp (prof_expected re_full (from_day from_ns) (to_ns / (86400 * 1000000000)) sels series)).
Proof. exact prof_series_union_exact. Qed.
Print Assumptions prof_series_multi_matcher_exact.

(* the same over the list reading, for any date bounds *)
Theorem prof_select_exact_reading : forall (re_match re_full : string -> string -> bool),
  (forall v p, re_match v (anchor p) = re_full v p) ->
  forall D1 D2 sels series fp, pdb_ok series ->
    (List.length (snd (split_selectors (pos_sels re_full sels))) <= 63)%nat ->
    (List.In fp (prof_fp_sel_abs re_match D1 D2 (pos_sels re_full sels) (neg_sels re_full sels) (pgin_of series)) <->
     List.In fp (prof_expected re_full D1 D2 sels series)).
Proof. intros re_match re_full Hl. intros. now apply (prof_fp_select_abs re_match re_full Hl). Qed.
Print Assumptions prof_select_exact_reading.

(* the index-only part (processIndexed, used for the indexed selectors and for every exclusion sub-query): when the
   selectors on non-pseudo labels reject the empty string (or no stored series lacks the label),
   at most 63 of them, the statement returns exactly the fingerprints of the stored series inside the date
   bounds that satisfy every selector (pseudo labels from type id / sample types / service name, other
   labels with absent = "", regexes anchored) *)
Theorem prof_select_exact_partial : forall (re_match re_full : string -> string -> bool),
  (forall v p, re_match v (anchor p) = re_full v p) ->
  forall D1 D2 sels series fp, pdb_ok series ->
    (List.length (snd (split_selectors (map prof_selector_val sels))) <= 63)%nat ->
    (forall sel, List.In sel sels -> selector_guard re_full series sel) ->
    (List.In fp (prof_fp_sel re_match D1 D2 (map prof_selector_val sels) (pgin_of series)) <->
     List.In fp (prof_expected re_full D1 D2 sels series)).
Proof. intros re_match re_full Hl. intros. now apply (prof_fp_select re_match re_full Hl). Qed.
Print Assumptions prof_select_exact_partial.

(* ---------- processHints: the rows the engine receives on the raw path when hints.Step <> 0 ----------
   bucket_series / range_filter are the per-series list readings of the two rewrites (their agreement with
   the reference interpreter on the implementation's statement is checked by computation on every generated
   case, verdict 9 of hints_verdict); visible L T = what an instant selector shows at evaluation time T with
   look-back L, window r T = the samples a range selector hands to its function at T. *)

(* step bucketing does not preserve what instant selectors show: off the bucket grid a sample is re-stamped
   into the future of the evaluation time *)
Theorem step_bucket_lookup_refuted :
  ~ (forall start step L T l, 0 < step -> asc l -> Forall (fun s => start <= fst s) l ->
       visible L T (bucket_series start step l) = visible L T l).
Proof.
  intros H. specialize (H 0 7 300 6 [(5, 1)] ltac:(reflexivity)).
  assert (H' : visible 300 6 (bucket_series 0 7 [(5, 1)]) = visible 300 6 [(5, 1)]).
  { apply H; [repeat constructor|repeat constructor; cbn; discriminate]. }
  vm_compute in H'. discriminate H'.
Qed.
Print Assumptions step_bucket_lookup_refuted.

(* ... and even on the grid a sample just older than the look-back is shown again *)
Theorem step_bucket_lookup_refuted_on_grid :
  ~ (forall start step j L l, 0 < step -> asc l -> Forall (fun s => start <= fst s) l ->
       visible L (start + j * step) (bucket_series start step l) = visible L (start + j * step) l).
Proof.
  intros H. specialize (H (-7) 7 3 14 [(-3, 1)] ltac:(reflexivity)).
  assert (H' : visible 14 (-7 + 3 * 7) (bucket_series (-7) 7 [(-3, 1)]) = visible 14 (-7 + 3 * 7) [(-3, 1)]).
  { apply H; [repeat constructor|repeat constructor; cbn; discriminate]. }
  vm_compute in H'. discriminate H'.
Qed.
Print Assumptions step_bucket_lookup_refuted_on_grid.

(* partial: at every evaluation time on the bucket grid (Start + j*Step; for the engine: when Step divides the
   look-back) the bucketed series shows the value of the latest raw sample, and whatever Prometheus shows there
   is still shown *)
Theorem step_bucket_lookup_partial : forall start step j L l,
  0 < step -> asc l -> Forall (fun s => start <= fst s) l ->
  option_map snd (latest_le (start + j * step) (bucket_series start step l)) = option_map snd (latest_le (start + j * step) l) /\
  (forall v, visible L (start + j * step) l = Some v -> visible L (start + j * step) (bucket_series start step l) = Some v).
Proof.
  intros start step j L l Hs Ha Hge. split; [now apply step_bucket_latest|]. intros v. now apply step_bucket_visible.
Qed.
Print Assumptions step_bucket_lookup_partial.

(* the modulo filter drops samples of evaluated range windows when the evaluation times are off the absolute grid *)
Theorem range_filter_windows_refuted :
  ~ (forall step range T l, 0 <= range < step -> Forall (fun s => 0 <= fst s) l ->
       window range T (range_filter step range l) = window range T l).
Proof.
  intros H. specialize (H 10 5 3 [(1, 9)] ltac:(split; [discriminate|reflexivity])).
  assert (H' : window 5 3 (range_filter 10 5 [(1, 9)]) = window 5 3 [(1, 9)]).
  { apply H. repeat constructor. cbn. discriminate. }
  vm_compute in H'. discriminate H'.
Qed.
Print Assumptions range_filter_windows_refuted.

(* partial: evaluation times that are multiples of Step keep every sample of their window [T - range, T] *)
Theorem range_filter_windows_partial : forall step range k l,
  0 <= range < step -> Forall (fun s => 0 <= fst s) l ->
  window range (k * step) (range_filter step range l) = window range (k * step) l.
Proof. exact range_filter_keeps_windows. Qed.
Print Assumptions range_filter_windows_partial.

(* the two SQL expressions processHints adds, under the reference interpreter, are the functions the list readings
   bucket_series / range_filter are built from (for every hint and timestamp): the bucket column
   intDiv(spls.timestamp_ms - Start + Step - 1, Step) * Step + Start = bucket_of, and the condition
   timestamp_ms % Step == 0 or timestamp_ms % Step >= Step - Range = range_keep.  (The GROUP BY / argMax / ORDER BY
   structure around them is step_bucket_statement_sql_meaning below.) *)
Theorem process_hints_expressions_meaning : forall re_match cte h ts v,
  (h_step h <> 0 ->
   ev re_match cte (ts_env "spls.timestamp_ms" ts) (bucket_expr h) = Some (VI (bucket_of (h_start h) (h_step h) ts))) /\
  ev re_match cte (ts_env "timestamp_ms" ts)
     (Or [Eq (ms_in_step "timestamp_ms" (h_step h)) (IntV 0);
          Ge (ms_in_step "timestamp_ms" (h_step h)) (IntV (h_step h - h_range h))]) =
  Some (b2v (range_keep (h_step h) (h_range h) (ts, v))).
Proof. intros. split; [apply ev_bucket_expr|apply ev_range_cond]. Qed.
Print Assumptions process_hints_expressions_meaning.

(* ---------- processHints at the statement level, and the guarded region of "PromQL over raw samples" ---------- *)
From Qryn Require Import proofs.PromBucketProofs proofs.PromHintsProofs.

(* The GROUP BY / argMax / ORDER BY structure of the step-bucketing statement, PROVED (it was checked per generated case):
   for every inner samples query whose rows come ordered by (fingerprint, time), the reference interpreter applied to
   processHints' wrapper (dedup of (fingerprint, bucket) keys, argMax = the latest row of the key, ORDER BY) computes
   bucket_rows, and per fingerprint that is the list reading bucket_series the engine-view theorems are stated over. *)
Theorem step_bucket_statement_sql_meaning : forall re_match q h db rows,
  is_instant (h_func h) = true -> 0 < h_step h ->
  eval_main re_match q db = Some rows -> StronglySorted row_le rows ->
  eval_prom re_match (process_hints q h) db = Some (bucket_rows (h_start h) (h_step h) rows) /\
  StronglySorted row_le (bucket_rows (h_start h) (h_step h) rows) /\
  forall fp, rows_of fp (bucket_rows (h_start h) (h_step h) rows) = bucket_series (h_start h) (h_step h) (rows_of fp rows).
Proof.
  intros re_match q h db rows Hi Hs Hm Hsorted. split; [now apply eval_prom_process_hints|].
  split; [now apply bucket_rows_sorted|]. intros fp. now apply bucket_rows_series.
Qed.
Print Assumptions step_bucket_statement_sql_meaning.

(* What ClickHouse answers (reference interpreter) to the statement Select sends, for EVERY hint combination of the raw
   path (prom_select_exact_rows is the case Step = 0): the rows of the Prometheus meaning, step-bucketed for an
   instant-vector function or none, thinned by the modulo filter for a range-vector function with Range < Step,
   untouched otherwise (hinted_rows). *)
Theorem prom_select_rows_all_hints : forall (re_match re_full : string -> string -> bool),
  (forall v p, re_match v (anchor p) = re_full v p) ->
  forall cluster dbname h ms db, use_raw_data h = true -> (is_instant (h_func h) = true -> 0 <= h_step h) ->
    db_ok (from_day (h_start h * 1000000)) (d_gin db) (d_series db) ->
    selective re_full ms = true -> (List.length ms <= 63)%nat ->
    prom_query_rows re_match re_full cluster dbname h ms db = Some (hinted_rows h (expected_rows re_full h ms db)).
Proof. intros re_match re_full Hl. intros. now apply (prom_rows_all_hints re_match re_full Hl). Qed.
Print Assumptions prom_select_rows_all_hints.

(* Each selected series is handed to the engine ONCE, with ascending timestamps, whatever the hints of the raw path
   (prom_select_exact is the case Step = 0): the row loop over the rows of the statement (= hinted_rows of the Prometheus
   meaning) yields one series per fingerprint, only fingerprints of stored series satisfying every matcher, each holding the
   rows of its fingerprint in order: the hypothesis of seek_contract_on_selected_series. *)
Theorem prom_select_once_for_all_hints : forall (re_match re_full : string -> string -> bool),
  (forall v p, re_match v (anchor p) = re_full v p) ->
  forall cluster dbname h ms db, use_raw_data h = true -> (is_instant (h_func h) = true -> 0 <= h_step h) ->
    db_ok (from_day (h_start h * 1000000)) (d_gin db) (d_series db) ->
    selective re_full ms = true -> (List.length ms <= 63)%nat ->
    exists rows, prom_query_rows re_match re_full cluster dbname h ms db = Some rows /\
      rows = hinted_rows h (expected_rows re_full h ms db) /\
      let ss := select_loop (snd (querier_transpile re_full cluster dbname h ms)) rows in
      NoDup (map ps_fp ss) /\
      (forall fp, List.In fp (map ps_fp ss) -> List.In fp (expected_fps re_full (from_day (h_start h * 1000000)) ms (d_series db))) /\
      (forall s, List.In s ss ->
         ps_samples s = rows_of (ps_fp s) rows /\ StronglySorted Z.le (map fst (ps_samples s))).
Proof. intros re_match re_full Hl. intros. now apply (prom_select_once_all_hints re_match re_full Hl). Qed.
Print Assumptions prom_select_once_for_all_hints.

(* EXACT on the bucket grid: the bucketed series shows what Prometheus shows at T = Start + j*Step if and only if no
   stale edge occurs at T (the latest sample is older than the look-back, the end of its bucket is not): the finding
   step-bucket-staleness-edge is exactly the complement *)
Theorem step_bucket_lookup_exact_on_grid : forall start step j L l,
  0 < step -> asc l -> Forall (fun s => start <= fst s) l ->
  (visible L (start + j * step) (bucket_series start step l) = visible L (start + j * step) l <->
   stale_edge start step L (start + j * step) l = false).
Proof. exact step_bucket_exact_on_grid. Qed.
Print Assumptions step_bucket_lookup_exact_on_grid.

(* the grid guard (Step divides the look-back) is necessary: for every other Step one sample at the first evaluation time
   is shown by Prometheus and not after bucketing (finding step-bucket-off-grid) *)
Theorem step_bucket_guard_necessary : forall start step L,
  0 < step -> 0 <= L -> Z.rem L step <> 0 ->
  exists l, asc l /\ Forall (fun s => start <= fst s) l /\ stale_edge start step L (start + L) l = false /\
            visible L (start + L) l = Some 1 /\ visible L (start + L) (bucket_series start step l) = None.
Proof. exact step_bucket_grid_guard_necessary. Qed.
Print Assumptions step_bucket_guard_necessary.

(* the guard of the modulo filter (evaluation times multiples of Step) is necessary whenever 2 * Range < Step: an evaluation
   time off the grid loses a sample of its window (finding range-filter-off-grid) *)
Theorem range_filter_guard_necessary : forall step range T,
  0 <= range -> 2 * range < step -> 0 <= T - range -> Z.rem T step <> 0 ->
  exists l, Forall (fun s => 0 <= fst s) l /\ window range T l <> [] /\ window range T (range_filter step range l) = [].
Proof. exact range_filter_grid_guard_necessary. Qed.
Print Assumptions range_filter_guard_necessary.

(* PROMQL OVER RAW SAMPLES, the guarded statement (the full one is false: the three processHints findings).  On the raw
   path, for hints inside hints_guard -- the statement is left alone (Step = 0, or a function that is neither an
   instant-vector function nor a range-vector function with Range < Step), or Step divides the 5 min look-back (step
   bucketing), or Start + Range is a multiple of Step (modulo filter) -- every selected series reaches the engine so that:
   untouched statements hand over exactly its in-range samples; an instant selector shows at each of its evaluation times
   Start + look-back + k*Step the value Prometheus shows on the raw samples, except at a stale edge; a range selector
   receives at each of its evaluation times Start + Range + k*Step exactly the samples of its window [T - Range, T].
   Outside the guard and at stale edges the recorded findings apply (the three theorems above make the guards exact /
   necessary).  The engine itself (functions over these selector views) is Prometheus' own code, not modelled. *)
Theorem promql_over_raw_samples_partial : forall (re_match re_full : string -> string -> bool),
  (forall v p, re_match v (anchor p) = re_full v p) ->
  forall cluster dbname h ms db,
    use_raw_data h = true -> 0 <= h_start h -> hints_guard h = true ->
    db_ok (from_day (h_start h * 1000000)) (d_gin db) (d_series db) ->
    selective re_full ms = true -> (List.length ms <= 63)%nat ->
    exists rows, prom_query_rows re_match re_full cluster dbname h ms db = Some rows /\
      forall fp,
        let raw := rows_of fp (expected_rows re_full h ms db) in
        let got := rows_of fp rows in
        (plain_hints h = true -> got = raw) /\
        (is_instant (h_func h) = true -> forall k,
           stale_edge (h_start h) (h_step h) lookback_ms (h_start h + lookback_ms + k * h_step h) raw = false ->
           visible lookback_ms (h_start h + lookback_ms + k * h_step h) got =
           visible lookback_ms (h_start h + lookback_ms + k * h_step h) raw) /\
        (is_instant (h_func h) = false -> forall k,
           window (h_range h) (h_start h + h_range h + k * h_step h) got =
           window (h_range h) (h_start h + h_range h + k * h_step h) raw).
Proof. intros re_match re_full Hl. intros. now apply (promql_over_raw_samples_guarded re_match re_full Hl). Qed.
Print Assumptions promql_over_raw_samples_partial.

(* ---------- the labels request of labelsGetter under the interpreter ---------- *)
From Qryn Require Import lib.Strs lib.DecN proofs.PromLabelsProofs.

(* The reference interpreter applied to labelsGetter.getFetchRequest's own tree (the one whose rendering is compared byte for
   byte with the labels statement Select sends) answers the list reading fetch_rows that prom_select_exact_series and
   select_independent_of_earlier_selects use: the rows of time_series between the two date bounds whose fingerprint is one
   of the planned ones.  The fingerprints travel as spliced decimal numerals; the interpreter reads them back, which is
   sound because the decimal printer is injective (string_of_N_injective below, lib/DecN.v). *)
Theorem labels_request_sql_meaning : forall re_match cluster fps from_ms to_ms series,
  eval_fetch re_match (labels_fetch cluster fps from_ms to_ms) series =
  Some (fetch_rows (from_day (from_ms * 1000000)) (to_ms / 86400000) fps series).
Proof. exact eval_labels_fetch. Qed.
Print Assumptions labels_request_sql_meaning.

(* hence prom_select_exact_series speaks about Select with BOTH statements answered by the interpreter *)
Theorem prom_select_both_statements_interpreted : forall re_match re_full cluster dbname h ms db,
  prom_select_sql re_match re_full cluster dbname h ms db = prom_select re_match re_full cluster dbname h ms db.
Proof. exact prom_select_sql_eq. Qed.
Print Assumptions prom_select_both_statements_interpreted.

Theorem string_of_N_injective : forall a b, string_of_N a = string_of_N b -> a = b.
Proof. exact string_of_N_inj. Qed.
Print Assumptions string_of_N_injective.

(* ---------- the type conjunct of the labels request (defect prom-labels-fetch-untyped, repaired) ---------- *)
(* The labels request reads metric-typed series rows only: its reply is the reply over the metric rows. *)
Theorem labels_request_reads_metric_rows_only : forall D1 D2 fps series,
  fetch_rows D1 D2 fps series = fetch_rows D1 D2 fps (filter metric_row series).
Proof. exact fetch_rows_metric_only. Qed.
Print Assumptions labels_request_reads_metric_rows_only.

(* Hence the series rows of LOG streams -- whatever their fingerprints and label sets, in particular a log stream sharing
   the fingerprint of a metric series (two label sets with one 32-bit Bernstein fingerprint) -- do not change what a PromQL
   Select returns: each selected series is handed out under its OWN label set.  Before the fix the request read them
   (Example log_twin_pollutes_untyped_request: series 31 {__name__="up", instance="h:9090"} came back as
   {job="logs", stream="stdout"}). *)
Theorem select_ignores_log_streams : forall re_match re_full cluster dbname h ms db logs,
  Forall (fun s => t_type s = 1) logs ->
  prom_select re_match re_full cluster dbname h ms
    {| d_gin := d_gin db; d_samples := d_samples db; d_series := (d_series db ++ logs)%list |} =
  prom_select re_match re_full cluster dbname h ms db.
Proof. exact PromLabelsProofs.select_ignores_log_streams. Qed.
Print Assumptions select_ignores_log_streams.

(* ---------- any look-back ---------- *)
(* promql_over_raw_samples_partial for an engine configured with ANY look-back L (EngineOpts.LookbackDelta; qryn passes 0,
   i.e. Prometheus' 5 min default = lookback_ms, which the check reads from prometheusQueryRangeRouter.go and the engine's
   source on every run): the hints of an instant selector then carry Start = first evaluation time - L, and the guard of
   step bucketing is "Step divides L" (hints_guard_L; hints_guard = hints_guard_L lookback_ms by definition). *)
Theorem promql_over_raw_samples_any_lookback : forall (re_match re_full : string -> string -> bool),
  (forall v p, re_match v (anchor p) = re_full v p) ->
  forall L cluster dbname h ms db,
    use_raw_data h = true -> 0 <= h_start h -> hints_guard_L L h = true ->
    db_ok (from_day (h_start h * 1000000)) (d_gin db) (d_series db) ->
    selective re_full ms = true -> (List.length ms <= 63)%nat ->
    exists rows, prom_query_rows re_match re_full cluster dbname h ms db = Some rows /\
      forall fp,
        let raw := rows_of fp (expected_rows re_full h ms db) in
        let got := rows_of fp rows in
        (plain_hints h = true -> got = raw) /\
        (is_instant (h_func h) = true -> forall k,
           stale_edge (h_start h) (h_step h) L (h_start h + L + k * h_step h) raw = false ->
           visible L (h_start h + L + k * h_step h) got = visible L (h_start h + L + k * h_step h) raw) /\
        (is_instant (h_func h) = false -> forall k,
           window (h_range h) (h_start h + h_range h + k * h_step h) got =
           window (h_range h) (h_start h + h_range h + k * h_step h) raw).
Proof. intros re_match re_full Hl. intros. now apply (promql_over_raw_samples_guarded_L re_match re_full Hl). Qed.
Print Assumptions promql_over_raw_samples_any_lookback.

(* ---------- the down-sampled path: OUTSIDE the quantifier of this property, and stated to be ---------- *)
From Qryn Require Import model.PromDown proofs.PromDownProofs.

(* Every theorem above about the samples handed to the engine carries the hypothesis use_raw_data h = true: C17 speaks of
   "a PromQL query over raw samples".  When use_raw_data h = false (Start on the 15 s grid, Step >= 15 s, no range below
   15 s, a function the roll-up serves: use_raw_data_decision) Select reads the roll-up table and never the stored samples: *)
Theorem downsample_path_reads_the_rollup : forall re_full cluster dbname h ms, use_raw_data h = false ->
  s_from (fst (querier_transpile re_full cluster dbname h ms)) =
  Some (SimpleCol (if cluster then "`" ++ dbname ++ "`.metrics_15s_dist" else "metrics_15s")%string "samples"%string).
Proof. exact downsample_reads_the_rollup. Qed.
Print Assumptions downsample_path_reads_the_rollup.

(* its statement has a meaning all the same (model/PromDown.v: a row of metrics_15s is modelled by the stored samples its
   aggregate states summarise): the interpreter on the planner's OWN tree = the list reading down_rows -- rows of the
   selected fingerprints (the SAME fingerprintsQuery as the raw path: the matcher theorems apply) whose 15 s bucket start
   lies in [from, to] (ns, closed), grouped by (fingerprint, Step bucket), valued by the function's merge expression and
   stamped 1 ms before the Step bucket; for every hint, matcher set and context without LIMIT *)
Theorem downsample_statement_sql_meaning : forall re_match re_full h c ms gin tbl, c_limit c <= 0 ->
  eval_down re_match (transpile_label_matchers_downsample re_full h c ms) gin tbl =
  down_rows h (c_from_ns c) (c_to_ns c) (sel_type c)
    (fp_sel_abs re_match (from_day (c_from_ns c)) (sel_type c) (pos_clauses re_full ms) (neg_clauses re_full ms) gin) tbl.
Proof. exact eval_down_statement. Qed.
Print Assumptions downsample_statement_sql_meaning.

(* what a down-sampled sample is relative to the stored samples: with metrics_15s maintained by the materialized view
   (m15_of), the group behind the output row (fp, T) summarises exactly the stored samples of fp whose 15 s bucket START
   passes the statement's conditions and falls into the Step bucket stamped T -- not the samples inside [Start, End]: the
   bucket of a sample up to 15 s after End starts inside the range *)
Theorem downsampled_sample_summarises_stored_samples : forall h from_ns to_ns t fps fp T samples,
  existsb (N.eqb fp) fps = true ->
  parts_of (fp, T) (map (fun r => ((q_fp r, down_stamp h (q_ts_ns r)), r)) (filter (down_keep h from_ns to_ns t fps) (m15_of samples))) =
  map (fun s => (sm_ts_ns s, sm_value s)) (summarised h from_ns to_ns t fp T samples).
Proof. exact group_parts_are_stored_samples. Qed.
Print Assumptions downsampled_sample_summarises_stored_samples.

(* and therefore the property's statement about the samples handed over cannot be extended to this path: a down-sampled
   Select hands over the value of a sample stored AFTER hints.End under a timestamp at which no sample was stored
   (Example downsample_witness beside the raw meaning expected_rows of the same request) *)
Theorem downsample_path_outside_the_quantifier :
  exists h ms db rows r,
    use_raw_data h = false /\
    eval_down re_none (fst (querier_transpile re_none false "qryn" h ms)) (d_gin db) (m15_of (d_samples db)) = Some rows /\
    List.In r rows /\
    (forall s, List.In s (d_samples db) -> Z.quot (sm_ts_ns s) 1000000 <> d_ts r) /\
    (exists s, List.In s (d_samples db) /\ sm_value s = d_num r /\ h_end h < Z.quot (sm_ts_ns s) 1000000 /\
               forall s', List.In s' (d_samples db) -> sm_value s' = d_num r -> s' = s).
Proof. exact downsample_not_in_range_samples. Qed.
Print Assumptions downsample_path_outside_the_quantifier.

(* ================================================================================================================
   Round 5: the regular expressions behind the two oracles.  model/PromRegex.v gives the RE2 fragment the generators use
   (literals, `.`, `|`, groups, `* + ?`, `^`, `$`) an executable meaning (tied to Go's regexp on every run); for it the
   anchoring law that every selection theorem above takes as a hypothesis is PROVED, and the shortcut of seed C17-e
   ("a value that begins with ^ and ends with $ is already anchored") is refuted.
   ================================================================================================================ *)
From Qryn Require Import model.PromRegex proofs.PromRegexProofs.

(* LabelMatcher.GetVal / getMatchers wrap the value as ^(?:v)$; ClickHouse match() searches: the search of the wrapped
   expression finds something iff the expression matches the WHOLE label value -- Prometheus' meaning -- for every
   expression and every value; and the text of the wrapped expression is the text GetVal builds *)
Theorem regex_anchoring_law : forall r v,
  re_search (wrap r) v = re_whole r v /\ re_print (wrap r) = anchor (re_print r).
Proof. exact (fun r v => conj (anchoring_law r v) (wrap_text r)). Qed.
Print Assumptions regex_anchoring_law.

(* the hypothesis `forall v p, re_match v (anchor p) = re_full v p` of prom_select_exact* / prof_select_exact* holds for the
   oracle pair of every reader of pattern texts that reads the wrapped text as the wrapped expression *)
Theorem anchoring_hypothesis_met_by_regex_semantics : forall rd : string -> option re,
  (forall p, rd (anchor p) = option_map wrap (rd p)) ->
  forall v p, re_match_of rd v (anchor p) = re_full_of rd v p.
Proof. exact anchoring_law_for_readers. Qed.
Print Assumptions anchoring_hypothesis_met_by_regex_semantics.

(* seed C17-e: "starts with ^ and ends with $" does not mean anchored -- ^api|canary$ searched finds api-gateway, Prometheus
   rejects it (Examples shortcut_witness_alternation, shortcut_witness_escaped_dollar for ^api\$) *)
Theorem self_anchored_values_need_wrapping :
  ~ (forall r v, re_wf r = true -> self_anchored (re_print r) = true -> re_search r v = re_prom r v).
Proof. exact self_anchored_shortcut_refuted. Qed.
Print Assumptions self_anchored_values_need_wrapping.

(* the same in terms of the oracles: a GetVal with the shortcut breaks the anchoring law (on which every exactness theorem
   rests) for every reader that reads ^api|canary$ as RE2 does, while the wrapping GetVal keeps it *)
Theorem getval_shortcut_breaks_anchoring_law : forall rd : string -> option re,
  rd "^api|canary$"%string = Some re_api_or_canary ->
  (forall p, rd (anchor p) = option_map wrap (rd p)) ->
  exists v p, re_match_of rd v (anchor_shortcut p) <> re_full_of rd v p /\ re_match_of rd v (anchor p) = re_full_of rd v p.
Proof. exact shortcut_breaks_the_law. Qed.
Print Assumptions getval_shortcut_breaks_anchoring_law.

(* the only self-anchored shape for which searching the value as it is would be right: the anchors enclose ONE item *)
Theorem enclosing_anchors_are_an_anchoring : forall r v, re_search (RCat RBol (RCat r REol)) v = re_whole r v.
Proof. exact enclosing_anchors. Qed.
Print Assumptions enclosing_anchors_are_an_anchoring.

(* ======================= round 6: row streams that break off; overlapping requests =======================
   model/PromReq.v.  (1) database/sql reports a stream that broke off (connection lost, statement context done) through
   Rows.Err(); CLokiQuerier.Select and labelsGetter.Fetch look at it since the fix of this round.  (2) The router builds
   ONE CLokiQueriable; SetOidAndDB hands every request a copy that carries the request's own context, so whatever the
   interleaving of the requests' goroutines, a querier runs its statements under the context of the request it serves.
   ================================================================================================================ *)
From Qryn Require Import model.PromReq proofs.PromReqProofs.

(* a Select over row streams either fails or answers select_series over ALL the rows of both statements: never a
   shorter result; it fails exactly when a stream the reader gets to see broke off *)
Theorem select_never_answers_a_truncated_stream : forall mr rows fetch,
  (select_stream mr rows fetch = SelErr <-> failure_met rows fetch = true) /\
  (forall l, select_stream mr rows fetch = SelOk l ->
             failure_met rows fetch = false /\ l = select_series mr (st_rows rows) (st_rows fetch)).
Proof. exact (fun mr rows fetch => conj (select_stream_error_iff mr rows fetch) (select_stream_complete mr rows fetch)). Qed.
Print Assumptions select_never_answers_a_truncated_stream.

(* the reading before the fix (rows.Err() ignored): a label stream that breaks off after the first row hands a selected
   series to the engine under the EMPTY label set; a sample stream that breaks off loses samples; both answered as success *)
Theorem unchecked_row_streams_refuted :
  (exists l, select_stream_unchecked false w_rows_whole w_labels_cut = SelOk l
             /\ stream_spec_ok false w_rows_whole w_labels_cut (SelOk l) = false
             /\ existsb (fun o => match o_labels o with [] => true | _ => false end) l = true) /\
  (exists l, select_stream_unchecked false w_rows_cut w_fetch_whole = SelOk l
             /\ stream_spec_ok false w_rows_cut w_fetch_whole (SelOk l) = false
             /\ List.length (flat_map o_samples l) = 3%nat).
Proof. exact (conj unchecked_label_stream_refuted unchecked_sample_stream_refuted). Qed.
Print Assumptions unchecked_row_streams_refuted.

(* EVERY interleaving of any number of requests (each one: set-up, Querier(), its statements, its end): every time a
   querier uses its context, it is the context of its own request, and nobody has cancelled it *)
Theorem overlapping_requests_read_under_their_own_context : forall tr,
  wf tr = true ->
  forall o, List.In o (PromReq.run false rs_init tr) -> snd (fst o) = Some (fst (fst o)) /\ snd o = false.
Proof. exact own_context_all_interleavings. Qed.
Print Assumptions overlapping_requests_read_under_their_own_context.

(* hence, without a driver fault, the Select of request r inside any interleaving is select_series over all of r's rows
   (to which prom_select_exact_series applies): what the other requests do, and when they end, does not matter *)
Theorem overlapping_requests_each_get_their_series : forall tr r mr rows fetch k k',
  wf tr = true ->
  request_select false tr r mr rows None fetch None k k' = SelOk (select_series mr rows fetch).
Proof. exact request_select_whole. Qed.
Print Assumptions overlapping_requests_each_get_their_series.

(* and with faults or under ANY variant of the context handling the answer is all or nothing *)
Theorem request_answer_is_all_or_nothing : forall shared tr r mr rows fr fetch ff k k',
  request_select shared tr r mr rows fr fetch ff k k' = SelErr \/
  request_select shared tr r mr rows fr fetch ff k k' = SelOk (select_series mr rows fetch).
Proof. exact request_select_full_or_error. Qed.
Print Assumptions request_answer_is_all_or_nothing.

(* seed C17-f (SetOidAndDB stores the context in the router's object and returns that object): request 1 is set up,
   request 0 is set up before the engine of request 1 asked for its querier, request 0 ends while request 1 still reads:
   request 1 reads under the CANCELLED context of request 0 and fails, although nobody cancelled it; the code's variant
   answers all its series on the same interleaving *)
Theorem shared_queryable_crosses_requests :
  wf w_trace = true
  /\ List.In (1%N, Some 0%N, true) (PromReq.run true rs_init w_trace)
  /\ request_select true w_trace 1 false w_rows None w_fetch None 3 1 = SelErr
  /\ request_select false w_trace 1 false w_rows None w_fetch None 3 1 = SelOk (select_series false w_rows w_fetch).
Proof. exact shared_queryable_refuted. Qed.
Print Assumptions shared_queryable_crosses_requests.

(* requests whose CLIENT goes away (net/http cancels the request's context while its goroutine still runs): for every
   interleaving (wfc: a request may end at any time after its set-up, once) the contexts the model's queriers look at are
   given by a function of the trace alone, in which no queryable and no querier occurs: every look of r sees ctx_r, done
   exactly when r itself ended before *)
Theorem overlapping_requests_follow_the_trace_specification : forall tr,
  wfc tr = true -> PromReq.run false rs_init tr = spec_looks tr.
Proof. exact run_is_spec_looks. Qed.
Print Assumptions overlapping_requests_follow_the_trace_specification.

(* hence a row stream of a request is cut by a context only when that request itself has ended (its client went away):
   never by the end of another request *)
Theorem rows_are_cut_only_by_the_requests_own_end : forall tr,
  wfc tr = true ->
  forall o, List.In o (PromReq.run false rs_init tr) ->
            snd (fst o) = Some (fst (fst o)) /\ (snd o = true -> List.In (EEnd (fst (fst o))) tr).
Proof. exact cut_only_by_own_end. Qed.
Print Assumptions rows_are_cut_only_by_the_requests_own_end.

(* witness: the client of request 0 goes away while request 1 reads. Code: only request 0 sees a done context.
   Shared variant: request 1 reads under request 0's context and is cut with it *)
Theorem client_going_away_touches_no_other_request :
  wfc w_trace_client_gone = true
  /\ PromReq.run false rs_init w_trace_client_gone = [(0, Some 0, false); (1, Some 1, false); (0, Some 0, true); (1, Some 1, false)]%N
  /\ PromReq.run true rs_init w_trace_client_gone = [(0, Some 0, false); (1, Some 0, false); (0, Some 0, true); (1, Some 0, true)]%N.
Proof. exact client_gone_witness. Qed.
Print Assumptions client_going_away_touches_no_other_request.

(* ---------------- Round 7 (seed C17-g): label sets stored under SEVERAL fingerprints ----------------
   PromSelDup.select_dup_exact_ok is the oracle the check applies to every series set observed from the real Select when a
   label set is shared by several fingerprints (ReshuffleSeries' merge branch; also fingerprints without a labels row,
   which all get {}).  What acceptance means, for EVERY row list, labels answer and observed series set: *)
From Qryn Require Import model.PromSelDup proofs.PromSelDupProofs.

(* every series handed to the engine carries only samples that are rows of a fingerprint stored under ITS OWN label set *)
Theorem accepted_series_carry_only_their_own_rows : forall rows fetch obs,
  select_dup_exact_ok false rows fetch obs = true ->
  forall o smp, List.In o obs -> List.In smp (o_samples o) ->
  exists r, List.In r rows /\ labels_get fetch (r_fp r) = o_labels o /\ (r_ts r, r_val r) = smp.
Proof. exact accepted_series_carry_only_their_own_rows_lemma. Qed.
Print Assumptions accepted_series_carry_only_their_own_rows.

(* and every row reaches the engine inside the series of its fingerprint's label set *)
Theorem accepted_answers_lose_no_row : forall rows fetch obs,
  select_dup_exact_ok false rows fetch obs = true ->
  forall r, List.In r rows ->
  exists o, List.In o obs /\ o_labels o = labels_get fetch (r_fp r) /\ List.In (r_ts r, r_val r) (o_samples o).
Proof. exact accepted_answers_lose_no_row_lemma. Qed.
Print Assumptions accepted_answers_lose_no_row.

(* seed C17-g (Select reads all rows into ONE sample buffer, ReshuffleSeries' append writes over the rows of the series
   behind the first fingerprint) on its witness - label set X under fingerprints 11 and 33, Y under 22 between them: the
   counting oracle of rounds 1..6 accepts what the seed hands to the engine, the exact oracle rejects it (series Y carries
   the sample 302@2500 whose only row belongs to X), and accepts the model's series set (non-vacuity of the two theorems) *)
Theorem shared_sample_buffer_refuted :
  select_dup_ok false dupw_rows dupw_fetch dupw_obs_shared_buffer = true
  /\ select_dup_exact_ok false dupw_rows dupw_fetch dupw_obs_shared_buffer = false
  /\ select_dup_exact_ok false dupw_rows dupw_fetch (select_series false dupw_rows dupw_fetch) = true
  /\ (exists o, List.In o dupw_obs_shared_buffer /\ o_labels o = dupw_y /\ List.In (2500, 302)%Z (o_samples o)
                /\ forall r, List.In r dupw_rows -> (r_ts r, r_val r) = (2500, 302)%Z -> labels_get dupw_fetch (r_fp r) = dupw_x).
Proof. exact shared_sample_buffer_witness. Qed.
Print Assumptions shared_sample_buffer_refuted.

(* ---------------- Round 8 (builder b8-c17): the assembly of Select for EVERY labels answer ----------------
   prom_select_exact_series asks "one label set, one fingerprint" of the stored series; round 7 proved what acceptance by
   the oracle means and compared model and oracle per case.  Here the MODEL of CLokiQuerier.Select's assembly
   (select_series: row loop, MapResult, labelsGetter, ReshuffleSeries, final sort - the function the check compares with the
   real Select on every generated row set) is proved to hand every label set to the engine once with exactly the samples
   of all fingerprints stored under it, for every fingerprint-contiguous row list (what ORDER BY fingerprint gives), every
   labels answer (label sets under any number of fingerprints, fingerprints without a labels row) and both MapResult flags. *)
From Coq Require Import Permutation Sorted.
From Qryn Require Import proofs.PromSelMergeProofs.

Theorem select_merges_exactly_the_fingerprints_of_a_label_set : forall mr rows fetch,
  contiguousb rows = true ->
  let out := select_series mr rows fetch in
  NoDup (map o_labels out)
  /\ (forall o, List.In o out ->
        List.In (o_fp o) (group_fps rows fetch (o_labels o))
        /\ Permutation (o_samples o) (flat_map (own_samples mr rows) (group_fps rows fetch (o_labels o)))
        /\ (forall fp, group_fps rows fetch (o_labels o) = [fp] -> o_fp o = fp /\ o_samples o = own_samples mr rows fp)
        /\ ((List.length (group_fps rows fetch (o_labels o)) >= 2)%nat -> StronglySorted ts_le (o_samples o)))
  /\ (forall fp, List.In fp (fps_of rows) -> exists o, List.In o out /\ o_labels o = labels_get fetch fp).
Proof. exact select_series_merge_exact. Qed.
Print Assumptions select_merges_exactly_the_fingerprints_of_a_label_set.

(* the same in terms of stored rows: a sample of a series is (the MapResult image of) a row of a fingerprint under the series'
   own label set, and every row reaches the engine inside the one series of its fingerprint's label set *)
Theorem select_hands_each_row_to_its_own_label_set : forall mr rows fetch,
  contiguousb rows = true ->
  let out := select_series mr rows fetch in
  NoDup (map o_labels out)
  /\ (forall o smp, List.In o out -> List.In smp (o_samples o) ->
        exists r, List.In r rows /\ labels_get fetch (r_fp r) = o_labels o /\ List.In smp (row_samples mr r))
  /\ (forall r, List.In r rows ->
        exists o, List.In o out /\ o_labels o = labels_get fetch (r_fp r)
                  /\ forall smp, List.In smp (row_samples mr r) -> List.In smp (o_samples o)).
Proof. exact select_hands_each_row_to_its_own_label_set_lemma. Qed.
Print Assumptions select_hands_each_row_to_its_own_label_set.

(* round 7's two acceptance theorems for every MapResult flag (were stated for mr = false) *)
Theorem accepted_series_carry_only_their_own_rows_any_mr : forall mr rows fetch obs,
  select_dup_exact_ok mr rows fetch obs = true ->
  forall o smp, List.In o obs -> List.In smp (o_samples o) ->
  exists r, List.In r rows /\ labels_get fetch (r_fp r) = o_labels o /\ List.In smp (row_samples mr r).
Proof. exact accepted_series_carry_only_their_own_rows_any_mr_lemma. Qed.
Print Assumptions accepted_series_carry_only_their_own_rows_any_mr.

Theorem accepted_answers_lose_no_row_any_mr : forall mr rows fetch obs,
  select_dup_exact_ok mr rows fetch obs = true ->
  forall r, List.In r rows ->
  exists o, List.In o obs /\ o_labels o = labels_get fetch (r_fp r)
            /\ forall smp, List.In smp (row_samples mr r) -> List.In smp (o_samples o).
Proof. exact accepted_answers_lose_no_row_any_mr_lemma. Qed.
Print Assumptions accepted_answers_lose_no_row_any_mr.

(* hypotheses satisfiable, conclusions non-trivial: the round-7 witness (X under 11 and 33, Y under 22 between them) is
   contiguous, the model merges 11 and 33 into one ascending series and leaves 22 alone; with MapResult (count_over_time) on
   a second row set the merged series carries r_val copies of (ts, 1) per row and the exact oracle accepts it *)
Example select_merge_witnesses :
  contiguousb dupw_rows = true
  /\ select_series false dupw_rows dupw_fetch =
     [ {| o_labels := dupw_x; o_fp := 11; o_samples := [(1000, 101); (1500, 301); (2000, 102); (2500, 302); (3000, 103); (3500, 303)] |};
       {| o_labels := dupw_y; o_fp := 22; o_samples := [(1000, 201); (2000, 202); (3000, 203)] |} ]%Z%N
  /\ group_fps dupw_rows dupw_fetch dupw_x = [11; 33]%N /\ group_fps dupw_rows dupw_fetch dupw_y = [22]%N
  /\ contiguousb mrw_rows = true
  /\ select_series true mrw_rows dupw_fetch =
     [ {| o_labels := dupw_x; o_fp := 11; o_samples := [(1000, 1); (1000, 1); (2000, 1); (3000, 1)] |};
       {| o_labels := dupw_y; o_fp := 22; o_samples := [(1000, 1); (1000, 1); (1000, 1)] |} ]%Z%N
  /\ select_dup_exact_ok true mrw_rows dupw_fetch (select_series true mrw_rows dupw_fetch) = true.
Proof. exact merge_witnesses. Qed.

(* prom_select_exact_series WITHOUT its hypothesis "stored series with one label set carry one fingerprint" (a label set is
   stored under two fingerprints when the writer's fingerprint function was switched - CityHash64 / 32-bit Bernstein - or
   when two label orders were hashed): for every consistent database, <= 63 matchers one of which rejects "", raw path,
   Step = 0, both statements answered by the reference interpreter, Select hands every label set to the engine ONCE, the
   series under label set L belongs to a matching stored series with that label set and carries exactly the in-range
   samples of ALL matching fingerprints stored under L (iff, at the level of stored sample rows), ascending in time; and
   every in-range sample of a matching series has its label set's series in the answer. *)
From Qryn Require Import proofs.PromSelSharedProofs.
Theorem prom_select_exact_shared_label_sets : forall (re_match re_full : string -> string -> bool),
  (forall v p, re_match v (anchor p) = re_full v p) ->
  forall cluster dbname h ms db, use_raw_data h = true -> h_step h = 0 ->
    db_ok (day_from h) (d_gin db) (d_series db) -> selective re_full ms = true -> (List.length ms <= 63)%nat ->
    (forall sm, List.In sm (d_samples db) -> window_ok h sm = true ->
       exists s, List.In s (d_series db) /\ t_fp s = sm_fp sm /\ (t_type s = 2 \/ t_type s = 0) /\
                 day_from h <= t_date s /\ t_date s <= day_to h) ->
    exists out, prom_select re_match re_full cluster dbname h ms db = Some out /\
      NoDup (map o_labels out) /\
      (forall o, List.In o out ->
         (exists s, List.In s (d_series db) /\ t_fp s = o_fp o /\ (t_type s = 2 \/ t_type s = 0) /\
                    prom_matches re_full ms (t_labels s) = true /\
                    o_labels o = sort_labels (sort_labels (t_labels s))) /\
         (forall x, List.In x (o_samples o) <->
            exists sm s, List.In sm (d_samples db) /\ window_ok h sm = true /\
                         List.In (sm_fp sm) (expected_fps re_full (day_from h) ms (d_series db)) /\
                         List.In s (d_series db) /\ t_fp s = sm_fp sm /\ (t_type s = 2 \/ t_type s = 0) /\
                         sort_labels (sort_labels (t_labels s)) = o_labels o /\
                         x = (Z.quot (sm_ts_ns sm) 1000000, sm_value sm)) /\
         StronglySorted Z.le (map fst (o_samples o))) /\
      (forall sm, List.In sm (d_samples db) -> window_ok h sm = true ->
         List.In (sm_fp sm) (expected_fps re_full (day_from h) ms (d_series db)) ->
         exists o s, List.In o out /\ List.In s (d_series db) /\ t_fp s = sm_fp sm /\ (t_type s = 2 \/ t_type s = 0) /\
                     o_labels o = sort_labels (sort_labels (t_labels s))).
Proof. intros re_match re_full Hl. intros. now apply (prom_select_exact_shared_label_sets_lemma re_match re_full Hl). Qed.
Print Assumptions prom_select_exact_shared_label_sets.

(* the hypotheses hold on a database the old theorem excludes ({up, env=dev} under fingerprints 32 and 34, the label pairs
   stored in two orders), and the answer there is the merged series: three samples of two fingerprints, ascending *)
Example shared_label_set_database :
  selective re_none w_ms = true
  /\ (forall sm, List.In sm (d_samples sh_db) -> window_ok w_hints sm = true ->
       exists s, List.In s (d_series sh_db) /\ t_fp s = sm_fp sm /\ (t_type s = 2 \/ t_type s = 0) /\
                 day_from w_hints <= t_date s /\ t_date s <= day_to w_hints)
  /\ (exists s1 s2, List.In s1 (d_series sh_db) /\ List.In s2 (d_series sh_db) /\
        sort_labels (sort_labels (t_labels s1)) = sort_labels (sort_labels (t_labels s2)) /\ t_fp s1 <> t_fp s2)
  /\ prom_select re_none re_none false "qryn" w_hints w_ms sh_db =
     Some [{| o_labels := [("__name__", "up"); ("env", "dev")]; o_fp := 32;
              o_samples := [(1700000001000, 3); (1700000002000, 4); (1700000003000, 2)] |};
           {| o_labels := [("__name__", "up"); ("instance", "h:9090")]; o_fp := 31; o_samples := [(1700000001000, 1)] |}]%string%Z%N.
Proof. exact shared_label_set_witness. Qed.
Example shared_label_set_database_consistent : db_ok (day_from w_hints) (d_gin sh_db) (d_series sh_db).
Proof. exact sh_db_ok. Qed.
