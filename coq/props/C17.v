(* Property C17 — Prometheus and Pyroscope label matchers select exactly the matching series;
   cursor honours the seek/next contract.  Only statements; proofs by reference. *)
From Coq Require Import List ZArith Bool.
From Qryn Require Import model.SeriesIt proofs.SeriesItProofs.
Import ListNotations.
Open Scope Z_scope.

(* Every script of Next/Seek calls on the cursor of an ascending sample array yields, call by
   call, the boolean and the current sample that the chunkenc.Iterator contract prescribes
   (Seek t: first sample at or after t that is not before the current position, or the end). *)
Theorem seek_contract : forall s ops, ascending s ->
  spec_run_ok s (-1) ops (run (iterator s) ops) = true.
Proof. intros s ops H. exact (run_meets_spec s H ops (-1)). Qed.
Print Assumptions seek_contract.

(* the same contract spelled out for a single Seek from any reachable position *)
Theorem seek_contract_one_call : forall s p t, ascending s -> -1 <= p ->
  let '(c', ok) := seek {| samples := s; idx := p |} t in
  let start := Z.max p 0 in
  start <= idx c' /\
  (forall j, start <= Z.of_nat j < idx c' -> (j < length s)%nat -> nthZ s j < t) /\
  (ok = true -> idx c' < Z.of_nat (length s) /\ t <= nthZ s (Z.to_nat (idx c'))) /\
  (ok = false -> forall j, start <= Z.of_nat j -> (j < length s)%nat -> nthZ s j < t).
Proof. exact seek_contract_step. Qed.
Print Assumptions seek_contract_one_call.
