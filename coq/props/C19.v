(* Property C19 — retention settings converge to the configuration and re-applying them is a no-op.
   Only statements; proofs by reference (proofs/RotateProofs.v).  Model: model/Rotate.v
   (ctrl/qryn/maintenance/rotate.go: Rotate, rotateTables, storagePolicyUpdate, forgetSetting, get/putSetting). *)
From Coq Require Import List ZArith Bool String.
From Qryn Require Import model.Rotate model.RotateCfg model.RotateConc model.RotateClock model.RotateStamp proofs.RotateProofs proofs.RotateCfgProofs proofs.RotateManyProofs proofs.RotateClusterProofs proofs.RotateConcProofs proofs.RotateConcFaultProofs proofs.RotateClockProofs proofs.RotateStampProofs.
Import ListNotations.
Open Scope string_scope.
Open Scope list_scope.
Open Scope Z_scope.

(* After an uninterrupted Rotate on a database whose records name only applied values (e.g. a fresh one), the run
   succeeds, every configured group's record equals the desired TTL expression / storage policy and every table of
   the group carries it; the database again satisfies the hypothesis. *)
Theorem rotate_converges : forall cfg d, consistent d ->
  snd (run cfg None d) = true /\ converged cfg (run_db cfg None d) /\ consistent (run_db cfg None d).
Proof.
  intros cfg d Hc. split; [apply run_nofault_ok|]. split; [|now apply run_consistent].
  now apply (proj2 (run_ok_converged cfg None d (run_nofault_ok cfg d))).
Qed.
Print Assumptions rotate_converges.

(* In the statement log of any run (any configuration, database, fault: newest entry first) a record of a
   non-empty value is the group's desired value and is preceded by a SUCCESSFUL ALTER of every table of the
   group to that value. *)
Theorem record_after_all : forall cfg f d newer older g v b,
  run_log cfg f d = newer ++ (CPut g v, b) :: older -> v <> "" ->
  v = desired cfg g /\ forall t, In t (tables_of g) -> In (alter_call cfg g t, true) older.
Proof. intros cfg f d. exact (run_log_ok cfg f d). Qed.
Print Assumptions record_after_all.

(* Hence, through every history of runs with changing configurations and faults at any call (with or without
   the failing statement having taken effect), a record never names a value some table of its group lacks. *)
Theorem recorded_implies_applied : forall h d, consistent d -> consistent (run_hist h d).
Proof. exact run_hist_consistent. Qed.
Print Assumptions recorded_implies_applied.

(* Any such history followed by one uninterrupted run reaches the converged state of that run's configuration. *)
Theorem interrupted_then_completed : forall h cfg d, consistent d ->
  snd (run cfg None (run_hist h d)) = true /\ converged cfg (run_db cfg None (run_hist h d)).
Proof.
  intros h cfg d Hc. split; [apply run_nofault_ok|].
  apply (proj2 (run_ok_converged cfg None _ (run_nofault_ok cfg _))). now apply run_hist_consistent.
Qed.
Print Assumptions interrupted_then_completed.

(* Every toIntervalSecond(n) of every MODIFY TTL issued by any run has n >= 60 on sample tables and n >= 86400 on
   index tables, for every timeout (any integer number of nanoseconds). *)
Theorem tier_minimum : forall cfg f d t c ts dd b,
  In (CTtl t c ts dd, b) (run_log cfg f d) -> Forall (fun tr => table_min t <= tr_secs tr) ts.
Proof. intros cfg f d t c ts dd b H. exact (run_tiers_ok cfg f d _ H). Qed.
Print Assumptions tier_minimum.

(* ... and says exactly what was configured: one tier per configured ttl_policy element, in order, moving to the
   configured disk after min(max(table minimum, whole seconds of the timeout), 2^31-1) seconds, and the final delete
   after the configured number of days.  (Needed /repo fix e07ad34: the int32 conversion of a timeout beyond 68 years
   gave the minimum, see old_conversion_moved_early.) *)
Theorem tiers_are_the_configured_ones : forall cfg f d t c ts dd b,
  In (CTtl t c ts dd, b) (run_log cfg f d) ->
  ts = map (fun p => {| tr_secs := Z.min (Z.max (table_min t) (Z.quot (p_ns p) 1000000000)) 2147483647;
                        tr_disk := p_disk p |}) (days cfg)
  /\ dd = drop_days cfg.
Proof. intros cfg f d t c ts dd b H. exact (run_ttl_exact cfg f d _ H). Qed.
Print Assumptions tiers_are_the_configured_ones.

(* The tier arithmetic over Z, for every minimum up to 2^31-1 and every timeout: between the minimum and the cap,
   exact inside that window, never earlier than the configured timeout (up to the cap) and never later than
   max(minimum, configured), monotone in the timeout; s seconds plus a sub-second rest are s seconds. *)
Theorem tier_arithmetic : forall minv ns, minv <= 2147483647 ->
  minv <= tier_secs minv ns <= 2147483647 /\
  (minv <= Z.quot ns 1000000000 <= 2147483647 -> tier_secs minv ns = Z.quot ns 1000000000) /\
  Z.min (Z.quot ns 1000000000) 2147483647 <= tier_secs minv ns <= Z.max minv (Z.quot ns 1000000000) /\
  (forall ns', ns <= ns' -> tier_secs minv ns <= tier_secs minv ns') /\
  (forall s r, 0 <= s -> 0 <= r < 1000000000 -> ns = s * 1000000000 + r -> Z.quot ns 1000000000 = s).
Proof.
  intros minv ns Hm. split; [exact (tier_secs_bounds minv ns Hm)|]. split; [exact (tier_secs_exact minv ns)|].
  split; [exact (tier_secs_window minv ns Hm)|]. split; [intros ns'; exact (tier_secs_mono minv ns ns' Hm)|].
  intros s r Hs Hr ->. exact (whole_seconds_of s r Hs Hr).
Qed.
Print Assumptions tier_arithmetic.

(* The conversion before the fix (int32 of the float seconds; amd64 semantics for values that do not fit): a
   timeout of 100 years moved the data after the minimum, one minute resp. one day. *)
Theorem old_conversion_moved_early : exists ns, 0 < ns < 2 ^ 63 /\ 2147483647 < Z.quot ns 1000000000 /\
  old_tier_secs 60 ns = 60 /\ old_tier_secs 86400 ns = 86400 /\ tier_secs 60 ns = 2147483647.
Proof. exact old_conversion_moves_early. Qed.
Print Assumptions old_conversion_moved_early.

(* Rotate applied to the state produced by an uninterrupted Rotate with the same configuration (from ANY database)
   issues the eight setting reads and nothing else, and changes nothing. *)
Theorem second_run_silent : forall cfg d,
  run cfg None (run_db cfg None d) =
  ({| w_db := run_db cfg None d; w_log := rev (map (fun g => (CGet g, true)) groups); w_fault := None |}, true).
Proof. exact second_run. Qed.
Print Assumptions second_run_silent.

(* The eight groups use eight different settings fingerprints; key_spec g is the DJB hash of the name text
   {"type":"rotate", "name":"<setting name of g>" as computed by heputils.FingerprintLabelsDJBHashPrometheus:
   no group reads or overwrites another group's record. *)
Theorem settings_keys_distinct :
  (forall g, key g = key_spec g) /\ (forall g g', key g = key g' -> g = g').
Proof. split; [exact key_is_djb|exact key_inj]. Qed.
Print Assumptions settings_keys_distinct.

(* What "interrupted" means: a run under any fault issues a prefix (in time) of the calls the uninterrupted run
   issues from the same database (logs are newest first), ... *)
Theorem interrupted_run_is_prefix : forall cfg f d, exists later,
  map fst (run_log cfg None d) = later ++ map fst (run_log cfg f d).
Proof. exact run_is_prefix. Qed.
Print Assumptions interrupted_run_is_prefix.

(* ... only its last call can have failed, and the run reports an error exactly when it did. *)
Theorem failed_call_is_last : forall cfg f d e rest, run_log cfg f d = e :: rest ->
  Forall (fun x => snd x = true) rest /\ snd (run cfg f d) = snd e.
Proof. exact run_failed_call_is_last. Qed.
Print Assumptions failed_call_is_last.

(* ------------------------------------------------------------------ from the configuration to Rotate
   rotateDB / RotateAll (maintain.go) and portCHEnv (main.go), model/RotateCfg.v; time.ParseDuration is any function. *)

(* A ttl_policy timeout that does not parse: rotateDB issues no statement, changes nothing, reports an error. *)
Theorem bad_timeout_touches_nothing : forall parse o f d,
  (exists e, In e (o_ttl_policy o) /\ parse (e_timeout e) = None) ->
  rotate_db parse o f d = ({| w_db := d; w_log := []; w_fault := f |}, false).
Proof. exact rotate_db_bad_timeout. Qed.
Print Assumptions bad_timeout_touches_nothing.

(* Every timeout parses: rotateDB applies the configuration read off the object (cluster name, distributed exactly
   when a cluster is named, one policy per ttl_policy element, ttl_days, storage policy) and converges to it. *)
Theorem configured_object_converges : forall parse o cfg d, config_of parse o = Some cfg -> consistent d ->
  (cluster cfg = o_cluster o /\ distributed cfg = negb (String.eqb (o_cluster o) "") /\
   Forall2 (fun e p => parse (e_timeout e) = Some (p_ns p) /\ p_disk p = e_move_to e) (o_ttl_policy o) (days cfg) /\
   drop_days cfg = o_ttl_days o /\ storage_policy cfg = o_storage_policy o) /\
  snd (rotate_db parse o None d) = true /\ converged cfg (w_db (fst (rotate_db parse o None d))) /\
  consistent (w_db (fst (rotate_db parse o None d))).
Proof.
  intros parse o cfg d Hc Hd. split; [exact (config_of_some parse o cfg Hc)|]. exact (rotate_db_converges parse o cfg d Hc Hd).
Qed.
Print Assumptions configured_object_converges.

(* Every MODIFY TTL that rotateDB issues (any fault, any database) has exactly one tier per ttl_policy element, in
   order: the element's disk after min(max(table minimum, whole seconds of the parsed timeout), 2^31-1) seconds; and
   deletes after ttl_days days.  No element is skipped, none is invented. *)
Theorem tiers_are_the_ttl_policy_elements : forall parse o f d t c ts dd b,
  In (CTtl t c ts dd, b) (w_log (fst (rotate_db parse o f d))) ->
  Forall2 (fun e tr => exists ns, parse (e_timeout e) = Some ns /\
             tr_secs tr = Z.min (Z.max (table_min t) (Z.quot ns 1000000000)) 2147483647 /\ tr_disk tr = e_move_to e)
          (o_ttl_policy o) ts
  /\ dd = o_ttl_days o.
Proof. exact rotate_db_tiers. Qed.
Print Assumptions tiers_are_the_ttl_policy_elements.

(* RotateAll over any list of configuration objects, under any fault: records still name only applied values. *)
Theorem rotate_all_keeps_records_true : forall parse os f d, consistent d -> consistent (snd (rotate_all parse os f d)).
Proof. exact rotate_all_consistent. Qed.
Print Assumptions rotate_all_keeps_records_true.

(* Environment -> portCHEnv -> RotateAll: when portCHEnv accepts the environment (no database listed by a
   configuration file), the run succeeds and converges to: delete after SAMPLES_DAYS days (7 when unset, else the
   decimal int64 the text spells), STORAGE_POLICY, CLUSTER_NAME, no tiers. *)
Theorem environment_to_retention : forall parse e os d, port_ch_env e [] = Some os -> consistent d ->
  exists days cfg l d',
    (if String.eqb (getenv e "SAMPLES_DAYS") "" then days = 7 else atoi (getenv e "SAMPLES_DAYS") = Some days) /\
    cfg = {| cluster := getenv e "CLUSTER_NAME"; distributed := negb (String.eqb (getenv e "CLUSTER_NAME") "");
             days := []; drop_days := days; storage_policy := getenv e "STORAGE_POLICY" |} /\
    rotate_all parse os None d = (l, true, d') /\ converged cfg d' /\ consistent d'.
Proof. exact env_end_to_end. Qed.
Print Assumptions environment_to_retention.

(* A SAMPLES_DAYS text that is not an optionally signed decimal int64 is refused. *)
Theorem bad_samples_days_refused : forall e, getenv e "SAMPLES_DAYS" <> "" -> atoi (getenv e "SAMPLES_DAYS") = None ->
  port_ch_env e [] = None.
Proof. exact port_ch_env_bad_days. Qed.
Print Assumptions bad_samples_days_refused.

(* ------------------------------------------------------------------ several instances at the same time
   model/RotateConc.v: every instance runs Rotate statement by statement on the shared database, the schedule picks
   the instance that issues the next statement (an instance never picked again has crashed). *)

(* The statement-by-statement model is the model of the theorems above: an instance running alone issues exactly the
   calls of Rotate.run, with the same effect, and has finished after them. *)
Theorem alone_is_run : forall cfg d n, (List.length (run_log cfg None d) <= n)%nat ->
  solo n d (start cfg) [] = (run_db cfg None d, {| i_cfg := cfg; i_pc := PDone |}, map fst (run_log cfg None d)) /\
  snd (run cfg None d) = true.
Proof. exact solo_is_run. Qed.
Print Assumptions alone_is_run.

(* Any number of instances with the SAME configuration, any interleaving of their statements (any instance may stop
   anywhere), from a database whose records name only applied values: at every point of the schedule a record names
   only a value all tables of its group carry, and once all instances have finished every configured group's
   record and tables are at the configuration. *)
Theorem concurrent_instances_converge : forall cfg n sched d, (0 < n)%nat -> consistent d ->
  let s := sched_run sched (init_sys d (repeat cfg n)) in
  consistent (s_db s) /\ (all_done s = true -> converged cfg (s_db s)).
Proof. exact conc_same_config. Qed.
Print Assumptions concurrent_instances_converge.

(* Whatever the instances did and wherever some of them stopped, one uninterrupted run afterwards (with any
   configuration) completes the work. *)
Theorem crashed_instances_then_completed : forall cfg n sched d cfg', (0 < n)%nat -> consistent d ->
  let s := sched_run sched (init_sys d (repeat cfg n)) in
  snd (run cfg' None (s_db s)) = true /\ converged cfg' (run_db cfg' None (s_db s)).
Proof.
  intros cfg n sched d cfg' Hn Hd s.
  destruct (rotate_converges cfg' (s_db s) (proj1 (conc_same_config cfg n sched d Hn Hd))) as [A [B _]]. now split.
Qed.
Print Assumptions crashed_instances_then_completed.

(* Every instance finishes: each of its statements lowers a measure that starts at 45, whatever the others do to the
   database in between. *)
Theorem every_instance_finishes :
  (forall cfg, measure (start cfg) = 45%nat) /\
  (forall d i c d' i', step d i = Some (c, d', i') -> (measure i' < measure i)%nat) /\
  (forall i, measure i = 0%nat -> done i = true).
Proof. split; [exact measure_start|]. split; [exact step_measure|exact measure_zero_done]. Qed.
Print Assumptions every_instance_finishes.

(* Instances with DIFFERENT configurations running at the same time are outside the property (its runs are
   sequential) and do break it: an interleaving of two complete, error-free runs (30 days / 60 days) after which the
   record of metrics_15s says 30 days, the table carries 60 days, and the next run with 30 days skips the group. *)
Theorem concurrent_different_configurations_diverge :
  consistent fresh /\ all_done cc_final = true /\ ~ consistent (s_db cc_final) /\
  recd (s_db cc_final) TtlMetrics = desired cc_a TtlMetrics /\
  d_ttl (s_db cc_final) Metrics15s = desired cc_b TtlMetrics /\
  d_ttl (run_db cc_a None (s_db cc_final)) Metrics15s = desired cc_b TtlMetrics /\
  converged_b cc_a (run_db cc_a None (s_db cc_final)) = false.
Proof. exact conc_different_configs_diverge. Qed.
Print Assumptions concurrent_different_configurations_diverge.

(* ------------------------------------------------------------------ the settings table as rows with stamps
   model/RotateClock.v: putSetting INSERTs a row stamped inserted_at; argMax(value, inserted_at) may answer the value
   of any row of the fingerprint with a maximal stamp.  The model above keeps "the value inserted last" per
   fingerprint (latest_insert: that map follows the INSERTs). *)

(* Whenever the stamps of a fingerprint strictly increase in insertion order, the only answer ClickHouse can give is
   the value inserted last; an INSERT stamped later than every row of its fingerprint keeps it so. *)
Theorem settings_read_is_last_write : forall rows, strict rows ->
  (forall k v, may_read rows k v <-> v = latest rows k) /\
  (forall r, (forall r', In r' rows -> r_key r' = r_key r -> r_ts r' < r_ts r) -> strict (rows ++ [r])) /\
  (forall k v ts k', latest (rows ++ [{| r_key := k; r_val := v; r_ts := ts |}]) k' = if k' =? k then v else latest rows k').
Proof.
  intros rows Hs. split; [|split].
  - intros k v. split; [now apply strict_reads_latest|intros ->; now apply latest_may_be_read].
  - intros r Hr. now apply insert_keeps_strict.
  - intros k v ts k'. apply latest_insert.
Qed.
Print Assumptions settings_read_is_last_write.

(* NOW() stamps whole seconds: the row emptying a record and the row recording the applied value 20 ms later tie, and
   ClickHouse may answer the empty value although the applied one was inserted last (repaired in /repo e2e1fc9:
   now64(9), whose stamps differ as soon as the clock moved). *)
Theorem same_second_rows_tie : (exists clock rows,
  rows = [ {| r_key := 987312111; r_val := ""; r_ts := stamp_now clock |};
           {| r_key := 987312111; r_val := "date + toIntervalDay(60)"; r_ts := stamp_now (clock + 20000000) |} ] /\
  ~ strict rows /\ latest rows 987312111 = "date + toIntervalDay(60)" /\
  may_read rows 987312111 "" /\ may_read rows 987312111 "date + toIntervalDay(60)") /\
  (forall clock dt, 0 < dt -> stamp_now64 clock < stamp_now64 (clock + dt)).
Proof. split; [exact same_second_tie|exact now64_strict]. Qed.
Print Assumptions same_second_rows_tie.

(* ------------------------------------------------------------------ the whole program over the stamped rows
   model/RotateStamp.v: Rotate with the settings table kept as rows (fingerprint, value, inserted_at = server clock at
   the INSERT); a settings query is answered by `pick` -- any function whose answers are admissible (may_read: the value
   of SOME row with a maximal stamp, possibly a different one at every query); the n-th statement of the history
   advances the server clock by `dur n call succeeded`; runs are `gap` apart; faults as before (any call, with or
   without effect). *)

(* Refinement.  The clock never goes back and advances over every SELECT and every ALTER that was executed (nothing
   is asked of INSERTs, of failed statements, of the time between runs): then from related databases (same tables, map =
   value of the row inserted last) a run over the rows issues the same calls with the same results as Rotate.run over the
   map, reports the same error, leaves related databases, and the stamps of every fingerprint still strictly increase.
   So every theorem above speaks about the rows as well, whatever the server answers among ties. *)
Theorem stamped_rows_refine_the_map : forall pick dur, pick_ok pick -> clock_mono dur -> clock_advances dur ->
  forall cfg f gap st d, same_db (st_db st) d -> well_stamped st -> 0 <= gap ->
  snd (srun pick dur cfg f gap st) = snd (run cfg f d) /\
  sw_log (fst (srun pick dur cfg f gap st)) = run_log cfg f d /\
  same_db (st_db (srun_st pick dur cfg f gap st)) (run_db cfg f d) /\
  well_stamped (srun_st pick dur cfg f gap st).
Proof. exact srun_sim. Qed.
Print Assumptions stamped_rows_refine_the_map.

(* "A run interrupted at any statement is completed by the next run", over the rows: after ANY history of runs with
   changing configurations, each interrupted at any call (also between the row that empties a record and the first
   ALTER, also by an INSERT that took effect but reported an error), one uninterrupted run succeeds and afterwards, for
   every configured group, EVERY answer the server may give to the settings query is the desired value and every table
   of the group carries it. *)
Theorem interrupted_then_completed_over_stamped_rows : forall pick dur, pick_ok pick -> clock_mono dur -> clock_advances dur ->
  forall h cfg gap st, well_stamped st -> consistent (abs (st_db st)) -> gaps_ok h -> 0 <= gap ->
  let r := srun pick dur cfg None gap (srun_hist pick dur h st) in
  snd r = true /\ sconverged cfg (sw_db (fst r)) /\ well_stamped (state_of (fst r)).
Proof. exact stamped_completed. Qed.
Print Assumptions interrupted_then_completed_over_stamped_rows.

(* ... and the run after it with the same configuration issues the eight settings queries and no other statement. *)
Theorem repeated_run_silent_over_stamped_rows : forall pick dur, pick_ok pick -> clock_mono dur -> clock_advances dur ->
  forall h cfg gap gap' st, well_stamped st -> gaps_ok h -> 0 <= gap -> 0 <= gap' ->
  let st1 := srun_st pick dur cfg None gap (srun_hist pick dur h st) in
  sw_log (fst (srun pick dur cfg None gap' st1)) = rev (map (fun g => (CGet g, true)) groups) /\
  snd (srun pick dur cfg None gap' st1) = true.
Proof. exact stamped_silent. Qed.
Print Assumptions repeated_run_silent_over_stamped_rows.

(* A clock that is merely non-decreasing is NOT enough, and both halves of clock_advances are needed.
   (1) The clock advances over every ALTER but not over a SELECT (runs follow each other at once), first-inserted row
   wins a tie: B applied; A interrupted right after it recorded the samples_v3 group; B interrupted after MODIFY TTL of
   samples_v3 -- its row emptying the record ties with the record; the uninterrupted run with A then succeeds, is
   answered A's record (an admissible answer), skips the group and leaves B's TTL on samples_v3.
   (2) The clock advances over every SELECT but not over an ALTER (runs five seconds apart): the row emptying a record
   and the row recording the applied value tie; A, B applied; C interrupted after its first MODIFY TTL (its query was
   answered the empty row: nothing emptied); the uninterrupted run with B is answered B, skips, samples_v3 keeps C's TTL.
   With now64(9) such ties need two statements of one group inside the same nanosecond of the server clock. *)
Theorem nondecreasing_clock_is_not_enough :
  (pick_ok wt1_pick /\ clock_mono wt1_dur /\ (forall n c b, is_alter c = true -> 0 < wt1_dur n c b) /\
   well_stamped st0 /\ consistent (abs (st_db st0)) /\ gaps_ok wt1_hist /\
   snd (srun wt1_pick wt1_dur wt_a None 0 (srun_hist wt1_pick wt1_dur wt1_hist st0)) = true /\
   sd_ttl (st_db wt1_final) SamplesV3 = desired wt_b TtlSamples /\
   may_read (sd_rows (st_db wt1_final)) (key TtlSamples) (desired wt_a TtlSamples) /\
   ~ sconverged wt_a (st_db wt1_final)) /\
  (pick_ok wt2_pick /\ clock_mono wt2_dur /\ (forall n g b, 0 < wt2_dur n (CGet g) b) /\
   well_stamped st0 /\ consistent (abs (st_db st0)) /\ gaps_ok wt2_hist /\
   snd (srun wt2_pick wt2_dur wt_b None 5000000000 (srun_hist wt2_pick wt2_dur wt2_hist st0)) = true /\
   sd_ttl (st_db wt2_final) SamplesV3 = desired wt_c TtlSamples /\
   ~ sconverged wt_b (st_db wt2_final)).
Proof. split; [exact wt1_diverges|exact wt2_diverges]. Qed.
Print Assumptions nondecreasing_clock_is_not_enough.

(* ------------------------------------------------------------------ several configured databases; func initDB of package main
   model/RotateCfg.v (second part): every configured database has a state of its own (two objects may name the same
   database); RotateAll goes through the objects in order. *)

(* Uninterrupted, every ttl_policy timeout parsing, records naming only applied values everywhere: RotateAll succeeds and
   EVERY database ends converged to the configuration of the last object that names it; a database no object names is
   not touched.  (The retention of one database is never applied to another.) *)
Theorem every_database_converges_to_its_own_configuration : forall parse os ds,
  (forall i, consistent (ds i)) -> Forall (fun x => config_of parse (snd x) <> None) os ->
  let '(l, ok, ds') := rotate_all_m parse os None ds in
  ok = true /\ forall i, match last_cfg parse os i with
                         | Some cfg => converged cfg (ds' i)
                         | None => ds' i = ds i
                         end.
Proof. exact rotate_all_m_converges. Qed.
Print Assumptions every_database_converges_to_its_own_configuration.

(* Under any fault, with any timeouts: the records of every database still name only applied values; and with all
   objects naming one database this is RotateAll as modelled above. *)
Theorem rotate_all_many_databases : forall parse,
  (forall os f ds, (forall i, consistent (ds i)) -> forall i, consistent (snd (rotate_all_m parse os f ds) i)) /\
  (forall os f ds k, let '(l, ok, ds') := rotate_all_m parse (map (fun o => (k, o)) os) f ds in
                     rotate_all parse os f (ds k) = (l, ok, ds' k) /\ forall i, i <> k -> ds' i = ds i).
Proof. intro parse. split; [exact (rotate_all_m_consistent parse)|exact (rotate_all_m_one parse)]. Qed.
Print Assumptions rotate_all_many_databases.

(* Round 8 (seeded C19-h).  Two objects naming DIFFERENT databases - on one ClickHouse cluster or not; the cluster name
   plays no part - leave BOTH databases at their own object's configuration. *)
Theorem several_databases_on_one_cluster_all_converge : forall parse i j o1 o2 c1 c2 ds,
  i <> j -> (forall k, consistent (ds k)) -> config_of parse o1 = Some c1 -> config_of parse o2 = Some c2 ->
  let '(l, ok, ds') := rotate_all_m parse [(i, o1); (j, o2)] None ds in
  ok = true /\ converged c1 (ds' i) /\ converged c2 (ds' j).
Proof. exact two_databases_both_converge. Qed.
Print Assumptions several_databases_on_one_cluster_all_converge.

(* The variant "one pass per cluster name" (RotateAll skipping an object whose non-empty cluster_name was already rotated
   in this pass, whatever database it names) is refuted under the very hypotheses of
   every_database_converges_to_its_own_configuration: it reports success, its statements are those of the first
   object alone, the second database keeps its creation-time TTL and is not converged.  (ON CLUSTER reaches every node,
   not every database.) *)
Theorem one_pass_per_cluster_name_is_refuted :
  (forall i : nat, consistent ((fun _ : nat => fresh) i)) /\ Forall (fun x => config_of cl_parse (snd x) <> None) cl_os /\
  let '(l, ok, ds') := rotate_all_skip cl_parse cl_os [] None (fun _ : nat => fresh) in
  ok = true /\ l = fst (fst (rotate_all_m cl_parse [hd (0%nat, {| o_cluster := ""; o_ttl_policy := []; o_ttl_days := 0; o_storage_policy := "" |}) cl_os] None (fun _ : nat => fresh))) /\
  d_ttl (ds' 2%nat) SamplesV3 = "<initial>" /\
  exists cfg, last_cfg cl_parse cl_os 2%nat = Some cfg /\ ~ converged cfg (ds' 2%nat).
Proof. exact once_per_cluster_name_refuted. Qed.
Print Assumptions one_pass_per_cluster_name_is_refuted.

(* "After initialisation": func initDB (main.go) = boolEnv; ctrl.Init; ctrl.Rotate, panicking on every error.  When the
   variable boolEnv reads is a word for false (or unset), ctrl.Init succeeds, every timeout parses and nothing
   interrupts: no panic, ctrl.Init was called, and every configured database is converged to its configuration.
   When the variable says true nothing is issued at all (the variable is the one literally named "key", not
   OMIT_CREATE_TABLES: see the observation in the design notes); when it is no boolean word, or ctrl.Init fails: panic
   before any retention statement. *)
Theorem after_initialisation_every_database_is_converged : forall parse e os ds,
  bool_env (getenv e "key") = Some false ->
  (forall i, consistent (ds i)) -> Forall (fun x => config_of parse (snd x) <> None) os ->
  let '(panicked, called, l, ds') := init_db parse e false os None ds in
  panicked = false /\ called = true /\
  (forall i, match last_cfg parse os i with Some cfg => converged cfg (ds' i) | None => ds' i = ds i end) /\
  (forall i, consistent (ds' i)).
Proof. exact init_db_converges. Qed.
Print Assumptions after_initialisation_every_database_is_converged.

Theorem initialisation_skipped_or_refused : forall parse e ifails os f ds,
  (bool_env (getenv e "key") = Some true -> init_db parse e ifails os f ds = (false, false, [], ds)) /\
  (bool_env (getenv e "key") = None -> init_db parse e ifails os f ds = (true, false, [], ds)) /\
  (bool_env (getenv e "key") = Some false -> init_db parse e true os f ds = (true, true, [], ds)) /\
  ((forall i, consistent (ds i)) -> forall i, consistent (snd (init_db parse e ifails os f ds) i)).
Proof.
  intros parse e ifails os f ds. split; [exact (init_db_omitted parse e ifails os f ds)|].
  split; [exact (init_db_bad_key parse e ifails os f ds)|]. split; [exact (init_db_init_fails parse e os f ds)|].
  exact (init_db_consistent parse e ifails os f ds).
Qed.
Print Assumptions initialisation_skipped_or_refused.

(* ------------------------------------------------------------------ connection faults inside concurrent runs
   model/RotateConc.v (last part): a statement of an instance may fail, having taken effect or not; the instance's
   Rotate returns the error and issues nothing more. *)

(* What a faulty schedule does to the database and the instances is what the fault-free schedule `effective` does in
   which the failing instances simply stop: a fault without effect is no statement, a fault with effect a statement. *)
Theorem concurrent_faults_are_crashes : forall evs s,
  f_sys (fsched_run evs s) = sched_run (effective evs s) (f_sys s).
Proof. exact faults_are_crashes. Qed.
Print Assumptions concurrent_faults_are_crashes.

(* Hence for any number of instances with the same configuration, any interleaving, any statements failing: records
   name only applied values at every point; if all instances got to their end the database is converged; and whatever
   happened, one uninterrupted run afterwards (any configuration) completes the work. *)
Theorem concurrent_instances_with_faults : forall cfg n evs d cfg', (0 < n)%nat -> consistent d ->
  let s := f_sys (fsched_run evs (finit d (repeat cfg n))) in
  consistent (s_db s) /\ (all_done s = true -> converged cfg (s_db s)) /\
  snd (run cfg' None (s_db s)) = true /\ converged cfg' (run_db cfg' None (s_db s)).
Proof. exact conc_faults_same_config. Qed.
Print Assumptions concurrent_instances_with_faults.
