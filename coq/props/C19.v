(* Property C19 — retention settings converge to the configuration and re-applying them is a no-op.
   Only statements; proofs by reference (proofs/RotateProofs.v).  Model: model/Rotate.v
   (ctrl/qryn/maintenance/rotate.go: Rotate, rotateTables, storagePolicyUpdate, forgetSetting, get/putSetting). *)
From Coq Require Import List ZArith Bool String.
From Qryn Require Import model.Rotate proofs.RotateProofs.
Import ListNotations.
Open Scope string_scope.
Open Scope list_scope.
Open Scope Z_scope.

(* After an uninterrupted Rotate on a database whose records name only applied values (e.g. a fresh one), the run
   succeeds, every configured group's record equals the desired TTL expression / storage policy and every table of
   the group carries it; the database again satisfies the hypothesis. *)
Theorem rotate_converges : forall cfg d, consistent d ->
  snd (run cfg None d) = true /\ converged cfg (run_db cfg None d) /\ consistent (run_db cfg None d).
Proof.
  intros cfg d Hc. split; [apply run_nofault_ok|]. split; [|now apply run_consistent].
  now apply (proj2 (run_ok_converged cfg None d (run_nofault_ok cfg d))).
Qed.
Print Assumptions rotate_converges.

(* In the statement log of any run (any configuration, database, fault: newest entry first) a record of a
   non-empty value is the group's desired value and is preceded by a SUCCESSFUL ALTER of every table of the
   group to that value. *)
Theorem record_after_all : forall cfg f d newer older g v b,
  run_log cfg f d = newer ++ (CPut g v, b) :: older -> v <> "" ->
  v = desired cfg g /\ forall t, In t (tables_of g) -> In (alter_call cfg g t, true) older.
Proof. intros cfg f d. exact (run_log_ok cfg f d). Qed.
Print Assumptions record_after_all.

(* Hence, through every history of runs with changing configurations and faults at any call (with or without
   the failing statement having taken effect), a record never names a value some table of its group lacks. *)
Theorem recorded_implies_applied : forall h d, consistent d -> consistent (run_hist h d).
Proof. exact run_hist_consistent. Qed.
Print Assumptions recorded_implies_applied.

(* Any such history followed by one uninterrupted run reaches the converged state of that run's configuration. *)
Theorem interrupted_then_completed : forall h cfg d, consistent d ->
  snd (run cfg None (run_hist h d)) = true /\ converged cfg (run_db cfg None (run_hist h d)).
Proof.
  intros h cfg d Hc. split; [apply run_nofault_ok|].
  apply (proj2 (run_ok_converged cfg None _ (run_nofault_ok cfg _))). now apply run_hist_consistent.
Qed.
Print Assumptions interrupted_then_completed.

(* Every toIntervalSecond(n) of every MODIFY TTL issued by any run has n >= 60 on sample tables and n >= 86400 on
   index tables, for every timeout (any integer number of nanoseconds). *)
Theorem tier_minimum : forall cfg f d t c ts dd b,
  In (CTtl t c ts dd, b) (run_log cfg f d) -> Forall (fun tr => table_min t <= tr_secs tr) ts.
Proof. intros cfg f d t c ts dd b H. exact (run_tiers_ok cfg f d _ H). Qed.
Print Assumptions tier_minimum.

(* ... and says exactly what was configured: one tier per configured ttl_policy element, in order, moving to the
   configured disk after min(max(table minimum, whole seconds of the timeout), 2^31-1) seconds, and the final delete
   after the configured number of days.  (Needed /repo fix e07ad34: the int32 conversion of a timeout beyond 68 years
   gave the minimum, see old_conversion_moved_early.) *)
Theorem tiers_are_the_configured_ones : forall cfg f d t c ts dd b,
  In (CTtl t c ts dd, b) (run_log cfg f d) ->
  ts = map (fun p => {| tr_secs := Z.min (Z.max (table_min t) (Z.quot (p_ns p) 1000000000)) 2147483647;
                        tr_disk := p_disk p |}) (days cfg)
  /\ dd = drop_days cfg.
Proof. intros cfg f d t c ts dd b H. exact (run_ttl_exact cfg f d _ H). Qed.
Print Assumptions tiers_are_the_configured_ones.

(* The tier arithmetic over Z, for every minimum up to 2^31-1 and every timeout: between the minimum and the cap,
   exact inside that window, never earlier than the configured timeout (up to the cap) and never later than
   max(minimum, configured), monotone in the timeout; s seconds plus a sub-second rest are s seconds. *)
Theorem tier_arithmetic : forall minv ns, minv <= 2147483647 ->
  minv <= tier_secs minv ns <= 2147483647 /\
  (minv <= Z.quot ns 1000000000 <= 2147483647 -> tier_secs minv ns = Z.quot ns 1000000000) /\
  Z.min (Z.quot ns 1000000000) 2147483647 <= tier_secs minv ns <= Z.max minv (Z.quot ns 1000000000) /\
  (forall ns', ns <= ns' -> tier_secs minv ns <= tier_secs minv ns') /\
  (forall s r, 0 <= s -> 0 <= r < 1000000000 -> ns = s * 1000000000 + r -> Z.quot ns 1000000000 = s).
Proof.
  intros minv ns Hm. split; [exact (tier_secs_bounds minv ns Hm)|]. split; [exact (tier_secs_exact minv ns)|].
  split; [exact (tier_secs_window minv ns Hm)|]. split; [intros ns'; exact (tier_secs_mono minv ns ns' Hm)|].
  intros s r Hs Hr ->. exact (whole_seconds_of s r Hs Hr).
Qed.
Print Assumptions tier_arithmetic.

(* The conversion before the fix (int32 of the float seconds; amd64 semantics for values that do not fit): a
   timeout of 100 years moved the data after the minimum, one minute resp. one day. *)
Theorem old_conversion_moved_early : exists ns, 0 < ns < 2 ^ 63 /\ 2147483647 < Z.quot ns 1000000000 /\
  old_tier_secs 60 ns = 60 /\ old_tier_secs 86400 ns = 86400 /\ tier_secs 60 ns = 2147483647.
Proof. exact old_conversion_moves_early. Qed.
Print Assumptions old_conversion_moved_early.

(* Rotate applied to the state produced by an uninterrupted Rotate with the same configuration (from ANY database)
   issues the eight setting reads and nothing else, and changes nothing. *)
Theorem second_run_silent : forall cfg d,
  run cfg None (run_db cfg None d) =
  ({| w_db := run_db cfg None d; w_log := rev (map (fun g => (CGet g, true)) groups); w_fault := None |}, true).
Proof. exact second_run. Qed.
Print Assumptions second_run_silent.

(* The eight groups use eight different settings fingerprints; key_spec g is the DJB hash of the name text
   {"type":"rotate", "name":"<setting name of g>" as computed by heputils.FingerprintLabelsDJBHashPrometheus:
   no group reads or overwrites another group's record. *)
Theorem settings_keys_distinct :
  (forall g, key g = key_spec g) /\ (forall g g', key g = key g' -> g = g').
Proof. split; [exact key_is_djb|exact key_inj]. Qed.
Print Assumptions settings_keys_distinct.

(* What "interrupted" means: a run under any fault issues a prefix (in time) of the calls the uninterrupted run
   issues from the same database (logs are newest first), ... *)
Theorem interrupted_run_is_prefix : forall cfg f d, exists later,
  map fst (run_log cfg None d) = later ++ map fst (run_log cfg f d).
Proof. exact run_is_prefix. Qed.
Print Assumptions interrupted_run_is_prefix.

(* ... only its last call can have failed, and the run reports an error exactly when it did. *)
Theorem failed_call_is_last : forall cfg f d e rest, run_log cfg f d = e :: rest ->
  Forall (fun x => snd x = true) rest /\ snd (run cfg f d) = snd e.
Proof. exact run_failed_call_is_last. Qed.
Print Assumptions failed_call_is_last.
