(* Property C04 - series identity depends only on the label set; every sample's series is indexed.
   Only statements; proofs by reference. Models: model/Fingerprint.v, Labels.v, GoQuote.v,
   LabelJson.v (label sets), SeriesIndex.v (request histories), Dates.v (days and time zones). *)
From Coq Require Import List ZArith Bool String Permutation.
From Qryn Require Import model.GoQuote model.LabelJson model.Fingerprint model.Labels
  model.SeriesIndex model.ConfirmRule model.SharedInsert model.FlushRule model.Dates model.CacheKey model.SeriesNodes model.GoJson model.DdTags model.ProtoLabels model.SeriesDoc model.TwoReaders
  proofs.FingerprintProofs proofs.FingerprintInjProofs proofs.LabelsProofs proofs.JsonQuoteProofs proofs.LabelDocReaderProofs proofs.TwoReadersProofs proofs.ProtoLabelsProofs proofs.GoJsonProofs proofs.DdTagsProofs proofs.ProtoGuardProofs proofs.SeriesIndexProofs proofs.ConfirmRuleProofs proofs.SharedInsertProofs proofs.FlushRuleProofs proofs.DiscoverProofs proofs.DiscoverWindowProofs proofs.DatesProofs proofs.CacheKeyProofs proofs.SeriesNodesProofs.
From Qryn Require model.Scans model.LogqlPlan model.SqlEval.
Import ListNotations.
Open Scope Z_scope.

(* (a1) The fingerprint does not depend on the order in which the labels arrive. For every choice
   of the three hash oracles (CH64 on strings, Hash128to64, CH64 on the 24 accumulator bytes). *)
Theorem fingerprint_perm : forall ch64 h128 fin (l1 l2 : list label),
  Permutation l1 l2 -> fingerprint ch64 h128 fin l1 = fingerprint ch64 h128 fin l2.
Proof. exact FingerprintProofs.fingerprint_perm. Qed.
Print Assumptions fingerprint_perm.

(* (a2) ... nor on the ingest protocol or on the order the client used: the label list every
   protocol hands to fingerprintLabels is a function of the sanitized label set only. *)
Theorem fingerprint_protocol_independent : forall ch64 h128 fin p1 p2 ttl_hdr sent1 sent2,
  Permutation sent1 sent2 ->
  series_fp ch64 h128 fin p1 ttl_hdr sent1 = series_fp ch64 h128 fin p2 ttl_hdr sent2.
Proof. exact series_fp_independent. Qed.
Print Assumptions fingerprint_protocol_independent.

(* (a2') The decoders that build their own label list - InfluxDB metric lines, Datadog logs / Cloudflare logs /
   metrics, Elasticsearch document / bulk, OTLP logs (model/ProtoLabels.v, tied to the code by the protocol
   correspondence): two requests that differ only in the order the wire format, or the Go map the decoder
   collects attributes in, presents the labels get the same fingerprint. For every choice of the hash oracles,
   hence for both fingerprint types of the code (CityHash and Bernstein are two values of [fin]). *)
Theorem fingerprint_wire_order_independent : forall ch64 h128 fin ttl_hdr w1 w2,
  wire_reorder w1 w2 -> wire_fp ch64 h128 fin ttl_hdr w1 = wire_fp ch64 h128 fin ttl_hdr w2.
Proof. exact wire_fp_reorder. Qed.
Print Assumptions fingerprint_wire_order_independent.

Theorem fingerprint_wire_order_independent_cityhash_and_bernstein : forall ch64 h128 ttl_hdr w1 w2,
  wire_reorder w1 w2 ->
  wire_fp ch64 h128 fin24 ttl_hdr w1 = wire_fp ch64 h128 fin24 ttl_hdr w2 /\
  wire_fp ch64 h128 fin_djb ttl_hdr w1 = wire_fp ch64 h128 fin_djb ttl_hdr w2.
Proof. exact wire_fp_reorder_both. Qed.
Print Assumptions fingerprint_wire_order_independent_cityhash_and_bernstein.

(* Datadog logs, at the level of the TEXT of the ddtags member (model/DdTags.v: the walk of the regular expression
   tagPattern as FindAllStringSubmatch performs it; \p{L} above U+007F is an oracle; tied to the code on generated texts with
   junk, non-ASCII letters and ill-formed bytes): on a text that is a comma-separated list of well-formed tags - name: a
   letter, then letters digits _ - . \ /; value: at least one of those or ':'; any well-formed UTF-8 runes of these classes,
   for every \p{L} oracle - the expression returns exactly those tags ... *)
Theorem ddtags_expression_returns_the_tags : forall letter_hi tags,
  forallb (wf_tag letter_hi) tags = true -> dd_tags letter_hi (tags_text tags) = tags.
Proof. exact dd_tags_of_tags_text. Qed.
Print Assumptions ddtags_expression_returns_the_tags.

(* ... hence two requests whose ddtags texts list the same tags in another order get the same fingerprint *)
Theorem fingerprint_ddtags_text_order_independent : forall ch64 h128 fin letter_hi ttl_hdr t1 t2 source service hostname source_type,
  forallb (wf_tag letter_hi) t1 = true -> Permutation t1 t2 ->
  wire_fp ch64 h128 fin ttl_hdr (WDatadogLogs (dd_tags letter_hi (tags_text t1)) source service hostname source_type) =
  wire_fp ch64 h128 fin ttl_hdr (WDatadogLogs (dd_tags letter_hi (tags_text t2)) source service hostname source_type).
Proof. exact ddtags_text_order_independent. Qed.
Print Assumptions fingerprint_ddtags_text_order_independent.

(* ... and across protocols the fingerprint is a function of the label multiset the decoder hands to onEntries *)
Theorem fingerprint_depends_on_label_multiset_only : forall ch64 h128 fin ttl_hdr w1 w2,
  Permutation (wire_labels w1) (wire_labels w2) -> wire_fp ch64 h128 fin ttl_hdr w1 = wire_fp ch64 h128 fin ttl_hdr w2.
Proof. exact wire_fp_same_labels. Qed.
Print Assumptions fingerprint_depends_on_label_multiset_only.

(* the OTLP attribute map (resource, scope, record attributes through SanitizeKey, later wins, level) has
   pairwise distinct names: the premise of the property's quantifier holds by construction there *)
Theorem otlp_label_names_distinct : forall resource scope record severity,
  NoDup (map fst (otlp_map resource scope record severity)).
Proof. exact otlp_map_nodup. Qed.
Print Assumptions otlp_label_names_distinct.

(* OTLP label VALUES (model/AnyValue.v otlp_value = SanitizeValue over the any-value tree, tied to the code on generated trees):
   the value made of a key-value list whose keys stay distinct after SanitizeKey does not depend on the order of its entries
   (they pass through a Go map and encoding/json sorts the keys) - so a client that reorders a kvlist attribute keeps its series. *)
Theorem otlp_kvlist_value_order_independent : forall e1 e2,
  Permutation e1 e2 -> NoDup (map (fun kv => otlp_key (fst kv)) e1) ->
  otlp_value (OKv e1) = otlp_value (OKv e2).
Proof. exact otlp_kvlist_order_independent. Qed.
Print Assumptions otlp_kvlist_value_order_independent.

(* (a2'') ... but NOT of the sanitized label set for the decoders that skip sanitizeLabels (open finding
   labels-unsanitized-by-protocol): the Datadog request with ddtags "a.b:x" and the Loki push of {a.b="x", type="datadog"}
   have the same sanitized label set and different fingerprints of either type (real city.CH64 values, compared with
   the code by the check; the check reports the same on the implementation as KNOWN-FINDING). *)
Theorem fingerprint_protocol_independent_refuted_for_unsanitizing_decoders :
  sanitize (wire_labels w_dd) = wire_labels w_loki /\
  wire_fp (tbl_ch64 real_tbl) hash128to64 fin24 0 w_dd <> wire_fp (tbl_ch64 real_tbl) hash128to64 fin24 0 w_loki /\
  wire_fp (tbl_ch64 real_tbl) hash128to64 fin_djb 0 w_dd <> wire_fp (tbl_ch64 real_tbl) hash128to64 fin_djb 0 w_loki.
Proof. exact unsanitizing_decoder_splits_series. Qed.
Print Assumptions fingerprint_protocol_independent_refuted_for_unsanitizing_decoders.

(* (a2-iii) OUTSIDE the two recorded finding classes the statement of the property holds as written: the fingerprint
   depends only on the SET of sanitized pairs (wire_set: the sanitized pairs of the list the decoder builds, control label
   removed) - not on the protocol (any two of the twelve wire forms), not on the wire / Go-map order, not on the request
   (TTL header or none), for every choice of the hash oracles (hence both fingerprint types). The guard is boolean:
   outside_findings hdr w = the request is not one of a decoder that skips sanitizeLabels whose labels sanitizeLabels would
   change (in_unsanitized_class), and it does not carry both a TTL header and the control label (in_ttl_class). The check
   evaluates the same two class predicates on every generated request: an observed dependence inside a class is reported
   as the KNOWN-FINDING, outside it as a VIOLATION. *)
Theorem fingerprint_depends_on_sanitized_set_only_partial : forall ch64 h128 fin hdr1 hdr2 w1 w2,
  outside_findings hdr1 w1 = true -> outside_findings hdr2 w2 = true ->
  Permutation (wire_set w1) (wire_set w2) ->
  wire_fp ch64 h128 fin hdr1 w1 = wire_fp ch64 h128 fin hdr2 w2.
Proof. exact fp_depends_on_sanitized_set_only. Qed.
Print Assumptions fingerprint_depends_on_sanitized_set_only_partial.

(* ... and the second guard is needed too (open finding ttl-label-kept-with-ttl-header, real city.CH64 values): the Loki
   push of {app="v", __ttl_days__="5"} denotes the set {app="v"}, is outside both classes without a TTL header, inside the
   TTL class with one, and gets two different fingerprints of either type. *)
Theorem fingerprint_request_independent_refuted_for_ttl_label :
  wire_set w_ttl = [("app", "v")]%string /\ in_ttl_class 7 w_ttl = true /\ outside_findings 0 w_ttl = true /\
  wire_fp (tbl_ch64 real_tbl) hash128to64 fin24 0 w_ttl <> wire_fp (tbl_ch64 real_tbl) hash128to64 fin24 7 w_ttl /\
  wire_fp (tbl_ch64 real_tbl) hash128to64 fin_djb 0 w_ttl <> wire_fp (tbl_ch64 real_tbl) hash128to64 fin_djb 7 w_ttl.
Proof. exact ttl_header_splits_series. Qed.
Print Assumptions fingerprint_request_independent_refuted_for_ttl_label.

(* (a3) CONDITIONAL. Different label multisets get different fingerprints on any family F of label
   lists on which the accumulation (sum, xor, product of pair hashes) and the final hash are
   collision-free. No unconditional statement can hold of a 64-bit hash; the two collision-freeness
   hypotheses are NOT established for the real CityHash, only tested on the generated sets. *)
Theorem fingerprint_injective_partial : forall ch64 h128 fin (F : list label -> Prop),
  (forall l1 l2, F l1 -> F l2 -> determs ch64 h128 l1 = determs ch64 h128 l2 -> Permutation l1 l2) ->
  (forall l1 l2, F l1 -> F l2 -> fin (determs ch64 h128 l1) = fin (determs ch64 h128 l2) ->
                 determs ch64 h128 l1 = determs ch64 h128 l2) ->
  forall l1 l2, F l1 -> F l2 ->
  fingerprint ch64 h128 fin l1 = fingerprint ch64 h128 fin l2 -> Permutation l1 l2.
Proof. exact fingerprint_injective_on. Qed.
Print Assumptions fingerprint_injective_partial.

(* (a3') The same, reduced to facts about the hash functions themselves. fingerprint = fin . acc . map lhash with
   lhash (n, v) = Hash128to64 (CH64 n, CH64 v) and acc = (sum, xor, product of 1779033703 + 2h) mod 2^64.
   On a family F of label lists over a universe U of labels FOUR collision-freeness facts suffice, and then the
   fingerprint identifies the label set exactly (equal iff permutation), for any final hash (CityHash, Bernstein):
     CH64 tells the (name, value) pairs of U apart; Hash128to64 tells their images apart; the accumulator tells the
     multisets of pair hashes of F apart; the final hash tells the accumulator triples of F apart.
   None of the four is established for all inputs (impossible for 64 bits); the check tests their consequence
   (distinct fingerprints) on every generated family. *)
Theorem fingerprint_identifies_label_set : forall ch64 h128 fin (U : label -> Prop) (F : list label -> Prop),
  (forall l, F l -> Forall U l) ->
  (forall x y, U x -> U y -> ch64 (fst x) = ch64 (fst y) -> ch64 (snd x) = ch64 (snd y) -> x = y) ->
  (forall x y, U x -> U y ->
     w64 (h128 (ch64 (fst x)) (ch64 (snd x))) = w64 (h128 (ch64 (fst y)) (ch64 (snd y))) ->
     ch64 (fst x) = ch64 (fst y) /\ ch64 (snd x) = ch64 (snd y)) ->
  (forall l1 l2, F l1 -> F l2 -> acc (map (lhash ch64 h128) l1) = acc (map (lhash ch64 h128) l2) ->
     Permutation (map (lhash ch64 h128) l1) (map (lhash ch64 h128) l2)) ->
  (forall l1 l2, F l1 -> F l2 -> fin (acc (map (lhash ch64 h128) l1)) = fin (acc (map (lhash ch64 h128) l2)) ->
     acc (map (lhash ch64 h128) l1) = acc (map (lhash ch64 h128) l2)) ->
  forall l1 l2, F l1 -> F l2 ->
  (fingerprint ch64 h128 fin l1 = fingerprint ch64 h128 fin l2 <-> Permutation l1 l2).
Proof. exact fingerprint_identifies. Qed.
Print Assumptions fingerprint_identifies_label_set.

(* For one-label sets the accumulator fact is a theorem (the pair hash is read off the xor component):
   three facts suffice. *)
Theorem fingerprint_injective_one_label : forall ch64 h128 fin (U : label -> Prop),
  (forall x y, U x -> U y -> ch64 (fst x) = ch64 (fst y) -> ch64 (snd x) = ch64 (snd y) -> x = y) ->
  (forall x y, U x -> U y ->
     w64 (h128 (ch64 (fst x)) (ch64 (snd x))) = w64 (h128 (ch64 (fst y)) (ch64 (snd y))) ->
     ch64 (fst x) = ch64 (fst y) /\ ch64 (snd x) = ch64 (snd y)) ->
  (forall x y, U x -> U y -> fin (acc [lhash ch64 h128 x]) = fin (acc [lhash ch64 h128 y]) ->
     acc [lhash ch64 h128 x] = acc [lhash ch64 h128 y]) ->
  forall x y, U x -> U y -> fingerprint ch64 h128 fin [x] = fingerprint ch64 h128 fin [y] -> x = y.
Proof. exact fingerprint_injective_single. Qed.
Print Assumptions fingerprint_injective_one_label.

(* For two labels it is NOT: two different multisets of 64-bit values with the same (sum, xor, product).
   So the accumulator fact cannot be discharged by algebra; it is a fact about which pair hashes occur. *)
Theorem accumulator_is_not_injective :
  exists m1 m2 : list Z, Forall (fun h => 0 <= h < M64) (m1 ++ m2) /\ acc m1 = acc m2 /\ ~ Permutation m1 m2.
Proof. exact acc_not_injective. Qed.
Print Assumptions accumulator_is_not_injective.

(* The four facts are not vacuous: they hold (by computation) on a family of one- and two-label sets, two of them
   orders of the same set, with the real city.CH64 values and the transcribed Hash128to64, CH64 over 24 bytes and
   Bernstein; hence there the fingerprint of either type identifies the label set. *)
Theorem fingerprint_identifies_label_set_on_real_hashes : forall l1 l2, real_F l1 -> real_F l2 ->
  (fingerprint_tbl real_tbl l1 = fingerprint_tbl real_tbl l2 <-> Permutation l1 l2) /\
  (fingerprint_djb_tbl real_tbl l1 = fingerprint_djb_tbl real_tbl l2 <-> Permutation l1 l2).
Proof. exact real_family_injective. Qed.
Print Assumptions fingerprint_identifies_label_set_on_real_hashes.

(* FingerPrintType = Bernstein (configuration hash_type: default): the fingerprint is uint64 of a 32-bit hash of the 24
   accumulator bytes, so the fourth fact (the final hash separates the accumulator triples) cannot hold on families of more
   than 2^32 label sets ... *)
Theorem bernstein_fingerprint_has_32_bits : forall d, 0 <= fin_djb d < 4294967296.
Proof. exact fin_djb_range. Qed.
Print Assumptions bernstein_fingerprint_has_32_bits.

(* ... and does not hold on small ones either (open finding bernstein-fingerprint-32-bit): two one-label sets found by a birthday
   search over 22 349 candidates get the same Bernstein fingerprint (2531709839) and different CityHash fingerprints; real
   city.CH64 values, both fingerprints compared with the code on every run. "Different label sets get different fingerprints"
   is refuted for this configuration by a concrete pair; for the default type no collision is known (and none can be excluded:
   fingerprint_identifies_label_set states exactly what has to hold). *)
Theorem fingerprint_injective_refuted_for_bernstein :
  ~ Permutation djb_a djb_b /\
  fingerprint_djb_tbl djb_tbl djb_a = fingerprint_djb_tbl djb_tbl djb_b /\
  fingerprint_tbl djb_tbl djb_a <> fingerprint_tbl djb_tbl djb_b.
Proof. exact bernstein_fingerprints_collide. Qed.
Print Assumptions fingerprint_injective_refuted_for_bernstein.

(* name and value enter the pair hash through separate arguments: under injective oracles
   {ab:"c"} and {a:"bc"} have different pair hashes *)
Theorem pair_hash_separates_name_and_value : forall ch64 h128 (n1 v1 n2 v2 : string),
  (forall x y, ch64 x = ch64 y -> x = y) ->
  (forall a b c d, w64 (h128 a b) = w64 (h128 c d) -> a = c /\ b = d) ->
  lhash ch64 h128 (n1, v1) = lhash ch64 h128 (n2, v2) -> (n1, v1) = (n2, v2).
Proof. exact lhash_separates. Qed.
Print Assumptions pair_hash_separates_name_and_value.

(* (a4) The stored label document is valid JSON that decodes to exactly the label set: for EVERY label list
   a client can send (any bytes in names and values, any length), through sanitizeLabels, for every IsPrint
   oracle. json_decode is the strict RFC 8259 reader of model/LabelJson.v. Holds of the code after the fix
   recorded in findings.d/C04.txt (encodeLabels quotes with jsonQuote; sanitizeLabels makes values valid UTF-8
   after the cut at byte 100). *)
Theorem label_document_roundtrip : forall isprint raw,
  json_decode (encode_labels isprint (sanitize raw)) = Some (sanitize raw).
Proof. exact label_document_roundtrip_all. Qed.
Print Assumptions label_document_roundtrip.

(* The protocols that do not sanitize (Datadog, Elasticsearch, OTLP logs hand their label lists to onEntries
   as they are): the document is JSON for ANY label list; it decodes to the list with every ill-formed byte read
   as U+FFFD, hence to exactly the list when names and values are valid UTF-8. *)
Theorem label_document_is_json : forall isprint ls,
  json_decode (encode_labels isprint ls) = Some (map fix_label ls).
Proof. exact label_document_decodes. Qed.
Print Assumptions label_document_is_json.

Theorem label_document_roundtrip_valid_utf8 : forall isprint ls,
  forallb label_valid ls = true -> json_decode (encode_labels isprint ls) = Some ls.
Proof. exact label_document_roundtrip_valid. Qed.
Print Assumptions label_document_roundtrip_valid_utf8.

(* (a4-SQL) The DECODE side as the read path has it. In SQL the reader makes a Map of the stored text with
   JSONExtractKeysAndValues(labels, 'String'); the SQL semantics of C07 / C08 / C17 (model/SqlEval.v labels_map_raw, label_of)
   represent the text by its key/value list and read a label with label_of (first member of that name, '' when absent).
   sql_reader_view_ok doc ls = the text is a JSON object of STRING members only (json_decode accepts nothing else) with
   pairwise DISTINCT keys, and label_of reads every label of ls and '' for every other name. It holds of the document
   written for every label list whose names stay distinct after sanitisation (the property's quantifier) - for the sanitizing
   protocols and for the decoders that do not sanitize (valid UTF-8). In Go (/series since d82d164: storedLabels) the check
   runs the real function on every generated document. *)
Theorem label_document_meets_sql_reader : forall isprint raw,
  NoDup (map fst (sanitize raw)) -> sql_reader_view_ok (encode_labels isprint (sanitize raw)) (sanitize raw).
Proof. exact stored_document_meets_sql_reader. Qed.
Print Assumptions label_document_meets_sql_reader.

Theorem label_document_meets_sql_reader_valid_utf8 : forall isprint ls,
  forallb label_valid ls = true -> NoDup (map fst ls) -> sql_reader_view_ok (encode_labels isprint ls) ls.
Proof. exact stored_document_meets_sql_reader_valid. Qed.
Print Assumptions label_document_meets_sql_reader_valid_utf8.

(* The repair changes no stored text that was readable: wherever strconv.Quote wrote JSON for the label list
   (the exact class below) the new quoter writes the same bytes. *)
Theorem label_document_text_unchanged : forall isprint ls,
  labels_json_ok isprint ls = true -> encode_labels isprint ls = encode_labels_quote isprint ls.
Proof. exact encode_labels_compat. Qed.
Print Assumptions label_document_text_unchanged.

(* What was wrong: strconv.Quote is not a JSON quoter (encode_labels_quote = the code before the fix) ... *)
Theorem label_document_roundtrip_refuted_before_fix :
  exists isprint ls, json_decode (encode_labels_quote isprint ls) <> Some ls.
Proof. exact quote_document_refuted. Qed.
Print Assumptions label_document_roundtrip_refuted_before_fix.

(* ... its document was JSON for the label list on exactly this class: printable ASCII (quotes and backslashes
   included), \b \f \n \r \t, well-formed UTF-8 runes that IsPrint accepts (copied raw) and well-formed
   non-printable runes below U+10000 (rendered \uXXXX); outside it (any other control byte, 0x7f, ill-formed
   UTF-8 - also produced by the cut at byte 100 -, a non-printable rune from U+10000) not JSON at all.
   Rows written before the fix are readable exactly when their label set is in this class. *)
Theorem label_document_before_fix_exact : forall isprint ls,
  json_decode (encode_labels_quote isprint ls) = Some ls <-> labels_json_ok isprint ls = true.
Proof. exact label_document_roundtrip_iff. Qed.
Print Assumptions label_document_before_fix_exact.

(* (b) Every acknowledged sample has a successfully inserted series row of its own day AND sample type
   (the read side selects series rows with type IN (t, 0)), in EVERY history: any streams and mixtures of
   log lines and metric values, any outcomes of the series and the samples insert of every push, client
   retries, bodies that turn out malformed after some streams (400), cache resets and evictions of single cache entries at any
   point, requests above 1 MiB sent in several chunks with independent insert outcomes per chunk (More / Flush), and pushes
   that overlap (Begin parses a body against the cache as it is; End k completes the k-th request in flight).
   No guard. Holds of the code after the fix recorded in findings.d/C04.txt: the cache is only read while
   parsing and written by ConfirmSeries after every insert of the request has succeeded.
   Invariant: cache is covered by the inserted rows; every sample in flight is covered by the inserted rows
   or by the rows its own request carries. *)
Theorem acked_sample_is_indexed : forall h, all_indexed_typed (run init h) = true.
Proof. exact acked_indexed_typed_all. Qed.
Print Assumptions acked_sample_is_indexed.

(* The two readers of a stored label document whose members are [m] in document order (model/TwoReaders.v): the SQL matchers and
   the labels map of a log query read the FIRST member of a name (SqlEval.label_of), the Go map /series decodes the text into
   keeps the LAST (go_read). They agree on every name exactly outside the class [ambiguous]; documents with pairwise distinct
   names - every document of the sanitizing protocols and of OTLP - are outside it. *)
Theorem label_document_readers_agree_partial :
  (forall m, ambiguous m = false -> forall k, SqlEval.label_of m k = go_read m k) /\
  (forall m, NoDup (map fst m) -> ambiguous m = false) /\
  (forall m, ambiguous m = true -> exists k, In k (map fst m) /\ SqlEval.label_of m k <> go_read m k).
Proof. exact (conj readings_agree_outside_class (conj distinct_names_unambiguous readings_differ_inside_class)). Qed.
Print Assumptions label_document_readers_agree_partial.

(* ... and a Datadog logs request reaches the class: ddtags "service:x,env:prod" beside the field service = "y" is stored as
   {"service":"x","env":"prod","service":"y","type":"datadog"}: {service="x"} selects the stream, /series shows service="y"
   (open finding repeated-label-name-two-readings; the check replays it through the real decoder and the real storedLabels). *)
Theorem label_document_readers_agree_refuted_for_repeated_names :
  exists m, ambiguous m = true /\ SqlEval.label_of m "service" = "x"%string /\ go_read m "service" = "y"%string.
Proof. exact (ex_intro _ w_dd_repeated (conj (proj1 w_rep_two_readings) (conj (proj1 (proj2 w_rep_two_readings)) (proj1 (proj2 (proj2 w_rep_two_readings)))))). Qed.
Print Assumptions label_document_readers_agree_refuted_for_repeated_names.

(* WHICH chunks of a request doParse may enter into the announcement cache (model/ConfirmRule.v: the request in flight remembers
   the chunks it sent with the outcomes of their inserts, the promise list is spelled out as in the code - FIVE promises per
   chunk, series insert, samples insert, three pushes of nil requests that are fulfilled at once - and the decision which
   chunks are confirmed is an argument [r] of the model). A rule is [sound] when it confirms a chunk only if the chunk has no
   series rows or its OWN time_series insert succeeded. For EVERY sound rule and every history (same actions as above) every
   acknowledged sample has its row, and the cache holds inserted rows only. *)
Theorem acked_sample_is_indexed_under_every_sound_confirmation_rule : forall r, sound r ->
  forall h, r_all_indexed_typed (rrun r rinit h) = true /\ incl (r_cache (rrun r rinit h)) (r_rows (rrun r rinit h)).
Proof. exact (fun r Hs h => conj (sound_rule_indexed r Hs h) (sound_rule_cache_covered r Hs h)). Qed.
Print Assumptions acked_sample_is_indexed_under_every_sound_confirmation_rule.

(* The rule of the code (every chunk, when every promise of the request was fulfilled) is sound, so is the finer rule "a chunk
   is confirmed when its own series insert succeeded, whatever the status"; and under the rule of the code the extended model
   is literally the model of the history theorems: the promise list of doParse adds no behaviour. *)
Theorem confirmation_rule_of_the_code_is_sound_and_is_the_history_model :
  sound rule_all /\ sound rule_own /\ forall h, view (rrun rule_all rinit h) = run init h.
Proof. exact (conj rule_all_sound (conj rule_own_sound rule_all_is_run_init)). Qed.
Print Assumptions confirmation_rule_of_the_code_is_sound_and_is_the_history_model.

(* Pairing series[i] with promises[i] (the i-th entry of the FLAT promise list: for the second chunk that is the samples insert
   of the first chunk, for the third a push of a nil request) is not sound, and the property fails: a request of two chunks whose
   second series insert fails is answered 5xx, the series of the second chunk is confirmed nevertheless, the client's next push
   of that stream is acknowledged without a series row. The check drives this history (and the 29 others of its kind: 2..4 chunks,
   every failing position) through the real doParse on every run. *)
Theorem confirmation_by_promise_position_refuted :
  not (sound rule_position) /\
  exists h, r_all_indexed_typed (rrun rule_position rinit h) = false.
Proof. exact (conj rule_position_not_sound (ex_intro _ w_position rule_position_loses_row)). Qed.
Print Assumptions confirmation_by_promise_position_refuted.

(* ROUND 6. Between doParse and ClickHouse sits the insert service (model/SharedInsert.v: InsertServiceV2.Request appends the rows
   of a request to the PENDING buffer and, if it appended none, fulfils the promise at once, else lets it wait for the buffer; one
   loop takes buffer + promises, sends ONE INSERT and gives its outcome to all of them; while the INSERT waits for ClickHouse
   further requests fill the next buffer). The rows of several requests share an INSERT and its outcome. Whatever
   processRequest appends ([app buf rows]), as long as (1) it appends nothing only for a request without rows and (2) afterwards
   every row of the request is in the buffer its promise waits for: in EVERY history of arrivals (any streams, any samples
   outcome), loop rounds, answers of ClickHouse (any outcome), cache resets and evictions, every acknowledged sample has the
   series row of its day and type stored, and the announcement cache holds stored rows only. *)
Theorem acked_sample_is_indexed_when_requests_share_an_insert : forall app,
  sound_append app ->
  forall h, s_all_indexed (srun app sinit h) = true /\ incl (s_cache (srun app sinit h)) (s_table (srun app sinit h)).
Proof. exact shared_insert_indexed. Qed.
Print Assumptions acked_sample_is_indexed_when_requests_share_an_insert.

(* the hypothesis is met by the processRequest of the code (every row of the request is appended) and by a rule that is not
   the code's (duplicates inside one request dropped): not vacuous *)
Theorem process_request_of_the_code_is_sound :
  sound_append append_all /\ sound_append append_nodup /\ forall h, s_all_indexed (srun append_all sinit h) = true.
Proof. exact (conj append_all_sound (conj append_nodup_sound shared_insert_indexed_code)). Qed.
Print Assumptions process_request_of_the_code_is_sound.

(* Skipping a row that is already queued in the pending buffer (seeded change C04-f) is not sound, and the property fails: while
   A's INSERT waits, B and C announce the same new series; C appends nothing, is answered 2xx at once and confirmed; the shared
   INSERT fails: C's sample has no series row (and B's retry then hits the cache: SharedInsertProofs.w_shared_append_new_retry_hits_cache).
   The check drives this history and 23 others of its kind through the real insert services on every run. *)
Theorem skipping_queued_rows_refuted :
  not (sound_append append_new) /\ exists h, s_all_indexed (srun append_new sinit h) = false.
Proof. exact shared_insert_refuted_for_append_new. Qed.
Print Assumptions skipping_queued_rows_refuted.

(* The service model extends the history model: on schedules without sharing (every push gets its loop round and its answer
   before the next one arrives; resets and evictions anywhere) its cache, stored rows and acknowledged samples are those of
   SeriesIndex.run on the Push / CacheReset / CacheEvict history - the histories the correspondence ran before round 6. *)
Theorem insert_service_model_without_sharing_is_the_history_model : forall h,
  forallb one_at_a_time h = true ->
  sview (srun append_all sinit (flat_map unshared h)) = run init h.
Proof. exact service_model_without_sharing_is_history_model. Qed.
Print Assumptions insert_service_model_without_sharing_is_the_history_model.

(* The rule the code places the mid-request flushes with (model/FlushRule.v: len(message) + 26 per entry, 14 + len(labels text)
   per announced row, a chunk is sent when the sum exceeds 1 MiB, the rest when the body ends; tied to the real parser on bodies
   with lines of chosen lengths) is one of the behaviours the history theorems cover; on its own terms: for EVERY body and
   every cache, each sample of the body has the series row of its day and type among the rows the body's chunks carry, or in
   the cache it was parsed against. *)
Theorem flush_rule_keeps_every_sample_covered : forall c zs fp d t,
  In (fp, d, t) (flat_map snd (chunks_of c zs)) ->
  In (d, fp, t) (flat_map fst (chunks_of c zs)) \/ In (d, fp, t) c.
Proof. exact rule_body_covered. Qed.
Print Assumptions flush_rule_keeps_every_sample_covered.

(* ... and in cluster mode (the cache answers "not seen" and stores nothing: every push announces its series again) *)
Theorem acked_sample_is_indexed_cluster_mode : forall h, all_indexed_typed (run_dist init h) = true.
Proof. exact acked_indexed_typed_dist. Qed.
Print Assumptions acked_sample_is_indexed_cluster_mode.

(* the day-only form of the same statement (the form of the property text) *)
Theorem acked_sample_is_indexed_by_day : forall h, all_indexed (run init h) = true.
Proof. exact acked_indexed_all. Qed.
Print Assumptions acked_sample_is_indexed_by_day.

(* why a cache hit may be trusted: whatever the cache holds has been inserted, at every point of every history *)
Theorem announcement_cache_is_covered : forall h, incl (cache (run init h)) (ts_rows (run init h)).
Proof. exact cache_covered. Qed.
Print Assumptions announcement_cache_is_covered.

(* Where an inserted row comes from: every series row ever inserted was announced by a stream of the history that has
   the row's fingerprint, an entry on the row's day and an entry of the row's type (no row for a series, day or type
   nobody sent). *)
Theorem inserted_rows_come_from_streams : forall h x,
  In x (ts_rows (run init h)) -> exists s, In s (all_streams h) /\ from_stream s x.
Proof. exact inserted_rows_have_origin. Qed.
Print Assumptions inserted_rows_come_from_streams.

(* END TO END (model/SeriesDoc.v: streams carry labels; fingerprint = fp_of (sanitized labels); a row's labels text is
   encodeLabels of the labels of the stream that announced it - the last fact is checked on the code for every series
   row of the history correspondence). In every history in which the fingerprint tells the occurring label sets apart
   (the hypothesis of (a3)), an acknowledged sample of a stream with labels L has a successfully inserted series row of
   its day and type, written for a stream whose labels are L up to order, and the labels text of that stream is JSON
   decoding to exactly its labels: acknowledged data is discoverable by its labels. *)
Theorem acked_sample_row_carries_its_labels : forall (fp_of : list label -> Z) (h : list laction),
  (forall s1 s2, In s1 (lstreams h) -> In s2 (lstreams h) ->
     fp_of (ls_labels s1) = fp_of (ls_labels s2) -> Permutation (ls_labels s1) (ls_labels s2)) ->
  forall s0 d t, In s0 (lstreams h) -> In (fp_of (ls_labels s0), d, t) (acked (lrun fp_of h)) ->
  In (d, fp_of (ls_labels s0), t) (ts_rows (lrun fp_of h)) /\
  exists s, In s (lstreams h) /\ from_stream (to_stream fp_of s) (d, fp_of (ls_labels s0), t) /\
            Permutation (ls_labels s0) (ls_labels s) /\
            forall isprint, json_decode (encode_labels isprint (ls_labels s)) = Some (ls_labels s).
Proof. exact acked_sample_discoverable. Qed.
Print Assumptions acked_sample_row_carries_its_labels.

(* END TO END, WITH THE DAY THE READ SIDE SEARCHES. A sample e of a stream with labels L, acknowledged in any history
   (as above), pushed through a writer process in ANY time zone tz, and ANY reader window [from, to) (ns) containing the
   sample's timestamp: the row exists under the value d the writer puts into the date column (Dates.series_day, tied to the
   code over 32 zones), d passes every date bound the reader writes for the window - date >= day(from),
   date >= FormatFromDate(from), date <= day(to) - and the row was written for a stream with the labels L up to order
   whose labels text decodes to them. The date part is C13's lemma (props/C13.index_date_range_covers_window =
   proofs/ScansProofs.attrs_day_in_bounds) applied to C04's writer model: no date assumption is left. *)
Theorem acked_sample_is_discoverable : forall (fp_of : list label -> Z) (h : list laction),
  (forall s1 s2, In s1 (lstreams h) -> In s2 (lstreams h) ->
     fp_of (ls_labels s1) = fp_of (ls_labels s2) -> Permutation (ls_labels s1) (ls_labels s2)) ->
  forall s0 e tz from to, In s0 (lstreams h) -> In e (ls_entries s0) ->
  0 <= e_ts e -> e_ts e < 65536 * 86400 * 1000000000 ->
  In (fp_of (ls_labels s0), day_of (e_ts e), tcode (e_type e)) (acked (lrun fp_of h)) ->
  from <= e_ts e < to ->
  let d := series_day tz (e_ts e) in
  In (d, fp_of (ls_labels s0), tcode (e_type e)) (ts_rows (lrun fp_of h)) /\
  (Scans.day_of_ns from <= d <= Scans.day_of_ns to /\ LogqlPlan.from_day from <= d) /\
  exists s, In s (lstreams h) /\ from_stream (to_stream fp_of s) (d, fp_of (ls_labels s0), tcode (e_type e)) /\
            Permutation (ls_labels s0) (ls_labels s) /\
            forall isprint, json_decode (encode_labels isprint (ls_labels s)) = Some (ls_labels s).
Proof. exact acked_sample_discoverable_in_window. Qed.
Print Assumptions acked_sample_is_discoverable.

(* What was wrong (run_old = the entry made at parse time): a failed series insert, or a body malformed
   after its first stream, followed by a retry left an acknowledged sample without series row. *)
Theorem acked_sample_is_indexed_refuted_before_fix :
  all_indexed (run_old init w_retry) = false /\ all_indexed (run_old init w_badbody) = false.
Proof. exact (conj w_retry_old_not_indexed w_badbody_old_not_indexed). Qed.
Print Assumptions acked_sample_is_indexed_refuted_before_fix.

(* The cache of the running process is a set of BYTE keys: serializer (CH64 (day, fingerprint, type)).
   The obligation on the serializer the cache is constructed with - different 64-bit keys, different
   byte strings - holds of the 8-byte little-endian form used in writer/plugin ... *)
Theorem cache_key_injective : forall a b,
  0 <= a < 2 ^ 64 -> 0 <= b < 2 ^ 64 -> ser_le8 a = ser_le8 b -> a = b.
Proof. exact ser_le8_injective. Qed.
Print Assumptions cache_key_injective.

(* Round 7. The process has ONE fastcache for all configured nodes; the view of a node (numbercache.Cache.DB) puts the node's
   name in front of the 8 bytes. The byte key determines BOTH the node and the 64-bit key, whatever the node names are (one
   may be a prefix of the other): what node A confirmed is never a hit on node B, so each node's announcements are those of
   the single-node model on the pushes sent to it (the check judges two-node histories node by node). *)
Theorem cache_key_injective_with_node : forall n m a b,
  0 <= a < 2 ^ 64 -> 0 <= b < 2 ^ 64 -> view_key_code n a = view_key_code m b -> n_node n = n_node m /\ a = b.
Proof. exact view_key_code_injective. Qed.
Print Assumptions cache_key_injective_with_node.

(* The prefix must be the node name: with the name of the node's DATABASE (the same for every entry by default) two different
   nodes share every key (seeded change C04-g: a push to the second node is acknowledged without any series row there). *)
Theorem cache_key_by_database_name_refuted : exists n m,
  n_node n <> n_node m /\ (forall k, view_key_by_db n k = view_key_by_db m k) /\ view_key_code n 7 <> view_key_code m 7.
Proof. exact (ex_intro _ ex_ch1 (ex_intro _ ex_ch2 view_key_by_db_collides)). Qed.
Print Assumptions cache_key_by_database_name_refuted.

(* ROUND 8. The writer process with SEVERAL ClickHouse nodes (model/SeriesNodes.v): one shared announcement cache whose
   entries carry the prefix of the node's view, and per node name its own time_series table, acknowledged samples and
   requests in flight; a history names for every action the node it is sent to (X-CH-DSN), the ticker empties the one cache.
   For EVERY prefix function that tells nodes apart exactly as their names do, every history (all actions of the single-node
   model: insert failures, overlapping and chunked requests, evictions - on any node, interleaved in any order) and every
   node: what the node sees in the product IS the state of the single-node model run on the node's own actions and the resets
   (the projection the check uses to judge two-node histories is a theorem, not an argument) ... *)
Theorem nodes_behave_like_single_node_model : forall pfx,
  (forall m n, pfx m = pfx n <-> n_node m = n_node n) ->
  forall h n, nview pfx (mrun pfx minit h) n = run init (proj (n_node n) h) /\
              proj_obs (n_node n) h (mrun_obs pfx minit h) = run_obs init (proj (n_node n) h).
Proof. exact (fun pfx H h n => conj (nodes_are_independent pfx H h n) (nodes_obs_independent pfx H h n)). Qed.
Print Assumptions nodes_behave_like_single_node_model.

(* ... so the property holds NODE BY NODE: every sample acknowledged on a node has a series row of its day and type
   inserted ON THAT NODE (where the reader of that node looks), and the node's view of the shared cache holds only triples
   whose row is in that node's table. Hypothesis met: the code's prefix is the node name (next theorem);
   SeriesNodesProofs.two_nodes_code_both_rows is a non-trivial history. *)
Theorem acked_sample_is_indexed_on_its_node : forall pfx,
  (forall m n, pfx m = pfx n <-> n_node m = n_node n) ->
  forall h n, all_indexed_typed (nview pfx (mrun pfx minit h) n) = true /\
              incl (cview (pfx n) (m_cache (mrun pfx minit h))) (ts_rows (m_st (mrun pfx minit h) (n_node n))).
Proof. exact (fun pfx H h n => conj (nodes_all_indexed pfx H h n) (nodes_cache_covered pfx H h n)). Qed.
Print Assumptions acked_sample_is_indexed_on_its_node.

(* the code (numbercache.Cache.DB: prefix = node name), without any hypothesis *)
Theorem acked_sample_is_indexed_on_its_node_for_the_code : forall h n,
  all_indexed_typed (nview n_node (mrun n_node minit h) n) = true /\
  nview n_node (mrun n_node minit h) n = run init (proj (n_node n) h).
Proof. exact (fun h n => conj (nodes_all_indexed_code h n) (nodes_are_independent_code h n)). Qed.
Print Assumptions acked_sample_is_indexed_on_its_node_for_the_code.

(* the prefix by DATABASE name (seeded C04-g) does not meet the hypothesis and the conclusion fails: ch1, ch2 with database
   qryn, the series pushed to ch2 then to ch1: the sample on ch1 is acknowledged, ch1's table stays empty *)
Theorem acked_sample_is_indexed_on_its_node_refuted_for_database_prefix :
  ~ (forall m n, n_db m = n_db n <-> n_node m = n_node n) /\
  exists h n, all_indexed_typed (nview n_db (mrun n_db minit h) n) = false.
Proof. exact (conj db_prefix_does_not_separate db_prefix_refuted). Qed.
Print Assumptions acked_sample_is_indexed_on_its_node_refuted_for_database_prefix.

(* the tagged entries of the product model ARE the byte keys of the one fastcache: a lookup of  prefix ++ ser_le8 (key x)
   among the byte keys hits exactly when the view of that prefix holds x - on every universe U of announcements on which the
   key hash is injective with 64-bit values (the CH64 collision-freeness hypothesis of announcement_cache_refines; met:
   SeriesNodesProofs.byte_view_hypotheses_met), for ARBITRARY prefixes (one may be a prefix of another) *)
Theorem shared_cache_view_is_byte_lookup : forall key (U : row -> Prop),
  (forall x, U x -> 0 <= key x < 2 ^ 64) -> (forall x y, U x -> U y -> key x = key y -> x = y) ->
  forall p x c, U x -> Forall (fun e => U (snd e)) c ->
  existsb (String.eqb (node_key p (key x))) (map (byte_key key) c) = mem_row x (cview p c).
Proof. exact byte_view_is_tagged_view. Qed.
Print Assumptions shared_cache_view_is_byte_lookup.

(* ROUND 8, which node stores what (controller/middleware.go withTSAndSampleService, repaired this round). A push whose samples
   service, time_series service and cache view belong to ONE node is exactly the product model's Push on that node (for every
   prefix, state, body and outcomes, seen from every node m); the repaired middleware (choose_one_node: the node of the first
   lookup is used for the other two) hands doParse one node for EVERY header value and EVERY draw of the registry - so each
   such push is a step of the histories the theorems above quantify over. *)
Theorem push_on_one_node_is_a_step_of_the_product_model : forall pfx ms ss ts_ok spl_ok,
  (forall n m, nview pfx (split_push pfx ms n n n ss ts_ok spl_ok) m
               = nview pfx (fst (mstep pfx ms (MAct n (Push ss ts_ok spl_ok)))) m) /\
  (forall dsn d1 d2 d3, exists n, choose_one_node dsn d1 d2 d3 = (n, n, n)) /\
  (forall dsn d1 d2 d3, exists n, forall m,
     nview pfx (choice_push pfx choose_one_node ms dsn d1 d2 d3 ss ts_ok spl_ok) m
     = nview pfx (fst (mstep pfx ms (MAct n (Push ss ts_ok spl_ok)))) m).
Proof.
  exact (fun pfx ms ss a b => conj (fun n m => split_push_one_node pfx ms n ss a b m)
    (conj choose_one_node_is_one_node (fun dsn d1 d2 d3 => choice_push_is_model_step pfx ms dsn d1 d2 d3 ss a b))).
Qed.
Print Assumptions push_on_one_node_is_a_step_of_the_product_model.

(* before the repair (three independent draws for a push without X-CH-DSN): draws ch1 / ch2 / ch1 - the sample is acknowledged
   on ch1, its series row is in ch2's table, ch1 has none (replayed on the real code: findings.d/C04.txt node-drawn-per-service) *)
Theorem acked_sample_is_indexed_on_its_node_refuted_before_fix_without_dsn :
  let ms := choice_push n_node choose_before_fix minit None ex_ch1 ex_ch2 ex_ch1 [ex_stream] true true in
  all_indexed_typed (nview n_node ms ex_ch1) = false /\
  acked (nview n_node ms ex_ch1) = [(7, 19675, 1)] /\ ts_rows (nview n_node ms ex_ch1) = [] /\
  ts_rows (nview n_node ms ex_ch2) = [(19675, 7, 1)].
Proof. exact choose_before_fix_loses_row. Qed.
Print Assumptions acked_sample_is_indexed_on_its_node_refuted_before_fix_without_dsn.

(* ... and it is what makes the triple-keyed cache of SeriesIndex.v the right abstraction: for every
   key hash and serializer whose composition is injective on announcements (the hash part is a
   collision-freeness hypothesis on CH64, not established), the parser that reads the byte-keyed cache
   and remembers its own rows as triples emits exactly the series rows of the model parser, and
   ConfirmSeries on the byte keys is the model's cache update. (CacheKeyProofs.truncating_serializer_swallows:
   with a serializer that keeps 32 bits the second of two colliding series gets no row.) *)
Theorem announcement_cache_refines : forall key ser,
  (forall x y, ck key ser x = ck key ser y -> x = y) ->
  forall c ss, snd (k_parse key ser (map (ck key ser) c) ss) = snd (parse c ss) /\
               k_confirm key ser (map (ck key ser) c) (snd (parse c ss)) = map (ck key ser) (snd (parse c ss) ++ c).
Proof. exact k_refines. Qed.
Print Assumptions announcement_cache_refines.

(* (c) The series row of a sample is stored under a day the reader's lower date bound
   (UTC day of from - 30 min) does not exclude, for EVERY process time zone tz, every query start
   from <= the sample's second (timestamps from 1970 up to the end of the Date range, 2149). Holds
   of the code after the fix of the zone-dependent date (findings.d/C04.txt). *)
Theorem series_day_visible : forall tz from ts_ns,
  0 <= ts_ns -> ts_ns < 65536 * 86400 * 1000000000 ->
  from <= secs_of_ns ts_ns ->
  reader_from_day from <= series_day tz ts_ns.
Proof. exact series_day_visible_all. Qed.
Print Assumptions series_day_visible.

(* the stored day is exactly the sample's UTC day, whatever the process zone *)
Theorem series_day_is_utc : forall tz ts_ns,
  0 <= ts_ns -> ts_ns < 65536 * 86400 * 1000000000 ->
  series_day tz ts_ns = utc_day (secs_of_ns ts_ns).
Proof. exact series_day_is_utc_day. Qed.
Print Assumptions series_day_is_utc.
