(* Property C04 - series identity depends only on the label set; every sample's series is indexed.
   Only statements; proofs by reference. Models: model/Fingerprint.v, Labels.v, GoQuote.v,
   LabelJson.v (label sets), SeriesIndex.v (request histories), Dates.v (days and time zones). *)
From Coq Require Import List ZArith Bool String Permutation.
From Qryn Require Import model.GoQuote model.LabelJson model.Fingerprint model.Labels
  model.SeriesIndex model.Dates model.CacheKey
  proofs.FingerprintProofs proofs.LabelsProofs proofs.SeriesIndexProofs proofs.DatesProofs proofs.CacheKeyProofs.
Import ListNotations.
Open Scope Z_scope.

(* (a1) The fingerprint does not depend on the order in which the labels arrive. For every choice
   of the three hash oracles (CH64 on strings, Hash128to64, CH64 on the 24 accumulator bytes). *)
Theorem fingerprint_perm : forall ch64 h128 fin (l1 l2 : list label),
  Permutation l1 l2 -> fingerprint ch64 h128 fin l1 = fingerprint ch64 h128 fin l2.
Proof. exact FingerprintProofs.fingerprint_perm. Qed.
Print Assumptions fingerprint_perm.

(* (a2) ... nor on the ingest protocol or on the order the client used: the label list every
   protocol hands to fingerprintLabels is a function of the sanitized label set only. *)
Theorem fingerprint_protocol_independent : forall ch64 h128 fin p1 p2 ttl_hdr sent1 sent2,
  Permutation sent1 sent2 ->
  series_fp ch64 h128 fin p1 ttl_hdr sent1 = series_fp ch64 h128 fin p2 ttl_hdr sent2.
Proof. exact series_fp_independent. Qed.
Print Assumptions fingerprint_protocol_independent.

(* (a3) CONDITIONAL. Different label multisets get different fingerprints on any family F of label
   lists on which the accumulation (sum, xor, product of pair hashes) and the final hash are
   collision-free. No unconditional statement can hold of a 64-bit hash; the two collision-freeness
   hypotheses are NOT established for the real CityHash, only tested on the generated sets. *)
Theorem fingerprint_injective_partial : forall ch64 h128 fin (F : list label -> Prop),
  (forall l1 l2, F l1 -> F l2 -> determs ch64 h128 l1 = determs ch64 h128 l2 -> Permutation l1 l2) ->
  (forall l1 l2, F l1 -> F l2 -> fin (determs ch64 h128 l1) = fin (determs ch64 h128 l2) ->
                 determs ch64 h128 l1 = determs ch64 h128 l2) ->
  forall l1 l2, F l1 -> F l2 ->
  fingerprint ch64 h128 fin l1 = fingerprint ch64 h128 fin l2 -> Permutation l1 l2.
Proof. exact fingerprint_injective_on. Qed.
Print Assumptions fingerprint_injective_partial.

(* name and value enter the pair hash through separate arguments: under injective oracles
   {ab:"c"} and {a:"bc"} have different pair hashes *)
Theorem pair_hash_separates_name_and_value : forall ch64 h128 (n1 v1 n2 v2 : string),
  (forall x y, ch64 x = ch64 y -> x = y) ->
  (forall a b c d, w64 (h128 a b) = w64 (h128 c d) -> a = c /\ b = d) ->
  lhash ch64 h128 (n1, v1) = lhash ch64 h128 (n2, v2) -> (n1, v1) = (n2, v2).
Proof. exact lhash_separates. Qed.
Print Assumptions pair_hash_separates_name_and_value.

(* (a4) The stored label document is JSON that decodes to exactly the label list: FALSE of the
   code as it is (strconv.Quote is not a JSON quoter) ... *)
Theorem label_document_roundtrip_refuted :
  exists isprint ls, json_decode (encode_labels isprint ls) <> Some ls.
Proof.
  exists (isprint_tbl []), [("a"%string, String (chr 1) EmptyString)].
  rewrite (label_document_roundtrip_fails _ (or_introl eq_refl)). discriminate.
Qed.
Print Assumptions label_document_roundtrip_refuted.

(* ... and true on exactly the class of label sets whose names and values consist of printable ASCII
   (quotes and backslashes included), \b \f \n \r \t, well-formed UTF-8 runes that IsPrint accepts
   (copied raw) and well-formed non-printable runes below U+10000 (rendered \uXXXX, which is JSON),
   for every IsPrint oracle. *)
Theorem label_document_roundtrip_partial : forall isprint ls,
  labels_json_ok isprint ls = true -> json_decode (encode_labels isprint ls) = Some ls.
Proof. exact label_document_roundtrip_ok. Qed.
Print Assumptions label_document_roundtrip_partial.

(* The class is exact: outside it (any other control byte, 0x7f, ill-formed UTF-8 - also produced by
   the cut at byte 100 -, a non-printable rune from U+10000) the stored document is not JSON at all. *)
Theorem label_document_roundtrip_exact : forall isprint ls,
  json_decode (encode_labels isprint ls) = Some ls <-> labels_json_ok isprint ls = true.
Proof. exact label_document_roundtrip_iff. Qed.
Print Assumptions label_document_roundtrip_exact.

(* the oracle-free special case: bytes that are printable ASCII or one of \b \f \n \r \t *)
Theorem label_document_roundtrip_partial_ascii : forall isprint ls,
  labels_safe ls = true -> json_decode (encode_labels isprint ls) = Some ls.
Proof. exact label_document_roundtrip_safe. Qed.
Print Assumptions label_document_roundtrip_partial_ascii.

(* (b) Every acknowledged sample has a successfully inserted series row for its day, in every
   history of pushes (any streams, any insert outcomes) and cache resets: FALSE of the code as it is.
   The triple (day, fingerprint, type) is marked as announced while parsing; if the series insert then
   fails (5xx), the client's retry finds it cached, sends no series row and is acknowledged. *)
Theorem acked_sample_is_indexed_refuted :
  exists h, all_indexed (run init h) = false.
Proof. exists w_retry. exact w_retry_not_indexed. Qed.
Print Assumptions acked_sample_is_indexed_refuted.

(* ... and true of every history in which, after a push whose series insert failed, nothing is
   pushed before the next cache reset (any number of series, days, retries, sample-insert failures). *)
Theorem acked_sample_is_indexed_partial : forall h,
  clean_hist false h = true -> all_indexed (run init h) = true.
Proof. exact acked_indexed_clean. Qed.
Print Assumptions acked_sample_is_indexed_partial.

(* The read side selects series rows by sample type (type IN (t, 0)). Under the same guard every
   acknowledged sample has an inserted row of its own day AND type, whatever mixture of log lines
   and metric values a label set arrives with (the announcement cache is keyed per type since the
   fix recorded in findings.d/C04.txt; before it [Push L log; Push L metric] left the metric sample
   without a type-2 row). *)
Theorem acked_sample_is_indexed_typed : forall h,
  clean_hist false h = true -> all_indexed_typed (run init h) = true.
Proof. exact acked_indexed_typed_clean. Qed.
Print Assumptions acked_sample_is_indexed_typed.

(* The cache of the running process is a set of BYTE keys: serializer (CH64 (day, fingerprint, type)).
   The obligation on the serializer the cache is constructed with - different 64-bit keys, different
   byte strings - holds of the 8-byte little-endian form used in writer/plugin ... *)
Theorem cache_key_injective : forall a b,
  0 <= a < 2 ^ 64 -> 0 <= b < 2 ^ 64 -> ser_le8 a = ser_le8 b -> a = b.
Proof. exact ser_le8_injective. Qed.
Print Assumptions cache_key_injective.

(* ... and it is what makes the triple-keyed cache of SeriesIndex.v the right abstraction: for every
   key hash and serializer whose composition is injective on announcements (the hash part is a
   collision-freeness hypothesis on CH64, not established), the parser over the byte-keyed cache
   emits exactly the series rows of the model parser. (CacheKeyProofs.truncating_serializer_swallows:
   with a serializer that keeps 32 bits the second of two colliding series gets no row.) *)
Theorem announcement_cache_refines : forall key ser,
  (forall x y, ck key ser x = ck key ser y -> x = y) ->
  forall c ss, snd (k_parse key ser (map (ck key ser) c) ss) = snd (parse c ss).
Proof. exact k_parse_rows. Qed.
Print Assumptions announcement_cache_refines.

(* (c) The series row of a sample is stored under a day the reader's lower date bound
   (UTC day of from - 30 min) does not exclude, for EVERY process time zone tz, every query start
   from <= the sample's second (timestamps from 1970 up to the end of the Date range, 2149). Holds
   of the code after the fix of the zone-dependent date (findings.d/C04.txt). *)
Theorem series_day_visible : forall tz from ts_ns,
  0 <= ts_ns -> ts_ns < 65536 * 86400 * 1000000000 ->
  from <= secs_of_ns ts_ns ->
  reader_from_day from <= series_day tz ts_ns.
Proof. exact series_day_visible_all. Qed.
Print Assumptions series_day_visible.

(* the stored day is exactly the sample's UTC day, whatever the process zone *)
Theorem series_day_is_utc : forall tz ts_ns,
  0 <= ts_ns -> ts_ns < 65536 * 86400 * 1000000000 ->
  series_day tz ts_ns = utc_day (secs_of_ns ts_ns).
Proof. exact series_day_is_utc_day. Qed.
Print Assumptions series_day_is_utc.
