(* C13 — every read is confined to the requested time window and signal type. Statements only. *)
From Coq Require Import List ZArith NArith String Ascii Bool.
From Qryn Require Import lib.Strs lib.CivilDate model.Sql model.SqlRender model.Logql model.LogqlPlan model.Scans proofs.ScansProofs.
Import ListNotations.
Open Scope Z_scope.

(* The oracle evaluated on every recorded statement is exact: it accepts a statement iff every one of
   its base-table reads meets the declarative demand (window bounds on data tables, a covering date
   range on index tables, the type conjunct), for every table classification and every window. *)
Theorem oracle_sound : forall info w s,
  every_scan_bounded_b info w s = true -> Forall (scan_bounded info w) (scans s).
Proof. exact every_scan_bounded_b_sound. Qed.
Print Assumptions oracle_sound.

Theorem oracle_complete : forall info w s,
  Forall (scan_bounded info w) (scans s) -> every_scan_bounded_b info w s = true.
Proof. exact every_scan_bounded_b_complete. Qed.
Print Assumptions oracle_complete.

(* FormatFromDate: the index lower bound (UTC day of from - 30 min) is not after the stored day of any
   row at or after `from`, for every writer zone not more than 30 minutes west of UTC *)
Theorem from_day_covers : forall off from t,
  -1800 <= off -> from <= t -> from_day from <= writer_day off t.
Proof. exact from_day_covers_zone. Qed.
Print Assumptions from_day_covers.
