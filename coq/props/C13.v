(* C13 — every read is confined to the requested time window and signal type. Statements only.

   scans / scan_bounded / the oracle: model/Scans.v.   Planner model: model/LogqlPlan.v (tied to the Go
   planners byte for byte on every run).   SQL semantics for window_semantic: model/SqlEval.v (C07, trusted). *)
From Coq Require Import List ZArith NArith QArith String Ascii Bool.
From Qryn Require Import lib.Strs lib.CivilDate model.Sql model.SqlRender model.SqlEval model.Logql model.LogqlPlan model.Scans
  model.ScanCases model.ScansTq proofs.ScansProofs proofs.ScansPlanProofs proofs.ScansSemProofs proofs.ScansTqProofs proofs.ScansPromProofs proofs.ScansLabelProofs proofs.ScansProfProofs proofs.ScansReplanProfProofs proofs.ScansDateProofs proofs.ScansTempoProofs proofs.ScansPortionsProofs.
From Qryn Require Import model.PromSel model.ProfSel model.ScansPlanners model.ReplanProf model.ScansProf model.ScansTempo model.ScansPortions.
From Qryn Require model.TqSql model.Traceql model.TraceqlPlan.
Import ListNotations.
Open Scope Z_scope.

(* ---- the oracle run on every recorded statement is exact ------------------------------------------
   it accepts a statement iff every one of its base-table reads meets the declarative demand (window
   bounds on data tables, a covering date range on index tables, the type conjunct), for every table
   classification and every window *)
Theorem oracle_sound : forall info w s,
  every_scan_bounded_b info w s = true -> Forall (scan_bounded info w) (scans s).
Proof. exact every_scan_bounded_b_sound. Qed.
Print Assumptions oracle_sound.

Theorem oracle_complete : forall info w s,
  Forall (scan_bounded info w) (scans s) -> every_scan_bounded_b info w s = true.
Proof. exact every_scan_bounded_b_complete. Qed.
Print Assumptions oracle_complete.

(* ---- every_scan_bounded for the LogQL log-query planners -------------------------------------------
   full strength: for every log query, finalisation flag and planner context (window, limit, direction,
   table layout, table names classified as the schema has them), every base-table read of the statement
   that Plan(script).Process(ctx) builds is bounded.  It was FALSE of the code (every_scan_bounded_refuted: the
   time_series read of SimpleLabelFilterPlanner - a label filter in front of the first parser - carried
   neither a date bound nor a type conjunct) until the repair 4cc5ee3 of /repo added both; the
   former counterexample {a="b"} | c="d" is the Example below. Any matchers, line filters, label filters
   before and after parsers, parsers (json with parameters, regexp), drop, unwrap, line_format. *)
Theorem every_scan_bounded : forall info sel fin c p q st' p',
  ctx_tables info c ->
  plan_log sel fin = Some p -> process p c pst0 = Some (q, st', p') ->
  Forall (scan_bounded info (win c)) (scans q).
Proof. exact log_scans_bounded_all. Qed.
Print Assumptions every_scan_bounded.

Example every_scan_bounded_hyp :
  plan_log slf_query true = Some slf_plan /\
  (exists st' p', process slf_plan std_ctx pst0 = Some (slf_select, st', p')) /\
  every_scan_bounded_b table_info (win std_ctx) slf_select = true /\ Nat.leb 4 (List.length (scans slf_select)) = true.
Proof. exact slf_witness. Qed.

(* ---- metric scripts (range / vector aggregations, quantile, topk; b-c08's planner model) ---------------
   judged against win15: raw tables are read from From exactly; the read of the roll-up table metrics_15s - a SLOT table
   (Scans.CSlot: rows stamped with the start of their 15-second slot, judged by slot_bounded at slot granularity) - starts
   with the slot that holds From and ends with the last whole slot at or before To.  (a) EVERY metric script: every read is bounded *)
Theorem every_metric_scan_bounded : forall info s fin c p q st' p',
  ctx_tables info c -> 0 <= c_from_ns c -> 0 <= c_to_ns c ->
  plan_metric s fin = Some p -> process p c pst0 = Some (q, st', p') ->
  Forall (scan_bounded info (win15 c)) (scans q).
Proof. exact metric_scans_bounded_all. Qed.
Print Assumptions every_metric_scan_bounded.

(* (a') never miss data inside the window on the roll-up shortcut (round 6): for every instant t of [From, 15-second floor of
   To) the roll-up row that holds t passes every timestamp conjunct of every slot-table read of the plan *)
Theorem metric_rollup_every_slot_read : forall info s fin c p q st' p' t,
  ctx_tables info c -> 0 <= c_from_ns c -> 0 <= c_to_ns c ->
  plan_metric s fin = Some p -> process p c pst0 = Some (q, st', p') ->
  c_from_ns c <= t < fl15 (c_to_ns c) ->
  Forall (fun sc => forall k, ti_class (info (sc_table sc)) = CSlot k -> 0 < k ->
            (forall lo, has_bnd sc (TsLo lo) -> lo <= fl_slot k t) /\ (forall hi, has_bnd sc (TsHi hi) -> fl_slot k t < hi))
         (scans q).
Proof. exact metric_rollup_reads_every_slot. Qed.
Print Assumptions metric_rollup_every_slot_read.

(* (b) a metric script that is not planned on the 15-second roll-up table is bounded by the context window
   itself, without widening *)
Theorem every_metric_scan_bounded_raw : forall info s fin c p q st' p',
  ctx_tables info c -> analyze_m15 s = false ->
  plan_metric s fin = Some p -> process p c pst0 = Some (q, st', p') ->
  Forall (scan_bounded info (win c)) (scans q).
Proof. exact metric_scans_bounded_raw_all. Qed.
Print Assumptions every_metric_scan_bounded_raw.

(* ---- FormatFromDate ------------------------------------------------------------------------------
   the index lower bound (UTC day of from - 30 min) is not after the stored day of any row at or after
   `from`, for every writer whose zone is not more than 30 minutes west of UTC *)
Theorem from_day_covers : forall off from t,
  -1800 <= off -> from <= t -> from_day from <= writer_day off t.
Proof. exact from_day_covers_zone. Qed.
Print Assumptions from_day_covers.

(* ... for EVERY zone of the writer process the rows are filed under their UTC day (series rows: fix 433b3ba, C04;
   trace attribute rows: fix 71ffd5d, model ScanCases.attrs_stored_day tied to the real write path by harness
   spandate): every date bound the reader writes for a window [from, to) - date >= day(from), date >=
   FormatFromDate(from), date <= day(to) - keeps the index rows of every span inside the window.
   (Replaces from_day_covers_all_zones_refuted: the witness is proofs.ScansProofs.attrs_day_local_lost, the
   behaviour before the fix.) *)
Theorem index_date_range_covers_window : forall tz from to t,
  from <= t < to ->
  day_of_ns from <= attrs_stored_day tz t <= day_of_ns to /\ from_day from <= attrs_stored_day tz t.
Proof. exact attrs_day_in_bounds. Qed.
Print Assumptions index_date_range_covers_window.

(* ---- window_semantic, relative to SqlEval ---------------------------------------------------------
   a row that passes every conjunct of a timestamp-bounded scan lies inside the widened window *)
Theorem window_semantic : forall re_match parse_float json_get hash_labels tie db w sc r ts,
  ts_bounded w sc -> col_value sc "timestamp_ns" (sc_tsn sc) r ts ->
  kept re_match parse_float json_get hash_labels tie db sc r ->
  w_lo_min w <= ts /\ ts <= w_hi_max w.
Proof. exact kept_in_window. Qed.
Print Assumptions window_semantic.

(* ... and carries the type of the API that was called, or 0 *)
Theorem window_semantic_type : forall re_match parse_float json_get hash_labels tie db w sc r ty,
  type_confined w sc -> col_value sc "type" ["type"%string] r ty ->
  kept re_match parse_float json_get hash_labels tie db sc r ->
  ty = w_type w \/ ty = 0.
Proof. exact kept_type. Qed.
Print Assumptions window_semantic_type.

(* ... and no row inside the requested window is cut off by a timestamp conjunct *)
Theorem window_semantic_complete : forall re_match parse_float json_get hash_labels tie db w sc r ts e,
  (forall lo, has_bnd sc (TsLo lo) -> lo <= w_from w) -> (forall hi, has_bnd sc (TsHi hi) -> w_to w <= hi) ->
  col_value sc "timestamp_ns" (sc_tsn sc) r ts -> w_from w <= ts < w_to w ->
  List.In e (sc_conj sc) ->
  (exists x, List.In x (classify sc e) /\ ((exists z, x = TsLo z) \/ (exists z, x = TsHi z))) ->
  passes re_match parse_float json_get hash_labels tie db r e.
Proof. exact window_row_passes_ts. Qed.
Print Assumptions window_semantic_complete.

(* ---- label values and series (model/ScansPlanners.v: ValuesPlanner, SeriesPlanner, MultiStreamSelectPlanner; tied to
   the statements of /loki/api/v1/label/{name}/values, /loki/api/v1/series, /api/v1/label/{name}/values and
   /api/v1/series by text equality on every run) ------------------------------------------------------------
   for every key, list of match[] selectors and context: every read carries the API's type and the index date
   range date >= FormatFromDate(From), date <= day(To) (the fingerprint sub-selects: the lower bound) *)
Theorem label_values_every_scan_bounded : forall info c key sels,
  ctx_tables info c ->
  match sels with
  | [] => Forall (scan_bounded info (win c)) (scans (values_planner c key None))
  | _ => forall q, multi_stream_select c sels = Some q -> Forall (scan_bounded info (win c)) (scans (values_planner c key (Some q)))
  end.
Proof. exact label_values_scans_bounded. Qed.
Print Assumptions label_values_every_scan_bounded.

Theorem series_every_scan_bounded : forall info c sels q,
  ctx_tables info c -> multi_stream_select c sels = Some q ->
  Forall (scan_bounded info (win c)) (scans (series_planner c q)).
Proof. exact series_scans_bounded. Qed.
Print Assumptions series_every_scan_bounded.

(* label names (QueryLabelsService.Labels, /loki/api/v1/labels and /api/v1/labels): start / end in milliseconds *)
Theorem label_names_every_scan_bounded : forall info table ty start_ms end_ms,
  info table = index_typed -> ty <> 0 -> 0 <= start_ms -> 0 <= end_ms ->
  Forall (scan_bounded info (labels_win ty start_ms end_ms)) (scans (labels_query table ty start_ms end_ms)).
Proof. exact labels_query_scans_bounded. Qed.
Print Assumptions label_names_every_scan_bounded.

(* ---- Prometheus Select (model/PromSel.v, C17; tied byte for byte to reader/promql/transpiler and
   CLokiQuerier.transpileLabelMatchers) ------------------------------------------------------------------------
   For EVERY hint record, matcher list, regex oracle, table layout and database name: every base-table read of the
   statement Select sends (samples_v3 / metrics_15s, the time_series_gin reads of fp_sel and of every exclusion
   sub-query) carries type IN (2,0) and is bounded by the hint window: every row with Start <= t <= End is read and
   nothing outside [Start, End + 1 ms) (milliseconds as nanoseconds); index reads have date >= FormatFromDate(Start). *)
Theorem prom_every_scan_bounded : forall re_full cluster db h ms,
  Forall (scan_bounded table_info (prom_win h)) (scans (fst (querier_transpile re_full cluster db h ms))).
Proof. exact prom_select_scans_bounded. Qed.
Print Assumptions prom_every_scan_bounded.

(* a Select planned on the raw samples reads exactly the closed millisecond window [Start, End] (fix f155c1f) *)
Theorem prom_raw_every_scan_exact : forall re_full cluster db h ms,
  use_raw_data h = true ->
  Forall (scan_bounded table_info (prom_raw_win h)) (scans (fst (querier_transpile re_full cluster db h ms))).
Proof. exact prom_raw_select_scans_exact. Qed.
Print Assumptions prom_raw_every_scan_exact.

(* ... and a Select planned on the 15-second roll-up reads exactly Start <= timestamp_ns <= End (the rows of metrics_15s
   are stamped on 15-second boundaries: for them this is the same closed window).  Replaces
   prom_downsample_closed_window_refuted: InitDownsamplePlanner wrote timestamp_ns > Start and left out the row stamped
   exactly Start; repaired in /repo (one character, as f155c1f did for the raw path). *)
Theorem prom_downsample_every_scan_exact : forall re_full cluster db h ms,
  use_raw_data h = false ->
  Forall (scan_bounded table_info (prom_ds_win h)) (scans (fst (querier_transpile re_full cluster db h ms))).
Proof. exact prom_downsample_select_scans_exact. Qed.
Print Assumptions prom_downsample_every_scan_exact.

(* ---- the CHOICE between samples_v3 and the roll-up (round 6, seeded change C13-f) ----
   metrics_15s is a slot table: scan_bounded judges its reads by slot_bounded, so prom_every_scan_bounded above holds only
   because CLokiQuerier.transpileLabelMatchers (PromSel.use_raw_data) sends a Select to the roll-up for a Start on a 15-second
   boundary to the millisecond.  (a) what the bounds mean for the data: for EVERY hint record and every instant t of
   [Start, End] the roll-up row that holds t passes every timestamp conjunct of every slot-table read of the statement *)
Theorem prom_select_every_slot_read : forall re_full cluster db h ms t,
  h_start h * 1000000 <= t <= h_end h * 1000000 ->
  Forall (fun sc => forall k, ti_class (table_info (sc_table sc)) = CSlot k ->
            (forall lo, has_bnd sc (TsLo lo) -> lo <= fl_slot k t) /\ (forall hi, has_bnd sc (TsHi hi) -> fl_slot k t < hi))
         (scans (fst (querier_transpile re_full cluster db h ms))).
Proof. exact prom_select_reads_every_slot. Qed.
Print Assumptions prom_select_every_slot_read.

(* (b) the decision itself *)
Theorem prom_rollup_only_for_slot_aligned_start : forall h,
  use_raw_data h = false -> (h_start h * 1000000) mod slot15 = 0.
Proof. exact rollup_start_aligned. Qed.
Print Assumptions prom_rollup_only_for_slot_aligned_start.

(* (c) and it is needed: the down-sampled statement for Start = hh:mm:ss.500 with ss a multiple of 15 (whole seconds aligned,
   milliseconds not: what C13-f sends to the roll-up) is not bounded by the hint window - `timestamp_ns >= Start` first reads
   the row stamped at the NEXT boundary, the samples of [Start, Start + 14.5 s) are in no row read *)
Theorem prom_downsample_unaligned_start_is_unbounded :
  (Z.rem (h_start unaligned_hints / 1000) 15 = 0 /\ Z.rem (h_start unaligned_hints) 15000 <> 0) /\
  use_raw_data unaligned_hints = true /\
  ~ Forall (scan_bounded table_info (prom_win unaligned_hints))
      (scans (transpile_label_matchers_downsample (fun _ _ => true) unaligned_hints (prom_ctx false "qryn" unaligned_hints) [m_up; m_re])).
Proof. exact prom_downsample_unaligned_start_refuted. Qed.
Print Assumptions prom_downsample_unaligned_start_is_unbounded.

(* (d) the two readings of slot_bounded, for any slot table and window: completeness (the row holding any instant of the window
   passes the bounds) and confinement (a row passing the bounds holds only data of the window widened to whole slots) *)
Theorem slot_bounded_complete : forall info w sc k t,
  scan_bounded info w sc -> ti_class (info (sc_table sc)) = CSlot k -> 0 < k -> w_from w <= t < w_to w ->
  (forall lo, has_bnd sc (TsLo lo) -> lo <= fl_slot k t) /\ (forall hi, has_bnd sc (TsHi hi) -> fl_slot k t < hi).
Proof. exact scan_bounded_slot_complete. Qed.
Print Assumptions slot_bounded_complete.
Theorem slot_bounded_confined : forall info w sc k s,
  scan_bounded info w sc -> ti_class (info (sc_table sc)) = CSlot k -> 0 < k -> s mod k = 0 ->
  (forall lo, has_bnd sc (TsLo lo) -> lo <= s) -> (forall hi, has_bnd sc (TsHi hi) -> s < hi) ->
  fl_slot k (w_lo_min w) <= s /\ s + k <= cl_slot k (w_hi_max w + 1).
Proof. exact scan_bounded_slot_confined. Qed.
Print Assumptions slot_bounded_confined.

(* both transpilers under any context whose tables are classified as the schema has them *)
Theorem prom_transpilers_every_scan_bounded : forall info c W re_full h ms,
  ctx_tables info c -> pwin_ok true true c W ->
  Forall (scan_bounded info W) (scans (transpile_label_matchers re_full h c ms)) /\
  Forall (scan_bounded info W) (scans (transpile_label_matchers_downsample re_full h c ms)).
Proof. exact prom_transpilers_scans_bounded. Qed.
Print Assumptions prom_transpilers_every_scan_bounded.

(* the label fetch of labelsGetter: a time_series read whose date range covers the days of its window ... *)
Theorem prom_labels_fetch_date_covers : forall cluster fps from_ms to_ms,
  Forall (fun sc => ti_class (table_info (sc_table sc)) = CIndex /\ date_covers (fetch_win from_ms to_ms) sc)
         (scans (labels_fetch cluster fps from_ms to_ms)).
Proof. exact labels_fetch_date_covers. Qed.
Print Assumptions prom_labels_fetch_date_covers.

(* ... and type IN (2,0) (repair e42718a of prom-labels-fetch-untyped; replaces prom_labels_fetch_bounded_refuted): the read is bounded *)
Theorem prom_labels_fetch_every_scan_bounded : forall cluster fps from_ms to_ms,
  Forall (scan_bounded table_info (fetch_win from_ms to_ms)) (scans (labels_fetch cluster fps from_ms to_ms)).
Proof. exact labels_fetch_bounded. Qed.
Print Assumptions prom_labels_fetch_every_scan_bounded.

(* ---- Pyroscope stream selector (model/ProfSel.v, C17: StreamSelectorPlanner, the fingerprint selection every
   Pyroscope label / series / merge / render request starts from): for every selector list and window, the read of
   profiles_series_gin has date >= FormatFromDate(From) and date <= day(To). *)
Theorem prof_selector_every_scan_bounded : forall info gin from_ns to_ns sels,
  info gin = idx_untyped ->
  Forall (scan_bounded info (prof_win from_ns to_ns)) (scans (prof_selector gin from_ns to_ns sels)).
Proof. exact prof_selector_scans_bounded. Qed.
Print Assumptions prof_selector_every_scan_bounded.

(* ---- the Pyroscope planners around the selector (model/ReplanProf.v, C14's transcription of every planner of
   reader/prof/transpiler: label names / values over a UNION ALL of selectors, merge raw / joined / aggregated, get labels,
   select series, merge profiles, time series with and without selector, distinct, filter labels, profile size; tied byte
   for byte to the Go planners by C14's replan correspondence and, in C13's own run, to the statements recorded from the
   Pyroscope endpoints).  For EVERY planner object - any nesting the constructors allow, not only the seven plans
   transpiler.go builds -, selector lists, type id, group-by list, step and context whose table names are classified as the
   schema has them: every base-table read of the result of Process (the select with its WITH list, the other members of a
   UNION ALL, the members kept under a WITH alias) is bounded: profiles by timestamp_ns >= From and < To or <= To,
   profiles_series and profiles_series_gin by date >= FormatFromDate(From) and date <= day(To). *)
Theorem prof_every_scan_bounded : forall info c p r,
  prof_tables info c -> pprocess p c = Some r -> Forall (scan_bounded info (prctx_win c)) (presult_scans r).
Proof. exact prof_planners_scans_bounded. Qed.
Print Assumptions prof_every_scan_bounded.

(* ... in particular every request kind of the profile API (PlanLabelNames, PlanLabelValues, PlanMergeTraces = merge stack
   traces and render-diff, PlanSelectSeries, PlanMergeProfiles, PlanSeries, PlanAnalyzeQuery) with any parameters, on the
   single-node and the cluster table names of tables.PopulateTableNames with any database name, for every answer table e of
   the regular-expression oracle (which selectors accept a missing label and become exclusion sub-queries) *)
Theorem prof_requests_every_scan_bounded : forall cluster db from_ns to_ns e req r,
  pprocess (preq_plan req) (prof_ctx_e cluster db from_ns to_ns e) = Some r ->
  Forall (scan_bounded table_info (prctx_win (prof_ctx_e cluster db from_ns to_ns e))) (presult_scans r).
Proof. exact prof_requests_scans_bounded. Qed.
Print Assumptions prof_requests_every_scan_bounded.

(* ProfService.ProfileTypes (start / end in milliseconds): dates day(start) .. day(end) *)
Theorem profile_types_every_scan_bounded : forall info table start_ms end_ms,
  info table = idx_untyped ->
  Forall (scan_bounded info (ms_win start_ms end_ms)) (scans (profile_types_query table start_ms end_ms)).
Proof. exact profile_types_scans_bounded. Qed.
Print Assumptions profile_types_every_scan_bounded.

(* ---- TraceQL planners (model/TraceqlPlan.v, C11; tied byte for byte to clickhouse_transpiler) ----------------
   tq_scans enumerates the base-table reads of a TqSql tree (model/ScansTq.v).  For EVERY script, mode (search /
   tags / values), call number and planner context whose table names are classified as the schema has them and
   whose date texts are the UTC days of a window between 1970-01-01 00:30 and 2100: every read of the statement
   plan q m c n is bounded by the window [from, to) (index reads: date >= day(from), date <= day(to) and the
   timestamp bounds; tempo_traces reads of the attribute-less search and the two reads of the final search statement
   that fetch the spans of the traces found: timestamp bounds).  Full strength: replaces traceql_every_scan_confined /
   traceql_every_scan_bounded_refuted (TracesDataPlanner read tempo_traces by trace_id IN (trace_ids) alone; repaired
   in /repo, the witness request is in corpus/C13/fixed_requests.jsonl). *)
Theorem traceql_every_scan_bounded : forall info c q m n s,
  tq_tables info c -> tq_ctx_ok c -> TraceqlPlan.plan q m c n = TraceqlPlan.Ok s ->
  Forall (scan_bounded info (tq_win c)) (tq_scans s).
Proof. exact tq_plan_scans_bounded. Qed.
Print Assumptions traceql_every_scan_bounded.

(* the index part of a search (everything below the CTE index_grouped: attribute conditions, attribute-less
   search, && / || of selectors, aggregators, limit): every read is bounded *)
Theorem traceql_index_every_scan_bounded : forall info c q n s,
  tq_tables info c -> tq_ctx_ok c -> TraceqlPlan.plan_index q c n = TraceqlPlan.Ok s ->
  Forall (scan_bounded info (tq_win c)) (tq_scans s).
Proof. exact tq_index_scans_bounded. Qed.
Print Assumptions traceql_index_every_scan_bounded.

(* tags and tag values (with or without a selector): every read is bounded *)
Theorem traceql_tags_every_scan_bounded : forall info c q m n s,
  tq_tables info c -> tq_ctx_ok c -> m <> TraceqlPlan.MSearch -> TraceqlPlan.plan q m c n = TraceqlPlan.Ok s ->
  Forall (scan_bounded info (tq_win c)) (tq_scans s).
Proof. exact tq_tags_scans_bounded. Qed.
Print Assumptions traceql_tags_every_scan_bounded.

(* the complexity estimate the reader sends before every TraceQL search / tags / values request (planner.planEval:
   AttrConditionEvaluatorPlanner over the distributed attribute table, AttrlessEvaluatorPlanner, ComplexEvalOrPlanner,
   EvalFinalizerPlanner; model/ScansTq.v module TE, tied byte for byte to the recorded `WITH pre_final ...` statements in
   C13's run): every read is bounded, for every script, call number and context *)
Theorem traceql_estimate_every_scan_bounded : forall info c q n s,
  tq_tables info c -> tq_ctx_ok c -> TE.plan_eval q c n = TraceqlPlan.Ok s ->
  Forall (scan_bounded info (tq_win c)) (tq_scans s).
Proof. exact tq_eval_scans_bounded. Qed.
Print Assumptions traceql_estimate_every_scan_bounded.

(* /api/v2/search/tags and /api/v2/search/tag/{tag}/values without a query (AllTagsRequestPlanner, AllValuesRequestPlanner):
   date >= FormatFromDate(From), date <= day(To) on tempo_traces_kv *)
Theorem traceql_all_tags_every_scan_bounded : forall info c key,
  tq_tables info c -> tq_ctx_ok c ->
  Forall (scan_bounded info (tq_win c)) (tq_scans (TE.all_tags c)) /\
  Forall (scan_bounded info (tq_win c)) (tq_scans (TraceqlPlan.all_values c key)).
Proof. exact tq_all_tags_scans_bounded. Qed.
Print Assumptions traceql_all_tags_every_scan_bounded.

(* ---- the portions of a portioned TraceQL search (model/ScansPortions.v = ComplexRequestProcessor.Process /
   ProcessComplexReqIteration; round 6, seeded change C13-d) ----
   A search whose complexity estimate reaches the threshold runs as several statements; between them ctx.From is narrowed to the
   oldest trace a portion kept when it filled the limit.  For EVERY number of portions, limit > 0 and rows returned (ordered by
   start DESC as the statement orders them, inside the requested window): every portion is sent with a lower bound that is not
   below the requested From and not above the oldest trace the last full portion kept (those traces are re-read by id and keep
   their spans; an older trace cannot enter the answer); until a portion fills the limit the bound is the requested From *)
Theorem traceql_portions_keep_every_candidate : forall req_from limit rows,
  0 < limit -> rows_wf req_from rows -> rows <> [] ->
  exists obs, process_froms req_from limit rows = map Some obs /\ spec_ok req_from limit rows obs = true.
Proof. exact portions_keep_every_candidate. Qed.
Print Assumptions traceql_portions_keep_every_candidate.

(* the row order is needed: on unsorted rows the test `from.Nanosecond() == 0` (meant as "not set yet", true on every whole
   second) moves From forward again; TracesDataPlanner orders by start_time_unix_nano DESC, so this is not reachable *)
Theorem traceql_portion_from_needs_the_row_order :
  exists starts, iteration_from 0 3 starts = Some 12300000000 /\ List.In 10000000000 starts.
Proof. exact iteration_from_unsorted_refuted. Qed.
Print Assumptions traceql_portion_from_needs_the_row_order.

(* ---- the Tempo v1 API (model/ScansTempo.v: SQLIndexQuery.String, GetTracesQuery, GetQueryRequest, GetTagsRequest,
   GetValuesRequest; tied byte for byte to the recorded statements in C13's run).  /api/search with start and end, by tags
   or plain: for every tag list (= != =~ !~), limit, duration bounds, schema version, database name and layout the read of
   tempo_traces has start_time_unix_nano (alias of timestamp_ns) >= from and <= to, every per-tag read of
   tempo_traces_attrs_gin has date >= toDate(day(from)), date <= toDate(day(to)) and, on the current schema, the same
   timestamp bounds.  (from is inclusive since the repair of trace-search-start-exclusive.) *)
Theorem tempo_search_every_scan_bounded : forall db cluster tags limit from_ns to_ns min_d max_d v2,
  0 < from_ns -> from_ns <= to_ns -> to_ns < max_day * ns_per_day ->
  Forall (scan_bounded table_info (tempo_win from_ns to_ns)) (scans (search_query db cluster tags limit from_ns to_ns min_d max_d v2)).
Proof. exact tempo_search_scans_bounded. Qed.
Print Assumptions tempo_search_every_scan_bounded.

(* /api/traces/{id} with start and end: timestamp_ns >= start and < end ... *)
Theorem tempo_trace_every_scan_bounded : forall cluster id start_ns end_ns,
  start_ns <> 0 -> end_ns <> 0 ->
  Forall (scan_bounded table_info {| w_from := start_ns; w_to := end_ns; w_lo_min := start_ns; w_hi_max := end_ns; w_type := 0 |})
         (scans (trace_query cluster id start_ns end_ns)).
Proof. exact tempo_trace_scans_bounded. Qed.
Print Assumptions tempo_trace_every_scan_bounded.

(* ... without them the lookup reads tempo_traces over all time, and the v1 tag statements read tempo_traces_kv without
   any date bound (their API has no window): recorded findings trace-by-id-without-window, tempo-tags-without-window *)
Theorem tempo_unwindowed_reads_refuted :
  let W0 := tempo_win 1704888000000000000 1704891600000000000 in
  ~ Forall (scan_bounded table_info W0) (scans (trace_query false "0123456789abcdef0123456789abcdef" 0 0)) /\
  ~ Forall (scan_bounded table_info W0) (scans (tags_query true)) /\
  ~ Forall (scan_bounded table_info W0) (scans (values_query false "service.name")).
Proof. exact tempo_unwindowed_unbounded. Qed.
Print Assumptions tempo_unwindowed_reads_refuted.

(* ---- the hypotheses are met by non-trivial values ------------------------------------------------- *)
Example partial_guard_met :
  no_slf plain_query = true /\ plan_log plain_query true = Some plain_plan /\
  process plain_plan cluster_ctx pst0 = plain_result /\
  match plain_result with Some (q, _, _) => Nat.leb 3 (List.length (scans q)) | None => false end = true.
Proof. exact plain_query_guard. Qed.
Example metric_guards_met :
  (analyze_m15 m15_query = true /\ no_slf (stream_selector m15_query) = true /\ plan_metric m15_query true = Some m15_plan /\
   process m15_plan cluster_ctx pst0 = m15_result /\
   match m15_result with Some (q, _, _) => Nat.leb 3 (List.length (scans q)) | None => false end = true) /\
  (analyze_m15 raw_query = false /\ no_slf (stream_selector raw_query) = true /\ plan_metric raw_query true = Some raw_plan /\
   process raw_plan std_ctx pst0 = raw_result /\
   match raw_result with Some (q, _, _) => Nat.leb 3 (List.length (scans q)) | None => false end = true).
Proof. exact metric_guards. Qed.
Example tables_single_node : ctx_tables table_info std_ctx.
Proof. exact std_ctx_tables. Qed.
Example tables_cluster : ctx_tables table_info cluster_ctx.
Proof. exact cluster_ctx_tables. Qed.
Example traceql_guards_met :
  tq_tables table_info tq_ctx0 /\ tq_ctx_ok tq_ctx0 /\
  (match tq_res tq_q0 TraceqlPlan.MSearch with Some s => Nat.leb 3 (List.length (tq_scans s)) && tq_all_bounded_b s | None => false end = true) /\
  (match tq_res tq_q1 TraceqlPlan.MSearch with Some s => Nat.leb 5 (List.length (tq_scans s)) && tq_all_bounded_b s | None => false end = true) /\
  (match tq_res tq_q0 TraceqlPlan.MTags with Some s => Nat.leb 2 (List.length (tq_scans s)) && tq_all_bounded_b s | None => false end = true) /\
  (match tq_res tq_q0 (TraceqlPlan.MValues "service.name") with Some s => Nat.leb 2 (List.length (tq_scans s)) && tq_all_bounded_b s | None => false end = true).
Proof. split; [exact tq_ctx0_tables|]. split; [exact tq_ctx0_ok|]. exact tq_examples. Qed.
Example stored_day_is_zone_free : attrs_stored_day (-18000) (1704852000 * 1000000000) = day_of_ns (1704852000 * 1000000000)
  /\ attrs_stored_day_local (-18000) (1704852000 * 1000000000) = day_of_ns (1704852000 * 1000000000) - 1.
Proof. split; reflexivity. Qed.
Example prom_guards_met :
  use_raw_data raw_hints = true /\ use_raw_data ds_hints = false /\
  Nat.leb 5 (List.length (scans (fst (querier_transpile (fun _ _ => true) true "qryn" raw_hints [m_up; m_re])))) = true /\
  Nat.leb 5 (List.length (scans (fst (querier_transpile (fun _ _ => true) false "qryn" ds_hints [m_up; m_re])))) = true.
Proof. exact prom_examples. Qed.
Example prom_ctx_window_met : forall cluster db h,
  ctx_tables table_info (prom_ctx cluster db h) /\ pwin_ok true (negb (use_raw_data h)) (prom_ctx cluster db h) (prom_win h).
Proof. intros. split; [apply prom_ctx_tables | apply prom_win_ok]. Qed.
(* the history of the C13-d demonstration meets the hypotheses; the spec accepts the model's windows and rejects the seeded ones *)
Example portions_hyp_met :
  rows_wf 0 demo_rows /\
  process_froms 0 2 demo_rows = [Some 0; Some 10000000000; Some 30000000000] /\
  spec_ok 0 2 demo_rows [0; 10000000000; 30000000000] = true /\
  spec_ok 0 2 demo_rows [0; 40000000000; 40000000000] = false.
Proof. exact portions_example. Qed.
(* the slot theorems speak about statements that do read a slot table *)
Example slot_reads_exist :
  reads_slot_table (fst (querier_transpile (fun _ _ => true) false "qryn" ds_hints [m_up; m_re])) = true /\
  reads_slot_table (fst (querier_transpile (fun _ _ => true) true "qryn" ds_hints [m_up; m_re])) = true /\
  match m15_result with Some (q, _, _) => reads_slot_table q | None => false end = true.
Proof. exact slot_examples. Qed.
Example label_guards_met :
  (match multi_stream_select cluster_ctx [[m_ab]; [m_ab]] with
   | Some q => Nat.leb 3 (List.length (scans (series_planner cluster_ctx q))) && Nat.leb 3 (List.length (scans (values_planner std_ctx "job"%string (Some q))))
   | None => false end = true)
  /\ List.length (scans (values_planner std_ctx "job"%string None)) = 1%nat
  /\ List.length (scans (labels_query "time_series_gin_dist"%string 2 1704888000123 1704891600456)) = 1%nat.
Proof. exact label_examples. Qed.
Example prof_guard_met :
  table_info "profiles_series_gin" = idx_untyped /\
  List.length (scans (prof_selector "profiles_series_gin" 1704888000000000000 1704891600000000000
     [{| sl_name := "service_name"; sl_op := MEq; sl_val := "svc" |}; {| sl_name := "a"; sl_op := MRe; sl_val := "b.*" |}])) = 1%nat.
Proof. exact prof_example. Qed.
Example prof_planner_guards_met :
  (forall cluster db f t, prof_tables table_info (prof_ctx cluster db f t)) /\
  [nscans_of (RMergeTraces [sel_ab] tid0); nscans_of (RSelectSeries [sel_ab; sel_job] tid0 ["a"%string] false 15);
   nscans_of (RSeries [[sel_ab]; [sel_job]] ["a"%string]); nscans_of (RLabelNames [[sel_ab]; [sel_job]]); nscans_of (RAnalyze [sel_ab]);
   nscans_of (RLabelValues [] "job"); nscans_of (RMergeProfiles [sel_ab] tid0); nscans_of (RMergeProfiles [sel_ab; sel_absent] tid0)]
   = [29; 9; 29; 4; 8; 1; 3; 5] /\
  List.length (scans (profile_types_query "profiles_series_dist" 1704888000000 1704891600000)) = 1%nat.
Proof. split; [exact prof_ctx_tables | exact prof_examples]. Qed.
Example traceql_estimate_guards_met :
  (match tq_eval_res tq_q0 with Some s => Nat.leb 1 (List.length (tq_scans s)) && tq_all_bounded_b s | None => false end = true) /\
  (match tq_eval_res tq_q1 with Some s => Nat.leb 2 (List.length (tq_scans s)) && tq_all_bounded_b s | None => false end = true) /\
  List.length (tq_scans (TE.all_tags tq_ctx0)) = 1%nat.
Proof. exact tq_eval_examples. Qed.
Example tempo_guards_met :
  List.length (scans (search_query "qryn" true [tg_ab; tg_re] 20 1704888000000000000 1704891600000000000 1000000 0 true)) = 3%nat /\
  List.length (scans (search_query "qryn" false [] 20 1704888000000000000 1704891600000000000 0 0 false)) = 1%nat /\
  List.length (scans (trace_query true "0123456789abcdef0123456789abcdef" 1704888000000000000 1704891600000000000)) = 2%nat.
Proof. exact tempo_examples. Qed.

(* the hypotheses of every_scan_confined / every_scan_bounded_partial are met by queries with `| line_format` (LineFormatPlanner is
   part of the planner model since builder b4-lf: it rewrites one column by an expression that reads no table) *)
From Qryn Require proofs.LogqlTemplateProofs.
Example line_format_queries_are_covered :
  LogqlTemplateProofs.planned_and_processed LogqlTemplateProofs.lf_query LogqlTemplateProofs.lf_ctx = true /\
  no_slf LogqlTemplateProofs.lf_query = true.
Proof. split; [exact LogqlTemplateProofs.line_format_query_planned | reflexivity]. Qed.

(* ---- round 8: from the REQUEST to the hint window of a Prometheus Select (model/ScansPromWindow.v =
   PromQueryRangeController's snapping of start / end to 15 s, PromQueryInstantController, and
   promql.Engine.getTimeRangesForSelector / subqueryTimes with this reader's engine options).  Until now the hint record of
   the Prometheus theorems was a free variable and the window of every selector was computed by the harness in Go. ----
   (a) for EVERY request (range: any start from 1970 on, any end; instant: any time), every selector of every query shape
   (any subqueries around it, range or lookback, any offset) and every instant t the request asks that selector to see
   - at most its reach before the requested start, shifted by the offsets, up to the requested end - t lies inside
   [hints.Start, hints.End]: nothing inside the requested window is missed by the window handed to Select *)
From Qryn Require Import model.ScansPromWindow proofs.ScansPromWindowProofs.
Theorem prom_request_window_covered : forall r p t, req_ok r ->
  req_from_ns r p <= t <= req_to_ns r p ->
  fst (req_hint r p) * 1000000 <= t <= snd (req_hint r p) * 1000000.
Proof. exact request_window_covered. Qed.
Print Assumptions prom_request_window_covered.

(* (b) "widened at most to the 15-second storage boundaries": the hint window is EXACTLY the requested window with its
   start moved to the slot boundary at or below it and its end to the slot boundary at or above it (the oracle's own
   fl_slot / cl_slot on the 15-second slots of metrics_15s), hence wider by less than one slot on either side; an
   instant query is not widened at all *)
Theorem prom_request_window_is_the_slot_hull : forall r p, req_ok r ->
  fst (req_hint r p) * 1000000
    = match r with PRange s _ => fl_slot slot15 s | PInstant t => unix_ms t * 1000000 end - (back_ms p + shift_ms p) * 1000000
  /\ snd (req_hint r p) * 1000000
    = match r with PRange _ e => cl_slot slot15 (unix_s e * 1000000000) | PInstant t => unix_ms t * 1000000 end - shift_ms p * 1000000.
Proof. exact request_window_exact. Qed.
Print Assumptions prom_request_window_is_the_slot_hull.
Theorem prom_request_window_widened_by_less_than_a_slot : forall r p, req_ok r ->
  req_from_ns r p - slot15 < fst (req_hint r p) * 1000000 <= req_from_ns r p
  /\ req_to_ns r p <= snd (req_hint r p) * 1000000 < req_to_ns r p + slot15.
Proof. exact request_window_widened_by_less_than_a_slot. Qed.
Print Assumptions prom_request_window_widened_by_less_than_a_slot.

(* (c) from every request to every read: the statement Select sends for the hint record the engine builds from the
   request reads every row of the requested selector window and nothing further than one 15-second slot (+ the
   millisecond the closed upper bound is written with) outside it - prom_every_scan_bounded with the hint record no
   longer free *)
Theorem prom_request_every_scan_bounded : forall re_full cluster db r p step func ms,
  let h := req_hints r p step func in
  Forall (scan_bounded table_info (prom_win h)) (scans (fst (querier_transpile re_full cluster db h ms)))
  /\ (req_ok r ->
      req_from_ns r p - slot15 < w_lo_min (prom_win h) /\ w_from (prom_win h) <= req_from_ns r p
      /\ req_to_ns r p < w_to (prom_win h) /\ w_hi_max (prom_win h) < req_to_ns r p + slot15 + 1000000).
Proof. exact request_select_scans_bounded. Qed.
Print Assumptions prom_request_every_scan_bounded.

(* (d) which requests can reach the roll-up table at all: only those whose selector reach (range or lookback + ranges and
   offsets of the subqueries around it + its own offset) is a whole number of 15-second slots *)
Theorem prom_request_rollup_needs_slot_aligned_reach : forall s e p step func, 0 <= s ->
  use_raw_data (req_hints (PRange s e) p step func) = false -> (back_ms p + shift_ms p) mod 15000 = 0.
Proof. exact request_rollup_needs_slot_aligned_reach. Qed.
Print Assumptions prom_request_rollup_needs_slot_aligned_reach.

(* (e) why req_ok and the whole-second end are in the statements: a start before 1970 is snapped UP (Go's division
   truncates toward zero) and loses the first second; a sub-second part of the end (RFC 3339 parameters only) is dropped
   before the ceiling *)
Theorem prom_range_start_before_1970_refuted :
  ~ (forall r p t, req_from_ns r p <= t <= req_to_ns r p -> fst (req_hint r p) * 1000000 <= t).
Proof.
  intros H.
  pose proof (H (PRange (-1000000000) 0) {| ps_path := []; ps_range := 0; ps_offset := 0 |} (-301000000000)) as H1.
  assert (P : req_from_ns (PRange (-1000000000) 0) {| ps_path := []; ps_range := 0; ps_offset := 0 |} <= -301000000000
              <= req_to_ns (PRange (-1000000000) 0) {| ps_path := []; ps_range := 0; ps_offset := 0 |})
    by (vm_compute; split; discriminate).
  specialize (H1 P). vm_compute in H1. apply H1. reflexivity.
Qed.
Print Assumptions prom_range_start_before_1970_refuted.
Theorem prom_range_subsecond_end_is_cut :
  let r := PRange 0 15500000000 in let p := {| ps_path := []; ps_range := 0; ps_offset := 0 |} in
  snd (req_hint r p) * 1000000 < 15500000000 /\ req_to_ns r p = 15000000000.
Proof. exact range_subsecond_end_is_cut. Qed.
Print Assumptions prom_range_subsecond_end_is_cut.

Example prom_request_window_hyp :
  let r := PRange 1704888007250000000 1704888603000000000 in
  let p := {| ps_path := [{| sq_offset := 10000; sq_range := 1800000 |}]; ps_range := 60000; ps_offset := 86400000 |} in
  req_ok r /\ req_hint r p = (1704799730000, 1704802205000)
  /\ req_from_ns r p = 1704799737250000000 /\ req_to_ns r p = 1704802193000000000.
Proof. exact request_window_example. Qed.
Example prom_request_rollup_hyp :
  use_raw_data (req_hints (PRange 1704888007250000000 1704888603000000000) {| ps_path := []; ps_range := 0; ps_offset := 0 |} 15000 "") = false.
Proof. exact request_rollup_reachable. Qed.
