(* C13 — every read is confined to the requested time window and signal type. Statements only.

   scans / scan_bounded / the oracle: model/Scans.v.   Planner model: model/LogqlPlan.v (tied to the Go
   planners byte for byte on every run).   SQL semantics for window_semantic: model/SqlEval.v (C07, trusted). *)
From Coq Require Import List ZArith NArith QArith String Ascii Bool.
From Qryn Require Import lib.Strs lib.CivilDate model.Sql model.SqlRender model.SqlEval model.Logql model.LogqlPlan model.Scans
  proofs.ScansProofs proofs.ScansPlanProofs proofs.ScansSemProofs.
Import ListNotations.
Open Scope Z_scope.

(* ---- the oracle run on every recorded statement is exact ------------------------------------------
   it accepts a statement iff every one of its base-table reads meets the declarative demand (window
   bounds on data tables, a covering date range on index tables, the type conjunct), for every table
   classification and every window *)
Theorem oracle_sound : forall info w s,
  every_scan_bounded_b info w s = true -> Forall (scan_bounded info w) (scans s).
Proof. exact every_scan_bounded_b_sound. Qed.
Print Assumptions oracle_sound.

Theorem oracle_complete : forall info w s,
  Forall (scan_bounded info w) (scans s) -> every_scan_bounded_b info w s = true.
Proof. exact every_scan_bounded_b_complete. Qed.
Print Assumptions oracle_complete.

(* ---- every_scan_bounded for the LogQL log-query planners -------------------------------------------
   full strength: for every log query, finalisation flag and planner context (window, limit, direction,
   table layout, table names classified as the schema has them), every base-table read of the statement
   that Plan(script).Process(ctx) builds is bounded.  FALSE of the code: *)
Theorem every_scan_bounded_refuted :
  exists sel fin c p q st' p',
    ctx_tables table_info c /\ plan_log sel fin = Some p /\ process p c pst0 = Some (q, st', p') /\
    ~ Forall (scan_bounded table_info (win c)) (scans q).
Proof.
  destruct slf_refutes as [Hp [[st' [p' Hq]] Hn]].
  exists slf_query, true, std_ctx, slf_plan, slf_select, st', p'.
  split; [exact std_ctx_tables|]. split; [exact Hp|]. split; [exact Hq | exact Hn].
Qed.
Print Assumptions every_scan_bounded_refuted.

(* the strongest true statements.  (a) Every query WITHOUT a label filter in front of its first parser
   (no SimpleLabelFilterPlanner), any matchers, line filters, parsers (json with parameters, regexp),
   label filters after a parser, drop, unwrap, any context: every read is bounded. *)
Theorem every_scan_bounded_partial : forall info sel fin c p q st' p',
  ctx_tables info c -> no_slf sel = true ->
  plan_log sel fin = Some p -> process p c pst0 = Some (q, st', p') ->
  Forall (scan_bounded info (win c)) (scans q).
Proof. exact log_scans_bounded. Qed.
Print Assumptions every_scan_bounded_partial.

(* (b) EVERY log query: each read is bounded, or is the time_series read of a SimpleLabelFilterPlanner,
   which is restricted to the fingerprints of another select of the same statement (itself covered) *)
Theorem every_scan_confined : forall info sel fin c p q st' p',
  ctx_tables info c ->
  plan_log sel fin = Some p -> process p c pst0 = Some (q, st', p') ->
  Forall (fun sc => scan_bounded info (win c) sc \/ fp_restricted sc) (scans q).
Proof. exact log_scans_confined. Qed.
Print Assumptions every_scan_confined.

(* ---- metric scripts (range / vector aggregations, quantile, topk; b-c08's planner model) ---------------
   judged against the context window widened below to the enclosing 15-second storage boundary (win15:
   lower bounds may start at the 15 s boundary at or before From; the roll-up read ends at the 15 s boundary
   at or before To).  (a) without a label filter in front of the first parser: every read is bounded *)
Theorem every_metric_scan_bounded : forall info s fin c p q st' p',
  ctx_tables info c -> 0 <= c_from_ns c -> 0 <= c_to_ns c -> no_slf (stream_selector s) = true ->
  plan_metric s fin = Some p -> process p c pst0 = Some (q, st', p') ->
  Forall (scan_bounded info (win15 c)) (scans q).
Proof. exact metric_scans_bounded. Qed.
Print Assumptions every_metric_scan_bounded.

(* (b) every metric script: bounded, or the fingerprint-restricted time_series read of a SimpleLabelFilterPlanner *)
Theorem every_metric_scan_confined : forall info s fin c p q st' p',
  ctx_tables info c -> 0 <= c_from_ns c -> 0 <= c_to_ns c ->
  plan_metric s fin = Some p -> process p c pst0 = Some (q, st', p') ->
  Forall (fun sc => scan_bounded info (win15 c) sc \/ fp_restricted sc) (scans q).
Proof. exact metric_scans_confined. Qed.
Print Assumptions every_metric_scan_confined.

(* (c) a metric script that is not planned on the 15-second roll-up table is bounded by the context window
   itself, without widening *)
Theorem every_metric_scan_bounded_raw : forall info s fin c p q st' p',
  ctx_tables info c -> analyze_m15 s = false -> no_slf (stream_selector s) = true ->
  plan_metric s fin = Some p -> process p c pst0 = Some (q, st', p') ->
  Forall (scan_bounded info (win c)) (scans q).
Proof. exact metric_scans_bounded_raw. Qed.
Print Assumptions every_metric_scan_bounded_raw.

(* ---- FormatFromDate ------------------------------------------------------------------------------
   the index lower bound (UTC day of from - 30 min) is not after the stored day of any row at or after
   `from`, for every writer whose zone is not more than 30 minutes west of UTC *)
Theorem from_day_covers : forall off from t,
  -1800 <= off -> from <= t -> from_day from <= writer_day off t.
Proof. exact from_day_covers_zone. Qed.
Print Assumptions from_day_covers.

(* ... and not for every zone of the writer (C04 owns the writer-side date) *)
Theorem from_day_covers_all_zones_refuted :
  exists off from t, from <= t /\ ~ from_day from <= writer_day off t.
Proof. destruct from_day_misses_western_writer as [from [t H]]. exists (-18000), from, t. exact H. Qed.
Print Assumptions from_day_covers_all_zones_refuted.

(* ---- window_semantic, relative to SqlEval ---------------------------------------------------------
   a row that passes every conjunct of a timestamp-bounded scan lies inside the widened window *)
Theorem window_semantic : forall re_match parse_float json_get hash_labels tie db w sc r ts,
  ts_bounded w sc -> col_value sc "timestamp_ns" (sc_tsn sc) r ts ->
  kept re_match parse_float json_get hash_labels tie db sc r ->
  w_lo_min w <= ts /\ ts <= w_hi_max w.
Proof. exact kept_in_window. Qed.
Print Assumptions window_semantic.

(* ... and carries the type of the API that was called, or 0 *)
Theorem window_semantic_type : forall re_match parse_float json_get hash_labels tie db w sc r ty,
  type_confined w sc -> col_value sc "type" ["type"%string] r ty ->
  kept re_match parse_float json_get hash_labels tie db sc r ->
  ty = w_type w \/ ty = 0.
Proof. exact kept_type. Qed.
Print Assumptions window_semantic_type.

(* ... and no row inside the requested window is cut off by a timestamp conjunct *)
Theorem window_semantic_complete : forall re_match parse_float json_get hash_labels tie db w sc r ts e,
  (forall lo, has_bnd sc (TsLo lo) -> lo <= w_from w) -> (forall hi, has_bnd sc (TsHi hi) -> w_to w <= hi) ->
  col_value sc "timestamp_ns" (sc_tsn sc) r ts -> w_from w <= ts < w_to w ->
  List.In e (sc_conj sc) ->
  (exists x, List.In x (classify sc e) /\ ((exists z, x = TsLo z) \/ (exists z, x = TsHi z))) ->
  passes re_match parse_float json_get hash_labels tie db r e.
Proof. exact window_row_passes_ts. Qed.
Print Assumptions window_semantic_complete.

(* ---- the hypotheses are met by non-trivial values ------------------------------------------------- *)
Example partial_guard_met :
  no_slf plain_query = true /\ plan_log plain_query true = Some plain_plan /\
  process plain_plan cluster_ctx pst0 = plain_result /\
  match plain_result with Some (q, _, _) => Nat.leb 3 (List.length (scans q)) | None => false end = true.
Proof. exact plain_query_guard. Qed.
Example metric_guards_met :
  (analyze_m15 m15_query = true /\ no_slf (stream_selector m15_query) = true /\ plan_metric m15_query true = Some m15_plan /\
   process m15_plan cluster_ctx pst0 = m15_result /\
   match m15_result with Some (q, _, _) => Nat.leb 3 (List.length (scans q)) | None => false end = true) /\
  (analyze_m15 raw_query = false /\ no_slf (stream_selector raw_query) = true /\ plan_metric raw_query true = Some raw_plan /\
   process raw_plan std_ctx pst0 = raw_result /\
   match raw_result with Some (q, _, _) => Nat.leb 3 (List.length (scans q)) | None => false end = true).
Proof. exact metric_guards. Qed.
Example tables_single_node : ctx_tables table_info std_ctx.
Proof. exact std_ctx_tables. Qed.
Example tables_cluster : ctx_tables table_info cluster_ctx.
Proof. exact cluster_ctx_tables. Qed.
