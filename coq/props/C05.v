(* Property C05 -- no request body can crash or wedge the ingest side.
   Only statements; proofs by reference to proofs/IngestRobustProofs.v, or by computation over the
   lists regenerated from the source on every run (gen/GenGoroutinesWriter.v).
   Scope: everything AFTER the third-party wire decoders (jx, protobuf, pprof, snappy, gzip, multipart):
   those are exercised by the harness, their accept/reject bit is an input of the model. *)
From Coq Require Import List String ZArith NArith Bool Permutation.
From Qryn Require Import model.IngestRobust proofs.IngestRobustProofs model.IngestPipe proofs.IngestPipeProofs model.IngestFraming proofs.IngestFramingProofs model.IngestShared proofs.IngestSharedProofs model.IngestConn proofs.IngestConnProofs model.IngestHanded proofs.IngestHandedProofs gen.GenGoroutinesWriter.
Import ListNotations.

(* ---- goroutines -------------------------------------------------------------------------- *)

(* Every `go` statement under writer/ (regenerated list) either starts with a deferred recover or is on the
   allow-list with the reason it cannot panic; the three goroutines that run decoders on request bytes are
   present and recover.  A new goroutine without recover, or a removed `defer p.tamePanic()`, falsifies it. *)
Theorem unrecovered_goroutines_accounted : inventory_ok gen_goroutines = true.
Proof. vm_compute. reflexivity. Qed.
Print Assumptions unrecovered_goroutines_accounted.

Theorem goroutine_inventory_meaning : forall g, In g gen_goroutines ->
  g_recovers g = true \/ exists c, In (g_file g, g_func g, g_ord g, g_target g, c) allow_list.
Proof. exact (inventory_ok_sound gen_goroutines unrecovered_goroutines_accounted). Qed.
Print Assumptions goroutine_inventory_meaning.

Theorem decoder_goroutines_recover : forall f fn o, In (f, fn, o) must_recover ->
  exists g, In g gen_goroutines /\ g_file g = f /\ g_func g = fn /\ g_ord g = o /\ g_recovers g = true.
Proof. exact (inventory_ok_decoders_recover gen_goroutines unrecovered_goroutines_accounted). Qed.
Print Assumptions decoder_goroutines_recover.

(* ---- the doPush goroutine (no recover) --------------------------------------------------- *)

(* Whatever the decoders hand to onSpan / onEntries / onProfile (any id widths, any sizes, any number of
   flushes, decoder panics and errors anywhere), no InsertServiceV2.Request issued by doPush panics:
   ColFixedStr.Append always gets 16/8 bytes, MLabels[i] is always in range, no service is left with nil
   columns.  (Before fix 267315b this failed: IngestRobustProofs.orig_push_crashes.) *)
Theorem push_goroutine_panic_free :
  (forall evs, fst (do_parse ctx_traces world0 false (parse_spans span_st0 evs)) <> PCrash) /\
  (forall evs, fst (do_parse ctx_logs world0 false (parse_logs logs_st0 evs)) <> PCrash) /\
  (forall evs, fst (do_parse ctx_logs world0 false (parse_prof 0%N evs)) <> PCrash).
Proof.
  split; [|split]; intros evs.
  - apply (spans_no_crash evs span_st0 world0 false); [reflexivity|exact span_st0_ok].
  - apply (logs_no_crash evs logs_st0 world0 false); reflexivity.
  - apply (prof_no_crash evs 0%N world0 false); reflexivity.
Qed.
Print Assumptions push_goroutine_panic_free.

(* ... and every request leaves all five services with their columns (no `svc.columns = nil`), so the
   insert loops (goroutines without recover) never index an empty column list: requests compose. *)
Theorem services_stay_usable : forall w failed, world_ok w = true ->
  (forall evs st, span_st_ok st -> world_ok (snd (do_parse ctx_traces w failed (parse_spans st evs))) = true) /\
  (forall evs st, ts_ok (ls_ts st) -> world_ok (snd (do_parse ctx_logs w failed (parse_logs st evs))) = true) /\
  (forall evs rows, world_ok (snd (do_parse ctx_logs w failed (parse_prof rows evs))) = true).
Proof.
  intros w failed Hw. split; [|split].
  - intros evs st Hst. apply (spans_no_crash evs st w failed Hw Hst).
  - intros evs st Hst. apply (logs_no_crash evs st w failed Hw Hst).
  - intros evs rows. apply (prof_no_crash evs rows w failed Hw).
Qed.
Print Assumptions services_stay_usable.

(* a span whose ids have the wrong width is answered 4xx wherever it stands in the request: whatever precedes it
   (well-formed spans, with any number of 1 MiB flushes) and whatever follows it *)
Theorem malformed_span_ids_rejected : forall pre r rest,
  Forall span_good pre -> negb ((si_tid r =? 16) && (si_sid r =? 8))%N = true ->
  cls_of_parse (fst (do_parse ctx_traces world0 false (parse_spans span_st0 (map EvSpan pre ++ EvSpan r :: rest)))) = C4xx.
Proof. intros pre r rest Hp Hb. apply bad_width_anywhere_is_4xx; [reflexivity|exact span_st0_ok|exact Hp|exact Hb]. Qed.
Print Assumptions malformed_span_ids_rejected.

Example malformed_span_ids_hyps_met :
  let good := {| si_tid := 16; si_sid := 8; si_keys := 3%nat; si_bytes := 600000; si_abytes := 500000 |} in
  let bad := {| si_tid := 3; si_sid := 8; si_keys := 1%nat; si_bytes := 100; si_abytes := 50 |} in
  Forall span_good [good; good] /\ negb ((si_tid bad =? 16) && (si_sid bad =? 8))%N = true.
Proof. split; [repeat constructor|reflexivity]. Qed.

(* ---- loops ------------------------------------------------------------------------------- *)

(* unmarshal.ns returns for EVERY timestamp (19 iterations suffice), including 0 *)
Theorem ns_terminates : forall t, exists n, ns_fuel n t <> None.
Proof. intros t. exists ns_fuel_enough. apply ns_terminates_all. Qed.
Print Assumptions ns_terminates.

(* ... with the intended value, and without uint64 wrap-around (so N models the Go arithmetic exactly) *)
Theorem ns_value : forall n t r, (t < 2 ^ 64)%N -> ns_fuel n t = Some r ->
  (r < 2 ^ 64)%N /\ ((t = 0 /\ r = 0)%N \/ (0 < t /\ 10 ^ 18 <= r)%N).
Proof. intros n t r Ht H. split; [exact (ns_below_2_64_gen n t r Ht H)|exact (ns_result n t r H)]. Qed.
Print Assumptions ns_value.

(* the source of ns still has the guard the model has *)
Theorem ns_source_guarded : gen_ns_guard = true.
Proof. vm_compute. reflexivity. Qed.
Print Assumptions ns_source_guarded.

(* unmarshal.fastFillArray ends for EVERY length (log2 iterations; length 0 returns the empty slice since 6469d55,
   and the source still has that guard) *)
Theorem fast_fill_array_ends : (forall len, fast_fill_array (ffa_fuel len) len = LDone) /\ gen_ffa_guard = true.
Proof. split; [exact fast_fill_array_terminates|vm_compute; reflexivity]. Qed.
Print Assumptions fast_fill_array_ends.

(* impl.fastFill never returns for len > 1 (c >>= 1) -- and nothing calls it *)
Theorem dead_fast_fill_unreachable :
  (forall fuel len, (1 < len)%N -> ff_loop fuel 1 len = None) /\ gen_fastfill_callers = 0%Z.
Proof. split; [exact fast_fill_never_returns|vm_compute; reflexivity]. Qed.
Print Assumptions dead_fast_fill_unreachable.

(* ---- errors ------------------------------------------------------------------------------ *)

(* the model of ErrorHandler is the one in the source *)
Theorem error_handler_matches_source : eh_eqb gen_error_handler error_handler_model = true.
Proof. vm_compute. reflexivity. Qed.
Print Assumptions error_handler_matches_source.

(* Full statement "every error is answered 4xx/5xx" is FALSE of the handler: an untyped error whose text
   begins with "connection reset by peer" writes nothing (the client then sees 200). *)
Theorem every_error_has_status_refuted : exists e, status_of_error e = None.
Proof. exists (e_plain "connection reset by peer: insert failed"). exact reset_prefix_is_silent. Qed.
Print Assumptions every_error_has_status_refuted.

(* Strongest true form: every typed error whose code is one of the codes constructed anywhere under writer/
   (regenerated list), and every untyped error not starting with that marker, gets a 4xx/5xx status. *)
Theorem every_error_has_status_partial : forall e,
  (e_kind e <> KPlain -> In (e_code e) gen_error_codes) ->
  (e_kind e = KPlain -> prefix reset_prefix (e_msg e) = false) ->
  exists c, status_of_error e = Some c /\ (400 <= c <= 599)%Z.
Proof. apply every_error_has_status_gen. vm_compute. reflexivity. Qed.
Print Assumptions every_error_has_status_partial.

Example every_error_hyps_met_typed :
  let e := e400 "hex string is zero" in
  (e_kind e <> KPlain -> In (e_code e) gen_error_codes) /\ (e_kind e = KPlain -> prefix reset_prefix (e_msg e) = false).
Proof. split; [intros _; vm_compute; tauto|intros H; discriminate H]. Qed.
Example every_error_hyps_met_plain :
  let e := e_plain "failed to parse start time: strconv.ParseUint: parsing ""abc"": invalid syntax" in
  (e_kind e <> KPlain -> In (e_code e) gen_error_codes) /\ (e_kind e = KPlain -> prefix reset_prefix (e_msg e) = false).
Proof. split; [intros H; exfalso; apply H; reflexivity|intros _; vm_compute; reflexivity]. Qed.

(* Which REQUESTS could reach the silent branch?  Every untyped error constructed under controller/ and
   utils/unmarshal/ (list regenerated from the source: fmt.Errorf / errors.New not directly wrapped in a typed
   error) begins with literal text chosen by the repository that parts ways with every literal ErrorHandler
   prefix-matches, and ErrorHandler has no substring (Contains) test: so whatever client-controlled text follows
   the head (%w of a strconv error quoting `from`, %s of a label string, %v of a panic value ...) the answer is 500.
   Changing HasPrefix into Contains, or adding an error whose text starts with a verb, falsifies this. *)
Theorem untyped_error_texts_cannot_be_silenced : sites_safe gen_error_handler gen_untyped_error_sites = true.
Proof. vm_compute. reflexivity. Qed.
Print Assumptions untyped_error_texts_cannot_be_silenced.

Theorem untyped_errors_are_answered : forall st, In st gen_untyped_error_sites ->
  forall client_text, status_of_error (e_plain (site_head st ++ client_text)) = Some 500%Z.
Proof. apply sites_safe_sound. vm_compute. reflexivity. Qed.
Print Assumptions untyped_errors_are_answered.

(* the three client-text errors of the modelled routes, for every client string (from, until, label string) *)
Theorem client_text_errors_are_answered : forall s,
  status_of_error (e_from s) = Some 500%Z /\ status_of_error (e_until s) = Some 500%Z /\
  status_of_error (e_labels s) = Some 500%Z.
Proof. exact client_text_errors_answered. Qed.
Print Assumptions client_text_errors_are_answered.

(* ---- size limit -------------------------------------------------------------------------- *)

(* withUnsnappyRequest still refuses to decode blocks that declare more than 10 MiB *)
Theorem snappy_limit_in_source : gen_snappy_limit = Some snappy_limit.
Proof. vm_compute. reflexivity. Qed.
Print Assumptions snappy_limit_in_source.

(* ---- requests ---------------------------------------------------------------------------- *)

(* For every abstract request (any Content-Encoding / Content-Type strings, any from/until/name/precision
   strings, any span list with any id fields, any resource/attribute shape, any snappy framing, any verdict of
   the wire decoders) the modelled pipeline ANSWERS: the predicted outcome is never a crash and never a hang. *)
Theorem no_request_crashes_or_wedges : forall q, predict q <> Exact Crash /\ predict q <> Exact Hang.
Proof. exact predict_is_response. Qed.
Print Assumptions no_request_crashes_or_wedges.

(* "Malformed or hostile input is answered with an error status": every abstract request that is malformed
   (unsupported/undecodable Content-Encoding, unparsable from/until, label part of name that does not compile,
   unknown Content-Type on /ingest, a Zipkin span with an undecodable or missing id / bad time field, an OTLP span
   with a wrong id width / valueless attribute / absent resource, a body the wire decoder rejects, a bad precision)
   is predicted 4xx or 5xx ... *)
Theorem malformed_input_is_rejected : forall q, malformed q = true -> expect_is_error (predict q) = true.
Proof.
  intros q H. destruct (q_body q) eqn:E;
    try (apply predict_char; [rewrite E; discriminate|exact H]).
  unfold malformed in H. rewrite E in H. discriminate H.
Qed.
Print Assumptions malformed_input_is_rejected.

(* ... and every other modelled request is accepted (2xx): the model rejects nothing that is well-formed *)
Theorem wellformed_input_is_accepted : forall q, q_body q <> BBytes -> malformed q = false -> predict q = Exact C2xx.
Proof. intros q Hb H. apply predict_char; assumption. Qed.
Print Assumptions wellformed_input_is_accepted.

Example malformed_hyp_met :
  malformed {| q_ce := ""; q_gz_ok := false; q_ct := "multipart/form-data; boundary=x"; q_wire_ok := true;
               q_body := BIngest "12x" "10" "app{a=b}" |} = true.
Proof. vm_compute. reflexivity. Qed.
Example wellformed_hyp_met :
  malformed {| q_ce := "gzip"; q_gz_ok := true; q_ct := "ndjson"; q_wire_ok := true;
               q_body := BZipkin true [{| z_tid := ZStr "1"; z_sid := ZStr "690Ed2bfC9DECBfd00"; z_pid := ZAbsent; z_ts := TStrNum; z_dur := TAbsent |}] |} = false.
Proof. vm_compute. reflexivity. Qed.

(* non-trivial instances: the former witnesses of defects 8 and 9 *)
Example ingest_from_zero_is_answered :
  predict {| q_ce := ""; q_gz_ok := false; q_ct := "binary/octet-stream"; q_wire_ok := true;
             q_body := BIngest "0" "10" "app{a=b}" |} = Exact C2xx.
Proof. vm_compute. reflexivity. Qed.
Example otlp_three_byte_trace_id_is_rejected :
  predict {| q_ce := ""; q_gz_ok := false; q_ct := "application/x-protobuf"; q_wire_ok := true;
             q_body := BOtlp [{| r_has_resource := true; r_spans := [{| o_tid := 16; o_sid := 8; o_nilattr := false |};
                                                                    {| o_tid := 3; o_sid := 8; o_nilattr := false |}] |}] |}
  = Exact C4xx.
Proof. vm_compute. reflexivity. Qed.
Example zipkin_without_trace_id_is_rejected :
  predict {| q_ce := ""; q_gz_ok := false; q_ct := "application/json"; q_wire_ok := true;
             q_body := BZipkin false [{| z_tid := ZAbsent; z_sid := ZStr "690Ed2bfC9DECBfd"; z_pid := ZAbsent; z_ts := TNum; z_dur := TNum |}] |}
  = Exact C4xx.
Proof. vm_compute. reflexivity. Qed.


(* ========================================================================================== *)
(* ---- the pipeline AROUND the decoders: goroutine programs, channel, consumer (model/IngestPipe.v) ---- *)

(* The four `go func(){..}()` bodies of utils/unmarshal/builder.go, the body of tamePanic and the receive loop of
   controller doParse, regenerated from the source as PROGRAMS, are the modelled ones.  (A `defer close(p.res)`,
   a removed close in the error branch, a removed tamePanic, a return without the drain goroutine falsify it.) *)
Theorem parser_goroutines_match_source :
  programs_eqb gen_parser_programs parser_programs_model = true /\
  gsimples_eqb gen_tame_panic tame_model = true /\ gen_tame_guarded = true /\
  consumer_eqb gen_consumer consumer_model = true.
Proof. vm_compute. split; [|split; [|split]]; reflexivity. Qed.
Print Assumptions parser_goroutines_match_source.

(* For EVERY behaviour of the decoder oracle d (any responses flushed by the batching handlers while it runs; then
   it returns nil, returns any error, or panics) each parser goroutine: does not die of an un-recovered panic (false),
   sends the flushed responses, then exactly ONE last response (the batch / the error / "panic: ..."), closes the
   channel exactly once and does nothing after that. *)
Theorem parser_goroutines_follow_protocol : forall d,
  run_prog tame_model spans_prog None d = (protocol_trace d [d_batch d], false) /\
  run_prog tame_model logs_prog None d = (protocol_trace d [d_batch d], false) /\
  run_prog tame_model prof_prog None d = (protocol_trace d (if d_rows d then [d_batch d] else []), false) /\
  (forall e, run_prog tame_model pre_err_prog (Some e) d = ([OSend (resp_err e); OClose], false)).
Proof.
  intros d. split; [apply run_spans_prog|split; [apply run_logs_prog|split; [apply run_prof_prog|]]].
  intros e. apply run_pre_err_prog.
Qed.
Print Assumptions parser_goroutines_follow_protocol.

(* The programs send exactly what the fused definitions of model/IngestRobust.v (parse_spans / parse_logs /
   parse_prof, over which push_goroutine_panic_free is stated) say: the older theorems are about these programs. *)
Theorem programs_send_what_is_pushed :
  (forall st evs, sends_of (fst (run_prog tame_model spans_prog None (spans_dres st evs))) = parse_spans st evs) /\
  (forall st evs, sends_of (fst (run_prog tame_model logs_prog None (logs_dres st evs))) = parse_logs st evs) /\
  (forall rows evs, sends_of (fst (run_prog tame_model prof_prog None (prof_dres rows evs))) = parse_prof rows evs).
Proof. split; [exact spans_prog_sends|split; [exact logs_prog_sends|exact prof_prog_sends]]. Qed.
Print Assumptions programs_send_what_is_pushed.

(* no_crash + no_wedge for the whole system parser goroutine || unbuffered channel || handler (|| drain goroutine):
   for every event stream of the decoders, from every usable state of the services and every well-formed batch, the
   run ends in SAllDone r with r <> PCrash: the handler has an answer, the parser goroutine and the drain goroutine
   have returned (nobody blocked in a send or a receive), no goroutine panicked, the services keep their columns. *)
Theorem no_request_wedges_or_crashes_the_pipeline :
  (forall evs st w, world_ok w = true -> span_st_ok st ->
     served (serve tame_model spans_prog consumer_model ctx_traces w (spans_dres st evs))) /\
  (forall evs st w, world_ok w = true -> ts_ok (ls_ts st) ->
     served (serve tame_model logs_prog consumer_model ctx_logs w (logs_dres st evs))) /\
  (forall evs rows w, world_ok w = true ->
     served (serve tame_model prof_prog consumer_model ctx_logs w (prof_dres rows evs))).
Proof. split; [exact spans_served|split; [exact logs_served|exact prof_served]]. Qed.
Print Assumptions no_request_wedges_or_crashes_the_pipeline.

Example pipeline_hyps_met : world_ok world0 = true /\ span_st_ok span_st0 /\ ts_ok (ls_ts logs_st0).
Proof. split; [reflexivity|split; [exact span_st0_ok|reflexivity]]. Qed.
(* a non-trivial run: a flush (> 1 MiB), then a span with a 3-byte trace id: answered 4xx, everybody finished *)
Example pipeline_run_with_flush_and_bad_span :
  let good := {| si_tid := 16; si_sid := 8; si_keys := 3%nat; si_bytes := 600000; si_abytes := 500000 |} in
  let bad := {| si_tid := 3; si_sid := 8; si_keys := 1%nat; si_bytes := 100; si_abytes := 50 |} in
  fst (serve tame_model spans_prog consumer_model ctx_traces world0 (spans_dres span_st0 [EvSpan good; EvSpan good; EvSpan bad; EvSpan good]))
  = SAllDone (PStatus e_bad_ids).
Proof. vm_compute. reflexivity. Qed.

(* What the obligations above protect against (each variant of the programs is refuted by a concrete decoder
   behaviour): deferred close next to tamePanic = double close on a decoder panic (seeded change C05-c); no
   tamePanic = process exit; error branch without close = drain goroutine blocked forever; a consumer that returns
   without draining = a producer with something left to send is blocked forever. *)
Theorem protocol_variants_refuted :
  snd (run_prog tame_model deferred_close_prog None (some_dres DEndPanic)) = true /\
  snd (run_prog tame_model {| gp_defers := []; gp_body := gp_body spans_prog |} None (some_dres DEndPanic)) = true /\
  fst (serve tame_model {| gp_defers := [DTame]; gp_body := [GS GDecode; GIfErr [GSendErr; GReturn]; GS GSendBatch; GS GClose] |}
         consumer_model ctx_traces world0 (some_dres (DEndErr e_json))) = SDrainBlocked (PStatus e_json) /\
  fst (sys_run false ctx_traces world0 (CRecv false) [OSend (resp_err e_json); OSend (resp_spans [] []); OClose])
  = SProducerBlocked (PStatus e_json).
Proof.
  split; [exact deferred_close_crashes_on_panic|split; [exact without_tame_panic_crashes|
  split; [exact missing_close_leaks|exact undrained_consumer_blocks_producer]]].
Qed.
Print Assumptions protocol_variants_refuted.

(* ---- batch_not_corrupted: what reaches the span services is rectangular ---------------------- *)

(* onSpan as regenerated from the source (one append per statement, the index expressions val[i] that can panic,
   the flush), the slice fields of model.TempoSamples / model.TempoTag and the columns read by the two ProcessRequest
   closures of service/impl/tempoInsertService.go: every slice field is appended exactly once per span (per key),
   nothing else is, the flush resets the batch, and the insert services read only those fields. *)
Theorem on_span_appends_every_column_once :
  handler_ok gen_on_span_cols gen_spans_fields gen_attrs_fields gen_spans_consumed gen_attrs_consumed = true
  /\ gen_on_span_unknown = 0%Z /\ hp_width_check gen_on_span_cols = true.
Proof. vm_compute. split; [|split]; reflexivity. Qed.
Print Assumptions on_span_appends_every_column_once.

(* ... hence EVERY batch that reaches the channel -- flushes and the last one -- has all columns of the same
   length, for every stream of spans (any id widths, any numbers of keys and values: fewer values than keys panic in
   the middle of the appends), decoder panics and errors: a torn batch is never handed to the shared insert buffer. *)
Theorem batches_are_rectangular : forall evs,
  Forall (fun b => batch_rect b = true)
         (sent_batches gen_on_span_cols gen_spans_fields gen_attrs_fields (batch0 gen_spans_fields gen_attrs_fields) evs).
Proof.
  intros evs. apply (sent_batches_rect gen_on_span_cols gen_spans_fields gen_attrs_fields gen_spans_consumed gen_attrs_consumed).
  - vm_compute. reflexivity.
  - apply batch0_inv.
Qed.
Print Assumptions batches_are_rectangular.

(* the general form, for any handler that passes the check (and the check is not vacuous: torn_handler_rejected) *)
Theorem checked_handlers_send_rectangular_batches : forall h sf af cs ca, handler_ok h sf af cs ca = true ->
  forall evs, Forall (fun b => batch_rect b = true) (sent_batches h sf af (batch0 sf af) evs).
Proof. intros h sf af cs ca H evs. apply (sent_batches_rect h sf af cs ca H). apply batch0_inv. Qed.
Print Assumptions checked_handlers_send_rectangular_batches.

Example handler_ok_hyp_met_and_needed :
  handler_ok on_span_cols_model spans_fields_model attrs_fields_model spans_fields_model attrs_fields_model = true /\
  handler_ok torn_handler spans_fields_model attrs_fields_model spans_fields_model attrs_fields_model = false /\
  forallb batch_rect (sent_batches torn_handler spans_fields_model attrs_fields_model (batch0 spans_fields_model attrs_fields_model)
        [CvSpan {| se_tid := 16; se_sid := 8; se_keys := 1; se_vals := 1; se_bytes := 100 |}]) = false.
Proof. split; [exact on_span_cols_model_ok|exact torn_handler_rejected]. Qed.

(* ---- bounded time: work measures ---------------------------------------------------------- *)

(* channel operations of the span goroutine (= iterations of the handler's receive loop + 1) are at most the number
   of decoder events + 2; the number of flushes times 1 MiB is at most the bytes accounted by the events (a body of
   n bytes cannot cause more than n / 1 MiB + 1 responses); goroutines per request <= 2 + 5 * responses. *)
Theorem pipeline_work_is_linear :
  (forall evs st, (List.length (fst (run_prog tame_model spans_prog None (spans_dres st evs))) <= List.length evs + 2)%nat) /\
  (forall evs st, let '(f, _, s) := decode_spans_with on_span st evs in
                  (N.of_nat (List.length f) * MiB + ss_size s <= ss_size st + span_bytes evs)%N) /\
  (forall c rs, (goroutines_of c rs <= goroutines_bound (List.length rs))%nat).
Proof. split; [exact spans_channel_ops_linear|split; [exact decode_spans_flush_bytes|exact goroutines_linear]]. Qed.
Print Assumptions pipeline_work_is_linear.

(* ---- per-route parser selection ----------------------------------------------------------- *)

(* the controller constructors (Build(append(cfg.ExtraMiddleware, ...))) regenerated from controller/*.go are the
   modelled route table, and every path registered in router/*.go with a request pipeline has its entry *)
Theorem routes_match_source :
  routes_eqb gen_routes routes_model = true /\
  forallb (fun p => is_some (find_route gen_routes (snd p))) gen_paths = true.
Proof. vm_compute. split; reflexivity. Qed.
Print Assumptions routes_match_source.

(* PusherCtx.DoParse picks the parser by ranging over a Go MAP (unspecified order) and taking the first key that is
   a prefix of the Content-Type: for every route and every enumeration order of its table the same parser is
   selected -- no key of a table is a prefix of another key.  The answer to a request does not depend on it. *)
Theorem content_type_dispatch_is_deterministic : forall r, In r gen_routes ->
  forall order, Permutation order (rt_parsers r) -> forall ct,
  dispatch_in_order order (rt_parsers r) ct = route_dispatch r ct.
Proof.
  intros r Hin order Hp ct. unfold route_dispatch. apply dispatch_order_irrelevant; [|exact Hp].
  assert (H : forallb (fun r => table_unambiguous (rt_parsers r)) gen_routes = true) by (vm_compute; reflexivity).
  rewrite forallb_forall in H. exact (H r Hin).
Qed.
Print Assumptions content_type_dispatch_is_deterministic.

Example dispatch_hyps_met_and_needed :
  (exists r, In r gen_routes /\ rt_handler r = "PushStreamV2"%string /\ Permutation (rev (rt_parsers r)) (rt_parsers r)
             /\ route_dispatch r "application/x-protobuf; x" = Some "UnmarshalProtoV2"%string
             /\ route_dispatch r "*/*" = Some "DecodePushRequestStringV2"%string) /\
  table_unambiguous ambiguous_table = false /\
  dispatch_in_order ambiguous_table ambiguous_table "application/json"
  <> dispatch_in_order (rev ambiguous_table) ambiguous_table "application/json".
Proof.
  split; [|exact ambiguous_table_depends_on_order].
  eexists. split; [do 5 right; left; reflexivity|]. split; [reflexivity|]. split; [|split; reflexivity].
  apply Permutation_sym, Permutation_rev.
Qed.

(* the routes that have no field-level model (Datadog logs/metrics, Cloudflare, Elastic doc/bulk, OTLP logs, and in
   fact every route of the table): predicted from the regenerated route table -- Content-Encoding, Content-Type
   dispatch, verdict of the decoder, success status of the route.  Malformed (unsupported/undecodable encoding, no
   parser for the Content-Type, body rejected) => 4xx/5xx; otherwise 2xx; never a crash or a hang. *)
Theorem table_routes_answer : forall q, is_some (find_route gen_routes (g_handler q)) = true ->
  (g_malformed gen_routes q = true -> expect_is_error (g_predict gen_routes q) = true) /\
  (g_malformed gen_routes q = false -> g_predict gen_routes q = Exact C2xx) /\
  g_predict gen_routes q <> Exact Crash /\ g_predict gen_routes q <> Exact Hang.
Proof. intros q. apply g_predict_char. vm_compute. reflexivity. Qed.
Print Assumptions table_routes_answer.

Example table_routes_hyp_met :
  let q := {| g_handler := "PushDatadogV2"; g_ce := ""; g_gz_ok := false; g_ct := "text/plain"; g_wire_ok := true |} in
  is_some (find_route gen_routes (g_handler q)) = true /\ g_malformed gen_routes q = true /\ g_predict gen_routes q = Exact C4xx.
Proof. vm_compute. split; [|split]; reflexivity. Qed.

(* ---- what can panic OUTSIDE the recover scopes ----------------------------------------------- *)

(* Every index / slice / single-value type assertion that runs on the HTTP handler goroutine -- all of controller/,
   and in utils/unmarshal/ everything reached from Build / Do / doParse* (without their `go` literals), the parser
   constructors and the PreParse closures (list regenerated from the source) -- is on the allow-list with the reason
   it cannot panic; the functions of package unmarshal that can run there are setters, resets and constructors; every
   route looks up its services first (which stores "node" and the services with the asserted types).  Every other
   index expression of utils/unmarshal/ runs below Decode(), i.e. inside a goroutine that begins with defer tamePanic
   (decoder_goroutines_recover).  A new index expression or assertion in a controller falsifies this. *)
Theorem handler_side_panic_sites_accounted :
  sites_ok gen_handler_side_sites = true /\
  strs_subset gen_handler_side_functions handler_side_functions_model = true /\
  forallb first_pre_is_service gen_routes = true /\
  importers_ok gen_unmarshal_importers = true /\     (* nothing but controller/ can call into package unmarshal *)
  ctx_contract_ok gen_ctx_writes gen_ctx_asserted_reads = true.   (* asserted context keys and all their writers *)
Proof. vm_compute. split; [|split; [|split; [|split]]]; reflexivity. Qed.
Print Assumptions handler_side_panic_sites_accounted.

Theorem handler_side_sites_meaning : forall f fn k e, In (f, fn, k, e) gen_handler_side_sites ->
  exists c, In (f, fn, k, e, c) site_allow_list.
Proof. apply sites_ok_sound. vm_compute. reflexivity. Qed.
Print Assumptions handler_side_sites_meaning.

(* ---- bytes read per request: the decoded size of a compressed body is limited (fix of the third session) --------- *)

(* Before the fix the routes read gzip.NewReader / snappy.NewReader themselves: "the bytes a request makes the server read
   stay within what the oracle tolerates for its size" was FALSE (100 KiB on the wire, 100 MiB decoded; replayed on the real
   router as 33 KB -> 590 MB allocated; former finding decompression-amplification).  Kept for the record: *)
Theorem decoded_size_unbounded_before_the_fix : exists ce body decoded,
  (0 <= decoded <= gzip_max_ratio * body)%Z /\ ~ (bytes_read ce body decoded <= alloc_bound_bytes body)%Z.
Proof.
  exists "gzip"%string, 102400%Z, 104857600%Z. destruct gzip_amplification_witness as [H1 H2].
  split; [exact H1|]. intros H. apply (Z.lt_irrefl (alloc_bound_bytes 102400)). eapply Z.lt_le_trans; [exact H2|exact H].
Qed.
Print Assumptions decoded_size_unbounded_before_the_fix.

(* helpers.LimitDecoded (regenerated and pinned: limiter_in_source below), for EVERY sequence of Read calls of a consumer
   (any buffer sizes) and EVERY behaviour of the decompressor below it (any chunking, corrupt at any point), whatever the
   decoded size of the body: never a negative count, and in total at most `limit` bytes are handed over *)
Theorem limited_reader_never_delivers_more_than_the_limit : forall limit decoded calls,
  (0 <= limit)%Z -> calls_ok calls ->
  (0 <= delivered (lim_run (lim_init limit decoded) calls) <= limit)%Z.
Proof. exact limited_reader_bound. Qed.
Print Assumptions limited_reader_never_delivers_more_than_the_limit.

Example limited_reader_hyps_met :
  (calls_ok ([(512, 100); (0, 5); (4096, 70000)]%Z)) /\
  (lim_run (lim_init 600 100000) ([(512, 100); (0, 5); (4096, 70000)]%Z) = ([(100, ENil); (0, ENil); (500, ETooLong)]%Z)).
Proof. split; [repeat constructor; discriminate|reflexivity]. Qed.

(* a body within the limit is read exactly as before the fix: same counts, same errors, call by call *)
Theorem limited_reader_is_transparent_within_the_limit : forall limit decoded calls,
  calls_ok calls -> (0 <= decoded <= limit)%Z -> lim_run (lim_init limit decoded) calls = under_run decoded calls.
Proof. exact limited_reader_transparent. Qed.
Print Assumptions limited_reader_is_transparent_within_the_limit.

Example limited_reader_transparent_hyps_met :
  (calls_ok ([(512, 100); (4096, 70000); (8, 1)]%Z)) /\ (0 <= 600 <= 600)%Z /\
  (under_run 600 ([(512, 100); (4096, 70000); (8, 1)]%Z) = ([(100, ENil); (500, ENil); (0, EEof)]%Z)).
Proof. split; [repeat constructor; discriminate|split; [split; discriminate|reflexivity]]. Qed.

(* io.ReadAll over the limiter (withUnsnappyRequest, withBufferedBody, the OTLP PreRequest): it returns the whole body iff
   the body is within the limit; beyond it the loop ends with the 400 error after exactly `limit` buffered bytes; a corrupt
   stream or an interrupted loop never buffered more than min(decoded, limit) *)
Theorem read_all_over_the_limiter : forall limit decoded calls, calls_ok calls -> (0 <= limit)%Z -> (0 <= decoded)%Z ->
  match read_all (lim_init limit decoded) calls 0 with
  | AllOk n => n = decoded /\ (decoded <= limit)%Z
  | AllErr ETooLong n => n = limit /\ (limit < decoded)%Z
  | AllErr EUnder n => (n <= Z.min decoded limit)%Z
  | AllErr _ _ => False
  | AllMore n => (n <= Z.min decoded limit)%Z
  end.
Proof. exact read_all_result. Qed.
Print Assumptions read_all_over_the_limiter.

(* bounded time: with room in the buffer and a decompressor that makes progress the loop ends within min(decoded, limit+1) + 2 reads *)
Theorem read_all_over_the_limiter_terminates : forall limit decoded calls, calls_progress calls -> (0 <= limit)%Z -> (0 <= decoded)%Z ->
  (Z.min decoded (limit + 1) + 1 < Z.of_nat (List.length calls))%Z ->
  match read_all (lim_init limit decoded) calls 0 with AllMore _ => False | _ => True end.
Proof. exact read_all_terminates. Qed.
Print Assumptions read_all_over_the_limiter_terminates.

Example read_all_hyps_met :
  (calls_progress (repeat ((512, 300)%Z) 6)) /\ (read_all (lim_init 1000 5000) (repeat ((512, 300)%Z) 6) 0 = AllErr ETooLong 1000).
Proof. split; [repeat constructor; discriminate|reflexivity]. Qed.

(* the full form of what was refuted: the bytes a request makes the server read are bounded by its wire size and the
   operator's limit alone, for every Content-Encoding and every compression ratio; so is the oracle's allowance *)
Theorem decoded_size_bounded : forall ce body decoded limit, (0 <= body)%Z -> (0 <= limit)%Z ->
  (bytes_read_limited ce body decoded limit <= Z.max body limit)%Z.
Proof. exact bytes_read_limited_bound. Qed.
Print Assumptions decoded_size_bounded.

Theorem allocation_allowance_independent_of_the_compression_ratio : forall ob,
  (served_kb ob <= Z.max (ob_body_kb ob) (ob_limit_kb ob))%Z.
Proof. exact served_kb_bound. Qed.
Print Assumptions allocation_allowance_independent_of_the_compression_ratio.

(* fourth session (fix 4: the limiter also stands in front of a body sent WITHOUT Content-Encoding): the bytes a request
   makes the server read, and the oracle's allowance, are bounded by the operator's limit alone -- whatever the encoding,
   the compression ratio and the size of the body on the wire *)
Theorem request_size_bounded_by_the_limit_alone : forall ce body decoded limit,
  (bytes_read_limited ce body decoded limit <= limit)%Z.
Proof. exact bytes_read_limited_by_limit. Qed.
Print Assumptions request_size_bounded_by_the_limit_alone.

Theorem allocation_allowance_bounded_by_the_limit_alone : forall ob, (0 < ob_limit_kb ob)%Z -> (served_kb ob <= ob_limit_kb ob)%Z.
Proof. exact served_kb_by_limit. Qed.
Print Assumptions allocation_allowance_bounded_by_the_limit_alone.

Example allowance_hypothesis_met :
  let ob := {| ob_outcome := O4xx; ob_canary_ok := true; ob_alloc_kb := 900; ob_body_kb := 204800; ob_decoded_kb := 204800; ob_limit_kb := 1024 |} in
  (0 < ob_limit_kb ob)%Z /\ served_kb ob = 1024%Z /\ served_kb_v3 ob = 204800%Z.
Proof. vm_compute. repeat split. Qed.

(* the defect, for the record: after 3b40c0c a body without Content-Encoding still reached the routes whole (io.ReadAll in
   withUnsnappyRequest, the OTLP PreRequest, withBufferedBody): for every limit there is a body that makes the server read more *)
Theorem plain_bodies_were_unbounded_before_the_fix : forall limit, (0 <= limit)%Z ->
  exists body, (limit < bytes_read_limited_v3 "" body body limit)%Z.
Proof. exact bytes_read_v3_plain_unbounded. Qed.
Print Assumptions plain_bodies_were_unbounded_before_the_fix.

(* the limiter in the source: every Content-Encoding WithOverallContextMiddleware accepts (other than none) replaces the
   body by readColser{helpers.LimitDecoded(reader)}; LimitDecoded starts at pbPool.limit (50 MiB until SetGlobalLimit halves
   http_settings.input_buffer_mb); Read is the modelled statement list; the error is a 400; the snappy BLOCK limit stays *)
Theorem limiter_in_source :
  limiter_source_ok gen_content_encodings gen_ce_body_wraps gen_lim_new gen_lim_read gen_err_decoded_too_long
    gen_pb_pool_limit gen_set_global_limit_pb = true /\ gen_snappy_limit = Some snappy_limit.
Proof. vm_compute. split; reflexivity. Qed.
Print Assumptions limiter_in_source.

(* ---- the connection below the body: a client that stops sending (fix of the third session) ------------------ *)

(* main.go httpStart serves the router with an http.Server whose ReadTimeout is regenerated from the source
   (server_config_in_source).  For EVERY client behaviour after the request head (any deliveries, silences, a close, or
   silence for ever) the handler's wait for the body ends: the body is complete before the deadline, or Read fails no
   later than the deadline and the handler returns with an error status.  No request holds a handler goroutine for ever. *)
Theorem no_client_holds_a_handler_forever : forall need evs,
  match read_body gen_server_read_timeout_ms need 0 0 evs with
  | BodyRead t => (0 <= t < gen_server_read_timeout_ms)%Z
  | BodyAborted t => (0 <= t <= gen_server_read_timeout_ms)%Z
  | BodyWaitsForever => False
  end.
Proof. intros need evs. apply stalled_body_released. vm_compute. reflexivity. Qed.
Print Assumptions no_client_holds_a_handler_forever.

Example stalled_client_is_cut_at_the_deadline :
  read_body gen_server_read_timeout_ms 1000 0 0 [CDeliver 10; CSilence 3600000] = BodyAborted 120000.
Proof. vm_compute. reflexivity. Qed.

(* before the fix (http.Serve(listener, server): a zero-value http.Server, no deadline) this was FALSE: a client that sends
   part of its body and then nothing held the handler however long one waited -- replayed over a real listener by
   `ingestfuzz --stall` (corpus/C05/observed_before_fix.txt) *)
Theorem zero_value_server_held_handlers_forever : forall need sent silences, (0 <= sent < need)%Z ->
  read_body 0 need 0 0 (CDeliver sent :: map CSilence silences) = BodyWaitsForever.
Proof. exact stalled_body_held_without_deadline. Qed.
Print Assumptions zero_value_server_held_handlers_forever.

Example zero_value_server_hyps_met : (0 <= 65 < 130)%Z /\ read_body 0 130 0 0 (CDeliver 65 :: map CSilence [1200; 86400000]%Z) = BodyWaitsForever.
Proof. split; [split; [discriminate|reflexivity]|reflexivity]. Qed.

Theorem server_config_in_source :
  server_source_ok gen_server_serve gen_server_read_timeout_ms gen_server_read_header_timeout_ms = true.
Proof. vm_compute. reflexivity. Qed.
Print Assumptions server_config_in_source.

(* ---- NDJSON framing: the bufio.Scanner loops of the Cloudflare, Elasticsearch-bulk and Zipkin-NDJSON decoders ----- *)

(* the loops are regenerated from the source (scanner.Split / scanner.Buffer, the error checks inside the loop, the
   scanner.Err() check after it, the final return nil); the line handlers (jx, onEntries, decodeSpan) and the reader are
   oracles: any verdict per line, any line lengths, a failing reader at the end *)
Theorem framing_loops_match_source : frame_progs_eqb gen_frame_progs frame_progs_model = true /\ forallb frame_ok gen_frame_progs = true.
Proof. vm_compute. split; reflexivity. Qed.
Print Assumptions framing_loops_match_source.

(* never a silent drop: whenever a regenerated loop returns nil it has handed EVERY line of the body to the line handler,
   every handler call returned nil, no line reached the token limit and the reader ended with EOF *)
Theorem ndjson_framing_never_drops_a_line : forall p b n, In p gen_frame_progs -> frame_run p b = FrOk n ->
  n = Z.of_nat (List.length (body_lines b)) /\ nd_malformed (fp_max_token p) b = false.
Proof.
  intros p b n Hin. apply frame_ok_means_every_line_handled.
  assert (H : forallb frame_ok gen_frame_progs = true) by (vm_compute; reflexivity).
  rewrite forallb_forall in H. exact (H p Hin).
Qed.
Print Assumptions ndjson_framing_never_drops_a_line.

(* every framing error becomes an error: a line the handler refuses, a line of 16 MiB or more, a reader that fails (the
   decoded-size limiter, a corrupt gzip stream, the read deadline) make Decode return a typed error -- answered 4xx/5xx by
   ErrorHandler (every_error_has_status_partial), never 2xx *)
Theorem ndjson_framing_errors_are_reported : forall p b, In p gen_frame_progs -> nd_malformed (fp_max_token p) b = true ->
  exists n, frame_run p b = FrErr n.
Proof.
  intros p b Hin. apply malformed_body_is_an_error.
  assert (H : forallb frame_ok gen_frame_progs = true) by (vm_compute; reflexivity).
  rewrite forallb_forall in H. exact (H p Hin).
Qed.
Print Assumptions ndjson_framing_errors_are_reported.

Theorem ndjson_wellformed_body_is_fully_handled : forall p b, In p gen_frame_progs -> nd_malformed (fp_max_token p) b = false ->
  frame_run p b = FrOk (Z.of_nat (List.length (body_lines b))).
Proof.
  intros p b Hin. apply wellformed_body_fully_handled.
  assert (H : forallb frame_ok gen_frame_progs = true) by (vm_compute; reflexivity).
  rewrite forallb_forall in H. exact (H p Hin).
Qed.
Print Assumptions ndjson_wellformed_body_is_fully_handled.

Example ndjson_framing_hyps_met :
  let p := {| fp_name := "elasticBulkDec"; fp_split_lines := true; fp_max_token := 16777216; fp_line_err_returns := true;
              fp_checks_scan_err := true; fp_scan_err_typed := true; fp_returns_nil := true |} in
  let long := {| nb_lines := [{| nl_len := 40; nl_ok := true; nl_rows := 1 |}; {| nl_len := 16777216; nl_ok := true; nl_rows := 1 |}; {| nl_len := 40; nl_ok := true; nl_rows := 1 |}];
                 nb_tail := None; nb_end := EndClean |} in
  let good := {| nb_lines := [{| nl_len := 40; nl_ok := true; nl_rows := 1 |}; {| nl_len := 16777215; nl_ok := true; nl_rows := 1 |}];
                 nb_tail := Some {| nl_len := 12; nl_ok := true; nl_rows := 1 |}; nb_end := EndClean |} in
  In p gen_frame_progs /\ nd_malformed 16777216 long = true /\ frame_run p long = FrErr 1 /\
  nd_malformed 16777216 good = false /\ frame_run p good = FrOk 3.
Proof. vm_compute. split; [right; left; reflexivity|repeat split]. Qed.

(* the loops as they were before 630762c / 41ad518 (64 KiB tokens, scanner.Err() not looked at): a 70000-byte line ended the
   scan, it and the line after it were dropped, and Decode returned nil -- answered 2xx (C03's and C06's repairs) *)
Theorem scanner_error_was_dropped_before_the_fix :
  frame_run frame_prog_orig {| nb_lines := [{| nl_len := 70000; nl_ok := true; nl_rows := 1 |}; {| nl_len := 20; nl_ok := true; nl_rows := 1 |}]; nb_tail := None; nb_end := EndClean |} = FrOk 0.
Proof. exact scanner_error_was_dropped. Qed.
Print Assumptions scanner_error_was_dropped_before_the_fix.

(* ---- the equal-length contract of the non-literal onEntries call sites is regenerated, not read --------------- *)

(* log_batches_are_rectangular holds for streams whose onEntries calls hand over four slices of one length; 8 call sites pass
   one-element literals; for each of the other 5 the translator's syntactic lockstep analysis (see model/IngestFraming.v
   section 4) succeeds on the current source: the slices passed change length only together *)
Theorem non_literal_on_entries_sites_change_lengths_in_lockstep : lockstep_ok gen_on_entries_calls gen_on_entries_lockstep = true.
Proof. vm_compute. reflexivity. Qed.
Print Assumptions non_literal_on_entries_sites_change_lengths_in_lockstep.

(* ---- the scripted-decoder correspondence (harness pipefuzz) ----------------------------------- *)

(* What the model expects an insert service to receive in a pipefuzz case -- computed by the interpreter over the
   regenerated onSpan, resp. the profile size rule -- is rectangular and of a known type, for EVERY script: when the
   check finds observed = expected on the generated scripts, the observed batches satisfy the property's oracle
   for the reason proved here, not by coincidence. *)
Theorem pipe_model_satisfies_spec : forall c,
  forallb (fun ob => all_equal (snd ob) && (fst ob <? 3)%Z)
          (snd (pipe_expected gen_on_span_cols gen_spans_fields gen_attrs_fields c)) = true.
Proof.
  apply (expected_batches_rect gen_on_span_cols gen_spans_fields gen_attrs_fields gen_spans_consumed gen_attrs_consumed).
  vm_compute. reflexivity.
Qed.
Print Assumptions pipe_model_satisfies_spec.

(* a non-trivial script: flush after three big spans, then a span with fewer values than keys: 5xx, one batch of three
   spans / six attribute rows was pushed, nothing of the torn batch *)
Example pipe_expected_example :
  let big := {| se_tid := 16; se_sid := 8; se_keys := 2; se_vals := 2; se_bytes := 400000 |} in
  let torn := {| se_tid := 16; se_sid := 8; se_keys := 3; se_vals := 1; se_bytes := 100 |} in
  pipe_expected gen_on_span_cols gen_spans_fields gen_attrs_fields
    {| pc_id := 0; pc_spans := Some [big; big; big; torn]; pc_tags := []; pc_end := PendNil; pc_outcome := O5xx; pc_batches := [] |}
  = (C5xx, [(0%Z, repeat 3%N 9); (1%Z, repeat 6%N 7)]).
Proof. vm_compute. reflexivity. Qed.

(* ---- onEntries at column level: logs and metrics ---------------------------------------------- *)

(* onEntries regenerated (appends to the samples request with the slice each comes from, appends to the time-series
   request per announced (day, type), flush + reset), the slice fields of TimeSamplesData / TimeSeriesData, the columns
   the two insert services read: every field is appended exactly once; every call site of onEntries passes four
   one-element literals or is one of the four decoders whose slices are built together (allow-list, by reading). *)
Theorem on_entries_appends_every_column_once :
  entries_ok gen_on_entries_cols gen_spl_fields gen_tsd_fields gen_spl_consumed gen_tsd_consumed = true /\
  entries_calls_ok gen_on_entries_calls = true.
Proof. vm_compute. split; reflexivity. Qed.
Print Assumptions on_entries_appends_every_column_once.

(* Every samples / time-series request that reaches the insert services is rectangular, for every stream of onEntries
   calls (label pairs too short, sample types out of range, any sizes and flushes, decoder panics and errors) in which
   the decoder hands over four slices of ONE length ... *)
Theorem log_batches_are_rectangular : forall evs, events_consistent evs = true ->
  Forall (fun b => lbatch_rect b = true)
         (sent_lbatches gen_on_entries_cols gen_spl_fields gen_tsd_fields (lbatch0 gen_spl_fields gen_tsd_fields) evs).
Proof.
  intros evs H. apply (sent_lbatches_rect gen_on_entries_cols gen_spl_fields gen_tsd_fields gen_spl_consumed gen_tsd_consumed).
  - vm_compute. reflexivity.
  - apply lbatch0_inv.
  - exact H.
Qed.
Print Assumptions log_batches_are_rectangular.

(* ... and that hypothesis is needed: onEntries itself does not compare the lengths; one message more than
   timestamps passes its index checks and the torn samples request is sent (replayed on the real onEntries by harness
   pipefuzz, class logs/.../unequal).  No request reaches this: the decoders keep the contract (allow-list above). *)
Theorem log_batches_rectangular_without_contract_refuted : exists evs,
  ~ Forall (fun b => lbatch_rect b = true)
           (sent_lbatches gen_on_entries_cols gen_spl_fields gen_tsd_fields (lbatch0 gen_spl_fields gen_tsd_fields) evs).
Proof.
  exists [LcEntries unequal_event]. intros H. rewrite Forall_forall in H.
  assert (E : forallb lbatch_rect (sent_lbatches gen_on_entries_cols gen_spl_fields gen_tsd_fields
                (lbatch0 gen_spl_fields gen_tsd_fields) [LcEntries unequal_event]) = false) by (vm_compute; reflexivity).
  assert (T : forallb lbatch_rect (sent_lbatches gen_on_entries_cols gen_spl_fields gen_tsd_fields
                (lbatch0 gen_spl_fields gen_tsd_fields) [LcEntries unequal_event]) = true) by (apply forallb_forall; exact H).
  rewrite E in T. discriminate.
Qed.
Print Assumptions log_batches_rectangular_without_contract_refuted.

Example log_contract_hyp_met :
  events_consistent [LcEntries {| en_lbl_short := false; en_ts := 3; en_msg := 3; en_val := 3; en_types := 3; en_bad_type := false;
                                   en_series := 2; en_bytes := 2000000 |}; LcEntries unequal_event] = false /\
  events_consistent [LcEntries {| en_lbl_short := false; en_ts := 3; en_msg := 3; en_val := 3; en_types := 3; en_bad_type := true;
                                   en_series := 2; en_bytes := 2000000 |}; LcPanic] = true.
Proof. split; reflexivity. Qed.

(* every recover scope of writer/ is known: recover() is called in the two tamePanic functions only, and exactly the
   three decoder goroutines defer one *)
Theorem recover_scopes_match_source : scopes_eqb gen_recover_scopes recover_scopes_model = true.
Proof. vm_compute. reflexivity. Qed.
Print Assumptions recover_scopes_match_source.

(* ---- the two span models agree, and the end-to-end statement ---------------------------------- *)

(* The column-level interpreter over the REGENERATED onSpan and the id-level model of IngestRobust.v (over which the
   first session's theorems are stated) compute the same answer for every event stream, a span with fewer values than
   keys being a decoder-side panic at the id level. *)
Theorem column_model_refines_id_model : forall evs,
  col_status gen_on_span_cols gen_spans_fields gen_attrs_fields (batch0 gen_spans_fields gen_attrs_fields) evs
  = cls_of_parse (fst (do_parse ctx_traces world0 false (parse_spans span_st0 (map abs_event evs)))).
Proof.
  intros evs. apply (col_refines_id gen_on_span_cols gen_spans_fields gen_attrs_fields); [vm_compute; reflexivity|reflexivity|].
  split; [reflexivity|exact span_st0_ok].
Qed.
Print Assumptions column_model_refines_id_model.

(* End to end for the span routes, all pieces regenerated or proved equal to the regenerated ones: for EVERY stream of
   decoder events (any id widths, keys, values, sizes, flushes, decoder panic, typed/untyped error) the system
   parser goroutine || channel || handler || drain goroutine ends with everybody finished, the handler's answer has
   the class the column-level interpreter computes (which harness pipefuzz compares with the real code), the insert
   services keep their columns, and every batch pushed on the way is rectangular. *)
Theorem span_requests_end_to_end : forall evs,
  exists r w', serve tame_model spans_prog consumer_model ctx_traces world0 (spans_dres span_st0 (map abs_event evs)) = (SAllDone r, w')
    /\ cls_of_parse r = col_status gen_on_span_cols gen_spans_fields gen_attrs_fields (batch0 gen_spans_fields gen_attrs_fields) evs
    /\ world_ok w' = true
    /\ Forall (fun b => batch_rect b = true)
              (sent_batches gen_on_span_cols gen_spans_fields gen_attrs_fields (batch0 gen_spans_fields gen_attrs_fields) evs).
Proof.
  apply (span_requests_end_to_end_gen gen_on_span_cols gen_spans_fields gen_attrs_fields gen_spans_consumed gen_attrs_consumed);
    vm_compute; reflexivity.
Qed.
Print Assumptions span_requests_end_to_end.

(* ---- profiles: one row per request ------------------------------------------------------------- *)

(* The profile insert service appends one element per ROW to eight columns and one per REQUEST to the five array columns
   (sample types, tags, values, functions, tree): a ProfileData request is rectangular in the shared block only when it
   carries exactly one row.  golangPprof.go Parse yields exactly one profile per body (one append to its result, outside
   any loop; regenerated), so Decode calls onProfile once -- and every request sent for ONE onProfile call, whatever its
   size and however Decode ends, carries exactly one row. *)
Theorem profile_requests_carry_one_row :
  gen_pprof_parse_appends = 1%Z /\ gen_pprof_parse_append_in_loop = false /\
  forall t e, forallb (N.eqb 1) (prof_batches 0 [t] e) = true.
Proof.
  split; [vm_compute; reflexivity|split; [vm_compute; reflexivity|]].
  intros t e. cbn [prof_batches]. change (0 + 1)%N with 1%N.
  destruct (MiB <? 16 + 6 * 1 + t)%N; destruct e as [|ty|]; reflexivity.
Qed.
Print Assumptions profile_requests_carry_one_row.

(* ---- end to end for the log and metric routes -------------------------------------------------- *)

(* For EVERY stream of onEntries calls (any label pairs, slice lengths, sample types, sizes, flushes; decoder panic or
   typed/untyped error at any point) the system parser goroutine || channel || handler || drain goroutine ends with
   everybody finished, the answer has the class the column-level interpreter over the regenerated onEntries computes
   (compared with the real code by pipefuzz), the services keep their columns; and when the decoder keeps the
   equal-length contract every request pushed on the way is rectangular.  Flushes are bounded by the bytes accounted. *)
Theorem log_requests_end_to_end : forall evs,
  exists r w', serve tame_model logs_prog consumer_model ctx_logs world0 (logs_dres logs_st0 (map abs_lev evs)) = (SAllDone r, w')
    /\ cls_of_parse r = lcol_status gen_on_entries_cols gen_spl_fields gen_tsd_fields (lbatch0 gen_spl_fields gen_tsd_fields) evs
    /\ world_ok w' = true
    /\ (events_consistent evs = true ->
        Forall (fun b => lbatch_rect b = true)
               (sent_lbatches gen_on_entries_cols gen_spl_fields gen_tsd_fields (lbatch0 gen_spl_fields gen_tsd_fields) evs)).
Proof.
  apply (log_requests_end_to_end_gen gen_on_entries_cols gen_spl_fields gen_tsd_fields gen_spl_consumed gen_tsd_consumed).
  vm_compute. reflexivity.
Qed.
Print Assumptions log_requests_end_to_end.

Theorem log_flushes_bounded_by_bytes : forall evs st,
  let '(f, _, s) := decode_logs st evs in
  (N.of_nat (List.length f) * MiB + ls_size s <= ls_size st + logs_bytes evs)%N.
Proof. exact decode_logs_flush_bytes. Qed.
Print Assumptions log_flushes_bounded_by_bytes.

(* ---- the first session's hand-written dispatch is the regenerated one --------------------------- *)

(* model/IngestRobust.v decides by hand which decoder a Content-Type selects on /ingest (ingest_select), the Zipkin
   routes (a descriptor bit = Content-Type starts with "ndjson") and the Loki push route (protobuf or JSON), and which
   Content-Encoding values pass: these are exactly the dispatch over the route table that equals the regenerated one,
   and the case list of the switch in WithOverallContextMiddleware (regenerated), for EVERY header string. *)
Theorem hand_written_dispatch_is_the_route_table :
  routes_eqb gen_routes routes_model = true /\
  (forall ct, route_dispatch (route_of "PushProfileV2") ct
              = match ingest_select ct with
                | Some IPMultipart => Some "UnmarshalProfileProtoV2"%string
                | Some IPBinary => Some "UnmarshalBinaryStreamProfileProtoV2"%string
                | None => None
                end) /\
  (forall ct, route_dispatch (route_of "PushV2") ct
              = Some (if prefix "ndjson" ct then "UnmarshalZipkinNDJSONV2" else "UnmarshalZipkinJSONV2")%string) /\
  (forall ct, route_dispatch (route_of "PushStreamV2") ct
              = Some (if prefix "application/x-protobuf" ct then "UnmarshalProtoV2" else "DecodePushRequestStringV2")%string) /\
  gen_content_encoding_default_400 = true /\
  (forall ce gz, existsb (String.eqb ce) gen_content_encodings = false <-> content_encoding ce gz = CeStatus C4xx).
Proof.
  split; [vm_compute; reflexivity|]. split; [exact ingest_select_is_table|]. split; [exact zipkin_nd_is_table|].
  split; [exact loki_push_is_table|]. split; [vm_compute; reflexivity|].
  intros ce gz. apply content_encoding_is_source_switch. vm_compute. reflexivity.
Qed.
Print Assumptions hand_written_dispatch_is_the_route_table.

(* ---- fourth session: the batch shared with other clients' rows (model/IngestShared.v) ------------------------- *)

(* The loops of the Prometheus remote-write decoder and of the Loki protobuf decoder -- the two decoders that build the four
   slices of an onEntries call in a loop of their own -- regenerated from the source as programs over slice lengths, are
   the modelled programs. *)
Theorem decoder_loops_match_source : gen_prom_decode_prog = prom_prog /\ gen_lokiproto_decode_prog = lokiproto_prog.
Proof. split; reflexivity. Qed.
Print Assumptions decoder_loops_match_source.

(* For EVERY remote-write body (any number of series, any number of samples in each): the decoder does not panic, every
   call of onEntries hands over four slices of ONE length between 1 and the hand-over limit 1000, and the calls carry
   every sample of the body exactly once.  (The equal-length contract log_batches_are_rectangular assumes, proved from
   the regenerated loop instead of the syntactic lockstep verdict.) *)
Theorem remote_write_decoder_keeps_the_contract : forall ns, exists cs,
  run_dprog gen_prom_decode_prog ns = Some cs /\
  Forall (fun c => dcall_consistent c = true /\ (1 <= dc_ts c <= 1000)%N) cs /\
  sumN (map dc_ts cs) = sumN ns.
Proof. exact prom_decoder_contract. Qed.
Print Assumptions remote_write_decoder_keeps_the_contract.

Example remote_write_catch_up_send :
  run_dprog gen_prom_decode_prog [1500%N]
  = Some [{| dc_series := 1; dc_ts := 1000; dc_msg := 1000; dc_val := 1000; dc_types := 1000 |};
          {| dc_series := 1; dc_ts := 500; dc_msg := 500; dc_val := 500; dc_types := 500 |}]%N.
Proof. vm_compute. reflexivity. Qed.

(* For EVERY Loki protobuf body: no index out of range in the loop over the entries, one call per stream, four slices
   of the stream's number of entries. *)
Theorem loki_protobuf_decoder_keeps_the_contract : forall ns,
  run_dprog gen_lokiproto_decode_prog ns = Some (simple_calls 0 ns) /\
  Forall (fun c => dcall_consistent c = true) (simple_calls 0 ns).
Proof. intros ns. split; [exact (lokiproto_decoder_contract ns)|apply simple_calls_consistent]. Qed.
Print Assumptions loki_protobuf_decoder_keeps_the_contract.

(* The batch of an insert service, shared by all clients of the table: for every interleaving of requests of any clients
   and of flushes, from a batch whose columns have one length: when every request appends the same number of rows to
   every column of the INSERT, no block is refused and nobody is answered with an error. *)
Theorem rectangular_requests_never_fail_a_shared_batch : forall ncols cnt evs b v,
  sb_cols b = repeat v ncols -> sevs_ok ncols evs = true ->
  Forall (fun a => sa_ok a = true) (srun ncols cnt b evs).
Proof. exact shared_batch_ok. Qed.
Print Assumptions rectangular_requests_never_fail_a_shared_batch.

Example shared_batch_hypotheses_met :
  sevs_ok 5 [SvReq {| sr_client := 1; sr_cols := [1; 1; 1; 1; 1]%N |}; SvFlush; SvReq {| sr_client := 2; sr_cols := [1500; 1500; 1500; 1500; 1500]%N |};
             SvReq {| sr_client := 1; sr_cols := [3; 3; 3; 3; 3]%N |}; SvFlush] = true.
Proof. vm_compute. reflexivity. Qed.

(* ... and the hypothesis is needed: the service does not compare the lengths; one torn request (the one the variant of
   the decoder below produces for a series of 1500 samples) has the block refused and BOTH clients answered with the error *)
Theorem shared_batch_needs_rectangular_requests : exists evs,
  ~ Forall (fun a => sa_client a = 1%Z -> sa_ok a = true) (srun 5 spl_counted (sbatch0 5) evs).
Proof.
  eexists. rewrite torn_request_fails_the_other_client. intros H. inversion H as [|? ? H1 _]. specialize (H1 eq_refl). discriminate.
Qed.
Print Assumptions shared_batch_needs_rectangular_requests.

(* "No request makes another client's well-formed push fail", for remote write: whatever body client B sends (ns), whatever
   sizes and series its calls account for (evs), however its Decode ends (tail), and whatever the other clients send as
   long as their requests are rectangular: in every interleaving with every placement of the flushes, nobody -- client A
   in particular -- is answered with an error by the samples service or by the time-series service. *)
Theorem remote_write_never_fails_another_clients_push : forall ns cs evs tail,
  run_dprog gen_prom_decode_prog ns = Some cs -> Forall2 lens_match cs evs -> tail_ok tail = true ->
  let sent := sent_lbatches gen_on_entries_cols gen_spl_fields gen_tsd_fields (lbatch0 gen_spl_fields gen_tsd_fields) (map LcEntries evs ++ tail) in
  (forall stream, (forall r, In (SvReq r) stream -> sreq_ok 5 r = true \/ In r (map (spl_request 2) sent)) ->
                  Forall (fun a => sa_ok a = true) (srun 5 spl_counted (sbatch0 5) stream)) /\
  (forall stream, (forall r, In (SvReq r) stream -> sreq_ok 4 r = true \/ In r (map (ts_request 2) sent)) ->
                  Forall (fun a => sa_ok a = true) (srun 4 ts_counted (sbatch0 4) stream)).
Proof.
  intros ns cs evs tail Hrun Hm Ht sent.
  destruct (prom_decoder_contract ns) as [cs' [Hrun' [Hgood _]]].
  replace gen_prom_decode_prog with prom_prog in Hrun by reflexivity. rewrite Hrun' in Hrun. inversion Hrun; subst cs'.
  assert (Hreq : Forall (fun b => sreq_ok 5 (spl_request 2 b) = true /\ sreq_ok 4 (ts_request 2 b) = true) sent).
  { apply (contract_requests_ok gen_on_entries_cols gen_spl_fields gen_tsd_fields gen_spl_consumed gen_tsd_consumed) with (calls := cs);
      [vm_compute; reflexivity|vm_compute; reflexivity|vm_compute; reflexivity|apply call_good_consistent; exact Hgood|exact Hm|exact Ht]. }
  rewrite Forall_forall in Hreq.
  split; intros stream Hs; apply (shared_batch_ok _ _ _ _ 0%N); try reflexivity;
    unfold sevs_ok; apply forallb_forall; intros e He; destruct e as [r|]; try reflexivity;
    destruct (Hs r He) as [Hr|Hr]; try exact Hr; apply in_map_iff in Hr as [b [<- Hb]]; apply (Hreq b Hb).
Qed.
Print Assumptions remote_write_never_fails_another_clients_push.

Example remote_write_push_hypotheses_met :
  exists cs evs, run_dprog gen_prom_decode_prog [1500%N; 2%N] = Some cs /\ Forall2 lens_match cs evs /\ List.length cs = 3%nat.
Proof.
  eexists. exists (events_of_calls 0 (match run_dprog gen_prom_decode_prog [1500%N; 2%N] with Some cs => cs | None => [] end)).
  split; [vm_compute; reflexivity|]. split; [|reflexivity].
  vm_compute. repeat constructor.
Qed.

(* The variant with the message slice made once per series (independent breaking change C05-d) is refuted by the model on
   concrete bodies -- one series of 1001 / 1500 / 2500 samples, 999 one-sample series and a two-sample series, ... -- and
   the whole chain (decoder program, onEntries at column level, the shared samples batch) then predicts what the
   real code does with it: the block [1501; 1501; 1501; 2501; 1501] is refused and client A, who sent one well-formed log
   line, is answered 5xx. *)
Theorem presized_message_slice_variant_refuted :
  failing_probes prom_prog_presized_msg
  = [[(1, 1001)]; [(1, 1500)]; [(999, 1); (1, 2)]; [(2, 600)]; [(1, 2500)]; [(400, 1); (1, 700); (5, 1)]]%N /\
  failing_probes gen_prom_decode_prog = [] /\ failing_probes gen_lokiproto_decode_prog = [] /\
  sh_expected gen_on_entries_cols gen_spl_fields gen_tsd_fields prom_prog_presized_msg gen_lokiproto_decode_prog
    {| sh_id := 0; sh_a := {| cl_kind := CLokiJson; cl_shape := [(1, 1)]%N; cl_bad := false |};
       sh_b := {| cl_kind := CProm; cl_shape := [(1, 1500)]%N; cl_bad := false |}; sh_a_is_loki := true;
       sh_obs := {| so_a := O2xx; so_b := O2xx; so_blocks := []; so_a_lines := 0 |} |}
  = (Exact C5xx, Exact C5xx, (true, [1501; 1501; 1501; 2501; 1501]%N), (false, [2; 2; 2; 2]%N)).
Proof. vm_compute. repeat split. Qed.
Print Assumptions presized_message_slice_variant_refuted.

(* ---- onProfile and the profile insert service at column level (regenerated; was modelled by hand) -------------- *)

(* parserDoer.onProfile fills every slice field of model.ProfileData by exactly one statement -- eight fields get one
   element per call, five are replaced by the arrays of the call --, sends and resets under the size test; every column
   of the profile insert service reads one field, in the way it is filled (a value per element / the field as one array
   value), every field is read once; the regenerated programs are the modelled ones. *)
Theorem on_profile_fills_every_column_once :
  profile_ok gen_on_profile_prog gen_profile_fields gen_profile_cols gen_profile_cols_unknown = true /\
  gen_on_profile_prog = on_profile_prog_model /\ gen_profile_cols = profile_cols_model.
Proof. split; [vm_compute; reflexivity|split; reflexivity]. Qed.
Print Assumptions on_profile_fills_every_column_once.

(* a ProfileData request fits the block all clients share EXACTLY when it carries one row: with `calls` calls of onProfile
   behind it the eight per-row columns grow by `calls` and the five array columns by one
   (profile_requests_carry_one_row: every request carries one row) *)
Theorem profile_requests_fit_the_shared_block : forall calls c,
  profile_request_cols gen_on_profile_prog gen_profile_cols calls = Some c -> (all_equal c = true <-> calls = 1%N).
Proof.
  intros calls c H. split.
  - intros Hr. destruct (N.eq_dec calls 1) as [E|E]; [exact E|].
    rewrite (profile_other_rows_torn gen_on_profile_prog gen_profile_fields gen_profile_cols gen_profile_cols_unknown calls c) in Hr; [discriminate|vm_compute; reflexivity|exact E|exact H].
  - intros ->. exact (proj1 (profile_one_row_rectangular _ _ _ H)).
Qed.
Print Assumptions profile_requests_fit_the_shared_block.

Example profile_request_with_two_rows_is_torn :
  profile_request_cols gen_on_profile_prog gen_profile_cols 2 = Some [2; 2; 2; 1; 2; 2; 1; 2; 2; 2; 1; 1; 1]%N.
Proof. vm_compute. reflexivity. Qed.

(* profile pushes of any clients, in any interleaving with the flushes, never have a block refused *)
Theorem profile_pushes_never_fail_a_shared_batch : forall stream,
  (forall r, In (SvReq r) stream -> exists who, profile_request gen_on_profile_prog gen_profile_cols who 1 = Some r) ->
  Forall (fun a => sa_ok a = true) (srun 13 0 (sbatch0 13) stream).
Proof.
  intros stream H. apply (shared_batch_ok _ _ _ _ 0%N); [reflexivity|].
  unfold sevs_ok. apply forallb_forall. intros e He. destruct e as [r|]; [|reflexivity].
  destruct (H r He) as [who Hr]. unfold profile_request in Hr.
  destruct (profile_request_cols gen_on_profile_prog gen_profile_cols 1) as [c|] eqn:E; [|discriminate]. inversion Hr; subst r.
  destruct (profile_one_row_rectangular _ _ _ E) as [H1 H2]. unfold sreq_ok. cbn [sr_cols]. rewrite H1, H2. reflexivity.
Qed.
Print Assumptions profile_pushes_never_fail_a_shared_batch.

(* ---- the gzip layer of a pprof body (fix 5) ------------------------------------------------------------- *)

(* Parse in golangPprof.go (both /ingest routes) inflates a gzip-compressed profile itself, through helpers.LimitDecoded and
   io.ReadAll (limited_reader_never_delivers_more_than_the_limit, read_all_over_the_limiter), and refuses what is still gzip
   afterwards: the profile parser below never inflates.  For every body -- any number of nested gzip layers of any sizes --
   at most `limit` bytes are inflated and the parser is handed at most max(wire, limit) bytes. *)
Theorem profile_gzip_layer_bounded : forall limit wire layers, (0 <= limit)%Z ->
  (snd (pprof_guard limit wire layers) <= limit)%Z /\
  match fst (pprof_guard limit wire layers) with PpParsed n => (n <= Z.max wire limit)%Z | PpRefused => True end.
Proof. exact pprof_guard_bounded. Qed.
Print Assumptions profile_gzip_layer_bounded.

Theorem profile_gzip_layer_in_source : strs_eqb' gen_pprof_parse_guard pprof_parse_guard_model = true.
Proof. vm_compute. reflexivity. Qed.
Print Assumptions profile_gzip_layer_in_source.

(* the defect, for the record: google/pprof ParseData inflated the body whole (180 KB on the wire -> 940 MB allocated) *)
Theorem profile_gzip_layer_was_unbounded_before_the_fix : forall limit, (0 <= limit)%Z ->
  exists layers, (limit < snd (pprof_guard_orig 0 layers))%Z.
Proof. exact pprof_guard_orig_unbounded. Qed.
Print Assumptions profile_gzip_layer_was_unbounded_before_the_fix.

(* ---- the lockstep verdict computed and justified inside Coq ---------------------------------------------------- *)

(* For each of the five non-literal onEntries call sites the translator extracts the statement lists of the file that change the
   length of a slice handed over (no verdict any more); every list is uniform -- no control flow inside, members only, every
   member undergoes the same sequence of changes -- and the derived arguments are len(member) or the expression all members are
   made with.  What that means: in every execution -- the lists run in any order, any number of times, with any control flow
   between them (jx callbacks, loops, early returns) -- the slices have ONE length whenever a list has been left, hence at
   every call of onEntries.  (Loki JSON and Datadog series rest on this; remote write and Loki protobuf also have the
   interpreter theorems above.) *)
Theorem non_literal_sites_are_uniform : forallb site_uniform gen_lockstep_blocks = true /\ List.length gen_lockstep_blocks = 5%nat.
Proof. vm_compute. split; reflexivity. Qed.
Print Assumptions non_literal_sites_are_uniform.

Theorem uniform_sites_hand_over_slices_of_one_length : forall f fn members derived blocks,
  In (f, fn, members, derived, blocks) gen_lockstep_blocks ->
  forall tr, (forall blk ev, In (blk, ev) tr -> exists cf, In (blk, cf) blocks) ->
  forall st, members_equal members st -> members_equal members (run_trace st tr).
Proof.
  intros f fn members derived blocks Hin. apply lockstep_keeps_members_equal.
  pose proof (proj1 non_literal_sites_are_uniform) as H. rewrite forallb_forall in H. specialize (H _ Hin).
  cbn in H. apply andb_true_iff in H as [H _]. apply andb_true_iff in H as [_ H]. exact H.
Qed.
Print Assumptions uniform_sites_hand_over_slices_of_one_length.

Example uniform_sites_hypotheses_met :
  exists f fn members derived blocks blk, In (f, fn, members, derived, blocks) gen_lockstep_blocks /\ In (blk, false) blocks /\
    members = ["p.String"; "p.TsNs"; "p.Types"; "p.Value"]%string /\ List.length blk = 4%nat /\
    members_equal members (run_trace (fun _ => 0%N) [(blk, fun _ => 0%N); (blk, fun _ => 0%N)]).
Proof.
  do 5 eexists. exists [("p.TsNs", ChAppend1); ("p.String", ChAppend1); ("p.Value", ChAppend1); ("p.Types", ChAppend1)]%string.
  split; [do 4 right; left; reflexivity|]. split; [cbn; tauto|]. split; [reflexivity|]. split; [reflexivity|].
  intros m m' Hm Hm'. cbn in Hm, Hm'. repeat (destruct Hm as [<-|Hm]; [repeat (destruct Hm' as [<-|Hm']; [reflexivity|]); contradiction|]). contradiction.
Qed.

(* counting kinds per list, the rule of the third session's Go-side analysis, would accept a list that tears the slices *)
Theorem kind_counting_verdict_refuted : exists members blk,
  block_uniform members (blk, false) = false /\
  run_block (fun _ => 0%N) (fun _ => 0%N) blk "a" <> run_block (fun _ => 0%N) (fun _ => 0%N) blk "b".
Proof. exists ["a"; "b"]%string. eexists. exact kind_counting_is_not_enough. Qed.
Print Assumptions kind_counting_verdict_refuted.

(* ---- span pushes at the shared batches of the two span insert services ------------------------------------------- *)

(* Whatever spans a request carries (any id widths, numbers of keys and values, sizes, decoder panics and errors: evs) and
   whatever the other clients send as long as their requests are rectangular: no block of the spans service or of the
   attributes service is refused and nobody is answered with an error, in every interleaving with every placement of the flushes. *)
Theorem span_pushes_never_fail_another_clients_push : forall evs,
  let sent := sent_batches gen_on_span_cols gen_spans_fields gen_attrs_fields (batch0 gen_spans_fields gen_attrs_fields) evs in
  (forall stream, (forall r, In (SvReq r) stream -> sreq_ok 9 r = true \/ In r (map (fun b => span_request 2 gen_spans_consumed (b_spans b)) sent)) ->
                  forall cnt, Forall (fun a => sa_ok a = true) (srun 9 cnt (sbatch0 9) stream)) /\
  (forall stream, (forall r, In (SvReq r) stream -> sreq_ok 7 r = true \/ In r (map (fun b => span_request 2 gen_attrs_consumed (b_attrs b)) sent)) ->
                  forall cnt, Forall (fun a => sa_ok a = true) (srun 7 cnt (sbatch0 7) stream)).
Proof.
  intros evs sent.
  pose proof (span_requests_ok gen_on_span_cols gen_spans_fields gen_attrs_fields gen_spans_consumed gen_attrs_consumed ltac:(vm_compute; reflexivity) evs 2%Z) as Hreq.
  rewrite Forall_forall in Hreq.
  split; intros stream Hs cnt; apply (shared_batch_ok _ _ _ _ 0%N); try reflexivity;
    unfold sevs_ok; apply forallb_forall; intros e He; destruct e as [r|]; try reflexivity;
    destruct (Hs r He) as [Hr|Hr]; try exact Hr; apply in_map_iff in Hr as [b [<- Hb]]; apply (Hreq b Hb).
Qed.
Print Assumptions span_pushes_never_fail_another_clients_push.

(* ---- the multipart form of /ingest at framing level ---------------------------------------------------------------- *)

(* What pProfProtoDec.Decode does between the query parameters and the profile parser, as a function of the form's structure
   (model/IngestShared.v section 8; mime/multipart and compress/gzip as read, compared with the real route on every generated
   form): whatever the form -- boundary line, closing delimiter, any parts in any order, any content of the chosen file -- the
   bytes inflated for the request stay within the Decompressor's bound plus the payload limit ... *)
Theorem multipart_form_inflates_within_bounds : forall limit f, (0 <= limit)%Z ->
  (mform_inflated limit f <= decompressor_limit + 1 + limit)%Z.
Proof. exact mform_inflated_bounded. Qed.
Print Assumptions multipart_form_inflates_within_bounds.

(* ... and a form is acknowledged only when its first FILE part named "profile" is a gzip stream of 1 .. 100000 bytes that holds
   a profile (possibly gzip-compressed once more, within the payload limit); every other form is answered with an error *)
Theorem acknowledged_multipart_form_has_a_profile_file : forall limit f, mform_predict limit f = Exact C2xx ->
  exists p, In p (mf_parts f) /\ mp_name p = mform_field /\ mp_file p = true /\
            (mp_content p = McProfile \/ (mp_content p = McNested /\ (mp_inflated2 p <= limit)%Z)) /\
            (0 < mp_inflated p <= decompressor_limit)%Z.
Proof.
  intros limit f H. unfold mform_predict in H. destruct (mform_accepts limit f) eqn:E; [|discriminate].
  exact (mform_accepted_has_profile limit f E).
Qed.
Print Assumptions acknowledged_multipart_form_has_a_profile_file.

Example multipart_form_hypotheses_met :
  mform_predict 1048576 {| mf_boundary_ok := true; mf_closed := true;
     mf_parts := [{| mp_name := "sample_type_config"; mp_file := false; mp_content := McNotGzip; mp_inflated := 0; mp_inflated2 := 0 |};
                  {| mp_name := "profile"; mp_file := true; mp_content := McNested; mp_inflated := 300; mp_inflated2 := 400000 |}] |} = Exact C2xx.
Proof. vm_compute. reflexivity. Qed.

(* the form field, the Decompressor's bound and the boundary pattern are the source's (regenerated) *)
Theorem multipart_form_in_source : strs_eqb' gen_mform_source mform_source_model = true.
Proof. vm_compute. reflexivity. Qed.
Print Assumptions multipart_form_in_source.

(* ---- round 6: the connection of an insert service misbehaves with requests in flight (model/IngestConn.v) -------------------------- *)

(* InsertServiceV2.fetchLoopIteration, regenerated statement by statement, is the modelled program once the plain statements are
   left out: connect step (error path: return), swapBuffers, copy of the portion's promises, releaseWaiting, Do, releaseWaiting(err),
   close on error -- IN THIS ORDER.  Seeded C05-f (swapBuffers before the connect step) falsifies it. *)
Theorem fetch_loop_matches_source : fetch_loop_ok gen_fetch_loop = true.
Proof. vm_compute. reflexivity. Qed.
Print Assumptions fetch_loop_matches_source.

Theorem watchdog_ping_matches_source : ping_ok gen_ping_prog = true.
Proof. vm_compute. reflexivity. Qed.
Print Assumptions watchdog_ping_matches_source.

(* Run's select (watchdog -> ping, ctx -> return, insertCtx -> fetchLoopIteration) and the only two functions that renew insertCtx *)
Theorem run_loop_in_source : gen_run_cases = run_cases_model /\ gen_insert_ctx_writers = insert_ctx_writers_model.
Proof. vm_compute. split; reflexivity. Qed.
Print Assumptions run_loop_in_source.

(* "never leaves a goroutine blocked forever": for EVERY interleaving of requests, requests answered at once, timer / PlanFlush
   events, iterations of the Run loop with ANY outcome of the dial and of the INSERT, and watchdog ticks with any outcome of the ping,
   no iteration returns with a promise it took out of svc.results and did not complete, the Run goroutine does not dereference a nil
   client, and every promise ever handed out is either still in svc.results or completed -- for every program that passes the check,
   hence (fetch_loop_matches_source, watchdog_ping_matches_source) for the regenerated one. *)
Theorem no_promise_is_ever_dropped : forall p pp, fetch_loop_ok p = true -> ping_ok pp = true -> forall evs,
  let st := crun p pp evs cs_init in
  cs_crash st = false /\ cs_lost st = [] /\ forall id, In id (requested evs) -> accounted st id = true.
Proof. exact no_promise_dropped. Qed.
Print Assumptions no_promise_is_ever_dropped.

(* a refused dial is a stutter: nothing is taken, the insert context stays done, so Run calls the iteration again (it dials again) *)
Theorem refused_dial_keeps_the_waiting_requests : forall p, fetch_loop_ok p = true -> forall e st,
  cs_client st = false -> dial_ok e = false -> fst (run_iter p e st) = st.
Proof. exact refused_dial_stutters. Qed.
Print Assumptions refused_dial_keeps_the_waiting_requests.

(* "returns an HTTP response in bounded time", under C01's fairness assumption (the database refuses finitely often): however many
   iterations meet a refused dial, the first accepted one answers EVERY waiting request with the verdict of its INSERT *)
Theorem waiting_requests_are_answered_by_the_first_accepted_dial : forall p pp, fetch_loop_ok p = true -> forall envs e st,
  cs_crash st = false -> cs_due st = true -> cs_client st = false ->
  Forall (fun x => dial_ok x = false) envs -> dial_ok e = true ->
  let st' := crun p pp (map ETick envs ++ [ETick e]) st in
  cs_waiting st' = [] /\ forall id, In id (cs_waiting st) -> In (id, do_ok e) (cs_done st').
Proof. exact waiting_requests_answered_by_the_first_accepted_dial. Qed.
Print Assumptions waiting_requests_are_answered_by_the_first_accepted_dial.

(* the seeded order (C05-f) inside the model: request, refused dial -> the promise is lost, and no later accepted dial answers it *)
Theorem swap_before_connect_refuted :
  let st := crun fli_swapped ping_core c05f_trace cs_init in
  cs_lost st = [1%N] /\ accounted st 1%N = false /\ fetch_loop_ok fli_swapped = false.
Proof. exact swap_before_connect_drops_promises. Qed.
Print Assumptions swap_before_connect_refuted.

(* ---- round 7: what a route is handed behind WithOverallContextMiddleware (model/IngestHanded.v) ---- *)

(* whatever Content-Encoding the request names and whatever its body decodes to, the bytes a route reads from r.Body
   (io.Copy over the limiter) are at most min(decoded size, payload limit) *)
Theorem the_route_is_handed_at_most_the_payload_limit : forall limit decoded, (0 <= limit)%Z -> (0 <= decoded)%Z ->
  (handed_model limit decoded <= Z.min decoded limit)%Z.
Proof. exact handed_model_bounded. Qed.
Print Assumptions the_route_is_handed_at_most_the_payload_limit.

(* an observation of the real middleware that the model reproduces satisfies the oracle "handed <= limit" *)
Theorem handed_observation_agreeing_with_the_model_is_within_the_limit : forall c, (0 <= hc_limit c)%Z -> (0 <= hc_decoded c)%Z ->
  hand_mismatch c = false -> hand_spec_ok c = true.
Proof. exact hand_agreement_implies_spec. Qed.
Print Assumptions handed_observation_agreeing_with_the_model_is_within_the_limit.

(* ---- round 8: the mutex of an insert service is not re-entered (model/IngestConn.v section 5) ---- *)

(* the obligation evaluated over the REGENERATED table (gen_mtx_methods: what every method of the three service types calls while
   its receiver's mutex is held): inside a locked region no method writes R.mtx.Lock() again, and every method it calls on the same
   object is free of Lock() -- itself and, through calls on the same receiver, transitively (may_lock).  sync.Mutex is not
   re-entrant: such a call blocks its goroutine for ever, holding the mutex.  Independent of the configuration: the seeded
   Request -> PlanFlush call (C05-h) sits in a branch that only BULK_MAX_SIZE_BYTES > 0 makes live *)
Theorem service_mutex_is_not_re_entered : forall tbl, lock_order_ok tbl = true -> forall x, In x tbl ->
  mm_relock x = false /\ forall c, In c (mm_held_self x) -> may_lock (lock_fuel tbl) tbl (mm_type x) [] c = false.
Proof. exact lock_order_ok_sound. Qed.
Print Assumptions service_mutex_is_not_re_entered.

(* ... spelled out for the two shortest chains: the callee does not lock, nor does anything it calls on the same receiver *)
Theorem no_method_called_under_the_mutex_locks_it : forall tbl, lock_order_ok tbl = true -> forall x c y, In x tbl -> In c (mm_held_self x) ->
  find_mm tbl (mm_type x) c = Some y ->
  mm_relock x = false /\ mm_locks y = false /\
  forall d z, In d (mm_self_calls y) -> d <> c -> find_mm tbl (mm_type x) d = Some z -> mm_locks z = false.
Proof. exact no_re_entry. Qed.
Print Assumptions no_method_called_under_the_mutex_locks_it.

(* the seeded shape (C05-h) inside the model: Request calls PlanFlush in its locked region -> refused, with the offender named *)
Theorem request_calling_planflush_under_the_mutex_refuted :
  lock_order_ok mtx_seeded_h = false /\
  lock_order_offenders mtx_seeded_h = [("InsertServiceV2", "Request", false, ["PlanFlush"])]%string.
Proof. exact seeded_h_re_enters_the_mutex. Qed.
Print Assumptions request_calling_planflush_under_the_mutex_refuted.

(* the regenerated table of /repo satisfies it; the locked regions the slice relies on exist; every other callee met under a service
   mutex is on the allow-lists (by reading they cannot reach the service); Lock / Unlock appear only as statements / deferred Unlock;
   the bulk size of every insert service comes from SYSTEM_SETTINGS.DBBulk *)
Theorem service_lock_order_in_source :
  lock_order_ok gen_mtx_methods = true /\ lockers_present gen_mtx_methods = true /\ held_calls_known gen_mtx_methods = true /\
  gen_mtx_odd_uses = [] /\ gen_bulk_size_sources = ["int64(config.SYSTEM_SETTINGS.DBBulk)"]%string.
Proof. vm_compute. repeat split; reflexivity. Qed.
Print Assumptions service_lock_order_in_source.
