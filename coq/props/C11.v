(* Property C11 — the SQL generated for TraceQL selects exactly the traces the query describes.
   Only statements; proofs by reference. *)
From Coq Require Import List NArith ZArith Bool String.
From Qryn Require Import model.TqSql model.Traceql model.TraceqlPlan proofs.TraceqlBitsetProofs.
Import ListNotations.

(* The HAVING clause the planner emits over the per-span bit set (bitAnd(groupBitOr(sum of
   bitShiftLeft(term_i, i)), 2^i) != 0 combined by and/or) is true exactly when the boolean tree
   holds with "term i is true of some index row of the span". *)
Theorem having_is_holds : forall (row : Type) (ts : list (row -> bool)) (rows : list row) (c : cond),
  having c (bs row ts rows) = holds row ts rows c.
Proof. exact TraceqlBitsetProofs.having_is_holds. Qed.
Print Assumptions having_is_holds.
