(* Property C11 — the SQL generated for TraceQL selects exactly the traces the query describes.
   Only statements; proofs by reference.

   Vocabulary (model/):  Traceql.v = the parsed script;  TraceqlPlan.v = the planners (plan q mode ctx n =
   the statement of the n-th Process call; its text is compared byte for byte with the implementation's
   on every run);  TqSql.v = SQL objects, renderer, wf_sel;  TraceqlSem.v = exp_sem / traceql_sem (what a
   script means over the attribute index) and ev / eval_sel (the trusted evaluator of the emitted
   ClickHouse subset).  re_match, parse_float, hash64 stand for RE2, the Float64 parser and cityHash64:
   every theorem holds for all of them. *)
From Coq Require Import List NArith ZArith QArith Bool String.
From Qryn Require Import model.TqSql model.Traceql model.TraceqlPlan model.TraceqlSem
     proofs.TraceqlBitsetProofs proofs.TraceqlAnalyzeProofs proofs.TraceqlEvalProofs proofs.TraceqlSelectorProofs
     proofs.TraceqlWfProofs model.TraceqlPortions proofs.TraceqlPortionsProofs
     model.TraceqlCase proofs.TraceqlIndexSearchProofs proofs.TraceqlIndexCorrectProofs proofs.TraceqlGroupedProofs
     proofs.TraceqlTopkProofs proofs.TraceqlCorrectProofs proofs.TraceqlAggProofs proofs.TraceqlExamples
     proofs.TraceqlChainSem proofs.TraceqlChainSql proofs.TraceqlChainComb proofs.TraceqlChainProofs proofs.TraceqlChainPlan
     model.TraceqlKey proofs.TraceqlKeyProofs proofs.TraceqlKeyCorrect proofs.TraceqlUnquoteProofs.
Import ListNotations.
Open Scope string_scope.

(* 1. The bit-set encoding, abstractly: the HAVING the planner emits over the per-span bit set
   (bitAnd(groupBitOr(sum of bitShiftLeft(term_i, i)), 2^i) != 0 combined by and/or) is true exactly when
   the boolean tree holds with "term i is true of some index row of the span". *)
Theorem having_is_holds : forall (row : Type) (ts : list (row -> bool)) (rows : list row) (c : cond),
  having c (bs row ts rows) = holds row ts rows c.
Proof. exact TraceqlBitsetProofs.having_is_holds. Qed.
Print Assumptions having_is_holds.

(* 2. analyzeCond (distinct terms + tree of term indices, repeated terms share a bit) keeps the meaning of
   the selector's boolean expression, for every expression with nested and/or, parentheses and repeats. *)
Theorem analyze_keeps_meaning : forall re_match parse_float lit_round (e : attr_exp),
  keys_ok e = true ->
  let '(c, st) := analyze_cond e ([], []) in
  forall rows, cond_sem re_match parse_float lit_round (fst st) rows c = exp_sem re_match parse_float lit_round e rows.
Proof.
  intros re_match parse_float lit_round e H. pose proof (analyze_sem re_match parse_float lit_round e H) as A.
  destruct (analyze_cond e ([], [])) as [c st]. exact (proj2 A).
Qed.
Print Assumptions analyze_keeps_meaning.

(* 3. Each term: the SQL condition getTerm builds (string =, !=, =~, !~; numeric = != < <= > >= behind
   isNotNull(toFloat64OrNull(val)); duration comparisons in ns) is true of an index row, according to the
   evaluator, exactly when the term is true of that row. *)
Theorem term_condition_correct : forall re_match parse_float hash64 cte al keys,
  lookup_alias "key" al = None -> lookup_alias "val" al = None -> lookup_alias "traces_idx.duration" al = None ->
  forall f self g r t e,
    term_lit_ok t = true -> get_term t = Ok e ->
    ev re_match parse_float hash64 cte al keys (5 + f) false self g (irow_row r) e
    = Some (vbool (term_sem re_match parse_float true t r)).
Proof. exact ev_get_term. Qed.
Print Assumptions term_condition_correct.

(* 4. The key/val pre-filter.  Under the guard Process applies (holdsWithoutIndexedTerm false) the rows
   that survive it satisfy the analysed condition iff all rows of the span do, and a matching span keeps
   at least one row.  (Without the guard this is false: see prefilter_needs_guard.) *)
Theorem prefilter_keeps_matches : forall re_match parse_float lit_round terms extra rows c,
  uniform_dur rows -> cond_wf (List.length terms) c -> holds_without_indexed terms c = false ->
  (filter (prefilter re_match parse_float lit_round terms extra) rows <> [] /\
   cond_sem re_match parse_float lit_round terms (filter (prefilter re_match parse_float lit_round terms extra) rows) c = true)
  <-> cond_sem re_match parse_float lit_round terms rows c = true.
Proof. exact prefilter_sound. Qed.
Print Assumptions prefilter_keeps_matches.

(* 5. One selector, both clauses: the statement AttrConditionPlanner builds keeps a span (its rows pass
   WHERE when the planner adds one, and the group passes HAVING) exactly when the selector's expression
   holds of the span; for every expression, every database content of the span, at most 64 distinct terms. *)
Theorem selector_selects_matching_spans : forall re_match parse_float hash64 cte al keys,
  lookup_alias "key" al = None -> lookup_alias "val" al = None -> lookup_alias "traces_idx.duration" al = None ->
  forall (e : attr_exp) (attr : string) (conds : list expr),
  keys_ok e = true ->
  map_res get_term (fst (snd (analyze_cond e ([], [])))) = Ok conds ->
  forallb term_lit_ok (fst (snd (analyze_cond e ([], [])))) = true ->
  (List.length (fst (snd (analyze_cond e ([], [])))) <= 64)%nat ->
  lookup_alias "bsCond" al = Some (GroupBitOr (BitSet conds) "") ->
  forall (fw fh : nat) (rows : list irow),
  (6 <= fw)%nat -> (cond_depth (fst (analyze_cond e ([], []))) + 11 <= fh)%nat ->
  uniform_dur rows -> rows <> [] ->
  let with_where :=
    match (where_terms (fst (snd (analyze_cond e ([], [])))) conds ++ fst (agg_step attr))%list with
    | [] => false
    | _ => negb (holds_without_indexed (fst (snd (analyze_cond e ([], [])))) (fst (analyze_cond e ([], []))))
    end in
  keeps re_match parse_float hash64 cte al keys e attr conds with_where fw fh rows
  = exp_sem re_match parse_float true e rows.
Proof. exact selector_correct. Qed.
Print Assumptions selector_selects_matching_spans.

(* 6. Literals: a numeric literal means, inside the statement, the number its printed text parses back to; that is
   the meaning of the script itself whenever the printed text parses back to exactly the query's number
   (lits_exact).  Since 57651aa sql.FloatVal prints strconv.FormatFloat(v,'f',-1,64); the model mirrors it for
   at most 15 significant digits (Examples literal_survives) and lits_exact is checked on every generated query. *)
Theorem literal_text_is_exact : forall re_match parse_float (e : attr_exp) rows,
  lits_exact e = true ->
  exp_sem re_match parse_float true e rows = exp_sem re_match parse_float false e rows.
Proof. intros. now apply exp_sem_round. Qed.
Print Assumptions literal_text_is_exact.

(* 7. Well-formedness: every statement that Plan / PlanTagsV2 / PlanValuesV2 followed by Process build --
   for every script (selectors, chains, aggregators, {} forms), mode, context with named tables, and call --
   has no empty and/or/IN/tuple/bit-set/select list, only binary comparisons, only named identifiers and
   WITH references.  (Before 64acb55 this was false: {duration > 1s} rendered "... and ()".  The same
   predicate plus alias distinctness, wf_sel, is run on every observed statement.) *)
Theorem traceql_sql_wellformed : forall (c : ctx) (q : script) (m : mode) (n : nat) (s : select),
  ctx_ok c = true -> plan q m c n = Ok s -> wfc_sel s = true.
Proof. intros c q m n s Hc H. exact (plan_wfc c Hc q m n s H). Qed.
Print Assumptions traceql_sql_wellformed.

(* 8. ComplexRequestProcessor (requests estimated at 10 000 000 index rows or more): running the search once per
   portion  cityHash64(trace_id) % portions = i OR trace_id IN (winners so far), with the lower bound of the window
   raised to the oldest winner once `limit` winners are known (the code's from.Nanosecond() == 0 test for "unset"
   included), ends with a top-`limit` selection of all matching traces of the portions processed -- whatever ties
   each statement breaks.  Abstraction: one time per trace (recency key = start time = time of its matched spans);
   limit >= 1; unique trace ids. *)
Theorem portions_fold_topk : forall (all : list tr) (part : N -> N) (k : nat) (from0 : Z),
  NoDup (map tid all) -> (1 <= k)%nat ->
  forall n S f, reach all part k from0 n S f -> topk k (U all part from0 n) S.
Proof. exact reach_topk. Qed.
Print Assumptions portions_fold_topk.

(* 8b. The tie of 8 to the Go loop.  harness/cmd/tqloop drives the REAL ComplexRequestProcessor.Process (Plan -> complexity estimate ->
   one TraceQLRequestProcessor.Process per portion) over a scripted database/sql back-end and records, per statement: the portion filter,
   the cached ids and the lower window bound printed into the SQL text, and the rows the back-end answered.  loop_code (model/TraceqlPortions.v,
   computed on every recorded run) replays the record against the model: each statement's parameters must be the model's (i, the winners so
   far, the bound next_from gives), each answer a legitimate top-`limit` selection of the rows visible to that statement.  Code 0 means: the
   run is a path of `reach`, the answer of Process is its last state, and (by 8) a top-`limit` selection of all matching traces. *)
Theorem portions_run_is_reach : forall (c : loop_case) (n : N), loop_code c = (0%Z, n, 0%Z, 0%Z) ->
  n = lc_portions c /\ exists W f, reach (lc_all c) (part_of (lc_parts c)) (lc_k c) (lc_from0 c) n W f /\ map tid W = lc_final c
              /\ topk (lc_k c) (U (lc_all c) (part_of (lc_parts c)) (lc_from0 c) n) W.
Proof. exact loop_code_sound. Qed.
Print Assumptions portions_run_is_reach.

(* 9. Statement level, layer "selector -> spans": the whole statement of AttrConditionPlanner (the CTE index_search: FROM the
   attribute index, the date/time window and the key/val pre-filter in WHERE, GROUP BY trace_id, span_id, the bit-set HAVING,
   the SELECT list with any(duration), any(timestamp_ns) and the aggregated value), run by the evaluator over ANY consistent
   attribute index, evaluates, and its rows are exactly the spans inside the time window whose rows satisfy the selector's
   expression, each with its trace, span id, duration, timestamp and aggregated value. *)
Theorem index_search_selects_matching_spans : forall re_match parse_float hash64 c d e attr conds,
  db_consistent c d ->
  keys_ok e = true -> map_res get_term (fst (snd (analyze_cond e ([], [])))) = Ok conds ->
  forallb term_lit_ok (fst (snd (analyze_cond e ([], [])))) = true ->
  (List.length (fst (snd (analyze_cond e ([], [])))) <= 64)%nat -> (cond_depth (fst (analyze_cond e ([], []))) <= 28)%nat ->
  exists T : list mspan,
    (forall rec cte, eval_body re_match parse_float hash64 [(attrs_table c, map row_of_irow d)] rec cte false (stmt1 c e attr conds)
                     = Some (map mspan_row T))
    /\ forall m, In m T <-> exists sp, In sp (spans_of c d) /\ exp_sem re_match parse_float true e (sp_rows sp) = true
                                       /\ m = mspan_of parse_float attr sp.
Proof. exact index_search_layer. Qed.
Print Assumptions index_search_selects_matching_spans.

(* 10. Layer "group per trace, HAVING, ORDER BY .. LIMIT": the statement of IndexGroupByPlanner (+ the HAVING AggregatorPlanner
   adds, + the LIMIT of IndexLimitPlanner), run by the evaluator over any typed content T of <p>index_search, returns one row per
   trace -- its id and the first 100 span ids -- for the groups that pass HAVING; with LIMIT k the first k of them in the order
   of max(timestamp_ns) descending.  For every prefix p of the CTE name ("" for a one-selector search, "_2" .. for an operand of
   && / ||) and with or without the column max(timestamp_ns) AS max_timestamp_ns that ComplexAnd/OrPlanner add to an operand (wts). *)
Theorem index_grouped_evaluates : forall re_match parse_float hash64 tables (p : string) (wts : bool) rec cte (T : list mspan),
  env_get (isx p) cte = Some (map mspan_row T) ->
  forall (hv : option expr) (P : list mspan -> bool),
  match hv with Some h => having_aliases ev_fuel h | None => [] end = [] ->
  (forall h m0 rest, hv = Some h -> In (m0 :: rest) (group_rows same_tr T) ->
     exists v t, ev re_match parse_float hash64 cte (al2 wts) ["trace_id"] ev_fuel true "" (map (qrow p) (m0 :: rest)) (qrow p m0) h = Some v
                 /\ truth v = Some t /\ is_true3 t = P (m0 :: rest)) ->
  (hv = None -> forall g, P g = true) ->
  forall withs lim,
  eval_body re_match parse_float hash64 tables rec cte false (grouped_stmt p wts withs hv lim)
  = option_map (map (g_row wts)) (grouped_answer T P lim).
Proof. exact grouped_bridge. Qed.
Print Assumptions index_grouped_evaluates.

(* 11. Layer "top-limit selection": what ORDER BY .. LIMIT of the evaluator keeps (grouped_answer) is all groups that pass
   HAVING when limit = 0, else min(limit, all) of them, and no group left out is more recent than a group kept. *)
Theorem limit_keeps_most_recent : forall (T : list mspan) (P : list mspan -> bool) (c : ctx) (SEL : list (list mspan)),
  grouped_answer T P (lim_of c) = Some SEL ->
  exists rest, Permutation.Permutation (SEL ++ rest) (filter P (group_rows same_tr T))
               /\ (limit c = 0%Z -> rest = [])
               /\ (limit c <> 0%Z -> List.length SEL = Nat.min (Z.to_nat (limit c)) (List.length (filter P (group_rows same_tr T))))
               /\ forall x y, In x SEL -> In y rest -> (g_key y <= g_key x)%Z.
Proof. exact grouped_answer_spec. Qed.
Print Assumptions limit_keeps_most_recent.

(* 12. traceql_correct, one selector: for every search with one selector (any boolean expression of conditions; no aggregate
   filter), every window, limit >= 0 and every consistent attribute index in which no trace has more than 100 spans inside the
   window (groupArray(100) cuts the span list there): the statement Plan + Process build, run by the evaluator up to its CTE
   index_grouped, returns what the script means -- result_ok, the judgement the check applies at run time to the
   implementation's own statements: every returned trace matches, with exactly its matched spans; no trace twice; all matching
   traces, or the `limit` most recent of them.  Guards: equal keys = equal terms, <= 64 distinct terms, nesting depth <= 28
   (the evaluator's fuel), literals print exactly (lits_exact), one statement for the request (rf_max = 0; portions: theorem 8). *)
Theorem traceql_correct_single : forall re_match parse_float hash64 (c : ctx) (d : db),
  rf_max c = 0%Z -> db_consistent c d -> spans_capped c d ->
  forall e : attr_exp,
  keys_ok e = true ->
  forallb term_lit_ok (fst (snd (analyze_cond e ([], [])))) = true ->
  (List.length (fst (snd (analyze_cond e ([], [])))) <= 64)%nat ->
  (cond_depth (fst (analyze_cond e ([], []))) <= 28)%nat ->
  lits_exact e = true ->
  forall (ao : andor) (n : nat) (s : select),
  plan (q1 e ao) MSearch c n = Ok s ->
  exists res, index_rows_g re_match parse_float hash64 c d s = Some res
              /\ result_ok c (traceql_sem re_match parse_float false c d (q1 e ao)) res = true.
Proof. exact TraceqlCorrectProofs.traceql_correct_single. Qed.
Print Assumptions traceql_correct_single.

(* 13. traceql_correct, one selector with an aggregate filter  {...} | count() / avg(x) / sum(x) / min(x) / max(x) <op> number
   (x an attribute or duration): as 12, and the traces returned are those whose matched spans pass agg_sem -- the count of
   matched spans, or the average / sum / minimum / maximum of the attribute's numeric values over the matched spans that carry
   one (first numeric value per span), compared with the number.  Additional guards: the number printed into HAVING parses back
   to the script's threshold (agg_guard, agg_lit_exact; both checked on every harness case). *)
Theorem traceql_correct_agg : forall re_match parse_float hash64 (c : ctx) (d : db),
  rf_max c = 0%Z -> db_consistent c d -> spans_capped c d ->
  forall e : attr_exp,
  keys_ok e = true ->
  forallb term_lit_ok (fst (snd (analyze_cond e ([], [])))) = true ->
  (List.length (fst (snd (analyze_cond e ([], [])))) <= 64)%nat ->
  (cond_depth (fst (analyze_cond e ([], []))) <= 28)%nat ->
  lits_exact e = true ->
  forall ag : aggregator, agg_guard ag = true -> agg_lit_exact ag = true ->
  forall (ao : andor) (n : nat) (s : select),
  plan (q2 e ag ao) MSearch c n = Ok s ->
  exists res, index_rows_g re_match parse_float hash64 c d s = Some res
              /\ result_ok c (traceql_sem re_match parse_float false c d (q2 e ag ao)) res = true.
Proof. exact TraceqlAggProofs.traceql_correct_agg. Qed.
Print Assumptions traceql_correct_agg.

(* 14. The guard spans_capped of 12/13 is needed: with every other hypothesis in place, a trace with 101 matching spans is
   returned with 100 of them (groupArray(100) in IndexGroupByPlanner), which result_ok rejects.  Recorded as the finding
   span-list-cut-at-100; the witness is corpus/C11 class span-cut, evaluated on the implementation's own statement on every run. *)
Theorem traceql_correct_single_refuted_without_span_cap :
  exists (c : ctx) (d : db) (e : attr_exp),
    rf_max c = 0%Z /\ db_consistent c d /\ keys_ok e = true
    /\ forallb term_lit_ok (fst (snd (analyze_cond e ([], [])))) = true
    /\ (List.length (fst (snd (analyze_cond e ([], [])))) <= 64)%nat /\ (cond_depth (fst (analyze_cond e ([], []))) <= 28)%nat
    /\ lits_exact e = true
    /\ List.length (spans_of c d) = 101%nat
    /\ exists s res, plan (q1 e AONone) MSearch c 1 = Ok s /\ index_rows_g re_toy float_toy hash_toy c d s = Some res
                     /\ map (fun r => List.length (snd r)) res = [100%nat]
                     /\ result_ok c (traceql_sem re_toy float_toy false c d (q1 e AONone)) res = false.
Proof. exists c0, d101, e3. exact span_list_cut_witness. Qed.
Print Assumptions traceql_correct_single_refuted_without_span_cap.

(* 14b/14c. What IS guaranteed without the guard spans_capped (every database): judged by result_ok_cap 100 -- the traces are exactly the
   right ones (all matching traces, or the `limit` most recent; the aggregate filter is decided over ALL matched spans of a trace, HAVING
   sees every row), no trace twice, and every returned span list consists of distinct matched spans of its trace: all of them when there
   are at most 100, otherwise 100 of them.  WHICH 100 is deliberately not judged: the evaluator takes the first 100 in row order;
   ClickHouse promises an order for groupArray's input only "when the subquery result is small enough" (index_search carries ORDER BY
   timestamp_ns DESC: the intent is the 100 newest) and none for groupUniqArray (&& / ||), so the choice is not a function of the query
   and the data.  This is why the cut stays a recorded finding (span-list-cut-at-100) instead of a reference-semantics choice. *)
Theorem traceql_correct_single_any_spans : forall re_match parse_float hash64 (c : ctx) (d : db),
  rf_max c = 0%Z -> db_consistent c d ->
  forall e : attr_exp,
  keys_ok e = true ->
  forallb term_lit_ok (fst (snd (analyze_cond e ([], [])))) = true ->
  (List.length (fst (snd (analyze_cond e ([], [])))) <= 64)%nat ->
  (cond_depth (fst (analyze_cond e ([], []))) <= 28)%nat ->
  lits_exact e = true ->
  forall (ao : andor) (n : nat) (s : select),
  plan (q1 e ao) MSearch c n = Ok s ->
  exists res, index_rows_g re_match parse_float hash64 c d s = Some res
              /\ result_ok_cap 100 c (traceql_sem re_match parse_float false c d (q1 e ao)) res = true.
Proof. exact TraceqlCorrectProofs.traceql_correct_single_any_spans. Qed.
Print Assumptions traceql_correct_single_any_spans.

Theorem traceql_correct_agg_any_spans : forall re_match parse_float hash64 (c : ctx) (d : db),
  rf_max c = 0%Z -> db_consistent c d ->
  forall e : attr_exp,
  keys_ok e = true ->
  forallb term_lit_ok (fst (snd (analyze_cond e ([], [])))) = true ->
  (List.length (fst (snd (analyze_cond e ([], [])))) <= 64)%nat ->
  (cond_depth (fst (analyze_cond e ([], []))) <= 28)%nat ->
  lits_exact e = true ->
  forall ag : aggregator, agg_guard ag = true -> agg_lit_exact ag = true ->
  forall (ao : andor) (n : nat) (s : select),
  plan (q2 e ag ao) MSearch c n = Ok s ->
  exists res, index_rows_g re_match parse_float hash64 c d s = Some res
              /\ result_ok_cap 100 c (traceql_sem re_match parse_float false c d (q2 e ag ao)) res = true.
Proof. exact TraceqlAggProofs.traceql_correct_agg_any_spans. Qed.
Print Assumptions traceql_correct_agg_any_spans.

(* 12p/13p. Portions inside one statement (rf_max > 0): ComplexRequestProcessor sends the search once per portion with
   cityHash64(trace_id) % Max == I [OR trace_id IN (unhex(cached ids))] added to the WHERE of index_search.  For every portion (Max >= 1, any I,
   any list of cached ids) the statement, run over the WHOLE index, returns what the script means over the rows of the traces VISIBLE to
   that portion (visible: hash class I or cached) -- the `V i S from` of theorem 8, here with spans, selectors and aggregate filters.
   Guard rf_ok: Max > 0 and its printed text reads back as Max (computed on every case; the round trip of string_of_Z is not proved). *)
Theorem traceql_correct_single_portion : forall re_match parse_float hash64 (c : ctx) (d : db),
  rf_ok c = true -> db_consistent c (visible hash64 c d) -> spans_capped c (visible hash64 c d) ->
  forall e : attr_exp,
  keys_ok e = true ->
  forallb term_lit_ok (fst (snd (analyze_cond e ([], [])))) = true ->
  (List.length (fst (snd (analyze_cond e ([], [])))) <= 64)%nat ->
  (cond_depth (fst (analyze_cond e ([], []))) <= 28)%nat ->
  lits_exact e = true ->
  forall (ao : andor) (n : nat) (s : select),
  plan (q1 e ao) MSearch c n = Ok s ->
  exists res, index_rows_g re_match parse_float hash64 c d s = Some res
              /\ result_ok c (traceql_sem re_match parse_float false c (visible hash64 c d) (q1 e ao)) res = true.
Proof. exact TraceqlCorrectProofs.traceql_correct_single_portion. Qed.
Print Assumptions traceql_correct_single_portion.

Theorem traceql_correct_agg_portion : forall re_match parse_float hash64 (c : ctx) (d : db),
  rf_ok c = true -> db_consistent c (visible hash64 c d) -> spans_capped c (visible hash64 c d) ->
  forall e : attr_exp,
  keys_ok e = true ->
  forallb term_lit_ok (fst (snd (analyze_cond e ([], [])))) = true ->
  (List.length (fst (snd (analyze_cond e ([], [])))) <= 64)%nat ->
  (cond_depth (fst (analyze_cond e ([], []))) <= 28)%nat ->
  lits_exact e = true ->
  forall ag : aggregator, agg_guard ag = true -> agg_lit_exact ag = true ->
  forall (ao : andor) (n : nat) (s : select),
  plan (q2 e ag ao) MSearch c n = Ok s ->
  exists res, index_rows_g re_match parse_float hash64 c d s = Some res
              /\ result_ok c (traceql_sem re_match parse_float false c (visible hash64 c d) (q2 e ag ao)) res = true.
Proof. exact TraceqlAggProofs.traceql_correct_agg_portion. Qed.
Print Assumptions traceql_correct_agg_portion.

(* ---------------------------------------------------------------- && / || between selectors

   15. Layer "operand": the statement ComplexAndPlanner / ComplexOrPlanner wrap around operand number i,
         WITH .. , _i_pre_ AS (<operand>, max(..) AS max_timestamp_ns)
         SELECT trace_id, _span_id AS span_id, max_timestamp_ns [, i AS _op] FROM _i_pre_ ARRAY JOIN _i_pre_.span_id AS _span_id,
       run by the evaluator over ANY typed content R of _i_pre_ (one row per trace: id, span ids, recency key), returns one row per
       (trace, span) of R carrying the key of the trace and the operand number. *)
Theorem wrapped_operand_evaluates : forall re_match parse_float hash64 tables rec cte (tagged : bool) (i : nat) (o : option string * select),
  op_lit i ->
  forall (cte2 : env) (R : list tres),
  stage_with rec cte true (s_withs (wrap_operand tagged i o)) = Some cte2 ->
  env_get (pre_alias i) cte2 = Some (map (orow_row true) R) ->
  eval_body re_match parse_float hash64 tables rec cte true (wrap_operand tagged i o) = Some (map (wrow_row tagged) (wrap_rows i R)).
Proof. exact wrap_eval. Qed.
Print Assumptions wrapped_operand_evaluates.

(* 16. Layer "UNION ALL, GROUP BY trace": the statement of ComplexAndPlanner (tagged, HAVING uniqExact(_op) = N) / ComplexOrPlanner,
       over ANY typed content of its operands: one row per trace of the concatenation -- the distinct span ids of its rows (first 100),
       the largest key -- for the groups whose rows carry N distinct operand numbers (&&) resp. all groups (||); ORDER BY
       max(<p>a.max_timestamp_ns) DESC LIMIT k as the evaluator runs it. *)
Theorem union_statement_evaluates : forall re_match parse_float hash64 tables rec cte (prefix : string) (tagged : bool) (N : nat)
    (subs : list select) (Ws : list (list wrow)),
  all_some (map (rec cte true) subs) = Some (map (map (wrow_row tagged)) Ws) ->
  forall (wts top : bool) (lim : option expr),
  eval_body re_match parse_float hash64 tables rec cte top (cstmt prefix tagged N subs wts lim)
  = option_map (map (fun g => orow_row wts (cg g))) (lim_answer ckey (filter (cP tagged N) (group_rows same_wtr (List.concat Ws))) lim).
Proof. exact complex_bridge. Qed.
Print Assumptions union_statement_evaluates.

(* 17. What those groups mean: for operand answers R0, R1 with unique trace ids, every trace with at least one span, all spans among
       the (at most 100) spans ids t of that trace: the rows of the && statement are and_sem R0 R1 -- the traces present in BOTH, each
       with the UNION of its span sets and the larger key -- and those of the || statement are or_sem R0 R1 -- the traces of EITHER --
       up to deq (the order of traces and of span ids, which result_ok ignores). *)
Theorem union_groups_are_and_or : forall ids : string -> list string,
  (forall t, (List.length (ids t) <= 100)%nat) ->
  forall (tagged : bool) (R0 R1 : list tres),
  tnodup R0 -> tnodup R1 -> twf ids R0 -> twf ids R1 ->
  deq (comb tagged R0 R1) (if tagged then and_sem R0 R1 else or_sem R0 R1).
Proof. exact comb_is_sem. Qed.
Print Assumptions union_groups_are_and_or.

(* 18. planComplex (the pointer walk of planner.go over a chain  S1 op S2 op ...): the tree it returns has two operands per node, every
       selector of it inside the guards, and its meaning (ep_sem: && = and_sem, || = or_sem of the operands) is the reference meaning of
       the chain (traceql_sem: && binds tighter than ||) up to deq -- the planner nests a run of || to the left, the reference to the
       right (or_assoc).  chain_ok: every selector within the guards of 12/13, an operator wherever a selector follows. *)
Theorem planner_tree_is_the_chain : forall re_match parse_float (c : ctx) (d : db) (h : selector) (ao : andor) (s' : script) (t : ep) (cnt' : Z),
  chain_ok (Script h ao (Some s')) ->
  plan_complex None 0 None (Script h ao (Some s')) = Some (Some t, cnt') ->
  ep_ok t /\ is_complex t = true
  /\ deq (ep_sem re_match parse_float c d t) (traceql_sem re_match parse_float false c d (Script h ao (Some s'))).
Proof. exact tree_is_chain. Qed.
Print Assumptions planner_tree_is_the_chain.

(* 19. traceql_correct, chains: for EVERY search  S1 op S2 op ... op Sk  (k >= 2, op in {&&, ||}, each selector any boolean expression
       with or without aggregate filter, within the guards of 12/13), every window, limit >= 0 and every consistent attribute index with
       at most 100 spans per trace in the window: the statement Plan + Process build, run by the evaluator up to its CTE index_grouped
       with any sufficient statement fuel F (two nested sub-queries per && / || node: chain_need q <= F + 1), returns what the script
       means (result_ok against traceql_sem: && = the traces matched by both sides with the union of their matched spans, || = by
       either; all of them or the `limit` most recent).  A LIMIT inside an operand (seeded change C11-b) is what this excludes. *)
Theorem traceql_correct_chain_any_fuel : forall re_match parse_float hash64 (c : ctx) (d : db),
  rf_max c = 0%Z -> db_consistent c d -> spans_capped c d ->
  forall (q : script) (n : nat) (s : select) (F : nat),
  chain_ok q -> sc_tail q <> None ->
  plan q MSearch c n = Ok s ->
  (chain_need q <= S F)%nat ->
  exists res, index_rows_gf re_match parse_float hash64 F c d s = Some res
              /\ result_ok c (traceql_sem re_match parse_float false c d q) res = true.
Proof. exact traceql_correct_chain_fuel. Qed.
Print Assumptions traceql_correct_chain_any_fuel.

(* 20. The same for the evaluator as the check runs it on the implementation's statements (index_rows_g: statement fuel 12): chains
       whose planner tree nests at most five nodes below the root (six selectors joined by &&, or any mix of that depth). *)
Theorem traceql_correct_chain : forall re_match parse_float hash64 (c : ctx) (d : db),
  rf_max c = 0%Z -> db_consistent c d -> spans_capped c d ->
  forall (q : script) (n : nat) (s : select),
  chain_ok q -> sc_tail q <> None ->
  plan q MSearch c n = Ok s ->
  (chain_need q <= 13)%nat ->
  exists res, index_rows_g re_match parse_float hash64 c d s = Some res
              /\ result_ok c (traceql_sem re_match parse_float false c d q) res = true.
Proof. exact TraceqlChainPlan.traceql_correct_chain. Qed.
Print Assumptions traceql_correct_chain.

(* ---------------------------------------------------------------- round 6: the de-duplication key
   analyzeCond identifies the terms of a selector by the TEXT AttrSelector.String() prints (label, blank, operator, blank, the
   token of the value as captured).  keys_ok -- "terms that print alike are the same term" -- was a guard of theorems 2, 5, 9, 12,
   13, 19, 20; it is now a consequence of what the grammar guarantees about the captured tokens (TraceqlKey.term_grammar: a label
   without blanks; exactly one of a quoted token / a number of the bytes -.0-9 / a duration that starts with a digit and ends with a
   letter) and of the library values being functions of the tokens (lib_functional).  Both, and the equality of this printer with
   the text the REAL String() returned, are computed on every harness case (codes 6, 7), on literals of up to 520 bytes that share
   prefixes of 30..520 bytes (the seeded change C11-f cut the printed literal at 48 bytes). *)

(* 21. AttrSelector.String() is injective on grammar terms: equal keys force the same label, operator and value tokens. *)
Theorem attr_selector_key_injective : forall a b : attr_sel,
  term_grammar a = true -> term_grammar b = true ->
  attr_sel_string a = attr_sel_string b ->
  a_label a = a_label b /\ a_op a = a_op b /\ tokens_eqb (a_val a) (a_val b) = true.
Proof. exact key_injective. Qed.
Print Assumptions attr_selector_key_injective.

(* 22. keys_ok follows. *)
Theorem keys_ok_from_grammar : forall e : attr_exp, terms_grammar e = true -> keys_ok e = true.
Proof. exact keys_ok_of_grammar. Qed.
Print Assumptions keys_ok_from_grammar.

(* 22b. ... and lib_functional holds whenever the three library fields were filled by functions of the tokens, whatever the functions
   (the harness fills them with QuotedString.Unquote, strconv.ParseFloat + FloatVal.String, time.ParseDuration). *)
Theorem library_values_are_functional : forall (unqF ffmtF : string -> option string) (durF : string -> option Z) (ts : list attr_sel),
  (forall t, List.In t ts -> lib_from unqF ffmtF durF (a_val t)) -> lib_functional ts = true.
Proof. exact lib_functional_from. Qed.
Print Assumptions library_values_are_functional.

(* 2g. Theorem 2 without the guard keys_ok. *)
Theorem analyze_keeps_meaning_grammar : forall re_match parse_float lit_round (e : attr_exp),
  terms_grammar e = true ->
  let '(c, st) := analyze_cond e ([], []) in
  forall rows, cond_sem re_match parse_float lit_round (fst st) rows c = exp_sem re_match parse_float lit_round e rows.
Proof. exact analyze_sem_grammar. Qed.
Print Assumptions analyze_keeps_meaning_grammar.

(* 2k. The analysis is right for EVERY printer that separates the terms of the selector: analyzeCond over an arbitrary key function
   (analyze_cond_k; the model's analyze_cond is its instance at attr_sel_string: analyze_cond_k_faithful) keeps the meaning of the
   expression whenever the key is injective on the expression's terms.  Together with 21 this is 2g; it also says what a changed
   String() has to preserve. *)
Theorem analyze_keeps_meaning_for_every_injective_key : forall re_match parse_float lit_round (key : attr_sel -> string) (e : attr_exp),
  (forall a b, List.In a (exp_terms e) -> List.In b (exp_terms e) -> key a = key b -> a = b) ->
  let '(c, st) := analyze_cond_k key e ([], []) in
  forall rows, cond_sem re_match parse_float lit_round (fst st) rows c = exp_sem re_match parse_float lit_round e rows.
Proof. exact analyze_any_injective_key. Qed.
Print Assumptions analyze_keeps_meaning_for_every_injective_key.

Theorem analyze_cond_is_the_faithful_instance : forall e st, analyze_cond_k attr_sel_string e st = analyze_cond e st.
Proof. exact analyze_cond_k_faithful. Qed.
Print Assumptions analyze_cond_is_the_faithful_instance.

(* 2r. The guard is needed of the PRINTER: analyzeCond run with a key that prints only the first 8 bytes of the literal (the shape of
   C11-f) merges  .u = "/ordersA"  and  .u = "/ordersB" : the expression holds of a span that has only B, the analysed condition
   does not; with the faithful key it does. *)
Theorem analyze_refuted_with_cut_key :
  exists (e : attr_exp) (rows : list irow),
    terms_grammar e = true /\
    analyze_cond_k attr_sel_string e ([], []) = analyze_cond e ([], []) /\
    exp_sem (fun _ _ => false) (fun _ => None) false e rows = true /\
    (let '(c, st) := analyze_cond e ([], []) in cond_sem (fun _ _ => false) (fun _ => None) false (fst st) rows c) = true /\
    (let '(c, st) := analyze_cond_k (key_cut 8) e ([], []) in cond_sem (fun _ _ => false) (fun _ => None) false (fst st) rows c) = false.
Proof. exact TraceqlKeyProofs.analyze_refuted_with_cut_key. Qed.
Print Assumptions analyze_refuted_with_cut_key.

(* 12g / 13g / 20g. traceql_correct for one selector, one selector with an aggregate filter, and chains, with terms_grammar in the
   place of keys_ok (chain_ok_g = chain_ok with that replacement).  Example grammar_hyps: the witnesses of single_hyps / agg_hyps /
   chain_hyps meet the new guard. *)
Theorem traceql_correct_single_grammar : forall re_match parse_float hash64 (c : ctx) (d : db),
  rf_max c = 0%Z -> db_consistent c d -> spans_capped c d ->
  forall e : attr_exp,
  terms_grammar e = true ->
  forallb term_lit_ok (fst (snd (analyze_cond e ([], [])))) = true ->
  (List.length (fst (snd (analyze_cond e ([], [])))) <= 64)%nat ->
  (cond_depth (fst (analyze_cond e ([], []))) <= 28)%nat ->
  lits_exact e = true ->
  forall (ao : andor) (n : nat) (s : select),
  plan (q1 e ao) MSearch c n = Ok s ->
  exists res, index_rows_g re_match parse_float hash64 c d s = Some res
              /\ result_ok c (traceql_sem re_match parse_float false c d (q1 e ao)) res = true.
Proof. exact TraceqlKeyCorrect.traceql_correct_single_grammar. Qed.
Print Assumptions traceql_correct_single_grammar.

Theorem traceql_correct_agg_grammar : forall re_match parse_float hash64 (c : ctx) (d : db),
  rf_max c = 0%Z -> db_consistent c d -> spans_capped c d ->
  forall e : attr_exp,
  terms_grammar e = true ->
  forallb term_lit_ok (fst (snd (analyze_cond e ([], [])))) = true ->
  (List.length (fst (snd (analyze_cond e ([], [])))) <= 64)%nat ->
  (cond_depth (fst (analyze_cond e ([], []))) <= 28)%nat ->
  lits_exact e = true ->
  forall ag : aggregator, agg_guard ag = true -> agg_lit_exact ag = true ->
  forall (ao : andor) (n : nat) (s : select),
  plan (q2 e ag ao) MSearch c n = Ok s ->
  exists res, index_rows_g re_match parse_float hash64 c d s = Some res
              /\ result_ok c (traceql_sem re_match parse_float false c d (q2 e ag ao)) res = true.
Proof. exact TraceqlKeyCorrect.traceql_correct_agg_grammar. Qed.
Print Assumptions traceql_correct_agg_grammar.

Theorem traceql_correct_chain_grammar : forall re_match parse_float hash64 (c : ctx) (d : db),
  rf_max c = 0%Z -> db_consistent c d -> spans_capped c d ->
  forall (q : script) (n : nat) (s : select),
  chain_ok_g q -> sc_tail q <> None ->
  plan q MSearch c n = Ok s ->
  (chain_need q <= 13)%nat ->
  exists res, index_rows_g re_match parse_float hash64 c d s = Some res
              /\ result_ok c (traceql_sem re_match parse_float false c d q) res = true.
Proof. exact TraceqlKeyCorrect.traceql_correct_chain_grammar. Qed.
Print Assumptions traceql_correct_chain_grammar.

(* 23 (round 8). The value of a string literal: on the modelled domain of QuotedString.Unquote (no backslash, printable ASCII)
   exactly the ONE enclosing pair of quote characters goes and the content comes back byte for byte -- also a content that
   begins or ends with the other quote character. 23r: a cut-set trim of both quote characters (seeded C11-h) is another function. *)
Theorem unquote_keeps_the_content : forall (q : Ascii.ascii) (b : string),
  is_quote q = true -> Traceql.plain b = true -> Traceql.unquote_plain (String q (b ++ String q "")) = Some b.
Proof. exact TraceqlUnquoteProofs.unquote_plain_keeps_content. Qed.
Print Assumptions unquote_keeps_the_content.

Theorem unquote_is_not_a_cut_set_trim :
  exists tok, Traceql.unquote_plain tok = Some """ok""" /\ trim_quotes tok = "ok".
Proof. exact TraceqlUnquoteProofs.trim_is_not_unquote. Qed.
Print Assumptions unquote_is_not_a_cut_set_trim.
