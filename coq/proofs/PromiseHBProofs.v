(* C01: the completion of a promise is atomic for its getters -- for every Done / Get / GetCtx program that passes the syntactic
   happens-before check hb_ok of model/PromiseHB.v, every number of threads and every interleaving. *)
From Coq Require Import List String ZArith Bool Lia Arith.
From Qryn Require Import model.PromiseHB.
Import ListNotations.
Open Scope string_scope.

Lemma nth_set_nth : forall {A} (l : list A) i j x y,
  nth_error l i = Some y -> nth_error (set_nth i x l) j = if Nat.eqb i j then Some x else nth_error l j.
Proof.
  intros A l. induction l as [|a l IH]; intros i j x y H.
  - destruct i; discriminate H.
  - destruct i as [|i]; destruct j as [|j]; cbn in *; try reflexivity.
    apply (IH i j x y H).
Qed.

Lemma wok_shape : forall c, wok c = true -> exists k, c = PCas "pending" 1 0 :: k /\ wpost k = true.
Proof.
  intros [|[f o n| | | | | | |] k] H; cbn in H; try discriminate H.
  repeat (apply andb_true_iff in H; destruct H as [H ?]).
  apply String.eqb_eq in H. apply Z.eqb_eq in H1. apply Z.eqb_eq in H2. subst. now exists k.
Qed.

Lemma wpost_shape : forall c, wpost c = true ->
  (exists f, c = [PClose f]) \/ (exists f k, c = PStore f :: k /\ wpost k = true).
Proof.
  intros [|[| |f|f| | | |] k] H; cbn in H; try discriminate H.
  - right. apply andb_true_iff in H. destruct H as [_ H]. now exists f, k.
  - left. destruct k; [now exists f | discriminate H].
Qed.

Lemma subsetb_in : forall a b x, subsetb a b = true -> In x a -> In x b.
Proof.
  intros a b x H I. unfold subsetb in H. rewrite forallb_forall in H. specialize (H x I).
  apply existsb_exists in H. destruct H as (y & Iy & E). apply String.eqb_eq in E. now subst.
Qed.

Section Inv.
Variable wp : list pop.
Hypothesis Hw : wok wp = true.
Let sf := stored wp.

Definition Tok (s : pst) (w : nat) (i : nat) (t : thr) : Prop :=
  if t_wr t then
    t_out t = None /\
    ((t_code t = wp /\ S i <> w)
     \/ (t_code t = [] /\ (S i = w -> closed s = true))
     \/ (S i = w /\ wpost (t_code t) = true /\ closed s = false /\
         forall f, In f sf -> flds s f = w \/ In f (stored (t_code t))))
  else
    rok sf (t_rcv t) (t_code t) = true /\ (t_rcv t = true -> closed s = true) /\
    (forall o, t_out t = Some o -> o = [] \/ (closed s = true /\ Forall (eq w) o)).

Definition G (s : pst) (w : nat) (ts : list thr) : Prop :=
  ((pend s = 1%Z /\ w = O) \/ (pend s = 0%Z /\ w <> O)) /\
  (w = O -> closed s = false) /\
  (closed s = true -> forall f, In f sf -> flds s f = w) /\
  (forall i t, nth_error ts i = Some t -> Tok s w i t).

(* what a return of field values yields *)
Lemma ret_ok : forall s w (t : thr) reads,
  (closed s = true -> forall f, In f sf -> flds s f = w) ->
  (t_rcv t = true -> closed s = true) ->
  reads_ok sf (t_rcv t) reads = true ->
  map (flds s) reads = [] \/ (closed s = true /\ Forall (eq w) (map (flds s) reads)).
Proof.
  intros s w t reads C R H. unfold reads_ok in H. destruct (t_rcv t) eqn:B.
  - right. specialize (R eq_refl). split; [exact R|]. apply Forall_forall. intros v Iv.
    apply in_map_iff in Iv. destruct Iv as (f & <- & If). symmetry. apply (C R). eapply subsetb_in; eauto.
  - left. destruct reads; [reflexivity | discriminate H].
Qed.

Lemma step_inv : forall s w ts m s' ts',
  G s w ts -> sys_step s ts m = (s', ts') -> exists w', G s' w' ts'.
Proof.
  intros s w ts [i alt] s' ts' (GP & GC & GF & GT) ST. unfold sys_step in ST. cbn [fst snd] in ST.
  destruct (nth_error ts i) as [t|] eqn:NT; [|inversion ST; subst; exists w; repeat split; assumption].
  destruct (tstep i alt s t) as [[s1 t1]|] eqn:TS; [|inversion ST; subst; exists w; repeat split; assumption].
  inversion ST; subst s' ts'; clear ST.
  pose proof (GT i t NT) as TK. unfold Tok in TK.
  (* frame: the other threads, when the state changes by one of the three writer moves *)
  assert (FRAME : forall s2 w2 t2,
            Tok s2 w2 i t2 ->
            (forall j u, j <> i -> Tok s w j u -> Tok s2 w2 j u) ->
            forall j u, nth_error (set_nth i t2 ts) j = Some u -> Tok s2 w2 j u).
  { intros s2 w2 t2 T2 FR j u N. rewrite (nth_set_nth ts i j t2 t NT) in N.
    destruct (Nat.eqb i j) eqn:E.
    - apply Nat.eqb_eq in E. subst j. inversion N; subst. exact T2.
    - apply Nat.eqb_neq in E. apply FR; [congruence | apply GT; exact N]. }
  unfold tstep in TS.
  destruct (t_wr t) eqn:WR.
  - (* a writer moves *)
    destruct TK as (ON & [(CD & NW) | [(CD & DN) | (IW & WP & CL & FL)]]).
    + (* before its CAS *)
      destruct (wok_shape wp Hw) as (k & EW & WK). rewrite CD, EW in TS.
      destruct (Z.eqb (pend s) 1) eqn:PE; inversion TS; subst s1 t1; clear TS.
      * apply Z.eqb_eq in PE. destruct GP as [(P1 & W0) | (P0 & _)]; [|lia]. subst w.
        exists (S i). split; [right; cbn; split; [reflexivity | discriminate]|].
        split; [discriminate|]. split; [cbn; intros C; rewrite (GC eq_refl) in C; discriminate C|].
        apply FRAME.
        -- unfold Tok, goto. cbn. rewrite WR. split; [exact ON|]. right. right.
           split; [reflexivity|]. split; [exact WK|]. split; [apply GC; reflexivity|].
           intros f If. right. unfold sf in If. rewrite EW in If. exact If.
        -- intros j u NE TU. unfold Tok in *. cbn [closed flds]. destruct (t_wr u).
           ++ destruct TU as (OU & [(C1 & _) | [(C1 & _) | (C1 & _)]]); (split; [exact OU|]).
              ** left. split; [exact C1 | lia].
              ** right. left. split; [exact C1 | lia].
              ** discriminate C1.
           ++ destruct TU as (R1 & R2 & R3). split; [exact R1|]. split; [exact R2|].
              intros o Ho. destruct (R3 o Ho) as [E | (C & _)]; [now left|]. rewrite (GC eq_refl) in C. discriminate C.
      * (* the CAS fails: the method returns *)
        exists w. split; [exact GP|]. split; [exact GC|]. split; [exact GF|].
        apply FRAME; [|intros; assumption].
        unfold Tok, goto. cbn. rewrite WR. split; [exact ON|]. right. left. split; [reflexivity|]. intros E. exfalso. exact (NW E).
    + rewrite CD in TS. discriminate TS.
    + (* the winner: stores, then the close *)
      destruct (wpost_shape _ WP) as [(f & EC) | (f & k & EC & WK)]; rewrite EC in TS.
      * rewrite CL in TS. inversion TS; subst s1 t1; clear TS.
        exists w. split; [exact GP|]. split; [intros W0; exfalso; lia|].
        split.
        { cbn. intros _ g Ig. destruct (FL g Ig) as [E | I]; [exact E|]. rewrite EC in I. cbn in I. contradiction. }
        apply FRAME.
        -- unfold Tok, goto. cbn. rewrite WR. split; [exact ON|]. right. left. split; reflexivity.
        -- intros j u NE TU. unfold Tok in *. cbn [closed flds]. destruct (t_wr u).
           ++ destruct TU as (OU & [(C1 & N1) | [(C1 & _) | (C1 & _)]]); (split; [exact OU|]).
              ** left. split; assumption.
              ** right. left. split; [exact C1 | reflexivity].
              ** exfalso. lia.
           ++ destruct TU as (R1 & R2 & R3). split; [exact R1|]. split; [reflexivity|].
              intros o Ho. destruct (R3 o Ho) as [E | (C & Fo)]; [now left | right; split; [reflexivity | exact Fo]].
      * inversion TS; subst s1 t1; clear TS.
        exists w. split; [exact GP|]. split; [cbn; exact GC|]. split; [cbn; intros C; rewrite CL in C; discriminate C|].
        apply FRAME.
        -- unfold Tok, goto. cbn. rewrite WR. split; [exact ON|]. right. right.
           split; [exact IW|]. split; [exact WK|]. split; [exact CL|].
           intros g Ig. unfold upd. destruct (String.eqb g f) eqn:E; [left; exact IW|].
           destruct (FL g Ig) as [E1 | I]; [left; exact E1|]. right. rewrite EC in I. cbn in I.
           destruct I as [I | I]; [subst g; rewrite String.eqb_refl in E; discriminate E | exact I].
        -- intros j u NE TU. unfold Tok in *. cbn [closed flds]. destruct (t_wr u).
           ++ destruct TU as (OU & [(C1 & N1) | [(C1 & D1) | (C1 & _)]]); (split; [exact OU|]).
              ** left. split; assumption.
              ** right. left. split; assumption.
              ** exfalso. lia.
           ++ exact TU.
  - (* a getter moves: the promise itself does not change *)
    destruct TK as (RK & RC & RO).
    assert (KEEP : forall t2, Tok s w i t2 -> exists w', G s w' (set_nth i t2 ts)).
    { intros t2 T2. exists w. split; [exact GP|]. split; [exact GC|]. split; [exact GF|]. apply FRAME; [exact T2 | intros; assumption]. }
    assert (RET : forall reads, reads_ok sf (t_rcv t) reads = true -> Tok s w i (ret s t reads)).
    { intros reads H. unfold Tok, ret. cbn. rewrite WR. split; [reflexivity|]. split; [exact RC|].
      intros o Ho. inversion Ho; subst o. eapply ret_ok; eauto. }
    destruct (t_code t) as [|op k] eqn:CD; [discriminate TS|].
    destruct op as [f o n|f v reads|f|f|f|cr ch|reads|u]; cbn in RK; try discriminate RK.
    + (* fast path *)
      apply andb_true_iff in RK. destruct RK as [RR RK].
      destruct (Z.eqb (pend s) v); inversion TS; subst s1 t1; clear TS; apply KEEP.
      * now apply RET.
      * unfold Tok, goto. cbn. rewrite WR. split; [exact RK|]. split; [exact RC | exact RO].
    + (* receive *)
      apply andb_true_iff in RK. destruct RK as [_ RK].
      destruct (closed s) eqn:CL; [|discriminate TS]. inversion TS; subst s1 t1; clear TS. apply KEEP.
      unfold Tok, rcvd. cbn. rewrite WR, CL. split; [exact RK|]. split; [reflexivity | exact RO].
    + (* select *)
      apply andb_true_iff in RK. destruct RK as [RK1 RK]. apply andb_true_iff in RK1. destruct RK1 as [_ RR].
      destruct alt.
      * inversion TS; subst s1 t1; clear TS. apply KEEP. now apply RET.
      * destruct (closed s) eqn:CL; [|discriminate TS]. inversion TS; subst s1 t1; clear TS. apply KEEP.
        unfold Tok, rcvd. cbn. rewrite WR, CL. split; [exact RK|]. split; [reflexivity | exact RO].
    + inversion TS; subst s1 t1; clear TS. apply KEEP. now apply RET.
Qed.

Lemma run_inv : forall sched s w ts s' ts',
  G s w ts -> sys_run s ts sched = (s', ts') -> exists w', G s' w' ts'.
Proof.
  induction sched as [|m r IH]; intros s w ts s' ts' HG R; cbn in R.
  - inversion R; subst. now exists w.
  - destruct (sys_step s ts m) as [s1 ts1] eqn:ST.
    destruct (step_inv _ _ _ _ _ _ HG ST) as (w1 & G1). eapply IH; eauto.
Qed.

Lemma init_inv : forall ts,
  Forall (fun t => t_out t = None /\ t_rcv t = false /\ if t_wr t then t_code t = wp else rok sf false (t_code t) = true) ts ->
  G pinit O ts.
Proof.
  intros ts F. split; [left; split; reflexivity|]. split; [reflexivity|]. split; [cbn; discriminate|].
  intros i t N. rewrite Forall_forall in F. destruct (F t (nth_error_In _ _ N)) as (O1 & R1 & C1).
  unfold Tok. destruct (t_wr t).
  - split; [exact O1|]. left. split; [exact C1 | discriminate].
  - rewrite R1. split; [exact C1|]. split; [discriminate|]. intros o Ho. rewrite O1 in Ho. discriminate Ho.
Qed.
End Inv.

(* THE THEOREM.  Any number of concurrent Done calls (program `done`) and getters (programs `getters`, each Get or GetCtx or any
   other program) on one fresh promise, hb_ok: after ANY interleaving there is one value w such that every getter that returned
   field values returned w in every position -- the arguments of ONE Done call, never the zero values, never a mixture -- and it
   did so after the channel was closed; w = 0 (no Done has won yet) only if no getter has returned field values. *)
Theorem promise_completion_is_atomic : forall done getters nd sched s' ts',
  hb_ok done getters = true ->
  sys_run pinit (repeat (writer done) nd ++ map reader getters) sched = (s', ts') ->
  exists w, forall t o, In t ts' -> t_out t = Some o ->
    o = [] \/ (closed s' = true /\ w <> O /\ pend s' = 0%Z /\ Forall (eq w) o).
Proof.
  intros done getters nd sched s' ts' HB R.
  unfold hb_ok in HB. apply andb_true_iff in HB. destruct HB as [HW HR].
  assert (GI : G done pinit O (repeat (writer done) nd ++ map reader getters)).
  { apply init_inv. apply Forall_app. split.
    - apply Forall_forall. intros t I. apply repeat_spec in I. subst t. cbn. auto.
    - apply Forall_forall. intros t I. apply in_map_iff in I. destruct I as (p & <- & Ip). cbn.
      rewrite forallb_forall in HR. auto. }
  destruct (run_inv done HW sched _ _ _ _ _ GI R) as (w & GP & GC & GF & GT).
  exists w. intros t o I Ho. apply In_nth_error in I. destruct I as (i & N).
  specialize (GT i t N). unfold Tok in GT. destruct (t_wr t).
  - destruct GT as (O1 & _). rewrite O1 in Ho. discriminate Ho.
  - destruct GT as (_ & _ & RO). destruct (RO o Ho) as [E | (C & Fo)]; [now left|]. right.
    assert (w <> O) by (intros W0; rewrite (GC W0) in C; discriminate C).
    split; [exact C|]. split; [assumption|]. split; [|exact Fo].
    destruct GP as [(_ & W0) | (P0 & _)]; [contradiction | exact P0].
Qed.

(* the programs of the unchanged promise.go pass the check; so the theorem holds of them *)
Example unchanged_promise_passes : hb_ok done_model [get_model; getctx_model] = true.
Proof. vm_compute. reflexivity. Qed.
Example a_completed_get : exists sched,
  outs (snd (sys_run pinit (repeat (writer done_model) 2 ++ map reader [get_model; getctx_model; getctx_model]) sched)) = [[2; 2]; [2; 2]; []]%nat.
Proof. exists [(1, false); (0, false); (4, true); (1, false); (1, false); (1, false); (2, false); (2, false); (3, false); (3, false)]%nat. vm_compute. reflexivity. Qed.

(* seeded C01-e: the fast path is rejected by the check ... *)
Example fast_path_is_rejected :
  hb_ok done_model [get_fast; getctx_model] = false /\ hb_ok done_model [get_model; getctx_fast] = false
  /\ unordered_reads false get_fast = ["res"; "err"].
Proof. vm_compute. repeat split; reflexivity. Qed.
(* ... and for a reason: one Done (thread 0, it stores 1 = its arguments) and one Get with the fast path (thread 1): the CAS, then
   the Get -- it returns the zero values (0, nil): "success, 0 rows" for the failed INSERT Done reports -- while pending = 0 and
   the channel is still open; the statement of the theorem fails for every w. *)
Theorem fast_path_refuted : exists sched s' ts',
  sys_run pinit (repeat (writer done_model) 1 ++ map reader [get_fast]) sched = (s', ts') /\
  pend s' = 0%Z /\ closed s' = false /\ outs ts' = [[0; 0]]%nat.
Proof.
  exists [(0, false); (1, false)]%nat.
  eexists. eexists. split; [vm_compute; reflexivity|]. repeat split; reflexivity.
Qed.
(* a torn pair as well: the Get lands between the two stores *)
Example fast_path_torn_pair : exists sched,
  outs (snd (sys_run pinit (repeat (writer done_model) 1 ++ map reader [get_fast]) sched)) = [[1; 0]]%nat.
Proof. exists [(0, false); (0, false); (1, false)]%nat. vm_compute. reflexivity. Qed.
