(* Proofs about model/LokiTime.v (parseTime): decimal nanosecond timestamps of either sign are read back exactly. *)
From Coq Require Import List ZArith NArith Bool Ascii String Lia.
From Qryn Require Import gen.DecodeConsts model.Decode model.LokiTime.
Import ListNotations.
Open Scope Z_scope.

Lemma byte_digit : forall d, (d < 10)%N -> byte (ascii_of_N (48 + d)) = (48 + d)%N.
Proof. intros d H. unfold byte. apply N_ascii_embedding. lia. Qed.

Lemma parse_digits_text : forall ds acc, all_digits ds = true ->
  parse_digits (digits_text ds) acc = Some (fold_left (fun a d => a * 10 + Z.of_N d) ds acc).
Proof.
  induction ds as [|d ds IH]; intros acc H; [reflexivity|].
  cbn [all_digits forallb] in H. apply andb_prop in H. destruct H as [Hd Hr]. apply N.ltb_lt in Hd.
  cbn [digits_text fold_right parse_digits fold_left]. rewrite (byte_digit d Hd).
  assert (E : is_digit (48 + d) = true) by (unfold is_digit, inr; apply andb_true_intro; split; apply N.leb_le; lia).
  rewrite E. fold (digits_text ds). rewrite (IH _ Hr). f_equal. f_equal. lia.
Qed.

(* bytes of a decimal integer text do not send it to the date parser *)
Definition int_byte (b : N) : bool := is_digit b || (b =? 45)%N || (b =? 43)%N.
Fixpoint layout_bytes_are_no_int_bytes (chars : string) : bool :=
  match chars with EmptyString => true | String x r => negb (int_byte (byte x)) && layout_bytes_are_no_int_bytes r end.

Lemma in_chars_int_byte : forall chars b, layout_bytes_are_no_int_bytes chars = true -> int_byte b = true -> in_chars chars b = false.
Proof.
  induction chars as [|x r IH]; intros b H Hb; [reflexivity|].
  cbn [layout_bytes_are_no_int_bytes] in H. apply andb_prop in H. destruct H as [Hx Hr]. cbn [in_chars]. rewrite (IH b Hr Hb).
  destruct (byte x =? b)%N eqn:E; [|reflexivity]. apply N.eqb_eq in E. rewrite E in Hx. rewrite Hb in Hx. discriminate Hx.
Qed.

Lemma contains_any_digits : forall chars ds, layout_bytes_are_no_int_bytes chars = true -> all_digits ds = true ->
  contains_any (digits_text ds) chars = false.
Proof.
  intros chars. induction ds as [|d ds IH]; intros H Hd; [reflexivity|].
  cbn [all_digits forallb] in Hd. apply andb_prop in Hd. destruct Hd as [Hd Hr]. apply N.ltb_lt in Hd.
  cbn [digits_text fold_right contains_any]. fold (digits_text ds). rewrite (IH H Hr). rewrite (byte_digit d Hd).
  rewrite (in_chars_int_byte chars _ H); [reflexivity|].
  unfold int_byte, is_digit, inr. apply orb_true_intro. left. apply orb_true_intro. left. apply andb_true_intro; split; apply N.leb_le; lia.
Qed.

Lemma parse_int64_int_text : forall neg ds, ds <> [] -> all_digits ds = true ->
  - 9223372036854775808 <= int_value neg ds < 9223372036854775808 ->
  parse_int64 (int_text neg ds) = Some (int_value neg ds).
Proof.
  intros neg ds Hne Hd Hr.
  assert (V : 0 <= digits_value ds).
  { unfold digits_value. assert (G : forall l a, 0 <= a -> 0 <= fold_left (fun a d => a * 10 + Z.of_N d) l a).
    { induction l as [|x l IH]; intros a Ha; [exact Ha|]. cbn [fold_left]. apply IH. lia. }
    apply G. lia. }
  destruct ds as [|d ds']; [congruence|].
  assert (D : exists c r, digits_text (d :: ds') = String c r /\ Ascii.eqb c "+" = false /\ Ascii.eqb c "-" = false).
  { cbn [all_digits forallb] in Hd. apply andb_prop in Hd. destruct Hd as [Hd _]. apply N.ltb_lt in Hd.
    exists (ascii_of_N (48 + d)), (digits_text ds'). split; [reflexivity|].
    split; apply Ascii.eqb_neq; intro E; apply (f_equal byte) in E; rewrite (byte_digit d Hd) in E.
    - change (byte "+"%char) with 43%N in E. lia.
    - change (byte "-"%char) with 45%N in E. lia. }
  destruct D as [c [r [E [P M]]]].
  unfold parse_int64. destruct neg; cbn [int_text int_value] in *.
  - change (Ascii.eqb "-" "+") with false. change (Ascii.eqb "-" "-") with true. cbv iota.
    rewrite E. rewrite <- E. rewrite (parse_digits_text _ 0 Hd). fold (digits_value (d :: ds')).
    destruct (digits_value (d :: ds') <=? 9223372036854775808) eqn:L; [reflexivity|]. apply Z.leb_gt in L. lia.
  - rewrite E, P, M. rewrite <- E. rewrite (parse_digits_text _ 0 Hd). fold (digits_value (d :: ds')).
    destruct (digits_value (d :: ds') <? 9223372036854775808) eqn:L; [reflexivity|]. apply Z.ltb_ge in L. lia.
Qed.

Section PT.
  Variable rfc : string -> option Z.
  Variable chars : string.
  Hypothesis Hc : layout_bytes_are_no_int_bytes chars = true.
  Let parse_time_c (s : string) : option Z := if contains_any s chars then rfc s else parse_int64 s.

  Lemma parse_time_int : forall neg ds, ds <> [] -> all_digits ds = true ->
    - 9223372036854775808 <= int_value neg ds < 9223372036854775808 ->
    parse_time_c (int_text neg ds) = Some (int_value neg ds).
  Proof.
    intros neg ds Hne Hd Hr. unfold parse_time_c.
    assert (C : contains_any (int_text neg ds) chars = false).
    { destruct neg; cbn [int_text contains_any]; rewrite (contains_any_digits chars ds Hc Hd); [|reflexivity].
      rewrite (in_chars_int_byte chars _ Hc); reflexivity. }
    rewrite C. apply parse_int64_int_text; assumption.
  Qed.
End PT.

(* the bytes that send a text to the date parser, as read from the source on this run, are no bytes of a decimal integer
   (before fix e276684 the minus sign was among them and this did not compute to true) *)
Lemma source_layout_bytes_ok : layout_bytes_are_no_int_bytes TIME_LAYOUT_BYTES = true.
Proof. vm_compute. reflexivity. Qed.

Lemma parse_time_integer_exact_l : forall (rfc : string -> option Z) neg ds, ds <> [] -> all_digits ds = true ->
  - 9223372036854775808 <= int_value neg ds < 9223372036854775808 ->
  parse_time rfc (int_text neg ds) = Some (int_value neg ds).
Proof. intros rfc neg ds. exact (parse_time_int rfc TIME_LAYOUT_BYTES source_layout_bytes_ok neg ds). Qed.

Lemma parse_time_dispatch_l : forall (rfc : string -> option Z) s, parse_time rfc s = rfc s \/ parse_time rfc s = parse_int64 s.
Proof. intros rfc s. unfold parse_time. destruct (contains_any s TIME_LAYOUT_BYTES); [left|right]; reflexivity. Qed.
