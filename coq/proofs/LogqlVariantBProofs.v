(* C10 — the boolean variant checks of model/LogqlVariantB.v imply the relations of model/LogqlVariant.v *)
From Qryn Require Import lib.Strs model.Sql model.SqlRender.
From Coq Require Import List ZArith NArith String Ascii Bool Lia.
From Qryn Require Import model.Logql model.LogqlRegexp model.LogqlTemplate model.LogqlPlan model.ChLex model.SqlPieces
  model.SqlPiecesCases model.SqlPiecesSel model.LogqlVariant.
From Qryn Require Import model.LogqlVariantB.
Import ListNotations.
Open Scope string_scope.

Ltac andb H := repeat (let a := fresh "Hb" in apply andb_prop in H; destruct H as [H a]).

Fixpoint expr_eqb_sound (a : expr) {struct a} : forall b, expr_eqb a b = true -> a = b.
Proof.
  assert (Hgo : forall l l', (fix go (l l' : list expr) {struct l} : bool :=
                   match l, l' with [] , [] => true | x :: r, y :: r' => expr_eqb x y && go r r' | _, _ => false end) l l' = true ->
                   Forall (fun x => forall b, expr_eqb x b = true -> x = b) l -> l = l').
  { induction l as [|x r IH]; intros [|y r'] H Hf; try discriminate H; [reflexivity|].
    apply andb_prop in H. destruct H as [H1 H2]. inversion Hf as [|? ? Hx Hr]; subst. f_equal; [apply Hx; exact H1|apply IH; assumption]. }
  destruct a; intros e2 H; destruct e2; try discriminate H; cbn [expr_eqb] in H;
    try (apply String.eqb_eq in H; subst; reflexivity); try (apply Z.eqb_eq in H; subst; reflexivity).
  - apply andb_prop in H. destruct H as [H1 H2]. f_equal; apply expr_eqb_sound; assumption.
  - apply andb_prop in H. destruct H as [H1 H2]. apply String.eqb_eq in H1. subst. f_equal. apply Hgo; [exact H2|].
    clear - expr_eqb_sound. induction args as [|x r IH]; constructor; [apply expr_eqb_sound|exact IH].
  - apply andb_prop in H. destruct H as [H1 H2]. apply String.eqb_eq in H1. subst. f_equal. apply Hgo; [exact H2|].
    clear - expr_eqb_sound. induction parts as [|x r IH]; constructor; [apply expr_eqb_sound|exact IH].
Qed.

Lemma same_someb_sound {A B} (x : option A) (y : option B) : same_someb x y = true -> same_some x y.
Proof. destruct x, y; cbn; intro H; try discriminate H; exact I. Qed.

Lemma forall2b_sound {A} (f : A -> A -> bool) (R : A -> A -> Prop) : (forall x y, f x y = true -> R x y) ->
  forall l l', forall2b f l l' = true -> Forall2 R l l'.
Proof.
  intro Hf. induction l as [|x r IH]; intros [|y r'] H; try discriminate H; [constructor|].
  cbn [forall2b] in H. apply andb_prop in H. destruct H as [H1 H2]. constructor; [apply Hf; exact H1|apply IH; exact H2].
Qed.

Lemma slf_variantb_sound s s' : slf_variantb s s' = true -> slf_variant s s'.
Proof.
  unfold slf_variantb, slf_variant. intro H. andb H.
  apply String.eqb_eq in H. apply internal_lblop_dec_bl in Hb1. apply same_someb_sound in Hb.
  split; [exact H|]. split; [exact Hb1|]. split; [|exact Hb].
  destruct (slf_num s) as [[a b]|], (slf_num s') as [[a' b']|]; cbn [opt_eqb fst snd] in Hb0; try discriminate Hb0; [|reflexivity].
  apply andb_prop in Hb0. destruct Hb0 as [H1 H2]. apply String.eqb_eq in H1, H2. subst. reflexivity.
Qed.

Fixpoint lf_variantb_sound (f : label_filter) {struct f} : forall f', lf_variantb f f' = true -> lf_variant f f'.
Proof.
  destruct f as [h op t]. intros [h' op' t'] H. cbn [lf_variantb] in H. andb H. cbn [lf_variant].
  split; [|split].
  - destruct h as [s|g], h' as [s'|g']; try discriminate H; [apply slf_variantb_sound; exact H|apply lf_variantb_sound; exact H].
  - destruct op as [b|], op' as [b'|]; cbn [opt_eqb] in Hb0; try discriminate Hb0; [|reflexivity]. apply Bool.eqb_prop in Hb0. now subst.
  - destruct t as [a|], t' as [b|]; try discriminate Hb; [apply lf_variantb_sound; exact Hb|exact I].
Qed.

Lemma relit_variantb_sound r r' : relit_variantb r r' = true -> relit_variant r r'.
Proof. destruct r as [[l i]|], r' as [[l' i']|]; cbn; intro H; try discriminate H; [apply Bool.eqb_prop; exact H|exact I]. Qed.

Lemma path_variantb_sound p p' : path_variantb p p' = true -> path_variant p p'.
Proof.
  unfold path_variantb, path_variant. destruct (pp_path p), (pp_path p'); intro H; try discriminate H; [|exact I].
  apply expr_eqb_sound. exact H.
Qed.

Lemma re_variantb_sound v v' : re_variantb v v' = true -> re_variant v v'.
Proof.
  unfold re_variantb, re_variant. destruct (re_plan v) as [[a b]|], (re_plan v') as [[a' b']|]; intro H; try discriminate H; [|exact I].
  apply Nat.eqb_eq. exact H.
Qed.

Lemma parser_variantb_sound fn ps ps' : parser_variantb fn ps ps' = true -> parser_variant fn ps ps'.
Proof.
  destruct fn; cbn [parser_variantb parser_variant]; intro H; [|exact I|].
  - exact (forall2b_sound _ _ path_variantb_sound _ _ H).
  - destruct ps, ps'; try discriminate H; [exact I|apply re_variantb_sound; exact H].
Qed.

Lemma drop_variantb_sound ps ps' : drop_variantb ps ps' = true -> drop_variant ps ps'.
Proof. apply forall2b_sound. intros x y H. apply Bool.eqb_prop. exact H. Qed.

Lemma tpl_variantb_sound t t' : tpl_variantb t t' = true -> tpl_variant t t'.
Proof.
  unfold tpl_variantb, tpl_variant. destruct (tpl_parse t), (tpl_parse t'); intro H; try discriminate H; try exact I.
  apply expr_eqb_sound. exact H.
Qed.

Lemma stage_variantb_sound s s' : stage_variantb s s' = true -> stage_variant s s'.
Proof.
  destruct s, s'; cbn [stage_variantb stage_variant]; intro H; try discriminate H; try exact I.
  - andb H. apply internal_lfop_dec_bl in H. apply relit_variantb_sound in Hb0. apply Bool.eqb_prop in Hb. auto.
  - apply lf_variantb_sound. exact H.
  - andb H. apply internal_parser_fn_dec_bl in H. subst. split; [reflexivity|apply parser_variantb_sound; exact Hb].
  - apply tpl_variantb_sound. exact H.
  - apply Bool.eqb_prop. exact H.
  - apply drop_variantb_sound. exact H.
Qed.

Lemma strsel_variantb_sound s s' : strsel_variantb s s' = true -> strsel_variant s s'.
Proof.
  unfold strsel_variantb, strsel_variant. intro H. andb H. split.
  - apply (forall2b_sound (fun m m' => mop_beq (m_op m) (m_op m'))); [|exact H]. intros x y Hx. apply internal_mop_dec_bl. exact Hx.
  - exact (forall2b_sound _ _ stage_variantb_sound _ _ Hb).
Qed.

Lemma bw_variantb_sound b b' : bw_variantb b b' = true -> bw_variant b b'.
Proof. unfold bw_variantb, bw_variant. intro H. andb H. apply Bool.eqb_prop in H. apply Nat.eqb_eq in Hb. auto. Qed.
Lemma opt_bw_sound x y : opt_eqb bw_variantb x y = true -> opt_bw_variant x y.
Proof. destruct x, y; cbn; intro H; try discriminate H; [apply bw_variantb_sound; exact H|exact I]. Qed.
Lemma opt_cmp_sound (x y : option comparison) : opt_eqb cmp_eqb x y = true -> x = y.
Proof.
  destruct x as [[f v]|], y as [[f' v']|]; cbn; intro H; try discriminate H; [|reflexivity].
  unfold cmp_eqb in H. cbn in H. apply andb_prop in H. destruct H as [H1 H2]. apply internal_cmpop_dec_bl in H1. apply String.eqb_eq in H2. now subst.
Qed.

Lemma lra_variantb_sound l l' : lra_variantb l l' = true -> lra_variant l l'.
Proof.
  unfold lra_variantb, lra_variant. intro H. andb H.
  apply internal_lra_fn_dec_bl in H. apply opt_bw_sound in Hb3, Hb0. apply strsel_variantb_sound in Hb2. apply Z.eqb_eq in Hb1. apply opt_cmp_sound in Hb.
  auto 10.
Qed.
Lemma agg_variantb_sound a a' : agg_variantb a a' = true -> agg_variant a a'.
Proof.
  unfold agg_variantb, agg_variant. intro H. andb H.
  apply internal_agg_fn_dec_bl in H. apply opt_bw_sound in Hb2, Hb0. apply lra_variantb_sound in Hb1. apply opt_cmp_sound in Hb. auto 10.
Qed.
Lemma quantile_variantb_sound q q' : quantile_variantb q q' = true -> quantile_variant q q'.
Proof.
  unfold quantile_variantb, quantile_variant. intro H. andb H.
  apply opt_bw_sound in H, Hb0. apply String.eqb_eq in Hb3. apply strsel_variantb_sound in Hb2. apply Z.eqb_eq in Hb1. apply opt_cmp_sound in Hb. auto 10.
Qed.
Lemma topk_variantb_sound t t' : topk_variantb t t' = true -> topk_variant t t'.
Proof.
  unfold topk_variantb, topk_variant, topk_arg_variant. intro H. andb H.
  apply Bool.eqb_prop in H. apply Z.eqb_eq in Hb1. apply opt_cmp_sound in Hb.
  split; [exact H|]. split; [exact Hb1|]. split; [|exact Hb].
  destruct (tk_arg t), (tk_arg t'); try discriminate Hb0;
    [apply lra_variantb_sound|apply agg_variantb_sound|apply quantile_variantb_sound]; exact Hb0.
Qed.

Theorem script_variantb_sound s s' : script_variantb s s' = true -> script_variant s s'.
Proof.
  destruct s, s'; cbn [script_variantb script_variant]; intro H; try discriminate H; try exact I.
  - apply strsel_variantb_sound; exact H.
  - apply lra_variantb_sound; exact H.
  - apply agg_variantb_sound; exact H.
  - apply topk_variantb_sound; exact H.
  - apply quantile_variantb_sound; exact H.
Qed.
