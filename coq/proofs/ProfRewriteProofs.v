(* Proofs about the re-indexing of the pprof payload merge (model/ProfRewrite.v; property C16):
   payload_merge_is_sum -- the merged profile gives every selection of resolved stacks the sum of the weights the
   payloads give it; payload_merge_order_irrelevant -- in any order.  Structure: RewriteTableV2.Get with an exact key
   comparison (tget_spec), one loop of Merge over a table (phase_spec: the table only grows, ids stay positional, every
   element is found again under idx[old id] with its key), the string phase (str_phase_spec), stability of the resolved
   stacks when the tables grow (sden_app), hashLines determines the function ids (line_words_fns), the sample table
   (samp_step_spec / samp_fold_spec: invariant on the weights), one payload (merge_sane_spec), all of them. *)
From Coq Require Import List NArith ZArith Bool Lia Permutation.
From Qryn Require Import model.Pprof model.ProfMerge model.ProfRewrite proofs.PprofProofs proofs.ProfMergeProofs.
Import ListNotations.
Open Scope Z_scope.



(* ------------------------------------------------------------------ basics *)
Lemma zlist_eqb_eq a b : zlist_eqb a b = true <-> a = b.
Proof.
  revert b. induction a as [|x a IH]; intros [|y b]; cbn [zlist_eqb]; split; intro H; try reflexivity; try discriminate.
  - apply andb_true_iff in H. destruct H as [H1 H2]. apply Z.eqb_eq in H1. apply IH in H2. subst. reflexivity.
  - inversion H; subst. apply andb_true_iff. split; [apply Z.eqb_refl|apply IH; reflexivity].
Qed.

Lemma find_by_app_l {A} (getid : A -> Z) i l r x : find_by getid i l = Some x -> find_by getid i (l ++ r) = Some x.
Proof.
  induction l as [|y l IH]; cbn [find_by app]; [discriminate|]. destruct (Z.eqb (getid y) i); [trivial|exact IH].
Qed.

Lemma positional_app {A} (getid : A -> Z) l r j :
  positional getid (l ++ r) j = positional getid l j && positional getid r (j + Z.of_nat (length l)).
Proof.
  revert j. induction l as [|x l IH]; intros j; cbn [positional app length].
  - rewrite Z.add_0_r. reflexivity.
  - rewrite IH, andb_assoc. do 2 f_equal. lia.
Qed.

Lemma find_by_pos {A} (getid : A -> Z) l : forall j n e, positional getid l j = true -> nth_error l n = Some e ->
  find_by getid (j + Z.of_nat n) l = Some e.
Proof.
  induction l as [|x l IH]; intros j n e Hp Hn; [destruct n; discriminate|].
  cbn [positional] in Hp. apply andb_true_iff in Hp. destruct Hp as [Hx Hp]. apply Z.eqb_eq in Hx.
  destruct n as [|n]; cbn [nth_error] in Hn.
  - inversion Hn; subst. cbn [find_by]. rewrite Z.add_0_r, Z.eqb_refl. reflexivity.
  - cbn [find_by]. destruct (Z.eqb (getid x) (j + Z.of_nat (S n))) eqn:E; [apply Z.eqb_eq in E; lia|].
    replace (j + Z.of_nat (S n)) with ((j + 1) + Z.of_nat n) by lia. apply IH; assumption.
Qed.

Lemma find_by_some_pos {A} (getid : A -> Z) l : forall j i e, positional getid l j = true -> find_by getid i l = Some e ->
  j <= i < j + Z.of_nat (length l) /\ nth_error l (Z.to_nat (i - j)) = Some e.
Proof.
  induction l as [|x l IH]; intros j i e Hp Hf; [discriminate|].
  cbn [positional] in Hp. apply andb_true_iff in Hp. destruct Hp as [Hx Hp]. apply Z.eqb_eq in Hx.
  cbn [find_by] in Hf. cbn [length]. destruct (Z.eqb (getid x) i) eqn:E.
  - apply Z.eqb_eq in E. inversion Hf; subst. split; [lia|]. rewrite Z.sub_diag. reflexivity.
  - apply Z.eqb_neq in E. destruct (IH _ _ _ Hp Hf) as [H1 H2]. split; [lia|].
    replace (Z.to_nat (i - j)) with (S (Z.to_nat (i - (j + 1)))) by lia. exact H2.
Qed.

Lemma positional_nodup {A} (getid : A -> Z) l : forall j, positional getid l j = true ->
  NoDup (map getid l) /\ forall x, In x l -> j <= getid x < j + Z.of_nat (length l).
Proof.
  induction l as [|x l IH]; intros j Hp; cbn [map length]; [split; [constructor|intros ? []]|].
  cbn [positional] in Hp. apply andb_true_iff in Hp. destruct Hp as [Hx Hp]. apply Z.eqb_eq in Hx.
  destruct (IH _ Hp) as [H1 H2]. split.
  - constructor; [|exact H1]. intro Hin. apply in_map_iff in Hin. destruct Hin as [y [Hy Hin]]. specialize (H2 _ Hin). lia.
  - intros y [<-|Hin]; [lia|]. specialize (H2 _ Hin). lia.
Qed.

(* ------------------------------------------------------------------ RewriteTableV2.Get with an exact comparison *)
Section Exact.
Variable eqk : list Z -> list Z -> bool.
Hypothesis eqk_exact : forall a b, eqk a b = true <-> a = b.

Lemma find_key_some {A} (key : A -> list Z) k tbl : forall i n, find_key eqk key k tbl i = Some n ->
  exists m e, n = (i + m)%nat /\ nth_error tbl m = Some e /\ key e = k.
Proof.
  induction tbl as [|x tbl IH]; intros i n H; cbn [find_key] in H; [discriminate|].
  destruct (eqk (key x) k) eqn:E.
  - inversion H; subst. exists O, x. split; [lia|]. split; [reflexivity|]. apply eqk_exact. exact E.
  - destruct (IH _ _ H) as [m [e [H1 [H2 H3]]]]. exists (S m), e. split; [lia|]. split; assumption.
Qed.

Lemma tget_spec {A} (key : A -> list Z) clone tbl v j tbl' : tget eqk key clone tbl v = (j, tbl') ->
  (tbl' = tbl /\ exists e, nth_error tbl (pred j) = Some e /\ key e = key v /\ (1 <= j)%nat) \/
  (tbl' = tbl ++ [clone v (Z.of_nat j)] /\ j = S (length tbl)).
Proof.
  unfold tget. destruct (find_key eqk key (key v) tbl 0) as [n|] eqn:E; intro H; inversion H; subst.
  - left. split; [reflexivity|]. destruct (find_key_some _ _ _ _ _ E) as [m [e [H1 [H2 H3]]]]. cbn in H1. subst m.
    exists e. cbn [pred]. split; [exact H2|]. split; [exact H3|lia].
  - right. split; reflexivity.
Qed.

(* one loop of Merge over the functions / mappings / locations *)
Section Phase.
Context {A : Type} (rw : A -> A) (key : A -> list Z) (setid : A -> Z -> A) (getid : A -> Z) (Q : A -> Prop).
Hypothesis getid_setid : forall x j, getid (setid x j) = j.
Hypothesis key_setid : forall x j, key (setid x j) = key x.

Lemma phase_spec : forall xs idx tbl idx' tbl',
  phase eqk rw key setid getid xs idx tbl = (idx', tbl') ->
  positional getid tbl 1 = true -> Forall Q tbl -> (forall x j, In x xs -> Q (setid (rw x) j)) ->
  exists X, tbl' = tbl ++ X /\ positional getid tbl' 1 = true /\ Forall Q tbl' /\
    (forall i, ~ In i (map getid xs) -> aget idx' i = aget idx i) /\
    (NoDup (map getid xs) -> forall x, In x xs ->
       exists e, find_by getid (aget idx' (getid x)) tbl' = Some e /\ key e = key (rw x)).
Proof.
  induction xs as [|x r IH]; intros idx tbl idx' tbl' H Hpos HQ HQx; cbn [phase] in H.
  - inversion H; subst. exists []. rewrite app_nil_r. split; [reflexivity|]. split; [exact Hpos|]. split; [exact HQ|].
    split; [reflexivity|]. intros _ ? [].
  - destruct (tget eqk key setid tbl (rw x)) as [j tbl1] eqn:Eg.
    assert (G : exists Y e, tbl1 = tbl ++ Y /\ positional getid tbl1 1 = true /\ Forall Q tbl1 /\
                 find_by getid (Z.of_nat j) tbl1 = Some e /\ key e = key (rw x)).
    { destruct (tget_spec _ _ _ _ _ _ Eg) as [[-> [e [H1 [H2 H3]]]]|[-> Hj]].
      - exists [], e. rewrite app_nil_r. split; [reflexivity|]. split; [exact Hpos|]. split; [exact HQ|]. split; [|exact H2].
        replace (Z.of_nat j) with (1 + Z.of_nat (pred j)) by lia. apply find_by_pos; assumption.
      - exists [setid (rw x) (Z.of_nat j)], (setid (rw x) (Z.of_nat j)). split; [reflexivity|]. split.
        + rewrite positional_app, Hpos. cbn [positional andb]. rewrite getid_setid, andb_true_r. apply Z.eqb_eq. lia.
        + split; [apply Forall_app; split; [exact HQ|constructor; [apply HQx; left; reflexivity|constructor]]|].
          split; [|apply key_setid].
          replace (Z.of_nat j) with (1 + Z.of_nat (length tbl)) by lia. apply find_by_pos.
          * rewrite positional_app, Hpos. cbn [positional andb]. rewrite getid_setid, andb_true_r. apply Z.eqb_eq. lia.
          * rewrite nth_error_app2 by lia. rewrite Nat.sub_diag. subst j. reflexivity. }
    destruct G as [Y [e [HY [Hpos1 [HQ1 [Hfe Hke]]]]]].
    destruct (IH _ _ _ _ H Hpos1 HQ1 (fun y j' Hy => HQx y j' (or_intror Hy))) as [X [HX [Hpos' [HQ' [Hout Hin]]]]].
    exists (Y ++ X). split; [rewrite HX, HY, app_assoc; reflexivity|]. split; [exact Hpos'|]. split; [exact HQ'|]. split.
    + intros i Hi. cbn [map] in Hi. rewrite Hout by (intro; apply Hi; right; assumption).
      unfold aset. cbn [aget]. destruct (Z.eqb (getid x) i) eqn:E; [|reflexivity]. apply Z.eqb_eq in E. exfalso. apply Hi. left. exact E.
    + intros Hnd y [<-|Hy].
      * cbn [map] in Hnd. apply NoDup_cons_iff in Hnd. destruct Hnd as [Hnot Hnd']. rewrite Hout by exact Hnot.
        unfold aset. cbn [aget]. rewrite Z.eqb_refl. exists e. split; [|exact Hke]. rewrite HX. apply find_by_app_l. exact Hfe.
      * cbn [map] in Hnd. apply NoDup_cons_iff in Hnd. destruct Hnd as [Hnot Hnd']. apply (Hin Hnd' y Hy).
Qed.
End Phase.
End Exact.



Definition fscoped (ns : nat) (f : pfun) : Prop :=
  in_range ns (f_name f) = true /\ in_range ns (f_sys f) = true /\ in_range ns (f_file f) = true.
Definition lscoped (nf : nat) (l : ploc) : Prop := Forall (fun ln => id_in nf (ln_fn ln) = true) (l_lines l).
Definition ascoped (nl n : nat) (a : psamp) : Prop := Forall (fun i => id_in nl i = true) (s_locs a) /\ length (s_vals a) = n.

Lemma in_range_spec n i : in_range n i = true <-> 0 <= i < Z.of_nat n.
Proof. unfold in_range. rewrite andb_true_iff, Z.leb_le, Z.ltb_lt. reflexivity. Qed.
Lemma id_in_spec n i : id_in n i = true <-> 1 <= i <= Z.of_nat n.
Proof. unfold id_in. rewrite andb_true_iff, !Z.leb_le. reflexivity. Qed.
Lemma in_range_mono n m i : (n <= m)%nat -> in_range n i = true -> in_range m i = true.
Proof. rewrite !in_range_spec. lia. Qed.
Lemma id_in_mono n m i : (n <= m)%nat -> id_in n i = true -> id_in m i = true.
Proof. rewrite !id_in_spec. lia. Qed.

Lemma rstr_app S X i : in_range (length S) i = true -> rstr (S ++ X) i = rstr S i.
Proof. rewrite in_range_spec. intro H. unfold rstr. apply app_nth1. lia. Qed.

Lemma fun_den_app S X f : fscoped (length S) f -> fun_den (S ++ X) f = fun_den S f.
Proof. intros [H1 [H2 H3]]. unfold fun_den. rewrite !rstr_app by assumption. reflexivity. Qed.

Lemma find_by_id_in {A} (getid : A -> Z) l i : positional getid l 1 = true -> id_in (length l) i = true ->
  exists e, find_by getid i l = Some e /\ In e l.
Proof.
  intros Hp Hi. apply id_in_spec in Hi. destruct (nth_error l (Z.to_nat (i - 1))) as [e|] eqn:E.
  - exists e. split; [|eapply nth_error_In; exact E]. replace i with (1 + Z.of_nat (Z.to_nat (i - 1))) by lia.
    apply find_by_pos; assumption.
  - apply nth_error_None in E. lia.
Qed.

Lemma find_by_found_id_in {A} (getid : A -> Z) l i e : positional getid l 1 = true -> find_by getid i l = Some e ->
  id_in (length l) i = true /\ In e l.
Proof.
  intros Hp Hf. destruct (find_by_some_pos _ _ _ _ _ Hp Hf) as [H1 H2]. split; [apply id_in_spec; lia|eapply nth_error_In; exact H2].
Qed.

Lemma fn_den_app S X F Y id : positional f_id F 1 = true -> Forall (fscoped (length S)) F -> id_in (length F) id = true ->
  fn_den (S ++ X) (F ++ Y) id = fn_den S F id.
Proof.
  intros Hp HF Hi. destruct (find_by_id_in _ _ _ Hp Hi) as [e [He Hin]]. unfold fn_den.
  rewrite (find_by_app_l _ _ _ Y _ He), He. apply fun_den_app. rewrite Forall_forall in HF. apply HF. exact Hin.
Qed.

Lemma loc_den_app S X F Y l : positional f_id F 1 = true -> Forall (fscoped (length S)) F -> lscoped (length F) l ->
  loc_den (S ++ X) (F ++ Y) l = loc_den S F l.
Proof.
  intros Hp HF Hl. unfold loc_den. apply map_ext_in. intros ln Hin. apply fn_den_app; try assumption.
  unfold lscoped in Hl. rewrite Forall_forall in Hl. apply Hl. exact Hin.
Qed.

Lemma locid_den_app S X F Y L Z0 id : positional f_id F 1 = true -> Forall (fscoped (length S)) F ->
  positional l_id L 1 = true -> Forall (lscoped (length F)) L -> id_in (length L) id = true ->
  locid_den (S ++ X) (F ++ Y) (L ++ Z0) id = locid_den S F L id.
Proof.
  intros Hp HF HpL HL Hi. destruct (find_by_id_in _ _ _ HpL Hi) as [e [He Hin]]. unfold locid_den.
  rewrite (find_by_app_l _ _ _ Z0 _ He), He. apply loc_den_app; try assumption. rewrite Forall_forall in HL. apply HL. exact Hin.
Qed.

Lemma nth_error_app_some {A} (l r : list A) n x : nth_error l n = Some x -> nth_error (l ++ r) n = Some x.
Proof. intro H. rewrite nth_error_app1; [exact H|]. apply nth_error_Some. rewrite H. discriminate. Qed.

(* the tables of a merge state as a profile *)
Definition tview (S : list Z) (F : list pfun) (L : list ploc) (A : list psamp) : pprofile :=
  {| p_strs := S; p_types := []; p_ptype := None; p_funs := F; p_maps := []; p_locs := L; p_samps := A;
     p_drop := 0; p_keep := 0; p_time := 0; p_duration := 0; p_period := 0; p_default := 0; p_comments := [] |}.

Lemma stack_den_app S X F Y L Z0 A A' a n : positional f_id F 1 = true -> Forall (fscoped (length S)) F ->
  positional l_id L 1 = true -> Forall (lscoped (length F)) L -> ascoped (length L) n a ->
  stack_den (tview (S ++ X) (F ++ Y) (L ++ Z0) A') a = stack_den (tview S F L A) a.
Proof.
  intros Hp HF HpL HL [Ha _]. unfold stack_den. cbn [tview p_strs p_funs p_locs]. apply map_ext_in. intros id Hin.
  apply locid_den_app; try assumption. rewrite Forall_forall in Ha. apply Ha. exact Hin.
Qed.

(* ------------------------------------------------------------------ the string phase *)
Section ExactS.
Variable eqk : list Z -> list Z -> bool.
Hypothesis eqk_exact : forall a b, eqk a b = true <-> a = b.

Lemma str_phase_spec strs : forall tbl ix tbl', str_phase eqk strs tbl = (ix, tbl') ->
  exists X, tbl' = tbl ++ X /\
  forall n s, nth_error strs n = Some s -> exists m, nth n ix 0 = Z.of_nat m /\ nth_error tbl' m = Some s.
Proof.
  induction strs as [|s r IH]; intros tbl ix tbl' H; cbn [str_phase] in H.
  - inversion H; subst. exists []. rewrite app_nil_r. split; [reflexivity|]. intros [|n] ? Hn; discriminate.
  - destruct (tget eqk (fun x : Z => [x]) (fun x _ => x) tbl s) as [j tbl1] eqn:Eg.
    destruct (str_phase eqk r tbl1) as [ix1 tbl2] eqn:Er. inversion H; subst. clear H.
    destruct (IH _ _ _ Er) as [X [HX Hr]].
    assert (G : exists Y, tbl1 = tbl ++ Y /\ nth_error tbl1 (pred j) = Some s /\ (1 <= j)%nat).
    { destruct (tget_spec eqk eqk_exact _ _ _ _ _ _ Eg) as [[-> [e [H1 [H2 H3]]]]|[-> Hj]].
      - exists []. rewrite app_nil_r. split; [reflexivity|]. inversion H2; subst. split; assumption.
      - exists [s]. split; [reflexivity|]. subst j. cbn [pred]. rewrite nth_error_app2 by lia. rewrite Nat.sub_diag. split; [reflexivity|lia]. }
    destruct G as [Y [HY [Hs Hj]]]. exists (Y ++ X). split; [rewrite HX, HY, app_assoc; reflexivity|].
    intros [|n] s' Hn; cbn [nth_error] in Hn.
    + inversion Hn; subst s'. exists (pred j). cbn [nth]. split; [lia|]. rewrite HX. apply nth_error_app_some. exact Hs.
    + cbn [nth]. apply Hr. exact Hn.
Qed.
End ExactS.



Definition two32 : Z := 4294967296.

Lemma line_word_fn f l : 0 <= f < two32 -> Z.land (line_word f l) (Z.ones 32) = f.
Proof.
  intros Hf. unfold line_word. rewrite Z.land_lor_distr_l, !Z.land_ones by lia.
  change (2 ^ 32) with two32.
  assert (Hw : u64 (u64 l * 4294967296) mod two32 = 0).
  { unfold u64. change two64 with (two32 * two32). change 4294967296 with two32.
    rewrite Z.mul_mod_distr_r by (unfold two32; lia). apply Z.mod_mul. unfold two32. lia. }
  rewrite Hw, Z.mod_small by exact Hf. apply Z.lor_0_r.
Qed.

Lemma line_words_fns (l1 l2 : list pline) :
  map (fun ln => line_word (ln_fn ln) (ln_line ln)) l1 = map (fun ln => line_word (ln_fn ln) (ln_line ln)) l2 ->
  Forall (fun ln => 0 <= ln_fn ln < two32) l1 -> Forall (fun ln => 0 <= ln_fn ln < two32) l2 ->
  map ln_fn l1 = map ln_fn l2.
Proof.
  revert l2. induction l1 as [|a l1 IH]; intros [|b l2] H H1 H2; cbn [map] in *; try discriminate; [reflexivity|].
  inversion H as [[Hw Hr]]. inversion H1; subst. inversion H2; subst. f_equal; [|apply IH; assumption].
  rewrite <- (line_word_fn (ln_fn a) (ln_line a)) by assumption. rewrite <- (line_word_fn (ln_fn b) (ln_line b)) by assumption.
  rewrite Hw. reflexivity.
Qed.

Lemma sep_inj (l1 l2 r1 r2 : list Z) : l1 ++ (-1) :: r1 = l2 ++ (-1) :: r2 ->
  Forall (fun x => x <> -1) l1 -> Forall (fun x => x <> -1) l2 -> l1 = l2.
Proof.
  revert l2. induction l1 as [|a l1 IH]; intros [|b l2] H H1 H2; cbn [app] in H.
  - reflexivity.
  - inversion H; subst. inversion H2; subst. congruence.
  - inversion H; subst. inversion H1; subst. congruence.
  - inversion H; subst. inversion H1; subst. inversion H2; subst. f_equal. eapply IH; eassumption.
Qed.

(* ------------------------------------------------------------------ weights over tables *)
Definition sden (S : list Z) (F : list pfun) (L : list ploc) (s : psamp) : list (list fden) := map (locid_den S F L) (s_locs s).
Definition wsum (P : list (list fden) -> bool) (k : nat) S F L (A : list psamp) : Z :=
  sumZ (map (fun s => if P (sden S F L s) then nth k (s_vals s) 0 else 0) A).

Lemma weight_wsum P k p : weight P k p = wsum P k (p_strs p) (p_funs p) (p_locs p) (p_samps p).
Proof. reflexivity. Qed.

Lemma wsum_app P k S F L A B : wsum P k S F L (A ++ B) = wsum P k S F L A + wsum P k S F L B.
Proof. unfold wsum. rewrite map_app. apply sumZ_app. Qed.

Lemma sden_app S X F Y L Z0 a n : positional f_id F 1 = true -> Forall (fscoped (length S)) F ->
  positional l_id L 1 = true -> Forall (lscoped (length F)) L -> ascoped (length L) n a ->
  sden (S ++ X) (F ++ Y) (L ++ Z0) a = sden S F L a.
Proof.
  intros Hp HF HpL HL [Ha _]. unfold sden. apply map_ext_in. intros id Hin.
  apply locid_den_app; try assumption. rewrite Forall_forall in Ha. apply Ha. exact Hin.
Qed.

Lemma wsum_ext_tables P k S X F Y L Z0 A n : positional f_id F 1 = true -> Forall (fscoped (length S)) F ->
  positional l_id L 1 = true -> Forall (lscoped (length F)) L -> Forall (ascoped (length L) n) A ->
  wsum P k (S ++ X) (F ++ Y) (L ++ Z0) A = wsum P k S F L A.
Proof.
  intros Hp HF HpL HL HA. unfold wsum. f_equal. apply map_ext_in. intros a Hin.
  rewrite (sden_app S X F Y L Z0 a n); try assumption; [reflexivity|]. rewrite Forall_forall in HA. apply HA. exact Hin.
Qed.

Lemma add_at_scoped nl n vs : forall A m, Forall (ascoped nl n) A -> Forall (ascoped nl n) (add_at A m vs).
Proof.
  induction A as [|a A IH]; intros m HA; [destruct m; exact HA|]. inversion HA as [|? ? Ha HA']; subst.
  destruct m as [|m]; cbn [add_at].
  - destruct Ha as [Ha1 Ha2]. constructor; [|exact HA']. split; [exact Ha1|]. cbn [s_vals]. rewrite add_values_length. exact Ha2.
  - constructor; [exact Ha|apply IH; exact HA'].
Qed.

Lemma add_at_wsum P k S F L n vs : forall A m e, nth_error A m = Some e -> Forall (ascoped (length L) n) A -> (k < n)%nat ->
  eqm (wsum P k S F L (add_at A m vs)) (wsum P k S F L A + (if P (sden S F L e) then nth k vs 0 else 0)).
Proof.
  induction A as [|a A IH]; intros m e Hn HA Hk; [destruct m; discriminate|].
  inversion HA as [|? ? Ha HA']; subst. destruct m as [|m]; cbn [nth_error] in Hn; cbn [add_at].
  - inversion Hn; subst a. destruct Ha as [Ha1 Ha2].
    unfold wsum. cbn [map]. unfold sden at 1. cbn [s_locs s_vals]. fold (sden S F L e).
    unfold sumZ. cbn [fold_right]. fold (sumZ (map (fun s => if P (sden S F L s) then nth k (s_vals s) 0 else 0) A)).
    destruct (P (sden S F L e)).
    + rewrite nth_add_values by lia. rewrite wrap64_eqm. apply eqm_of_eq. lia.
    + apply eqm_of_eq. lia.
  - pose proof (IH _ _ Hn HA' Hk) as H2.
    unfold wsum in *. cbn [map]. unfold sumZ in *. cbn [fold_right]. rewrite H2. apply eqm_of_eq. lia.
Qed.



Lemma find_by_id {A} (getid : A -> Z) i l x : find_by getid i l = Some x -> getid x = i.
Proof.
  induction l as [|y l IH]; cbn [find_by]; [discriminate|]. destruct (Z.eqb (getid y) i) eqn:E; [|exact IH].
  intro H. inversion H; subst. apply Z.eqb_eq. exact E.
Qed.

Lemma nth_zeros' (l : list Z) k : nth k (map (fun _ => 0) l) 0 = 0.
Proof. revert k. induction l as [|x l IH]; intros [|k]; cbn; try reflexivity. apply IH. Qed.

(* ------------------------------------------------------------------ one sample into the sample table *)
Section SampStep.
Variables (S : list Z) (F : list pfun) (L : list ploc) (pS : list Z) (pF : list pfun) (pL : list ploc).
Variables (ix : list Z) (locidx : amap) (n : nat).
Hypothesis HpL : positional l_id L 1 = true.
Hypothesis Hloc : forall id, id_in (length pL) id = true ->
  exists e, find_by l_id (aget locidx id) L = Some e /\ loc_den S F e = locid_den pS pF pL id.

Lemma rw_samp_den s : ascoped (length pL) n s ->
  ascoped (length L) n (rw_samp ix locidx s) /\ sden S F L (rw_samp ix locidx s) = sden pS pF pL s.
Proof.
  intros [Hs Hn]. split.
  - split; [|exact Hn]. cbn [rw_samp s_locs]. apply Forall_forall. intros j Hj. apply in_map_iff in Hj. destruct Hj as [id [<- Hid]].
    rewrite Forall_forall in Hs. destruct (Hloc id (Hs id Hid)) as [e [He _]]. apply (find_by_found_id_in _ _ _ _ HpL He).
  - unfold sden. cbn [rw_samp s_locs]. rewrite map_map. apply map_ext_in. intros id Hid. rewrite Forall_forall in Hs.
    destruct (Hloc id (Hs id Hid)) as [e [He Hd]]. unfold locid_den at 1. rewrite He. exact Hd.
Qed.

Lemma ascoped_not_sep nl a : ascoped nl n a -> Forall (fun x => x <> -1) (s_locs a).
Proof. intros [H _]. eapply Forall_impl; [|exact H]. cbn. intros x Hx. apply id_in_spec in Hx. lia. Qed.

Lemma samp_step_spec A s : Forall (ascoped (length L) n) A -> ascoped (length pL) n s ->
  Forall (ascoped (length L) n) (samp_step zlist_eqb ix locidx A s) /\
  forall P k, (k < n)%nat ->
    eqm (wsum P k S F L (samp_step zlist_eqb ix locidx A s))
        (wsum P k S F L A + (if P (sden pS pF pL s) then nth k (s_vals s) 0 else 0)).
Proof.
  intros HA Hs. destruct (rw_samp_den s Hs) as [Hs' Hden]. unfold samp_step.
  destruct (tget zlist_eqb skey clone_samp A (rw_samp ix locidx s)) as [j A1] eqn:Eg.
  assert (G : exists e0, nth_error A1 (Nat.pred j) = Some e0 /\ sden S F L e0 = sden pS pF pL s /\
              Forall (ascoped (length L) n) A1 /\ forall P k, wsum P k S F L A1 = wsum P k S F L A).
  { destruct (tget_spec _ zlist_eqb_eq _ _ _ _ _ _ Eg) as [[-> [e [H1 [H2 H3]]]]|[-> Hj]].
    - exists e. split; [exact H1|]. split; [|split; [exact HA|reflexivity]]. rewrite <- Hden. unfold sden. f_equal.
      unfold skey in H2. apply sep_inj in H2; [exact H2| |apply (ascoped_not_sep _ _ Hs')].
      apply (ascoped_not_sep (length L)). rewrite Forall_forall in HA. apply HA. eapply nth_error_In. exact H1.
    - exists (clone_samp (rw_samp ix locidx s) (Z.of_nat j)). subst j. cbn [Nat.pred].
      split; [rewrite nth_error_app2 by lia; rewrite Nat.sub_diag; reflexivity|]. split; [exact Hden|]. split.
      + apply Forall_app. split; [exact HA|]. constructor; [|constructor]. destruct Hs' as [H1 H2]. split; [exact H1|].
        cbn [clone_samp s_vals]. rewrite map_length. exact H2.
      + intros P k. rewrite wsum_app. unfold wsum at 2. cbn [map clone_samp s_vals]. rewrite nth_zeros'.
        destruct (P _); unfold sumZ; cbn [fold_right]; lia. }
  destruct G as [e0 [Hn0 [Hd0 [HA1 Hw1]]]]. cbn [rw_samp s_vals].
  split.
  - apply add_at_scoped. exact HA1.
  - intros P k Hk. rewrite (add_at_wsum P k S F L n (s_vals s) A1 _ e0 Hn0 HA1 Hk). rewrite Hw1, Hd0. apply eqm_of_eq. reflexivity.
Qed.

Lemma samp_fold_spec ss : forall A, Forall (ascoped (length L) n) A -> Forall (ascoped (length pL) n) ss ->
  Forall (ascoped (length L) n) (fold_left (samp_step zlist_eqb ix locidx) ss A) /\ forall P k, (k < n)%nat ->
    eqm (wsum P k S F L (fold_left (samp_step zlist_eqb ix locidx) ss A)) (wsum P k S F L A + wsum P k pS pF pL ss).
Proof.
  induction ss as [|s ss IH]; intros A HA Hss; cbn [fold_left].
  - split; [exact HA|]. intros P k _. unfold wsum at 3. cbn. apply eqm_of_eq. lia.
  - inversion Hss as [|? ? Hs Hss']; subst. destruct (samp_step_spec A s HA Hs) as [H1 H2].
    destruct (IH _ H1 Hss') as [H3 H4]. split; [exact H3|]. intros P k Hk. rewrite (H4 P k Hk), (H2 P k Hk).
    unfold wsum at 4. cbn [map]. unfold sumZ. cbn [fold_right]. apply eqm_of_eq. unfold wsum, sumZ. lia.
Qed.
End SampStep.



Lemma sane_b_spec p : sane_b p = true ->
  positional f_id (p_funs p) 1 = true /\ positional l_id (p_locs p) 1 = true /\
  Forall (fscoped (length (p_strs p))) (p_funs p) /\
  Forall (lscoped (length (p_funs p))) (p_locs p) /\
  Forall (ascoped (length (p_locs p)) (length (p_types p))) (p_samps p).
Proof.
  unfold sane_b. intro H.
  apply andb_true_iff in H. destruct H as [H _]. apply andb_true_iff in H. destruct H as [H _].
  apply andb_true_iff in H. destruct H as [H H8]. apply andb_true_iff in H. destruct H as [H H7].
  apply andb_true_iff in H. destruct H as [H _]. apply andb_true_iff in H. destruct H as [H H5].
  apply andb_true_iff in H. destruct H as [H H4]. apply andb_true_iff in H. destruct H as [H _].
  apply andb_true_iff in H. destruct H as [_ H2].
  split; [exact H2|]. split; [exact H4|]. split; [|split].
  - apply Forall_forall. intros f Hf. rewrite forallb_forall in H5. specialize (H5 f Hf).
    apply andb_true_iff in H5. destruct H5 as [H5 Hc]. apply andb_true_iff in H5. destruct H5 as [Ha Hb]. split; [exact Ha|split; assumption].
  - apply Forall_forall. intros l Hl. rewrite forallb_forall in H7. specialize (H7 l Hl).
    apply andb_true_iff in H7. destruct H7 as [_ H7]. unfold lscoped. apply Forall_forall. intros ln Hln.
    rewrite forallb_forall in H7. apply H7. exact Hln.
  - apply Forall_forall. intros s Hs. rewrite forallb_forall in H8. specialize (H8 s Hs).
    apply andb_true_iff in H8. destruct H8 as [H8 _]. apply andb_true_iff in H8. destruct H8 as [Ha Hb]. split.
    + apply Forall_forall. intros i Hi. rewrite forallb_forall in Hb. apply Hb. exact Hi.
    + apply Nat.eqb_eq. exact Ha.
Qed.

Record Inv (n : nat) (st : mstate) : Prop := {
  inv_pf : positional f_id (ms_funs st) 1 = true;
  inv_pl : positional l_id (ms_locs st) 1 = true;
  inv_f : Forall (fscoped (length (ms_strs st))) (ms_funs st);
  inv_l : Forall (lscoped (length (ms_funs st))) (ms_locs st);
  inv_a : Forall (ascoped (length (ms_locs st)) n) (ms_samps st) }.

Lemma fscoped_mono n m f : (n <= m)%nat -> fscoped n f -> fscoped m f.
Proof. intros H [A [B C]]. split; [|split]; eapply in_range_mono; eassumption. Qed.
Lemma lscoped_mono n m l : (n <= m)%nat -> lscoped n l -> lscoped m l.
Proof. intros H Hl. unfold lscoped in *. eapply Forall_impl; [|exact Hl]. cbn. intros a Ha. eapply id_in_mono; eassumption. Qed.
Lemma ascoped_mono nl ml n a : (nl <= ml)%nat -> ascoped nl n a -> ascoped ml n a.
Proof. intros H [A B]. split; [|exact B]. eapply Forall_impl; [|exact A]. cbn. intros x Hx. eapply id_in_mono; eassumption. Qed.

(* strIdx after the string phase *)
Lemma sidx_spec pS ix S' i :
  (forall n s, nth_error pS n = Some s -> exists m, nth n ix 0 = Z.of_nat m /\ nth_error S' m = Some s) ->
  in_range (length pS) i = true ->
  in_range (length S') (sidx ix i) = true /\ rstr S' (sidx ix i) = rstr pS i.
Proof.
  intros H Hi. apply in_range_spec in Hi. destruct (nth_error pS (Z.to_nat i)) as [s|] eqn:E.
  - destruct (H _ _ E) as [m [H1 H2]]. unfold sidx. rewrite H1. split.
    + apply in_range_spec. assert (m < length S')%nat by (apply nth_error_Some; rewrite H2; discriminate). lia.
    + unfold rstr. rewrite Nat2Z.id. rewrite (nth_error_nth _ _ _ H2). rewrite (nth_error_nth _ _ _ E). reflexivity.
  - apply nth_error_None in E. lia.
Qed.

Lemma fkey_den S' a b : fkey a = fkey b -> fun_den S' a = fun_den S' b.
Proof. unfold fkey, fun_den. intro H. inversion H. congruence. Qed.

Lemma merge_sane_spec n st p st' : Inv n st -> sane_b p = true -> length (p_types p) = n ->
  merge_sane exact_keqs st p = inl st' -> Z.of_nat (length (ms_funs st')) < two32 ->
  Inv n st' /\ forall P k, (k < n)%nat ->
    eqm (wsum P k (ms_strs st') (ms_funs st') (ms_locs st') (ms_samps st'))
        (wsum P k (ms_strs st) (ms_funs st) (ms_locs st) (ms_samps st) + weight P k p).
Proof.
  intros [Ipf Ipl If Il Ia] Hsane Hn Hm Hbound.
  destruct (sane_b_spec p Hsane) as [Ppf [Ppl [Pf [Pl Pa]]]]. rewrite Hn in Pa.
  unfold merge_sane in Hm. cbn [exact_keqs kq_s kq_f kq_m kq_l kq_a] in Hm.
  destruct (str_phase zlist_eqb (p_strs p) (ms_strs st)) as [ix S'] eqn:Es.
  destruct (combine_headers _ _ _ p) as [head|e]; [|discriminate].
  destruct (phase zlist_eqb (rw_fun ix) fkey set_fid f_id (p_funs p) [] (ms_funs st)) as [fnidx F'] eqn:Ef.
  destruct (phase zlist_eqb (rw_map ix) mkey set_mid m_id (p_maps p) [] (ms_maps st)) as [mapidx M'] eqn:Em.
  destruct (phase zlist_eqb (rw_loc fnidx mapidx) lkey set_lid l_id (p_locs p) [] (ms_locs st)) as [locidx L'] eqn:El.
  inversion Hm; subst st'; clear Hm. cbn [ms_strs ms_funs ms_locs ms_samps] in *.
  destruct (str_phase_spec _ zlist_eqb_eq _ _ _ _ Es) as [X [HS' Hstr]].
  assert (HlenS : (length (ms_strs st) <= length S')%nat) by (rewrite HS', app_length; lia).
  (* functions *)
  destruct (phase_spec _ zlist_eqb_eq (rw_fun ix) fkey set_fid f_id (fscoped (length S')) (fun _ _ => eq_refl) (fun _ _ => eq_refl)
              _ _ _ _ _ Ef Ipf) as [Y [HF' [Ppf' [Pf' [_ Hfin]]]]].
  { eapply Forall_impl; [|exact If]. intros f. apply fscoped_mono. exact HlenS. }
  { intros f j Hf. rewrite Forall_forall in Pf. destruct (Pf f Hf) as [A [B C]].
    split; [|split]; cbn [set_fid rw_fun f_name f_sys f_file]; apply (sidx_spec _ _ _ _ Hstr); assumption. }
  destruct (positional_nodup _ _ _ Ppf) as [Hndf _]. specialize (Hfin Hndf).
  assert (HlenF : (length (ms_funs st) <= length F')%nat) by (rewrite HF', app_length; lia).
  assert (Hfn : forall id, id_in (length (p_funs p)) id = true ->
            exists e, find_by f_id (aget fnidx id) F' = Some e /\ fun_den S' e = fn_den (p_strs p) (p_funs p) id).
  { intros id Hid. destruct (find_by_id_in _ _ _ Ppf Hid) as [f [Hf Hfin']]. destruct (Hfin f Hfin') as [e [He Hk]].
    rewrite (find_by_id _ _ _ _ Hf) in He. exists e. split; [exact He|]. unfold fn_den. rewrite Hf.
    rewrite (fkey_den S' _ _ Hk). rewrite Forall_forall in Pf. destruct (Pf f Hfin') as [A [B C]].
    unfold fun_den. cbn [rw_fun f_start f_name f_sys f_file].
    rewrite (proj2 (sidx_spec _ _ _ _ Hstr A)), (proj2 (sidx_spec _ _ _ _ Hstr B)), (proj2 (sidx_spec _ _ _ _ Hstr C)). reflexivity. }
  (* locations *)
  destruct (phase_spec _ zlist_eqb_eq (rw_loc fnidx mapidx) lkey set_lid l_id (lscoped (length F')) (fun _ _ => eq_refl) (fun _ _ => eq_refl)
              _ _ _ _ _ El Ipl) as [Z0 [HL' [Ppl' [Pl' [_ Hlin]]]]].
  { eapply Forall_impl; [|exact Il]. intros l. apply lscoped_mono. exact HlenF. }
  { intros l j Hl. rewrite Forall_forall in Pl. specialize (Pl l Hl). unfold lscoped in *. cbn [set_lid rw_loc l_lines].
    apply Forall_forall. intros ln Hln. apply in_map_iff in Hln. destruct Hln as [ln0 [<- Hln0]]. cbn [set_lnfn ln_fn].
    rewrite Forall_forall in Pl. destruct (Hfn _ (Pl ln0 Hln0)) as [e [He _]]. apply (find_by_found_id_in _ _ _ _ Ppf' He). }
  destruct (positional_nodup _ _ _ Ppl) as [Hndl _]. specialize (Hlin Hndl).
  assert (HlenL : (length (ms_locs st) <= length L')%nat) by (rewrite HL', app_length; lia).
  assert (Hloc : forall id, id_in (length (p_locs p)) id = true ->
            exists e, find_by l_id (aget locidx id) L' = Some e /\ loc_den S' F' e = locid_den (p_strs p) (p_funs p) (p_locs p) id).
  { intros id Hid. destruct (find_by_id_in _ _ _ Ppl Hid) as [l [Hl Hlin']]. destruct (Hlin l Hlin') as [e [He Hk]].
    rewrite (find_by_id _ _ _ _ Hl) in He. exists e. split; [exact He|]. unfold locid_den. rewrite Hl.
    destruct (find_by_found_id_in _ _ _ _ Ppl' He) as [_ HeL]. rewrite Forall_forall in Pl'. pose proof (Pl' e HeL) as Hes.
    rewrite Forall_forall in Pl. pose proof (Pl l Hlin') as Hls.
    unfold lkey in Hk. inversion Hk as [[Ha Hmap Hw]]. cbn [rw_loc l_lines] in Hw. rewrite map_map in Hw. cbn [set_lnfn ln_fn ln_line] in Hw.
    assert (Hfns : map ln_fn (l_lines e) = map (fun ln => aget fnidx (ln_fn ln)) (l_lines l)).
    { rewrite <- (map_map (fun ln => set_lnfn ln (aget fnidx (ln_fn ln))) ln_fn).
      apply line_words_fns.
      - rewrite Hw, map_map. reflexivity.
      - unfold lscoped in Hes. eapply Forall_impl; [|exact Hes]. cbn. intros ln Hx. apply id_in_spec in Hx. lia.
      - apply Forall_forall. intros ln Hln. apply in_map_iff in Hln. destruct Hln as [ln0 [<- Hln0]]. cbn [set_lnfn ln_fn].
        unfold lscoped in Hls. rewrite Forall_forall in Hls. destruct (Hfn _ (Hls ln0 Hln0)) as [e' [He' _]].
        destruct (find_by_found_id_in _ _ _ _ Ppf' He') as [Hx _]. apply id_in_spec in Hx. lia. }
    unfold loc_den. rewrite <- (map_map ln_fn (fn_den S' F')), Hfns, map_map. apply map_ext_in. intros ln Hln.
    unfold lscoped in Hls. rewrite Forall_forall in Hls. destruct (Hfn _ (Hls ln Hln)) as [e' [He' Hd']].
    unfold fn_den at 1. rewrite He'. exact Hd'. }
  (* samples *)
  assert (Ia' : Forall (ascoped (length L') n) (ms_samps st)).
  { eapply Forall_impl; [|exact Ia]. intros a. apply ascoped_mono. exact HlenL. }
  destruct (samp_fold_spec S' F' L' (p_strs p) (p_funs p) (p_locs p) ix locidx n Ppl' Hloc (p_samps p) _ Ia' Pa) as [Pa' Hw].
  split; [constructor; cbn [ms_strs ms_funs ms_locs ms_samps]; assumption|].
  intros P k Hk. rewrite (Hw P k Hk). rewrite weight_wsum. rewrite HS', HF', HL'.
  rewrite (wsum_ext_tables P k _ X _ Y _ Z0 _ n Ipf If Ipl Il Ia). apply eqm_of_eq. reflexivity.
Qed.



Lemma phase_ext {A} eqk (rw : A -> A) key setid getid xs : forall idx tbl idx' tbl',
  phase eqk rw key setid getid xs idx tbl = (idx', tbl') -> exists X, tbl' = tbl ++ X.
Proof.
  induction xs as [|x r IH]; intros idx tbl idx' tbl' H; cbn [phase] in H.
  - inversion H; subst. exists []. rewrite app_nil_r. reflexivity.
  - destruct (tget eqk key setid tbl (rw x)) as [j tbl1] eqn:Eg. destruct (IH _ _ _ _ H) as [X HX].
    unfold tget in Eg. destruct (find_key eqk key (key (rw x)) tbl 0); inversion Eg; subst.
    + exists X. reflexivity.
    + eexists. rewrite <- app_assoc. reflexivity.
Qed.

Lemma merge_sane_funs_len q st p st' : merge_sane q st p = inl st' -> (length (ms_funs st) <= length (ms_funs st'))%nat.
Proof.
  unfold merge_sane. destruct (str_phase _ _ _) as [ix S']. destruct (combine_headers _ _ _ _); [|discriminate].
  destruct (phase (kq_f q) _ _ _ _ _ _ _) as [fnidx F'] eqn:Ef. destruct (phase (kq_m q) _ _ _ _ _ _ _) as [mapidx M'].
  destruct (phase (kq_l q) _ _ _ _ _ _ _) as [locidx L']. intro H. inversion H; subst. cbn [ms_funs].
  destruct (phase_ext _ _ _ _ _ _ _ _ _ _ Ef) as [X ->]. rewrite app_length. lia.
Qed.

Lemma merge_all_funs_len q ps : forall st st', merge_all q st ps = inl st' -> (length (ms_funs st) <= length (ms_funs st'))%nat.
Proof.
  induction ps as [|p r IH]; intros st st' H; cbn [merge_all] in H; [inversion H; lia|].
  destruct (merge_one q st p) as [st1|] eqn:E1; [|discriminate]. specialize (IH _ _ H).
  unfold merge_one in E1. destruct (merged_in p).
  - pose proof (merge_sane_funs_len _ _ _ _ E1). lia.
  - inversion E1; subst. exact IH.
Qed.

Definition wsumT P k (st : mstate) : Z := wsum P k (ms_strs st) (ms_funs st) (ms_locs st) (ms_samps st).
(* every payload that takes part is sane after sanitizeProfile and has n sample types *)
Definition payloads_sane (n : nat) (ps : list pprofile) : Prop :=
  Forall (fun p => merged_in p = true -> sane_b (sanitize p) = true /\ length (p_types (sanitize p)) = n) ps.
Definition payload_weights P k (ps : list pprofile) : Z :=
  sumZ (map (fun p => if merged_in p then weight P k (sanitize p) else 0) ps).

Lemma merge_all_spec n ps : forall st st', Inv n st -> merge_all exact_keqs st ps = inl st' -> payloads_sane n ps ->
  Z.of_nat (length (ms_funs st')) < two32 ->
  Inv n st' /\ (ms_head st' = None -> ms_head st = None /\ ms_samps st' = ms_samps st) /\
  forall P k, (k < n)%nat -> eqm (wsumT P k st') (wsumT P k st + payload_weights P k ps).
Proof.
  induction ps as [|p r IH]; intros st st' HI H Hps Hb; cbn [merge_all] in H.
  - inversion H; subst. split; [exact HI|]. split; [intros; split; [assumption|reflexivity]|]. intros P k _. unfold payload_weights. cbn. apply eqm_of_eq. lia.
  - destruct (merge_one exact_keqs st p) as [st1|] eqn:E1; [|discriminate]. inversion Hps as [|? ? Hp Hr]; subst.
    pose proof (merge_all_funs_len _ _ _ _ H) as Hlen.
    unfold merge_one in E1. unfold payload_weights. cbn [map]. destruct (merged_in p) eqn:Em.
    + destruct (Hp eq_refl) as [Hs Hn].
      destruct (merge_sane_spec n st (sanitize p) st1 HI Hs Hn E1 ltac:(lia)) as [HI1 Hw1].
      destruct (IH _ _ HI1 H Hr Hb) as [HI' [Hh Hw]]. split; [exact HI'|]. split.
      * intro Hnone. destruct (Hh Hnone) as [H1 _]. exfalso. revert E1 H1. unfold merge_sane.
        destruct (str_phase _ _ _). destruct (combine_headers _ _ _ _); [|discriminate].
        destruct (phase _ _ _ _ _ _ _ _). destruct (phase _ _ _ _ _ _ _ _). destruct (phase _ _ _ _ _ _ _ _).
        intro E. inversion E; subst. cbn [ms_head]. discriminate.
      * intros P k Hk. rewrite (Hw P k Hk). unfold wsumT in *. rewrite (Hw1 P k Hk). unfold sumZ. cbn [fold_right].
        apply eqm_of_eq. unfold payload_weights, sumZ. lia.
    + inversion E1; subst st1. destruct (IH _ _ HI H Hr Hb) as [HI' [Hh Hw]]. split; [exact HI'|]. split; [exact Hh|].
      intros P k Hk. rewrite (Hw P k Hk). unfold sumZ. cbn [fold_right]. apply eqm_of_eq. unfold payload_weights, sumZ. lia.
Qed.

Lemma Inv0 n : Inv n mstate0.
Proof. constructor; cbn; try reflexivity; constructor. Qed.

(* The merged profile denotes the sum of the payloads: for every predicate on resolved stacks (in particular "is this
   stack") and every sample type, the weight the merged profile gives the selected stacks is the sum of the weights the
   payloads give them (modulo 2^64, as int64 += computes). *)
Theorem payload_merge_is_sum (ps : list pprofile) (st : mstate) (n : nat) :
  merge_all exact_keqs mstate0 ps = inl st -> payloads_sane n ps -> Z.of_nat (length (ms_funs st)) < two32 ->
  forall P k, (k < n)%nat -> eqm (weight P k (merged_profile st)) (payload_weights P k ps).
Proof.
  intros H Hps Hb P k Hk. destruct (merge_all_spec n ps _ _ (Inv0 n) H Hps Hb) as [_ [Hh Hw]].
  specialize (Hw P k Hk). change (wsumT P k mstate0) with 0 in Hw. rewrite Z.add_0_l in Hw.
  unfold merged_profile. destruct (ms_head st) as [h|] eqn:Eh.
  - rewrite weight_wsum. cbn [p_strs p_funs p_locs p_samps]. exact Hw.
  - destruct (Hh eq_refl) as [_ Hs]. cbn [mstate0 ms_samps] in Hs. unfold wsumT in Hw. rewrite Hs in Hw.
    unfold weight. cbn [p_samps map]. unfold wsum in Hw. cbn [map] in Hw. exact Hw.
Qed.

Lemma sumZ_perm a b : Permutation a b -> sumZ a = sumZ b.
Proof. induction 1; unfold sumZ in *; cbn [fold_right]; lia. Qed.

(* ... of any number of payloads, in any order: two merges of the same payloads in different orders give every
   selection of stacks the same weight *)
Theorem payload_merge_order_irrelevant (ps ps' : list pprofile) (st st' : mstate) (n : nat) :
  Permutation ps ps' ->
  merge_all exact_keqs mstate0 ps = inl st -> merge_all exact_keqs mstate0 ps' = inl st' -> payloads_sane n ps ->
  Z.of_nat (length (ms_funs st)) < two32 -> Z.of_nat (length (ms_funs st')) < two32 ->
  forall P k, (k < n)%nat -> eqm (weight P k (merged_profile st)) (weight P k (merged_profile st')).
Proof.
  intros Hperm H H' Hps Hb Hb' P k Hk.
  assert (Hps' : payloads_sane n ps') by (unfold payloads_sane in *; eapply Permutation_Forall; eassumption).
  rewrite (payload_merge_is_sum ps st n H Hps Hb P k Hk), (payload_merge_is_sum ps' st' n H' Hps' Hb' P k Hk).
  apply eqm_of_eq. unfold payload_weights. apply sumZ_perm. apply Permutation_map. exact Hperm.
Qed.

(* ------------------------------------------------------------------ the hypotheses are satisfiable
   two payloads with their own string tables and ids; main.b (token 4) is function 9 / location 6 of the first and
   function 1 / location 1 of the second: the merged profile holds it once and the stack [main.b] carries 4 + 10 *)
Definition ex_vt a b := {| vt_type := a; vt_unit := b |}.
Definition ex_fun i n := {| f_id := i; f_name := n; f_sys := n; f_file := 0; f_start := 0 |}.
Definition ex_loc i f := {| l_id := i; l_map := 0; l_addr := 0; l_lines := [{| ln_fn := f; ln_line := 3; ln_col := 0 |}]; l_folded := false |}.
Definition ex_samp ls v := {| s_locs := ls; s_vals := [v]; s_labels := [] |}.
Definition ex_p1 : pprofile :=
  {| p_strs := [0; 1; 2; 3; 4]; p_types := [ex_vt 1 2]; p_ptype := Some (ex_vt 1 2);
     p_funs := [ex_fun 7 3; ex_fun 9 4]; p_maps := []; p_locs := [ex_loc 5 7; ex_loc 6 9];
     p_samps := [ex_samp [5; 6] 3; ex_samp [6] 4];
     p_drop := 0; p_keep := 0; p_time := 5; p_duration := 1; p_period := 1; p_default := 0; p_comments := [] |}.
Definition ex_p2 : pprofile :=
  {| p_strs := [0; 4; 1; 2; 5]; p_types := [ex_vt 2 3]; p_ptype := Some (ex_vt 2 3);
     p_funs := [ex_fun 1 1; ex_fun 2 4]; p_maps := []; p_locs := [ex_loc 1 1; ex_loc 2 2];
     p_samps := [ex_samp [1] 10; ex_samp [2; 1] 1];
     p_drop := 0; p_keep := 0; p_time := 4; p_duration := 1; p_period := 1; p_default := 0; p_comments := [] |}.
Definition ex_main_b : list (list fden) := [[(0, 4, 4, 0)]].

Example payload_merge_is_sum_applies :
  exists st, merge_all exact_keqs mstate0 [ex_p1; ex_p2] = inl st /\
    forallb (fun p => merged_in p && sane_b (sanitize p) && Nat.eqb (length (p_types (sanitize p))) 1) [ex_p1; ex_p2] = true /\
    Z.of_nat (length (ms_funs st)) < two32 /\
    length (p_funs (merged_profile st)) = 3%nat /\ length (p_samps (merged_profile st)) = 3%nat /\
    weight (stack_eqb ex_main_b) 0 (merged_profile st) = 14 /\
    payload_weights (stack_eqb ex_main_b) 0 [ex_p1; ex_p2] = 14.
Proof. eexists. split; [vm_compute; reflexivity|]. vm_compute. repeat split; reflexivity. Qed.

Lemma payloads_sane_of_b n ps :
  forallb (fun p => negb (merged_in p) || (sane_b (sanitize p) && Nat.eqb (length (p_types (sanitize p))) n)) ps = true -> payloads_sane n ps.
Proof.
  intro H. apply Forall_forall. intros p Hp Hm. rewrite forallb_forall in H. specialize (H p Hp). rewrite Hm in H. cbn [negb orb] in H.
  apply andb_true_iff in H. destruct H as [H1 H2]. split; [exact H1|apply Nat.eqb_eq; exact H2].
Qed.
