(* C17: the storage contract the PromQL engine relies on, proved for the adapter model:
   SeriesSet cursor (every series once, in order; exhaustion is stable), series ordered by Prometheus'
   labels.Compare, label lists sorted by name, the sample cursor after exhaustion, At() defined exactly after a
   successful call, and the link between "sorted timestamps" (what Select delivers) and the hypothesis of seek_contract. *)
From Coq Require Import List ZArith NArith String Ascii Bool Lia Arith Sorting.Sorted Sorting.Permutation.
From Qryn Require Import lib.Strs model.SeriesIt proofs.SeriesItProofs model.PromSelect.
Import ListNotations.

(* ---------- byte-wise string order is a strict total order ---------- *)
Lemma str_ltb_irrefl a : str_ltb a a = false.
Proof. induction a as [|x a IH]; [reflexivity|]. cbn [str_ltb]. rewrite N.ltb_irrefl. exact IH. Qed.

Lemma N_of_ascii_inj x y : N_of_ascii x = N_of_ascii y -> x = y.
Proof. intros H. rewrite <- (ascii_N_embedding x), <- (ascii_N_embedding y). now rewrite H. Qed.

Lemma str_ltb_trichotomy a : forall b, str_ltb a b = false -> str_ltb b a = false -> a = b.
Proof.
  induction a as [|x a IH]; intros [|y b]; cbn [str_ltb]; try discriminate; [reflexivity|].
  destruct (N.ltb_spec (N_of_ascii x) (N_of_ascii y)) as [H1|H1]; [discriminate|].
  destruct (N.ltb_spec (N_of_ascii y) (N_of_ascii x)) as [H2|H2]; [discriminate|].
  intros Ha Hb. f_equal; [apply N_of_ascii_inj; lia|now apply IH].
Qed.

Lemma str_ltb_trans a : forall b c, str_ltb a b = true -> str_ltb b c = true -> str_ltb a c = true.
Proof.
  induction a as [|x a IH]; intros [|y b] [|z c]; cbn [str_ltb]; try discriminate; try reflexivity.
  destruct (N.ltb_spec (N_of_ascii x) (N_of_ascii y)) as [H1|H1].
  - intros _. destruct (N.ltb_spec (N_of_ascii y) (N_of_ascii z)) as [H2|H2].
    + intros _. destruct (N.ltb_spec (N_of_ascii x) (N_of_ascii z)); [reflexivity|lia].
    + destruct (N.ltb_spec (N_of_ascii z) (N_of_ascii y)) as [H3|H3]; [discriminate|]. intros _.
      destruct (N.ltb_spec (N_of_ascii x) (N_of_ascii z)); [reflexivity|lia].
  - destruct (N.ltb_spec (N_of_ascii y) (N_of_ascii x)) as [H2|H2]; [discriminate|]. intros Hab.
    destruct (N.ltb_spec (N_of_ascii y) (N_of_ascii z)) as [H3|H3].
    + intros _. destruct (N.ltb_spec (N_of_ascii x) (N_of_ascii z)); [reflexivity|lia].
    + destruct (N.ltb_spec (N_of_ascii z) (N_of_ascii y)) as [H4|H4]; [discriminate|]. intros Hbc.
      destruct (N.ltb_spec (N_of_ascii x) (N_of_ascii z)) as [H5|H5]; [lia|].
      destruct (N.ltb_spec (N_of_ascii z) (N_of_ascii x)) as [H6|H6]; [lia|]. now apply (IH b c).
Qed.

Lemma str_ltb_asym a b : str_ltb a b = true -> str_ltb b a = false.
Proof.
  intros H. destruct (str_ltb b a) eqn:E; [|reflexivity].
  pose proof (str_ltb_trans a b a H E) as C. rewrite str_ltb_irrefl in C. discriminate.
Qed.

(* a <= b  :=  not (b < a);  transitive *)
Lemma str_le_trans a b c : str_ltb b a = false -> str_ltb c b = false -> str_ltb c a = false.
Proof.
  intros H1 H2. destruct (str_ltb c a) eqn:E; [|reflexivity]. exfalso.
  destruct (str_ltb a b) eqn:Eab.
  - pose proof (str_ltb_trans c a b E Eab) as C. congruence.
  - assert (a = b) by now apply str_ltb_trichotomy. subst b. congruence.
Qed.

Lemma str_compare_eq a b : str_compare a b = Eq <-> a = b.
Proof.
  unfold str_compare. split.
  - destruct (str_ltb a b) eqn:E1; [discriminate|]. destruct (str_ltb b a) eqn:E2; [discriminate|]. intros _. now apply str_ltb_trichotomy.
  - intros ->. now rewrite str_ltb_irrefl.
Qed.
Lemma str_compare_eqb a b : str_compare a b = Eq <-> String.eqb a b = true.
Proof. rewrite str_compare_eq. symmetry. apply String.eqb_eq. Qed.

(* ---------- the comparator of Select's final sort.Slice is "labels.Compare <= 0" ---------- *)
Lemma labels_less_compare a : forall b, labels_less a b = true <-> labels_compare a b <> Gt.
Proof.
  induction a as [|[n1 v1] a IH]; intros [|[n2 v2] b]; cbn [labels_less labels_compare].
  - split; [discriminate|reflexivity].
  - split; [discriminate|reflexivity].
  - split; [discriminate|congruence].
  - destruct (String.eqb_spec n1 n2) as [->|Hn]; cbn [negb].
    + assert (E : str_compare n2 n2 = Eq) by now apply str_compare_eq. rewrite E.
      destruct (String.eqb_spec v1 v2) as [->|Hv]; cbn [negb].
      * assert (E' : str_compare v2 v2 = Eq) by now apply str_compare_eq. rewrite E'. apply IH.
      * unfold str_compare. destruct (str_ltb v1 v2) eqn:E1; [split; [discriminate|reflexivity]|].
        destruct (str_ltb v2 v1) eqn:E2; [split; [discriminate|congruence]|].
        exfalso. apply Hv. now apply str_ltb_trichotomy.
    + unfold str_compare. destruct (str_ltb n1 n2) eqn:E1; [split; [discriminate|reflexivity]|].
      destruct (str_ltb n2 n1) eqn:E2; [split; [discriminate|congruence]|].
      exfalso. apply Hn. now apply str_ltb_trichotomy.
Qed.

(* labels.Compare is a total preorder *)
Lemma str_compare_lt a b : str_compare a b = Lt <-> str_ltb a b = true.
Proof.
  unfold str_compare. destruct (str_ltb a b) eqn:E; [tauto|]. destruct (str_ltb b a); split; discriminate.
Qed.
Lemma str_compare_gt a b : str_compare a b = Gt <-> str_ltb b a = true.
Proof.
  unfold str_compare. destruct (str_ltb a b) eqn:E.
  - rewrite (str_ltb_asym a b E). split; discriminate.
  - destruct (str_ltb b a); [tauto|split; discriminate].
Qed.

Lemma labels_compare_total a : forall b, labels_compare a b = Gt -> labels_compare b a <> Gt.
Proof.
  induction a as [|[n1 v1] a IH]; intros [|[n2 v2] b]; cbn [labels_compare]; try discriminate.
  destruct (str_compare n1 n2) eqn:En.
  - apply str_compare_eq in En. subst n2. assert (E : str_compare n1 n1 = Eq) by now apply str_compare_eq. rewrite E.
    destruct (str_compare v1 v2) eqn:Ev.
    + apply str_compare_eq in Ev. subst v2. assert (E' : str_compare v1 v1 = Eq) by now apply str_compare_eq. rewrite E'. apply IH.
    + discriminate.
    + intros _. apply str_compare_gt in Ev. apply str_compare_lt in Ev. rewrite Ev. discriminate.
  - discriminate.
  - intros _. apply str_compare_gt in En. apply str_compare_lt in En. rewrite En. discriminate.
Qed.

Lemma str_compare_trans_le a b c : str_compare a b <> Gt -> str_compare b c <> Gt -> str_compare a c <> Gt.
Proof.
  rewrite !str_compare_gt. intros H1 H2 H3.
  apply not_true_is_false in H1. apply not_true_is_false in H2.
  pose proof (str_le_trans a b c H1 H2). congruence.
Qed.

Lemma labels_compare_trans a : forall b c, labels_compare a b <> Gt -> labels_compare b c <> Gt -> labels_compare a c <> Gt.
Proof.
  induction a as [|[n1 v1] a IH]; intros [|[n2 v2] b] [|[n3 v3] c]; cbn [labels_compare]; try congruence.
  destruct (str_compare n1 n2) eqn:E12; [| |congruence].
  - apply str_compare_eq in E12. subst n2.
    destruct (str_compare n1 n3) eqn:E13; [| |intros _ H; exact H].
    + destruct (str_compare v1 v2) eqn:V12; [| |congruence].
      * apply str_compare_eq in V12. subst v2. destruct (str_compare v1 v3); [apply IH|congruence|intros _ H; exact H].
      * intros _. destruct (str_compare v2 v3) eqn:V23; [| |congruence].
        -- apply str_compare_eq in V23. subst v3. rewrite V12. congruence.
        -- intros _. assert (H : str_compare v1 v3 = Lt).
           { apply str_compare_lt. apply str_compare_lt in V12. apply str_compare_lt in V23. now apply (str_ltb_trans v1 v2 v3). }
           rewrite H. discriminate.
    + congruence.
  - intros _. destruct (str_compare n2 n3) eqn:E23; [| |congruence].
    + apply str_compare_eq in E23. subst n3. rewrite E12. congruence.
    + intros _. assert (H : str_compare n1 n3 = Lt).
      { apply str_compare_lt. apply str_compare_lt in E12. apply str_compare_lt in E23. now apply (str_ltb_trans n1 n2 n3). }
      rewrite H. discriminate.
Qed.

(* ---------- insertion sort delivers a sorted list, for any comparator that is asymmetric and whose
   complement is transitive ---------- *)
Section ISORTED.
  Context {A : Type} (lt : A -> A -> bool).
  Definition le_of (a b : A) : Prop := lt b a = false.
  Hypothesis lt_asym : forall a b, lt a b = true -> lt b a = false.
  Hypothesis le_trans : forall a b c, le_of a b -> le_of b c -> le_of a c.

  Lemma insert_sorted_in' x l y : List.In y (insert_sorted lt x l) <-> y = x \/ List.In y l.
  Proof.
    induction l as [|z l IH]; cbn [insert_sorted]; [cbn; intuition|].
    destruct (lt x z); cbn [List.In]; [intuition|]. rewrite IH. intuition.
  Qed.
  Lemma insert_sorted_keeps x l : StronglySorted le_of l -> StronglySorted le_of (insert_sorted lt x l).
  Proof.
    induction l as [|y l IH]; intros Hs; cbn [insert_sorted]; [repeat constructor|].
    inversion Hs as [|? ? Hs' Hall]; subst.
    destruct (lt x y) eqn:E.
    - constructor; [assumption|]. constructor; [now apply lt_asym|].
      rewrite Forall_forall in *. intros z Hz. apply (le_trans x y z); [now apply lt_asym|now apply Hall].
    - constructor; [now apply IH|]. rewrite Forall_forall in *. intros z Hz. apply insert_sorted_in' in Hz.
      destruct Hz as [->|Hz]; [exact E|now apply Hall].
  Qed.
  Lemma isort_sorted_gen l : StronglySorted le_of (isort lt l).
  Proof.
    unfold isort. assert (H : forall acc, StronglySorted le_of acc -> StronglySorted le_of (fold_left (fun acc x => insert_sorted lt x acc) l acc)).
    { induction l as [|x l IH]; intros acc Ha; [exact Ha|]. cbn [fold_left]. apply IH. now apply insert_sorted_keeps. }
    apply H. constructor.
  Qed.
End ISORTED.

(* ---------- SeriesSet ordering: Select returns its series sorted by Prometheus' labels.Compare ---------- *)
Definition series_le (a b : out_series) : Prop := labels_compare (o_labels a) (o_labels b) <> Gt.

Lemma out_lt_false_le a b : out_lt b a = false -> series_le a b.
Proof.
  unfold out_lt, series_le. intros H. apply andb_false_iff in H. destruct H as [H|H].
  - (* not (b <= a): then a <= b by totality *)
    destruct (labels_compare (o_labels a) (o_labels b)) eqn:E; try discriminate.
    exfalso. pose proof (labels_compare_total _ _ E) as T. apply labels_less_compare in T. congruence.
  - apply negb_false_iff in H. now apply labels_less_compare.
Qed.
Lemma series_le_out_lt a b : series_le a b -> labels_compare (o_labels b) (o_labels a) <> Gt \/ out_lt b a = false.
Proof.
  intros H. right. unfold out_lt. apply andb_false_iff. right. apply negb_false_iff. now apply labels_less_compare.
Qed.

Theorem select_series_sorted mr rows fetch : StronglySorted series_le (select_series mr rows fetch).
Proof.
  unfold select_series.
  match goal with |- StronglySorted _ (isort out_lt ?l) => generalize l end. intros l.
  assert (H : StronglySorted (le_of out_lt) (isort out_lt l)).
  { apply isort_sorted_gen.
    - intros a b Hab. unfold out_lt in *. apply andb_prop in Hab. destruct Hab as [H1 H2]. apply negb_true_iff in H2.
      rewrite H2. reflexivity.
    - intros a b c Hab Hbc. unfold le_of in *.
      pose proof (out_lt_false_le _ _ Hab) as L1. pose proof (out_lt_false_le _ _ Hbc) as L2.
      pose proof (labels_compare_trans _ _ _ L1 L2) as L3.
      unfold out_lt. apply andb_false_iff. right. apply negb_false_iff. now apply labels_less_compare. }
  clear -H. induction H as [|a l0 Hs IH Hall]; constructor; [assumption|].
  rewrite Forall_forall in *. intros b Hb. apply out_lt_false_le. now apply Hall.
Qed.

(* ---------- Labels(): sorted by name, a permutation of the stored pairs ---------- *)
Definition name_le (a b : string * string) : Prop := str_ltb (fst b) (fst a) = false.

Lemma sort_labels_sorted l : StronglySorted name_le (sort_labels l).
Proof.
  unfold sort_labels. apply (isort_sorted_gen (fun a b : string * string => str_ltb (fst a) (fst b))).
  - intros a b. apply str_ltb_asym.
  - intros a b c. unfold le_of. apply str_le_trans.
Qed.
Lemma insert_sorted_perm' {A} (lt : A -> A -> bool) x l : Permutation (insert_sorted lt x l) (x :: l).
Proof.
  induction l as [|y l IH]; cbn [insert_sorted]; [apply Permutation_refl|].
  destruct (lt x y); [apply Permutation_refl|]. apply perm_trans with (y :: x :: l); [now apply perm_skip|apply perm_swap].
Qed.
Lemma isort_perm' {A} (lt : A -> A -> bool) l : Permutation (isort lt l) l.
Proof.
  unfold isort. assert (H : forall acc, Permutation (fold_left (fun acc x => insert_sorted lt x acc) l acc) (acc ++ l)%list).
  { induction l as [|x l IH]; intros acc; cbn [fold_left]; [rewrite app_nil_r; apply Permutation_refl|].
    apply perm_trans with (insert_sorted lt x acc ++ l)%list; [apply IH|].
    apply perm_trans with ((x :: acc) ++ l)%list; [apply Permutation_app_tail; apply insert_sorted_perm'|].
    cbn [app]. apply Permutation_middle. }
  apply (H []).
Qed.
Theorem labels_get_sorted fetch fp :
  StronglySorted name_le (labels_get fetch fp) /\
  (forall l, fingerprints_has fetch fp = Some l -> Permutation (labels_get fetch fp) l).
Proof.
  unfold labels_get. split.
  - destruct (fingerprints_has fetch fp); [apply sort_labels_sorted|constructor].
  - intros l ->. apply isort_perm'.
Qed.
(* with unique names the order is strict: the list is the unique ascending arrangement *)
Lemma sorted_strict l : StronglySorted name_le l -> NoDup (map fst l) ->
  StronglySorted (fun a b => str_ltb (fst a) (fst b) = true) l.
Proof.
  intros Hs. induction Hs as [|a l Hs IH Hall]; intros Hnd; [constructor|].
  cbn [map] in Hnd. inversion Hnd as [|? ? Hnot Hnd']; subst.
  constructor; [now apply IH|]. rewrite Forall_forall in *. intros b Hb. specialize (Hall b Hb). unfold name_le in Hall.
  destruct (str_ltb (fst a) (fst b)) eqn:E; [reflexivity|]. exfalso. apply Hnot.
  rewrite (str_ltb_trichotomy _ _ E Hall). now apply in_map.
Qed.

(* ---------- the SeriesSet cursor ---------- *)
Lemma sset_drain_from l : forall k fuel, (k <= List.length l)%nat -> (List.length l - k < fuel)%nat ->
  sset_drain fuel {| ss_series := l; ss_idx := Z.of_nat k - 1 |} = map Some (skipn k l).
Proof.
  intros k fuel. revert k. induction fuel as [|f IH]; intros k Hk Hf; [lia|].
  cbn [sset_drain sset_next ss_series ss_idx].
  replace (Z.of_nat k - 1 + 1)%Z with (Z.of_nat k) by lia.
  destruct (Z.ltb_spec (Z.of_nat k) (Z.of_nat (List.length l))) as [Hlt|Hge].
  - assert (Hk' : (k < List.length l)%nat) by lia.
    unfold sset_at. cbn [ss_series ss_idx].
    replace ((0 <=? Z.of_nat k)%Z) with true by (symmetry; apply Z.leb_le; lia).
    replace ((Z.of_nat k <? Z.of_nat (List.length l))%Z) with true by (symmetry; apply Z.ltb_lt; lia).
    cbn [andb]. rewrite Nat2Z.id.
    replace (Z.of_nat k) with (Z.of_nat (S k) - 1)%Z by lia. rewrite IH by lia.
    destruct (nth_error l k) as [o|] eqn:En; [|apply nth_error_None in En; lia].
    clear -En. revert k En. induction l as [|x l IHl]; intros [|k] En; cbn in En; try discriminate.
    + inversion En. reflexivity.
    + cbn [skipn]. apply (IHl k En).
  - assert (k = List.length l) by lia. subst k. rewrite skipn_all. reflexivity.
Qed.
(* the loop `for ss.Next() { ss.At() }` visits every series exactly once, in order, and At() never panics *)
Theorem sset_drain_all l fuel : (List.length l < fuel)%nat -> sset_drain fuel (sset_new l) = map Some l.
Proof. intros H. unfold sset_new. apply (sset_drain_from l 0 fuel); lia. Qed.
(* once Next() has returned false it keeps returning false *)
Theorem sset_exhausted_stays s : (-1 <= ss_idx s)%Z -> snd (sset_next s) = false ->
  snd (sset_next (fst (sset_next s))) = false /\ sset_at (fst (sset_next s)) = None.
Proof.
  unfold sset_next, sset_at. cbn [fst snd ss_series ss_idx]. intros Hi H. apply Z.ltb_ge in H. split.
  - apply Z.ltb_ge. lia.
  - replace ((ss_idx s + 1 <? Z.of_nat (List.length (ss_series s)))%Z) with false by (symmetry; apply Z.ltb_ge; lia).
    now rewrite andb_false_r.
Qed.

(* ---------- the sample cursor: exhaustion is stable, At() is defined exactly after a successful call ---------- *)
Open Scope Z_scope.
Lemma seek_loop_ge fuel s t l u : (u <= l)%nat -> seek_loop fuel s t l u = l.
Proof. intros H. destruct fuel; cbn [seek_loop]; [reflexivity|]. destruct (Nat.ltb_spec l u); [lia|reflexivity]. Qed.

Lemma step_exhausted c o : len c <= idx c ->
  let '(c', ob) := step c o in samples c' = samples c /\ len c' <= idx c' /\ ob = Obs false None.
Proof.
  intros H. unfold len in *. destruct o as [|t]; cbn [step next seek samples idx].
  - unfold at_, len. cbn [samples idx]. split; [reflexivity|]. split; [lia|].
    replace (idx c + 1 <? Z.of_nat (List.length (samples c))) with false by (symmetry; apply Z.ltb_ge; lia).
    now rewrite andb_false_r.
  - rewrite seek_loop_ge by lia. unfold at_, len. cbn [samples idx]. rewrite Z2Nat.id by lia.
    split; [reflexivity|]. split; [lia|].
    replace (Z.max (idx c) 0 <? Z.of_nat (List.length (samples c))) with false by (symmetry; apply Z.ltb_ge; lia).
    now rewrite andb_false_r.
Qed.
(* after Next()/Seek() has reported the end, every further Next()/Seek() reports the end (Seek after exhaustion) *)
Theorem cursor_exhausted_stays : forall ops c, len c <= idx c -> Forall (fun ob => ob = Obs false None) (run c ops).
Proof.
  induction ops as [|o ops IH]; intros c H; cbn [run]; [constructor|].
  pose proof (step_exhausted c o H) as S. destruct (step c o) as [c' ob]. destruct S as [Hs [Hl ->]].
  constructor; [reflexivity|]. now apply IH.
Qed.
(* a call that returns false leaves the cursor exhausted; At() has a value exactly when the call returned true
   (At after a failed Next would index out of range: the engine never does it) *)
Theorem cursor_at_defined c o : -1 <= idx c ->
  let '(c', ob) := step c o in
  match ob with Obs b v => (b = true <-> v <> None) /\ (b = false -> len c' <= idx c') /\ -1 <= idx c' end.
Proof.
  intros H. destruct o as [|t]; cbn [step next seek]; unfold at_, len; cbn [samples idx].
  - destruct (Z.ltb_spec (idx c + 1) (Z.of_nat (List.length (samples c)))) as [Hlt|Hge].
    + replace (0 <=? idx c + 1) with true by (symmetry; apply Z.leb_le; lia). cbn [andb].
      split; [split; [discriminate|reflexivity]|]. split; [discriminate|lia].
    + rewrite andb_false_r. split; [split; [discriminate|congruence]|]. split; [lia|lia].
  - set (r := seek_loop _ _ _ _ _).
    destruct (Z.ltb_spec (Z.of_nat r) (Z.of_nat (List.length (samples c)))) as [Hlt|Hge].
    + replace (0 <=? Z.of_nat r) with true by (symmetry; apply Z.leb_le; lia). cbn [andb].
      split; [split; [discriminate|reflexivity]|]. split; [discriminate|lia].
    + rewrite andb_false_r. split; [split; [discriminate|congruence]|]. split; [lia|lia].
Qed.

(* what Select proves about a series (timestamps sorted) is the hypothesis of seek_contract *)
Lemma sorted_ascending (s : list Z) : StronglySorted Z.le s -> ascending s.
Proof.
  intros Hs. unfold ascending, nthZ. induction Hs as [|a l Hs IH Hall]; intros i j Hij Hj; [cbn in Hj; lia|].
  destruct i as [|i], j as [|j]; cbn [nth]; try lia.
  - rewrite Forall_forall in Hall. apply Hall. apply nth_In. cbn in Hj. lia.
  - apply IH; cbn in Hj; lia.
Qed.
Theorem seek_contract_for_sorted : forall s ops, StronglySorted Z.le s ->
  spec_run_ok s (-1) ops (run (iterator s) ops) = true.
Proof. intros s ops H. exact (run_meets_spec s (sorted_ascending s H) ops (-1)). Qed.

Example storage_contract_nonvacuous :
  let out := [{| o_labels := [("__name__", "up"%string); ("env", "dev"%string)]; o_fp := 32%N; o_samples := [(10, 2); (20, 3)] |};
              {| o_labels := [("__name__", "up"%string); ("instance", "h:9090"%string)]; o_fp := 31%N; o_samples := [(10, 1)] |}] in
  sset_drain 3 (sset_new out) = map Some out /\ StronglySorted series_le out /\
  run (iterator [10; 20]) [OSeek 15; ONext; ONext; OSeek 0] = [Obs true (Some 20); Obs false None; Obs false None; Obs false None].
Proof.
  split; [reflexivity|]. split; [|reflexivity].
  repeat constructor; unfold series_le; cbn; discriminate.
Qed.
