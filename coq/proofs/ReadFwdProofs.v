(* C12 -- the row / batch forwarding goroutines of the label, series, Tempo tag / search and TraceQL endpoints
   (model/ReadFwd.v) meet the contracts of the generic theorems of proofs/PipelineProofs.v; the one body that runs
   without recover and indexes one array by the length of another (TraceQLRequestProcessor) is fault-free on rows
   whose three array columns are consistent, and that condition is needed; the portion loop of
   ComplexRequestProcessor issues a bounded number of statements. *)
From Coq Require Import List ZArith Bool Lia ZifyNat.
From Qryn Require Import model.Pipeline model.ReadPath model.ReadFwd proofs.PipelineProofs.
Import ListNotations.
Open Scope Z_scope.

Ltac fcons := apply Forall_cons; [simpl|].

(* ------------------------------------------------------------------ contract K: nobody stops receiving without a drainer *)
Lemma lbl_good : good_node lbl_node.
Proof. intros canc i m. simpl. destruct m as [[| |]| |]; try discriminate; destruct (i =? 0); discriminate. Qed.
Lemma bare_good : good_node bare_node.
Proof. intros canc i m. simpl. destruct m as [[| |]| |]; discriminate. Qed.
Lemma tq_good : forall checked, good_node (tq_node_gen checked).
Proof.
  intros checked canc i m. simpl. destruct m as [[| |ns nd nt]| |]; try discriminate.
  unfold tq_on_msg. destruct (checked && negb (trace_row_consistent ns nd nt)); [discriminate|].
  destruct (trace_row_safe ns nd nt); discriminate.
Qed.
Lemma fwd_good : forall fl, good_node (fwd_node fl).
Proof. intros fl canc i m. simpl. destruct m; discriminate. Qed.
Lemma sink_good : good_node sink_node.
Proof. intros canc i m. unfold sink_node. simpl. rewrite andb_false_r. discriminate. Qed.

(* ------------------------------------------------------------------ no fault, for every message *)
Lemma lbl_nofault : nofault_node lbl_node.
Proof.
  split; [|reflexivity]. intros canc i m _. simpl. destruct m as [[| |]| |]; try reflexivity; try exact I.
Qed.
Lemma bare_nofault : nofault_node bare_node.
Proof. split; [|reflexivity]. intros canc i m _. simpl. destruct m as [[| |]| |]; try reflexivity; exact I. Qed.
Lemma fwd_nofault : forall fl, nofault_node (fwd_node fl).
Proof. intros fl. split; [|reflexivity]. intros canc i m _. simpl. destruct m; reflexivity. Qed.
Lemma sink_nofault : nofault_node sink_node.
Proof. split; [|reflexivity]. intros canc i m _. unfold sink_node. simpl. rewrite andb_false_r. reflexivity. Qed.

(* ------------------------------------------------------------------ no fault on acceptable messages (TraceQL rows with consistent arrays) *)
Lemma forallb_repeat_str : forall n, forallb fmsg_ok (repeat FStr n) = true.
Proof. induction n; simpl; auto. Qed.

Lemma nofault_on_of_nofault : forall n : node Z fmsg, nofault_node n ->
  (forall canc s m, fmsg_ok m = true -> forallb fmsg_ok (rr_out (n_on_msg n canc s m)) = true) ->
  (forall canc s, forallb fmsg_ok (cr_out (n_on_close n canc s)) = true) ->
  nofault_node_on fmsg_ok n.
Proof.
  intros n [H1 H2] Ho Hc. split.
  - intros canc s m Hs Hm. split; [apply H1; exact Hs|apply Ho; exact Hm].
  - intros canc s Hs. split; [apply H2; exact Hs|apply Hc].
Qed.

Lemma lbl_nofault_on : nofault_node_on fmsg_ok lbl_node.
Proof.
  apply nofault_on_of_nofault; [apply lbl_nofault| |reflexivity].
  intros canc i m _. destruct m as [[| |]| |]; simpl; try reflexivity. destruct (i =? 0); reflexivity.
Qed.
Lemma bare_nofault_on : nofault_node_on fmsg_ok bare_node.
Proof.
  apply nofault_on_of_nofault; [apply bare_nofault| |reflexivity].
  intros canc i m _. destruct m as [[| |]| |]; reflexivity.
Qed.
Lemma fwd_nofault_on : forall fl, nofault_node_on fmsg_ok (fwd_node fl).
Proof.
  intros fl. apply nofault_on_of_nofault; [apply fwd_nofault| |reflexivity].
  intros canc i m _. destruct m; simpl; try reflexivity. destruct fl; [apply forallb_repeat_str|reflexivity].
Qed.
Lemma sink_nofault_on : nofault_node_on fmsg_ok sink_node.
Proof.
  apply nofault_on_of_nofault; [apply sink_nofault| |reflexivity].
  intros canc i m Hm. unfold sink_node. simpl. rewrite andb_false_r. simpl. rewrite Hm. reflexivity.
Qed.
(* the unrecovered body as it was: safe exactly on rows whose arrays are long enough *)
Lemma tq_nofault_on : forall checked, nofault_node_on fmsg_ok (tq_node_gen checked).
Proof.
  intros checked. split.
  - intros canc i m _ Hm. destruct m as [[| |ns nd nt]| |]; simpl; try (split; [try exact I; reflexivity|reflexivity]).
    simpl in Hm. unfold tq_on_msg. destruct (checked && negb (trace_row_consistent ns nd nt)); [split; [exact I|reflexivity]|].
    rewrite Hm. split; reflexivity.
  - intros canc i _. split; reflexivity.
Qed.
Lemma tq_faults_on_ragged_rows : ~ nofault_node (tq_node_gen false).
Proof. intros [H _]. exact (H false 0 (FRow (FTrace 2 1 1)) eq_refl). Qed.
(* with the comparison of the three lengths (51fb0f7): no fault, whatever the row *)
Lemma consistent_safe : forall ns nd nt, trace_row_consistent ns nd nt = true -> trace_row_safe ns nd nt = true.
Proof.
  intros ns nd nt H. unfold trace_row_consistent in H. apply andb_prop in H. destruct H as [H1 H2].
  apply Z.eqb_eq in H1. apply Z.eqb_eq in H2. subst. unfold trace_row_safe. rewrite !Z.leb_refl. reflexivity.
Qed.
Lemma tq_nofault : nofault_node tq_node.
Proof.
  split; [|reflexivity]. intros canc i m _. destruct m as [[| |ns nd nt]| |]; simpl; try reflexivity; try exact I.
  unfold tq_on_msg. simpl. destruct (trace_row_consistent ns nd nt) eqn:E; simpl; [|exact I].
  rewrite (consistent_safe _ _ _ E). reflexivity.
Qed.

(* ------------------------------------------------------------------ the chains *)
Lemma fstages_good : forall k c, Forall (fun x => good_node (c_node x)) (fstages_gen k c).
Proof.
  intros k c. destruct c; simpl;
    repeat (fcons; [first [apply lbl_good | apply bare_good | apply tq_good | apply fwd_good | apply sink_good]|]); constructor.
Qed.
Lemma fstages_fresh : forall k c, Forall fresh_stage (fstages_gen k c).
Proof. intros k c. destruct c; simpl; repeat (fcons; [split; reflexivity|]); constructor. Qed.
Lemma fstages_pend : forall k c, Forall (pend_ok fmsg_ok) (fstages_gen k c).
Proof. intros k c. destruct c; simpl; repeat (fcons; [first [exact I | reflexivity]|]); constructor. Qed.
Lemma fstages_nofault_on : forall k c, Forall (fun x => nofault_node_on fmsg_ok (c_node x)) (fstages_gen k c).
Proof.
  intros k c. destruct c; simpl;
    repeat (fcons; [first [apply lbl_nofault_on | apply bare_nofault_on | apply tq_nofault_on | apply fwd_nofault_on | apply sink_nofault_on]|]);
    constructor.
Qed.
Lemma fstages_nofault : forall c, Forall (fun x => nofault_node (c_node x)) (fstages c).
Proof.
  intros c. destruct c; unfold fstages; simpl;
    repeat (fcons; [first [apply lbl_nofault | apply bare_nofault | apply tq_nofault | apply fwd_nofault | apply sink_nofault]|]); constructor.
Qed.

Notation fconfig := (config Z fmsg).

(* every chain, with or without the length comparison, whatever arrives on its first channel: no goroutine is ever left behind *)
Lemma fwd_chain_no_leak : forall (k : bool) (c : fchain) (rows : list fmsg),
  let c0 := init_config rows (fstages_gen k c) in
  Acc (fun c' c1 : fconfig => step c1 c') c0 /\
  forall cf, star c0 cf -> quiescent cf -> crashed cf = true \/ all_done (cells cf).
Proof. intros k c rows. apply chain_no_leak; auto using fstages_good, fstages_fresh. Qed.

(* the chains as the code is: no crash either, for ALL rows *)
Lemma fwd_chain_terminates : forall (c : fchain) (rows : list fmsg),
  let c0 := init_config rows (fstages c) in
  Acc (fun c' c1 : fconfig => step c1 c') c0 /\
  forall cf, star c0 cf -> crashed cf = false /\ (quiescent cf -> all_done (cells cf)).
Proof. intros c rows. apply chain_terminates; unfold fstages; auto using fstages_good, fstages_fresh, fstages_nofault. Qed.

(* before 51fb0f7: only on rows whose array columns are long enough (instance of the theorem relative to acceptable messages) *)
Lemma fwd_chain_terminates_on : forall (k : bool) (c : fchain) (rows : list fmsg), forallb fmsg_ok rows = true ->
  let c0 := init_config rows (fstages_gen k c) in
  Acc (fun c' c1 : fconfig => step c1 c') c0 /\
  forall cf, star c0 cf -> crashed cf = false /\ (quiescent cf -> all_done (cells cf)).
Proof.
  intros k c rows H. apply (chain_terminates_on Z fmsg fmsg_ok); auto using fstages_good, fstages_fresh, fstages_pend, fstages_nofault_on.
Qed.

(* ------------------------------------------------------------------ the comparison of the lengths is needed *)
Definition ragged_rows : list frow := [FTrace 1 1 1; FTrace 2 1 1].
Definition ragged_request : frequest :=
  mkF FTempoTraceQL (PNum 1700000040) (PNum 1700000340) false SelOk ragged_rows (-1) false [Some 5] false false.
(* without it the witness is a process crash (observed on the code before 51fb0f7: corpus traceql-ragged-arrays) *)
Lemma traceql_ragged_row_crashed_before :
  fst (run run_fuel false (cells (init_config (map FRow ragged_rows) (fstages_gen false ChTraceQL)))) = RCrash.
Proof. vm_compute. reflexivity. Qed.
Lemma traceql_ragged_row_answered : fwd_outcome ragged_request = (O2xx, 2).
Proof. vm_compute. reflexivity. Qed.

(* ------------------------------------------------------------------ bounded work: the statements a request issues *)
Lemma portion_loop_stmts : forall left q n, n <= snd (portion_loop left q n) <= n + Z.of_nat left.
Proof.
  induction left as [|left IH]; intros q n.
  - simpl. lia.
  - cbn [portion_loop]. destruct (f_query_err q); [simpl; lia|].
    destruct (run_fchain (map FRow (served q)) ChIter); try (simpl; lia).
    specialize (IH q (n + 1)). lia.
Qed.

(* the loop `for i := 0; i < portions; i++` runs portions times at most: its measure portions - i is the
   structurally decreasing argument of portion_loop; a failing statement or a crash leaves it earlier *)
Definition stmt_bound (q : frequest) : Z :=
  match cx_max (f_cx q) 0 with Some cx => Z.max 2 (1 + Z.max 0 (portions_of cx)) | None => 2 end.

Lemma stream_stmts : forall q n e c, snd (stream q n e c) = n.
Proof. intros. unfold stream. destruct (f_query_err q); reflexivity. Qed.
Lemma sync_stmts : forall q n fl, snd (sync_then_source q n fl) = n.
Proof. intros. unfold sync_then_source. destruct (f_query_err q); [reflexivity|]. destruct (existsb row_bad (served q)); reflexivity. Qed.

Lemma fwd_statements_bounded : forall q, 0 <= snd (fwd_outcome q) <= stmt_bound q.
Proof.
  intros q. unfold fwd_outcome, stmt_bound, tags_path, traceql.
  destruct (f_ep q);
    repeat match goal with
           | |- context [if ?b then _ else _] => destruct b
           | |- context [match f_sel q with _ => _ end] => destruct (f_sel q)
           | |- context [match cx_max ?l ?a with _ => _ end] => destruct (cx_max l a) as [cx|]
           end;
    rewrite ?stream_stmts, ?sync_stmts; cbn [snd]; try lia.
  all: pose proof (portion_loop_stmts (Z.to_nat (portions_of cx)) q 1) as Hp; lia.
Qed.

(* ------------------------------------------------------------------ the hypotheses are satisfiable / typical requests are answered *)
Definition typical_strings : list frow := repeat FOk 150.
Definition typical_traces : list frow := map (fun i => FTrace (i mod 4) (i mod 4) (i mod 4)) (map Z.of_nat (seq 0 40)).
Definition freq (ep : fep) (sel : selk) (rows : list frow) (cx : list (option Z)) : frequest :=
  mkF ep (PNum 1700000040) (PNum 1700000340) false sel rows (-1) false cx false false.

Example typical_rows_acceptable : forallb fmsg_ok (map FRow typical_traces) = true /\ typical_traces <> [].
Proof. split; [vm_compute; reflexivity|discriminate]. Qed.
Example typical_forwarders_answer :
  map (fun ep => fwd_outcome (freq ep SelOk typical_strings []))
      [FLokiLabels; FLokiValues; FLokiSeries; FPromLabels; FPromValues; FPromSeries; FTempoTags; FTempoValues; FTempoSearchTags]
  = repeat (O2xx, 1) 9.
Proof. vm_compute. reflexivity. Qed.
Example typical_traceql_answers :
  fwd_outcome (freq FTempoTraceQL SelOk typical_traces [Some 5]) = (O2xx, 2) /\
  fwd_outcome (freq FTempoTraceQL SelOk typical_traces [Some 35000000]) = (O2xx, 5) /\
  fwd_outcome (freq FTempoTagsV2 SelOk typical_strings [Some 35000000]) = (O2xx, 2).
Proof. repeat split; vm_compute; reflexivity. Qed.
Example bound_typical : stmt_bound (freq FTempoTraceQL SelOk typical_traces [Some 35000000]) = 5.
Proof. vm_compute. reflexivity. Qed.

(* ------------------------------------------------------------------ what speaks for each allow-listed (unrecovered) body *)
From Qryn Require Import model.ReaderGoroutines proofs.ReadPathProofs.

Definition class_obligation_all (c : body_class) : Prop :=
  class_obligation c /\
  match c with
  | BRowsForward => good_node lbl_node /\ nofault_node lbl_node /\ good_node bare_node /\ nofault_node bare_node
  | BChanForward => forall fl, good_node (fwd_node fl) /\ nofault_node (fwd_node fl)
  | BTraceQLRows => good_node tq_node /\ nofault_node tq_node
  (* BCloseOnly is the source cell of the LTS (sends what it holds, returns); BDrainer its drained state;
     BTail / BWsReader / BBackground are accounted by their census only *)
  | _ => True
  end.

Lemma allowlisted_bodies_have_their_lemmas : forall a, In a allow_list -> class_obligation_all (a_class a).
Proof.
  intros a Ha. split; [apply allowlisted_bodies_have_their_lemma; exact Ha|].
  destruct (a_class a); auto using lbl_good, lbl_nofault, bare_good, bare_nofault.
  - intros fl. split; [apply fwd_good|apply fwd_nofault].
  - split; [apply (tq_good true)|apply tq_nofault].
Qed.
