(* C18 -- idempotence per statement CLASS (not per script by computation).  Over the modelled ClickHouse
   semantics exec_ch, on a catalogue without duplicate object names, every statement of a guarded class
   (CREATE .. IF NOT EXISTS, DROP .. IF EXISTS, RENAME .. IF EXISTS, ALTER with ADD COLUMN IF NOT EXISTS and one
   MODIFY ORDER BY key, INSERT of a settings row) that is accepted is accepted again right after itself and
   changes nothing.  Hence the premise of the convergence theorems (cl_reexec_streams / reexec_streams, so far
   established per script list by computation) follows for ANY script lists made of guarded statements whose
   uninterrupted run is accepted: a future script is covered by its classification alone. *)
From Coq Require Import List String NArith ZArith Bool Arith Lia.
From Qryn Require Import model.Migrate proofs.MigrateProofs proofs.MigrateClusterProofs.
Import ListNotations.
Open Scope nat_scope.

(* ------------------------------------------------------------------ catalogues without duplicate names *)
Definition names (l : list (string * obj)) : list string := map fst l.
Definition wf (c : cat) : Prop := NoDup (names (c_objs c)).

Lemma wf_cat0 : wf cat0.
Proof. constructor. Qed.

Lemma lookup_none_iff n l : lookup n l = None <-> ~ In n (names l).
Proof.
  induction l as [|[m o] r IH]; cbn [lookup names map fst In]; [tauto|].
  destruct (String.eqb m n) eqn:E.
  - apply String.eqb_eq in E. subst. split; [discriminate|]. intros H. exfalso. apply H. now left.
  - apply String.eqb_neq in E. rewrite IH. unfold names. split.
    + intros H [A|B]; [congruence|auto].
    + intros H B. apply H. now right.
Qed.

Lemma has_false n l : has n l = false <-> lookup n l = None.
Proof. unfold has. destruct (lookup n l); split; congruence. Qed.

Lemma has_insert_same n o l : has n (insert n o l) = true.
Proof.
  unfold has. induction l as [|[m p] r IH]; cbn [insert lookup].
  - now rewrite String.eqb_refl.
  - destruct (String.ltb n m); cbn [lookup].
    + now rewrite String.eqb_refl.
    + destruct (String.eqb m n); [reflexivity|exact IH].
Qed.

Lemma lookup_insert_same n o l : lookup n l = None -> lookup n (insert n o l) = Some o.
Proof.
  induction l as [|[m p] r IH]; cbn [insert lookup]; intros H.
  - now rewrite String.eqb_refl.
  - destruct (String.eqb m n) eqn:E; [discriminate|].
    destruct (String.ltb n m); cbn [lookup].
    + now rewrite String.eqb_refl.
    + rewrite E. now apply IH.
Qed.

Lemma lookup_insert_other n m o l : n <> m -> lookup n (insert m o l) = lookup n l.
Proof.
  intros H. induction l as [|[a p] r IH]; cbn [insert lookup].
  - destruct (String.eqb m n) eqn:E; [apply String.eqb_eq in E; congruence|reflexivity].
  - destruct (String.ltb m a); cbn [lookup].
    + destruct (String.eqb m n) eqn:E; [apply String.eqb_eq in E; congruence|reflexivity].
    + destruct (String.eqb a n); [reflexivity|exact IH].
Qed.

Lemma lookup_remove_other n m l : n <> m -> lookup n (remove m l) = lookup n l.
Proof.
  intros H. induction l as [|[a p] r IH]; cbn [remove lookup]; [reflexivity|].
  destruct (String.eqb a m) eqn:E.
  - apply String.eqb_eq in E. subst a.
    destruct (String.eqb m n) eqn:E2; [apply String.eqb_eq in E2; congruence|reflexivity].
  - cbn [lookup]. destruct (String.eqb a n); [reflexivity|exact IH].
Qed.

Lemma lookup_remove_same n l : NoDup (names l) -> lookup n (remove n l) = None.
Proof.
  induction l as [|[a p] r IH]; cbn [remove lookup names map fst]; intros H; [reflexivity|].
  inversion H as [|? ? Hnin Hnd]; subst.
  destruct (String.eqb a n) eqn:E.
  - apply String.eqb_eq in E. subst a. now apply lookup_none_iff.
  - cbn [lookup]. rewrite E. now apply IH.
Qed.

Lemma remove_insert n o l : lookup n l = None -> remove n (insert n o l) = l.
Proof.
  induction l as [|[m p] r IH]; cbn [insert lookup remove]; intros H.
  - now rewrite String.eqb_refl.
  - destruct (String.eqb m n) eqn:E; [discriminate|].
    destruct (String.ltb n m); cbn [remove].
    + now rewrite String.eqb_refl.
    + rewrite E. f_equal. now apply IH.
Qed.

Lemma names_insert x n o l : In x (names (insert n o l)) <-> x = n \/ In x (names l).
Proof.
  induction l as [|[m p] r IH]; cbn [insert names map fst In].
  - intuition.
  - destruct (String.ltb n m); cbn [names map fst In].
    + intuition.
    + unfold names in IH. rewrite IH. intuition.
Qed.

Lemma NoDup_insert n o l : NoDup (names l) -> lookup n l = None -> NoDup (names (insert n o l)).
Proof.
  induction l as [|[m p] r IH]; cbn [insert names map fst lookup]; intros Hnd Hl.
  - constructor; [intros []|constructor].
  - destruct (String.eqb m n) eqn:E; [discriminate|]. apply String.eqb_neq in E.
    inversion Hnd as [|? ? Hnin Hnd']; subst.
    destruct (String.ltb n m); cbn [names map fst].
    + constructor; [|exact Hnd]. intros [A|B]; [congruence|]. apply lookup_none_iff in Hl. contradiction.
    + constructor; [|now apply IH]. intros Hin. apply names_insert in Hin. destruct Hin as [A|B]; [congruence|contradiction].
Qed.

Lemma names_remove x n l : In x (names (remove n l)) -> In x (names l).
Proof.
  induction l as [|[m p] r IH]; cbn [remove names map fst In]; [tauto|].
  destruct (String.eqb m n); cbn [names map fst In]; [tauto|]. intros [A|B]; [now left|right; now apply IH].
Qed.

Lemma NoDup_remove n l : NoDup (names l) -> NoDup (names (remove n l)).
Proof.
  induction l as [|[m p] r IH]; cbn [remove names map fst]; intros H; [constructor|].
  inversion H as [|? ? Hnin Hnd]; subst.
  destruct (String.eqb m n); cbn [names map fst]; [exact Hnd|].
  constructor; [|now apply IH]. intros Hin. apply names_remove in Hin. contradiction.
Qed.

Lemma lookup_remove_none n m l : lookup n l = None -> lookup n (remove m l) = None.
Proof. rewrite !lookup_none_iff. intros H Hin. apply H. now apply names_remove in Hin. Qed.

(* the settings rows: a set insert is idempotent (no sortedness needed) *)
Lemma row_add_idem x l : row_add x (row_add x l) = row_add x l.
Proof.
  induction l as [|y r IH]; cbn [row_add].
  - assert (E : row_eqb x x = true) by (unfold row_eqb; now rewrite !String.eqb_refl). now rewrite E.
  - destruct (row_eqb x y) eqn:E1; [cbn [row_add]; now rewrite E1|].
    destruct (row_ltb x y) eqn:E2; cbn [row_add].
    + assert (E : row_eqb x x = true) by (unfold row_eqb; now rewrite !String.eqb_refl). now rewrite E.
    + now rewrite E1, E2, IH.
Qed.

(* ------------------------------------------------------------------ ALTER: the command list on a working copy *)
Lemma alter_none cmds : fold_left alter_step cmds None = None.
Proof. induction cmds as [|c r IH]; [reflexivity|exact IH]. Qed.

Definition mem_incl (a b : list string) : Prop := forall x, mem x a = true -> mem x b = true.

Lemma mem_app_r x a : mem x (a ++ [x]) = true.
Proof. unfold mem. rewrite existsb_app. cbn. now rewrite String.eqb_refl, orb_true_r. Qed.
Lemma mem_app_l x y a : mem x a = true -> mem x (a ++ [y]) = true.
Proof. unfold mem. rewrite existsb_app. intros ->. reflexivity. Qed.

Definition keys_are (K : list string) (cmds : list altercmd) : Prop :=
  Forall (fun c => match c with ModifyOrderBy k => k = K | _ => True end) cmds.
Definition adds_present (cols : list string) (cmds : list altercmd) : Prop :=
  Forall (fun c => match c with AddColumn ine col _ => ine = true /\ mem col cols = true | _ => True end) cmds.
Definition has_modify (cmds : list altercmd) : bool :=
  existsb (fun c => match c with ModifyOrderBy _ => true | _ => false end) cmds.

(* what a successful ALTER leaves: the columns only grow, every ADDed column is there, the sorting key is the
   (single) MODIFY ORDER BY key if there is one, nothing else changes *)
Lemma alter_effect K : forall cmds o f o' f', keys_are K cmds ->
  fold_left alter_step cmds (Some (o, f)) = Some (o', f') ->
  mem_incl (o_cols o) (o_cols o') /\
  Forall (fun c => match c with AddColumn _ col _ => mem col (o_cols o') = true | _ => True end) cmds /\
  o_okey o' = (if has_modify cmds then K else o_okey o) /\
  o_kind o' = o_kind o /\ o_engine o' = o_engine o /\ o_repl o' = o_repl o /\ o_to o' = o_to o /\ o_def o' = o_def o.
Proof.
  induction cmds as [|c r IH]; intros o f o' f' HK H.
  - cbn in H. inversion H; subst. cbn. repeat split; auto. intros x Hx; exact Hx.
  - inversion HK as [|? ? Hc HK']; subst. cbn [fold_left] in H.
    destruct (alter_step (Some (o, f)) c) as [[o1 f1]|] eqn:E; [|rewrite alter_none in H; discriminate].
    destruct (IH _ _ _ _ HK' H) as (Hi & Ha & Hk & H1 & H2 & H3 & H4 & H5).
    destruct c as [ine col alias|key]; cbn [alter_step] in E.
    + assert (Ho1 : mem_incl (o_cols o) (o_cols o1) /\ mem col (o_cols o1) = true /\ o_okey o1 = o_okey o /\
                    o_kind o1 = o_kind o /\ o_engine o1 = o_engine o /\ o_repl o1 = o_repl o /\ o_to o1 = o_to o /\ o_def o1 = o_def o).
      { destruct (mem col (o_cols o)) eqn:M.
        - destruct ine; inversion E; subst. repeat split; auto. intros x Hx; exact Hx.
        - destruct (String.eqb alias "" || mem alias (o_cols o)); inversion E; subst. cbn.
          repeat split; auto; [intros x Hx; now apply mem_app_l|apply mem_app_r]. }
      destruct Ho1 as (Hi1 & Hc1 & Hk1 & G1 & G2 & G3 & G4 & G5).
      split; [intros x Hx; apply Hi, Hi1, Hx|]. split; [constructor; [apply Hi, Hc1|exact Ha]|].
      cbn [has_modify existsb orb]. fold (has_modify r). rewrite Hk, Hk1. repeat split; congruence.
    + destruct (is_prefix (o_okey o) key && forallb (fun x => mem x f) (skipn (List.length (o_okey o)) key)); inversion E; subst.
      cbn in Hi, Hk, H1, H2, H3, H4, H5. split; [exact Hi|]. split; [constructor; [exact I|exact Ha]|].
      cbn [has_modify existsb orb]. rewrite Hk. destruct (has_modify r); repeat split; auto.
Qed.

Lemma is_prefix_refl a : is_prefix a a = true.
Proof. induction a as [|x a IH]; cbn; [reflexivity|]. now rewrite String.eqb_refl, IH. Qed.

(* an ALTER whose ADDed columns all exist (IF NOT EXISTS) and whose MODIFY ORDER BY key is the current one is a no-op *)
Lemma alter_noop : forall cmds o f, adds_present (o_cols o) cmds -> keys_are (o_okey o) cmds ->
  fold_left alter_step cmds (Some (o, f)) = Some (o, f).
Proof.
  induction cmds as [|c r IH]; intros o f HA HK; [reflexivity|].
  inversion HA as [|? ? Hc HA']; subst. inversion HK as [|? ? Hk HK']; subst. cbn [fold_left].
  assert (E : alter_step (Some (o, f)) c = Some (o, f)).
  { destruct c as [ine col alias|key]; cbn [alter_step].
    - destruct Hc as [-> ->]. reflexivity.
    - subst key. rewrite is_prefix_refl, skipn_all. cbn. destruct o; reflexivity. }
  rewrite E. now apply IH.
Qed.

Lemma adds_guarded_forall cmds : forallb cmd_guarded cmds = true ->
  Forall (fun c => match c with AddColumn ine _ _ => ine = true | _ => True end) cmds.
Proof.
  induction cmds as [|c r IH]; cbn; intros H; [constructor|]. apply andb_true_iff in H. destruct H as [H1 H2].
  constructor; [destruct c; [exact H1|exact I]|now apply IH].
Qed.

Lemma str_list_eqb_eq a b : list_eqb String.eqb a b = true -> a = b.
Proof. apply list_eqb_sound. apply String.eqb_eq. Qed.

Lemma same_keys_are cmds : same_keys (alter_keys cmds) = true -> exists K, keys_are K cmds /\ (has_modify cmds = false -> forall K', keys_are K' cmds).
Proof.
  unfold same_keys. destruct (alter_keys cmds) as [|K ks] eqn:E.
  - intros _. exists []. assert (H : forall K', keys_are K' cmds).
    { intros K'. induction cmds as [|c r IH]; [constructor|]. destruct c; cbn in E; [|discriminate]. constructor; [exact I|now apply IH]. }
    split; [apply H|intros _; exact H].
  - intros H. exists K. split.
    + revert K ks E H. induction cmds as [|c r IH]; intros K ks E H; [constructor|]. destruct c as [ine col al|key]; cbn in E.
      * constructor; [exact I|]. eapply IH; eauto.
      * inversion E; subst. constructor; [reflexivity|]. clear E IH.
        induction r as [|c r IH]; [constructor|]. destruct c as [ine col al|key']; cbn in H |- *.
        -- constructor; [exact I|]. now apply IH.
        -- apply andb_true_iff in H. destruct H as [H1 H2]. apply str_list_eqb_eq in H1. constructor; [now subst|now apply IH].
    + intros Hm. exfalso. clear H. revert K ks E. induction cmds as [|c r IH]; intros K ks E; [discriminate|].
      destruct c; cbn in E, Hm; [eapply IH; eauto|discriminate].
Qed.

(* the working copy after an accepted guarded ALTER is a fixed point of that ALTER *)
Lemma alter_idem cmds o o' f' : forallb cmd_guarded cmds = true -> same_keys (alter_keys cmds) = true ->
  fold_left alter_step cmds (Some (o, [])) = Some (o', f') ->
  fold_left alter_step cmds (Some (o', [])) = Some (o', []).
Proof.
  intros HG HS H. destruct (same_keys_are _ HS) as (K & HK & Hnone).
  destruct (alter_effect K _ _ _ _ _ HK H) as (_ & Ha & Hk & _).
  apply alter_noop.
  - pose proof (adds_guarded_forall _ HG) as Hg. clear - Ha Hg.
    induction cmds as [|c r IH]; [constructor|]. inversion Ha; subst. inversion Hg; subst.
    constructor; [destruct c; auto|now apply IH].
  - destruct (has_modify cmds) eqn:Hm; [now rewrite Hk|now apply Hnone].
Qed.

(* ------------------------------------------------------------------ the class lemmas over exec_ch *)
Section Classes.
  Variable cloud : bool.
  Notation ex := (exec_ch cloud).

  (* CREATE TABLE / VIEW / MATERIALIZED VIEW IF NOT EXISTS *)
  Lemma create_table_idem n cols okey e r c c1 :
    ex (CreateTable true n cols okey e r) c = Some c1 -> ex (CreateTable true n cols okey e r) c1 = Some c1.
  Proof.
    unfold exec_ch. destruct (has n (c_objs c)) eqn:H; intros E; inversion E; subst.
    - now rewrite H.
    - cbn [c_objs]. now rewrite has_insert_same.
  Qed.
  Lemma create_view_idem n srcs def c c1 :
    ex (CreateView true n srcs def) c = Some c1 -> ex (CreateView true n srcs def) c1 = Some c1.
  Proof.
    unfold exec_ch. destruct (has n (c_objs c)) eqn:H; intros E.
    - inversion E; subst. now rewrite H.
    - destruct (forallb (fun s => has s (c_objs c)) srcs); inversion E; subst. cbn [c_objs]. now rewrite has_insert_same.
  Qed.
  Lemma create_mv_idem n to srcs def c c1 :
    ex (CreateMV true n to srcs def) c = Some c1 -> ex (CreateMV true n to srcs def) c1 = Some c1.
  Proof.
    unfold exec_ch. destruct (has n (c_objs c)) eqn:H; intros E.
    - inversion E; subst. now rewrite H.
    - destruct (has to (c_objs c) && forallb (fun s => has s (c_objs c)) srcs); inversion E; subst. cbn [c_objs]. now rewrite has_insert_same.
  Qed.

  (* DROP TABLE IF EXISTS *)
  Lemma drop_idem n c c1 : wf c -> ex (DropTable true n) c = Some c1 -> ex (DropTable true n) c1 = Some c1.
  Proof.
    unfold exec_ch, wf. intros Hwf. destruct (has n (c_objs c)) eqn:H; intros E; inversion E; subst.
    - cbn [c_objs]. assert (Hn : has n (remove n (c_objs c)) = false) by (apply has_false, lookup_remove_same, Hwf).
      now rewrite Hn.
    - now rewrite H.
  Qed.

  (* RENAME TABLE IF EXISTS a TO b *)
  Lemma rename_idem a b c c1 : wf c -> ex (RenameTable true a b) c = Some c1 -> ex (RenameTable true a b) c1 = Some c1.
  Proof.
    unfold exec_ch, wf. intros Hwf. destruct (lookup a (c_objs c)) as [o|] eqn:La; intros E.
    - destruct (has b (c_objs c)) eqn:Hb; inversion E; subst. cbn [c_objs].
      assert (Hab : a <> b). { intros ->. unfold has in Hb. rewrite La in Hb. discriminate. }
      rewrite (lookup_insert_other a b o _ Hab), (lookup_remove_same a _ Hwf). reflexivity.
    - inversion E; subst. now rewrite La.
  Qed.

  (* ALTER TABLE: ADD COLUMN IF NOT EXISTS ..., at most one MODIFY ORDER BY key *)
  Lemma alter_table_idem n cmds c c1 : wf c -> forallb cmd_guarded cmds = true -> same_keys (alter_keys cmds) = true ->
    ex (AlterTable n cmds) c = Some c1 -> ex (AlterTable n cmds) c1 = Some c1.
  Proof.
    unfold exec_ch, wf. intros Hwf HG HS. destruct (lookup n (c_objs c)) as [o|] eqn:L; [|discriminate].
    destruct (fold_left alter_step cmds (Some (o, []))) as [[o' f']|] eqn:F; [|discriminate].
    intros E; inversion E; subst. cbn [c_objs c_rows]. unfold replace.
    pose proof (lookup_remove_same n _ Hwf) as Hrm.
    rewrite (lookup_insert_same n o' _ Hrm), (alter_idem _ _ _ _ HG HS F), (remove_insert n o' _ Hrm). reflexivity.
  Qed.

  (* INSERT INTO settings: a set insert *)
  Lemma insert_idem n key c c1 : ex (InsertInto n key) c = Some c1 -> ex (InsertInto n key) c1 = Some c1.
  Proof.
    unfold exec_ch. destruct (has n (c_objs c)) eqn:H; intros E; inversion E; subst. cbn [c_objs c_rows].
    now rewrite H, row_add_idem.
  Qed.

  (* every statement keeps the catalogue free of duplicate names *)
  Lemma exec_ch_wf s c c1 : wf c -> ex s c = Some c1 -> wf c1.
  Proof.
    unfold wf. intros Hwf. destruct s as [ine n cols okey e r|ine n srcs def|ine n to srcs def|ie n|ie a b|n cmds|n key|]; unfold exec_ch.
    - destruct (has n (c_objs c)) eqn:H; [destruct ine|]; intros E; inversion E; subst; [exact Hwf|].
      cbn [c_objs]. apply NoDup_insert; [exact Hwf|now apply has_false].
    - destruct (has n (c_objs c)) eqn:H; [destruct ine; intros E; inversion E; subst; exact Hwf|].
      destruct (forallb (fun s => has s (c_objs c)) srcs); intros E; inversion E; subst.
      cbn [c_objs]. apply NoDup_insert; [exact Hwf|now apply has_false].
    - destruct (has n (c_objs c)) eqn:H; [destruct ine; intros E; inversion E; subst; exact Hwf|].
      destruct (has to (c_objs c) && forallb (fun s => has s (c_objs c)) srcs); intros E; inversion E; subst.
      cbn [c_objs]. apply NoDup_insert; [exact Hwf|now apply has_false].
    - destruct (has n (c_objs c)); [|destruct ie]; intros E; inversion E; subst; [|exact Hwf].
      cbn [c_objs]. now apply NoDup_remove.
    - destruct (lookup a (c_objs c)) as [o|]; [|destruct ie; intros E; inversion E; subst; exact Hwf].
      destruct (has b (c_objs c)) eqn:Hb; intros E; inversion E; subst. cbn [c_objs].
      apply NoDup_insert; [now apply NoDup_remove|]. apply lookup_remove_none. now apply has_false.
    - destruct (lookup n (c_objs c)) as [o|]; [|discriminate].
      destruct (fold_left alter_step cmds (Some (o, []))) as [[o' f']|]; [|discriminate].
      intros E; inversion E; subst. cbn [c_objs]. unfold replace.
      apply NoDup_insert; [now apply NoDup_remove|now apply lookup_remove_same].
    - destruct (has n (c_objs c)); intros E; inversion E; subst. exact Hwf.
    - discriminate.
  Qed.

  (* the classification: a statement of a guarded class is re-executable right after itself wherever it is accepted *)
  Theorem guarded_idem s c c1 : wf c -> guarded s = true -> ex s c = Some c1 -> ex s c1 = Some c1.
  Proof.
    intros Hwf HG. destruct s as [ine n cols okey e r|ine n srcs def|ine n to srcs def|ie n|ie a b|n cmds|n key|]; cbn [guarded] in HG.
    - subst ine. apply create_table_idem.
    - subst ine. apply create_view_idem.
    - subst ine. apply create_mv_idem.
    - subst ie. now apply drop_idem.
    - subst ie. now apply rename_idem.
    - apply andb_true_iff in HG. destruct HG as [H1 H2]. now apply alter_table_idem.
    - apply insert_idem.
    - discriminate.
  Qed.
End Classes.

Lemma guarded_reexec (cloud : bool) s c c1 : wf c -> guarded s = true -> exec_ch cloud s c = Some c1 ->
  exec_ch cloud s c1 = Some c1 /\ wf c1.
Proof. intros W G E. split; [exact (guarded_idem cloud s c c1 W G E)|exact (exec_ch_wf cloud s c c1 W E)]. Qed.

Lemma apply_all_wf (cloud : bool) : forall l c cf, wf c -> apply_all cat stmt (exec_ch cloud) l c = Some cf -> wf cf.
Proof.
  induction l as [|x l IH]; intros c cf W H; cbn in H; [inversion H; now subst|].
  destruct (exec_ch cloud x c) as [c1|] eqn:E; [|discriminate]. exact (IH c1 cf (exec_ch_wf cloud x c c1 W E) H).
Qed.

(* ------------------------------------------------------------------ reflexivity of the structural equality *)
Lemma list_eqb_refl {A} (f : A -> A -> bool) : (forall x, f x x = true) -> forall a, list_eqb f a a = true.
Proof. intros Hf. induction a as [|x a IH]; cbn; [reflexivity|]. now rewrite Hf, IH. Qed.
Lemma obj_eqb_refl o : obj_eqb o o = true.
Proof.
  unfold obj_eqb. rewrite !(list_eqb_refl _ String.eqb_refl), String.eqb_refl, N.eqb_refl, Bool.eqb_reflx.
  destruct (o_kind o), (o_engine o); reflexivity.
Qed.
Lemma cat_eqb_refl c : cat_eqb c c = true.
Proof.
  unfold cat_eqb. rewrite !list_eqb_refl; [reflexivity| |].
  - intros [a b]. unfold row_eqb. cbn. now rewrite !String.eqb_refl.
  - intros [a b]. cbn. now rewrite String.eqb_refl, obj_eqb_refl.
Qed.

(* ------------------------------------------------------------------ from a class property to the premise of convergence *)
(* generic: any per-host semantics with a class `good` of statements that, on well-formed states, are
   re-executable right after themselves and keep states well-formed *)
Section GoodClass.
  Variables (hcat hstmt : Type).
  Variable hexec : hstmt -> hcat -> option hcat.
  Variable hcat_eqb : hcat -> hcat -> bool.
  Variable hwf : hcat -> Prop.
  Variable good : hstmt -> bool.
  Hypothesis hcat_eqb_refl : forall h, hcat_eqb h h = true.
  Hypothesis good_idem : forall x h h1, hwf h -> good x = true -> hexec x h = Some h1 -> hexec x h1 = Some h1.
  Hypothesis exec_wf : forall x h h1, hwf h -> hexec x h = Some h1 -> hwf h1.

  Lemma host_reexec_good x h h1 : hwf h -> good x = true -> hexec x h = Some h1 ->
    host_reexec hcat hstmt hexec hcat_eqb x h = Some h1.
  Proof.
    intros Hwf Hg E. unfold host_reexec. rewrite E, (good_idem _ _ _ Hwf Hg E), hcat_eqb_refl. reflexivity.
  Qed.

  (* one server *)
  Lemma reexec_ok_of_apply : forall l c cf, hwf c -> forallb good l = true ->
    apply_all hcat hstmt hexec l c = Some cf -> reexec_ok hcat hstmt hexec hcat_eqb l c = true /\ hwf cf.
  Proof.
    induction l as [|x l IH]; intros c cf Hwf Hg H; cbn in *.
    - inversion H; subst. auto.
    - apply andb_true_iff in Hg. destruct Hg as [Hx Hl].
      destruct (hexec x c) as [c1|] eqn:E; [|discriminate].
      rewrite (good_idem _ _ _ Hwf Hx E), hcat_eqb_refl. cbn [andb].
      exact (IH c1 cf (exec_wf _ _ _ Hwf E) Hl H).
  Qed.

  Variable scripts : stream -> list hstmt.
  Lemma reexec_streams_of_apply : forall ks c cf, hwf c -> (forall k, In k ks -> forallb good (scripts k) = true) ->
    apply_streams hcat hstmt hexec scripts ks c = Some cf -> reexec_streams hcat hstmt hexec scripts hcat_eqb ks c = true.
  Proof.
    induction ks as [|k ks IH]; intros c cf Hwf Hg H; cbn in *; [reflexivity|].
    destruct (apply_all hcat hstmt hexec (scripts k) c) as [c1|] eqn:E; [|discriminate].
    destruct (reexec_ok_of_apply _ _ _ Hwf (Hg k (or_introl eq_refl)) E) as [H1 Hwf1]. rewrite H1. cbn [andb].
    apply (IH c1 cf Hwf1); [|exact H]. intros k' Hk'. apply Hg. now right.
  Qed.

  (* a cluster: the two tracks (connected host, any other host) *)
  Lemma cl_reexec_ok_of_track : forall (l : list (cstmt hstmt)) h0 ho a b, hwf h0 -> hwf ho ->
    forallb (fun s => good (snd s)) l = true -> cl_track hcat hstmt hexec l h0 ho = Some (a, b) ->
    cl_reexec_ok hcat hstmt hexec hcat_eqb l h0 ho = true /\ hwf a /\ hwf b.
  Proof.
    induction l as [|[oc x] l IH]; intros h0 ho a b W0 Wo Hg H; cbn [cl_track cl_reexec_ok forallb snd] in *.
    - inversion H; subst. auto.
    - apply andb_true_iff in Hg. destruct Hg as [Hx Hl].
      destruct (hexec x h0) as [h0'|] eqn:E0; [|discriminate].
      rewrite (host_reexec_good _ _ _ W0 Hx E0). pose proof (exec_wf _ _ _ W0 E0) as W0'.
      destruct oc.
      + destruct (hexec x ho) as [ho'|] eqn:E1; [|discriminate].
        rewrite (host_reexec_good _ _ _ Wo Hx E1). exact (IH _ _ _ _ W0' (exec_wf _ _ _ Wo E1) Hl H).
      + exact (IH _ _ _ _ W0' Wo Hl H).
  Qed.

  Variable cscripts : stream -> list (cstmt hstmt).
  Lemma cl_reexec_streams_of_track : forall ks h0 ho a b, hwf h0 -> hwf ho ->
    (forall k, In k ks -> forallb (fun s => good (snd s)) (cscripts k) = true) ->
    cl_track_streams hcat hstmt hexec cscripts ks h0 ho = Some (a, b) ->
    cl_reexec_streams hcat hstmt hexec hcat_eqb cscripts ks h0 ho = true.
  Proof.
    induction ks as [|k ks IH]; intros h0 ho a b W0 Wo Hg H; cbn [cl_track_streams cl_reexec_streams] in *; [reflexivity|].
    destruct (cl_track hcat hstmt hexec (cscripts k) h0 ho) as [[a1 b1]|] eqn:E; [|discriminate].
    destruct (cl_reexec_ok_of_track _ _ _ _ _ W0 Wo (Hg k (or_introl eq_refl)) E) as (H1 & Wa & Wb). rewrite H1. cbn [andb].
    apply (IH a1 b1 a b Wa Wb); [|exact H]. intros k' Hk'. apply Hg. now right.
  Qed.
End GoodClass.

(* ------------------------------------------------------------------ convergence for ANY guarded scripts *)
(* one server: scripts made of guarded statements whose uninterrupted run is accepted converge after any
   failures and restarts *)
Theorem converges_guarded (cloud : bool) (scripts : stream -> list stmt) (c : cfg) (c0 cf : cat) (runs : list (list outcome)) :
  wf c0 -> (forall k, In k (streams_of c) -> forallb guarded (scripts k) = true) ->
  apply_streams cat stmt (exec_ch cloud) scripts (streams_of c) c0 = Some cf ->
  let d := fst (multi_run cat stmt (exec_ch cloud) pexec_one scripts c runs (db0 cat c0)) in
  let r := update cat stmt (exec_ch cloud) pexec_one scripts c [] d in
  r_ok r = true /\ d_cat (r_db r) = cf /\ forall k, In k (streams_of c) -> d_vers (r_db r) k = List.length (scripts k).
Proof.
  intros W Hg Ha d r.
  pose proof (reexec_streams_of_apply cat stmt (exec_ch cloud) cat_eqb wf guarded cat_eqb_refl
                (fun x h h1 => guarded_idem cloud x h h1) (exec_ch_wf cloud) scripts _ _ _ W Hg Ha) as Hre.
  destruct (converges cat stmt (exec_ch cloud) scripts cat_eqb cat_eqb_sound c c0 runs Hre) as (Hok & Hcat & Hv).
  fold d in Hok, Hcat, Hv. fold r in Hok, Hcat, Hv. split; [exact Hok|]. split; [congruence|exact Hv].
Qed.

(* a cluster of 1 + n hosts: guarded statements, with or without ON CLUSTER, whose uninterrupted run is accepted
   on the connected host and (the ON CLUSTER ones) on any other host *)
Theorem cl_converges_guarded (cloud : bool) (cscripts : stream -> list (cstmt stmt)) (c : cfg) (h0 ho a b : cat) (n : nat)
    (runs : list (list outcome)) :
  wf h0 -> wf ho -> (forall k, In k (streams_of c) -> forallb (fun s => guarded (snd s)) (cscripts k) = true) ->
  cl_track_streams cat stmt (exec_ch cloud) cscripts (streams_of c) h0 ho = Some (a, b) ->
  let d := fst (multi_run (ccat cat) (cstmt stmt) (cl_exec cat stmt (exec_ch cloud)) (cl_pexec cat stmt (exec_ch cloud)) cscripts c runs
                  (db0 (ccat cat) (h0 :: repeat ho n))) in
  let r := update (ccat cat) (cstmt stmt) (cl_exec cat stmt (exec_ch cloud)) (cl_pexec cat stmt (exec_ch cloud)) cscripts c [] d in
  r_ok r = true /\ d_cat (r_db r) = a :: repeat b n /\
  forall k, In k (streams_of c) -> d_vers (r_db r) k = List.length (cscripts k).
Proof.
  intros W0 Wo Hg Ht d r.
  pose proof (cl_reexec_streams_of_track cat stmt (exec_ch cloud) cat_eqb wf guarded cat_eqb_refl
                (fun x h h1 => guarded_idem cloud x h h1) (exec_ch_wf cloud) cscripts _ _ _ _ _ W0 Wo Hg Ht) as Hre.
  destruct (cl_converges cat stmt (exec_ch cloud) cat_eqb cat_eqb_sound cscripts c h0 ho n runs Hre) as (Hok & (a' & b' & Ht' & Hcat) & Hv).
  fold d in Hok, Hcat, Hv. fold r in Hok, Hcat, Hv. rewrite Ht in Ht'. inversion Ht'; subst a' b'.
  split; [exact Hok|]. split; [exact Hcat|exact Hv].
Qed.

(* the cluster statements of a configuration keep the classification of the statements they wrap *)
Lemma cl_scripts_guarded (scripts : stream -> list stmt) (oncl : stream -> list bool) (c : cfg) (k : stream) :
  forallb guarded (scripts k) = true -> forallb (fun s => guarded (snd s)) (cl_scripts scripts oncl c k) = true.
Proof.
  unfold cl_scripts. generalize (oncl k). induction (scripts k) as [|x l IH]; intros o H.
  - destruct o; reflexivity.
  - destruct o as [|b o]; [reflexivity|]. cbn [combine map forallb snd] in *.
    apply andb_true_iff in H. destruct H as [H1 H2]. rewrite H1. cbn [andb]. now apply IH.
Qed.

(* ... in the shape the harness is compared with: ANY script lists and ON CLUSTER flags (a future script), 1 + n
   hosts starting empty *)
Theorem scripts_converge_if_guarded (scripts : stream -> list stmt) (oncl : stream -> list bool) (c : cfg) (a b : cat) (n : nat)
    (runs : list (list outcome)) :
  (forall k, In k (streams_of c) -> forallb guarded (scripts k) = true) ->
  cl_track_streams cat stmt (exec_ch (cloud c)) (cl_scripts scripts oncl c) (streams_of c) cat0 cat0 = Some (a, b) ->
  let d := fst (multi_run (ccat cat) (cstmt stmt) (cl_exec cat stmt (exec_ch (cloud c))) (cl_pexec cat stmt (exec_ch (cloud c)))
                  (cl_scripts scripts oncl c) c runs (db0 (ccat cat) (hosts0 (S n)))) in
  let r := ch_update scripts oncl c [] d in
  r_ok r = true /\ d_cat (r_db r) = a :: repeat b n /\
  forall k, In k (streams_of c) -> d_vers (r_db r) k = List.length (cl_scripts scripts oncl c k).
Proof.
  intros Hg Ht. apply (cl_converges_guarded (cloud c) (cl_scripts scripts oncl c) c cat0 cat0 a b n runs wf_cat0 wf_cat0); [|exact Ht].
  intros k Hk. apply cl_scripts_guarded. now apply Hg.
Qed.
