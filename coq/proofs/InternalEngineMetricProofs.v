(* C09: a metric request as a whole -- the chain of per-entry stages in front of the aggregation stage composed with
   aggregation_whole_result: the stream that reaches the aggregator is still "rows inside the window and io.EOF entries"
   (every simple stage keeps the error mark and the timestamp of what it lets through, the limit stage cuts a prefix),
   its data rows are the reference's rows up to the fingerprint (engines_agree), and sem_agg does not look at the
   fingerprint of its input (congruence under erase-equality). *)
From Coq Require Import List ZArith NArith Bool String Ascii Permutation Lia.
From Qryn Require Import model.InternalEngine proofs.InternalEngineProofs proofs.InternalEngineAggProofs proofs.InternalEngineAggWholeProofs.
Import ListNotations.
Open Scope Z_scope.

Section METRIC.
  Variable V : Type.
  Variables (v0 v1 : V) (vadd vdiv : V -> V -> V) (vltb vleb veqb : V -> V -> bool) (vofZ : Z -> V).
  Variable panic_kills : bool.
  Variable fpf : lbls -> N.
  Variable re_match : string -> string -> bool.
  Variable pfloat : string -> option V.
  Variable parse : N -> string -> option lbls.
  Variable tmpl : N -> lbls -> option string.
  Notation entry := (entry V).
  Notation erase := (erase V).
  Notation data_of := (data_of V).
  Notation lbl_of := (lbl_of V).
  Notation G_of := (G_of V vltb vleb veqb fpf re_match pfloat parse tmpl).
  Notation run_stage := (run_stage V v0 v1 vadd vdiv vltb vleb veqb vofZ panic_kills fpf re_match pfloat parse tmpl).
  Notation run_chain := (run_chain V v0 v1 vadd vdiv vltb vleb veqb vofZ panic_kills fpf re_match pfloat parse tmpl).
  Notation sem_stage := (sem_stage V v0 v1 vadd vdiv vltb vleb veqb vofZ fpf re_match pfloat parse tmpl).
  Notation sem_chain := (sem_chain V v0 v1 vadd vdiv vltb vleb veqb vofZ fpf re_match pfloat parse tmpl).
  Notation sem_agg := (sem_agg V v0 v1 vadd vdiv vltb vofZ fpf).
  Notation sem_buckets := (sem_buckets V v0 v1 vadd vdiv vltb vofZ fpf).
  Notation sem_bucket_value := (sem_bucket_value V v0 v1 vadd vdiv vltb vofZ).
  Notation agg_stream_ok := (agg_stream_ok V).
  Notation row_or_eof := (row_or_eof V).

  (* ---------------------------------------------------------------------------------------------------------- *)
  (* 1. what a per-entry stage lets through keeps its error mark and its timestamp                                 *)
  Lemma G_keeps c s e x : flat_stage V s = true -> In x (G_of c s e) -> e_err V x = e_err V e /\ e_ts V x = e_ts V e.
  Proof.
    destruct s; cbn [flat_stage simple_stage]; try discriminate; intros _; cbn [InternalEngineProofs.G_of].
    - match goal with |- context [if ?b then _ else _] => destruct b end; [intros [<-|[]]; auto|intros []].
    - match goal with |- context [if ?b then _ else _] => destruct b end; [intros [<-|[]]; auto|intros []].
    - intros [<-|[]]. unfold parser_g, parser_f. destruct (negb _); [auto|]. destruct (parse id _); cbn; auto.
    - intros [<-|[]]. unfold label_format_g, label_format_f. destruct (e_lbl V e); cbn; auto.
    - unfold lf_one. destruct (negb _); [intros [<-|[]]; auto|]. destruct (tmpl id _); [intros [<-|[]]; cbn; auto|intros []].
    - intros [<-|[]]. unfold unwrap_g, unwrap_f. destruct (negb _); [auto|]. destruct (String.eqb _ EmptyString); [auto|].
      destruct (pfloat _); cbn; auto.
    - intros [<-|[]]. unfold drop_g, drop_f. destruct (e_lbl V e); cbn; auto.
    - intros [<-|[]]. unfold by_without_g, by_without_f. destruct (e_lbl V e); cbn; auto.
    - match goal with |- context [if ?b then _ else _] => destruct b end; [intros [<-|[]]; auto|intros []].
  Qed.

  Lemma row_or_eof_keeps c dur e x : e_err V x = e_err V e -> e_ts V x = e_ts V e -> row_or_eof c dur e -> row_or_eof c dur x.
  Proof.
    intros He Ht [[H1 H2]|H]; [left|right; congruence]. split; [congruence|].
    unfold in_window in *. rewrite Ht. exact H2.
  Qed.

  Lemma stage_keeps_stream c dur s bs : simple_stage V s = true ->
    agg_stream_ok c dur (List.concat bs) -> agg_stream_ok c dur (List.concat (run_stage c s bs)).
  Proof.
    intros Hs Hok. unfold InternalEngineAggWholeProofs.agg_stream_ok in *. destruct (flat_stage V s) eqn:F.
    - rewrite (run_stage_flat V v0 v1 vadd vdiv vltb vleb veqb vofZ panic_kills fpf re_match pfloat parse tmpl c s bs F).
      apply Forall_forall. intros x Hx. apply in_flat_map in Hx. destruct Hx as [e [He Hx]].
      destruct (G_keeps c s e x F Hx) as [E1 E2]. apply (row_or_eof_keeps c dur e x E1 E2).
      rewrite Forall_forall in Hok. now apply Hok.
    - destruct s; cbn [flat_stage simple_stage] in *; try discriminate.
      rewrite (limit_agrees V v0 v1 vadd vdiv vltb vleb veqb vofZ panic_kills fpf re_match pfloat parse tmpl c bs).
      unfold sem_limit. destruct (c_limit c =? 0); [exact Hok|]. now apply Forall_firstn.
  Qed.

  Lemma stream_no_crash c dur bs : agg_stream_ok c dur (List.concat bs) -> has_crash V bs = false.
  Proof.
    intros Hok. rewrite has_crash_concat. unfold InternalEngineAggWholeProofs.agg_stream_ok in Hok.
    induction Hok as [|e l He _ IH]; [reflexivity|]. cbn [existsb]. rewrite IH. unfold is_crash.
    destruct He as [[He _]|He]; rewrite He; reflexivity.
  Qed.

  Lemma chain_keeps_stream c dur : forall ch bs, forallb (simple_stage V) ch = true ->
    agg_stream_ok c dur (List.concat bs) -> agg_stream_ok c dur (List.concat (run_chain c ch bs)).
  Proof.
    induction ch as [|s ch IH]; intros bs Hs Hok; [exact Hok|].
    cbn [forallb] in Hs. apply andb_true_iff in Hs. destruct Hs as [H1 H2].
    unfold InternalEngine.run_chain. cbn [fold_left]. rewrite (stream_no_crash c dur bs Hok).
    apply (IH _ H2). now apply stage_keeps_stream.
  Qed.

  Lemma run_chain_snoc c ch s bs :
    run_chain c (ch ++ [s]) bs = if has_crash V (run_chain c ch bs) then run_chain c ch bs else run_stage c s (run_chain c ch bs).
  Proof. unfold InternalEngine.run_chain. rewrite fold_left_app. reflexivity. Qed.

  Lemma sem_chain_snoc c ch s l : sem_chain c (ch ++ [s]) l = sem_stage c s (sem_chain c ch l).
  Proof. unfold InternalEngine.sem_chain. rewrite fold_left_app. reflexivity. Qed.

  (* ---------------------------------------------------------------------------------------------------------- *)
  (* 2. sem_agg does not look at the fingerprints of its input                                                     *)
  Definition nf (e : entry) : entry := set_fp V e 0%N.

  Lemma erase_nf : forall l1 l2 : list entry, map erase l1 = map erase l2 -> map nf l1 = map nf l2.
  Proof.
    induction l1 as [|a l1 IH]; intros [|b l2] H; cbn [map] in *; try discriminate; [reflexivity|].
    assert (Hab : erase a = erase b) by congruence. assert (Hr : map erase l1 = map erase l2) by congruence.
    f_equal; [|now apply IH].
    destruct (erase_fields V a b Hab) as [Ht [Hl [Hm [Hv He]]]]. unfold nf, set_fp. now rewrite Ht, Hl, Hm, Hv, He.
  Qed.

  Lemma filter_nf (p : entry -> bool) : (forall e, p (nf e) = p e) -> forall l, filter p (map nf l) = map nf (filter p l).
  Proof.
    intros Hp. induction l as [|a l IH]; [reflexivity|]. cbn [map filter]. rewrite Hp, IH. destruct (p a); reflexivity.
  Qed.

  Lemma distinct_nf : forall l seen, distinct_lbls V (map nf l) seen = distinct_lbls V l seen.
  Proof.
    induction l as [|a l IH]; intros seen; [reflexivity|]. cbn [map InternalEngine.distinct_lbls].
    change (lbl_of (nf a)) with (lbl_of a). destruct (existsb _ seen); apply IH.
  Qed.

  Lemma sbv_nf k dur es : sem_bucket_value k dur (map nf es) = sem_bucket_value k dur es.
  Proof.
    destruct es as [|e0 r]; [reflexivity|]. unfold InternalEngine.sem_bucket_value. cbn [map].
    rewrite !map_map. destruct k as [[]|[]|[]]; reflexivity.
  Qed.

  Lemma sem_buckets_nf k c dur m es : forall n i, sem_buckets k c dur m (map nf es) i n = sem_buckets k c dur m es i n.
  Proof.
    induction n as [|n IH]; intros i; [reflexivity|].
    assert (F : filter (fun e => bucket_of V c dur e =? i) (map nf es) = map nf (filter (fun e => bucket_of V c dur e =? i) es))
      by (apply filter_nf; reflexivity).
    destruct k as [[]|u|a]; cbn [InternalEngine.sem_buckets]; rewrite F, ?sbv_nf, IH; try reflexivity.
    destruct (filter _ es); reflexivity.
  Qed.

  Lemma sem_agg_nf k c dur l : sem_agg k c dur (map nf l) = sem_agg k c dur l.
  Proof.
    unfold InternalEngine.sem_agg.
    rewrite (filter_nf (fun e => (c_from c <=? e_ts V e) && (e_ts V e <? c_to c)) (fun e => eq_refl)), distinct_nf. f_equal.
    apply map_ext. intros m. rewrite (filter_nf (fun e => lbls_eqb (lbl_of e) m) (fun e => eq_refl)). apply sem_buckets_nf.
  Qed.

  Lemma sem_agg_congr k c dur l1 l2 : map erase l1 = map erase l2 -> sem_agg k c dur l1 = sem_agg k c dur l2.
  Proof. intros H. rewrite <- (sem_agg_nf k c dur l1), <- (sem_agg_nf k c dur l2), (erase_nf _ _ H). reflexivity. Qed.

  (* ---------------------------------------------------------------------------------------------------------- *)
  (* 3. the metric request as a whole                                                                              *)
  Section FACTS.
    Hypothesis lt_irrefl : vltb v0 v0 = false.
    Hypothesis lt_0_1 : vltb v0 v1 = true.
    Hypothesis eq_0_0 : veqb v0 v0 = true.
    Hypothesis ne_1_0 : veqb v1 v0 = false.
    Hypothesis lt_0_01 : vltb v0 (vadd v0 v1) = true.
    Hypothesis lt_succ : forall x, vltb v0 x = true -> vltb v0 (vadd x v1) = true.
    Hypothesis pos_ne : forall x, vltb v0 x = true -> veqb x v0 = false.

    Lemma metric_whole_stmt k c dur ch rows t bs :
      agg_covered k = true ->
      forallb (simple_stage V) ch = true ->
      Forall (data_row V) rows -> Forall (in_window V c dur) rows ->
      Forall (fun e => e_err V e = EEof) t ->
      List.concat bs = rows ++ t ->
      one_fp_per_set V (data_of (List.concat (run_chain c ch bs))) ->
      (List.length (fps V (data_of (List.concat (run_chain c ch bs)))) <= 2000)%nat ->
      agg_specified k = true \/ c_to c - c_from c = stream_len c dur * dur ->
      Forall (fun e => e_err V e = ENone) (List.concat (run_chain c (ch ++ [SAgg V k dur]) bs)) /\
      Permutation (map erase (List.concat (run_chain c (ch ++ [SAgg V k dur]) bs)))
                  (map erase (sem_chain c (ch ++ [SAgg V k dur]) (List.concat bs))).
    Proof.
      intros Hk Hs Hrows Hwin Ht E Hid Hn Hdiv.
      assert (Hterm : Forall (terminator V) t).
      { apply Forall_forall. intros e He. rewrite Forall_forall in Ht. pose proof (Ht e He) as Hee. unfold terminator. rewrite Hee. split; discriminate. }
      assert (Hok : agg_stream_ok c dur (List.concat bs)).
      { rewrite E. apply Forall_app. split.
        - apply Forall_forall. intros e He. left. rewrite Forall_forall in Hrows, Hwin. split; [exact (proj1 (Hrows e He))|now apply Hwin].
        - apply Forall_forall. intros e He. right. rewrite Forall_forall in Ht. now apply Ht. }
      pose proof (chain_keeps_stream c dur ch bs Hs Hok) as Hmid.
      rewrite run_chain_snoc, (stream_no_crash c dur _ Hmid), sem_chain_snoc. cbn [InternalEngine.sem_stage].
      assert (Hsim : sim V (List.concat (run_chain c ch bs)) (sem_chain c ch (List.concat bs))).
      { unfold InternalEngine.sem_chain.
        apply (sim_chain V v0 v1 vadd vdiv vltb vleb veqb vofZ panic_kills fpf re_match pfloat parse tmpl c ch Hs).
        rewrite E. now apply sim_start. }
      assert (Hdata : Forall (data_row V) (data_of (List.concat (run_chain c ch bs)))).
      { destruct Hsim as [d [t' [Ed [Hd [Ht' _]]]]]. rewrite Ed, (data_of_rows V d t' Hd Ht'). exact Hd. }
      destruct (agg_whole_stmt V v0 v1 vadd vdiv vltb vleb veqb vofZ panic_kills re_match pfloat parse tmpl fpf
                  lt_irrefl lt_0_1 eq_0_0 ne_1_0 lt_0_01 lt_succ pos_ne k c dur (run_chain c ch bs) Hk Hmid Hdata Hid Hn Hdiv) as [H1 H2].
      split; [exact H1|].
      rewrite <- (sem_agg_congr k c dur _ _ (data_of_sim V _ _ Hsim)). exact H2.
    Qed.
  End FACTS.
End METRIC.
