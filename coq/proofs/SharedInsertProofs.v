(* Proofs about model/SharedInsert.v (property C04, round 6): requests whose series rows share one INSERT. *)
From Coq Require Import List ZArith Lia Bool.
From Qryn Require Import model.SeriesIndex model.SharedInsert proofs.SeriesIndexProofs.
Import ListNotations.
Open Scope Z_scope.

(* every sample of the request has its row among the request's own rows or in the table *)
Definition cov (table : list row) (q : sreq) : Prop :=
  forall fp d t, In (fp, d, t) (q_spl q) -> In (d, fp, t) (q_rows q) \/ In (d, fp, t) table.
(* a request whose promise waits for the buffer [b] *)
Definition waits_ok (table b : list row) (q : sreq) : Prop := incl (q_rows q) b /\ cov table q.

Definition sinv (st : sstate) : Prop :=
  incl (s_cache st) (s_table st) /\
  (forall fp d t, In (fp, d, t) (s_acked st) -> In (d, fp, t) (s_table st)) /\
  (forall q, In q (s_wait st) -> waits_ok (s_table st) (s_buf st) q) /\
  (forall b w, s_fly st = Some (b, w) -> forall q, In q w -> waits_ok (s_table st) b q).

Lemma cov_mono t t' q : incl t t' -> cov t q -> cov t' q.
Proof. intros Hi Hc fp d ty Hin. destruct (Hc fp d ty Hin) as [H|H]; [now left|right; now apply Hi]. Qed.

Lemma waits_mono t t' b b' q : incl t t' -> incl b b' -> waits_ok t b q -> waits_ok t' b' q.
Proof. intros Ht Hb [H1 H2]. split; [intros x Hx; apply Hb; now apply H1|now apply (cov_mono t)]. Qed.

(* a request completes: sound when its rows are stored in case its series promise was fulfilled without error *)
Lemma complete_inv ok st q :
  sinv st -> (ok = true -> incl (q_rows q) (s_table st)) -> cov (s_table st) q -> sinv (complete ok st q).
Proof.
  intros [HI [HJ [HW HF]]] Hrows Hcov. unfold complete.
  destruct (ok && (is_nil (q_spl q) || q_splok q)) eqn:Hack; unfold sinv; cbn [s_cache s_table s_acked s_buf s_wait s_fly].
  - apply andb_true_iff in Hack. destruct Hack as [Hok _]. specialize (Hrows Hok).
    split; [intros x Hx; apply in_app_or in Hx; destruct Hx as [Hx|Hx]; [now apply Hrows|now apply HI]|].
    split; [|split; assumption].
    intros fp d t Hin. apply in_app_or in Hin. destruct Hin as [Hin|Hin]; [|now apply HJ].
    destruct (Hcov fp d t Hin) as [H|H]; [now apply Hrows|assumption].
  - split; [assumption|]. split; [assumption|]. split; assumption.
Qed.

Lemma complete_table ok st q : s_table (complete ok st q) = s_table st.
Proof. reflexivity. Qed.

Lemma fold_complete_inv ok : forall w st,
  sinv st ->
  (forall q, In q w -> (ok = true -> incl (q_rows q) (s_table st)) /\ cov (s_table st) q) ->
  sinv (fold_left (complete ok) w st).
Proof.
  induction w as [|q w IH]; intros st Hinv Hw; cbn [fold_left]; [assumption|].
  apply IH.
  - destruct (Hw q (or_introl eq_refl)) as [H1 H2]. now apply complete_inv.
  - intros q' Hq'. rewrite complete_table. apply Hw. now right.
Qed.

Lemma sstep_inv app st a : sound_append app -> sinv st -> sinv (sstep app st a).
Proof.
  intros Hs Hinv. pose proof Hinv as [HI [HJ [HW HF]]]. destruct a as [ss spl_ok| |ok| |k]; cbn [sstep].
  - (* a request arrives *)
    destruct (parse (s_cache st) ss) as [c' rows] eqn:Hp. cbn [snd].
    destruct (parse_spec _ _ _ _ Hp) as [_ [Hall Hsrc]].
    assert (Hcov : cov (s_table st)
                       {| q_id := s_next st; q_rows := rows; q_spl := samples_of ss; q_splok := spl_ok |}).
    { intros fp d t Hin. cbn [q_spl q_rows] in *. apply samples_of_In in Hin.
      destruct Hin as [s [e [Hin1 [Hin2 [-> [-> ->]]]]]].
      destruct (Hsrc _ (Hall s e Hin1 Hin2)) as [H|H]; [right; now apply HI|now left]. }
    destruct (Hs (s_buf st) rows) as [Hnil Hincl]. cbn [q_rows].
    destruct (app (s_buf st) rows) as [|x add] eqn:Happ; cbn [is_nil].
    + (* nothing appended: fulfilled at once; sound because the request has no rows *)
      apply complete_inv.
      * unfold sinv; cbn [s_cache s_table s_acked s_buf s_wait s_fly]. split; [assumption|]. split; [assumption|]. split; assumption.
      * intros _. cbn [q_rows s_table]. rewrite (Hnil eq_refl). intros y [].
      * exact Hcov.
    + unfold sinv; cbn [s_cache s_table s_acked s_buf s_wait s_fly].
      split; [assumption|]. split; [assumption|]. split; [|assumption].
      intros q Hq. apply in_app_or in Hq. destruct Hq as [Hq|[<-|[]]].
      * apply (waits_mono (s_table st) (s_table st) (s_buf st)); [apply incl_refl|apply incl_appl, incl_refl|now apply HW].
      * split; [exact Hincl|exact Hcov].
  - (* the loop comes round *)
    destruct (s_fly st) as [p|] eqn:Hfly; [assumption|].
    destruct (is_nil (s_wait st)); [assumption|].
    unfold sinv; cbn [s_cache s_table s_acked s_buf s_wait s_fly].
    split; [assumption|]. split; [assumption|]. split; [intros q []|].
    intros b w Heq. inversion Heq; subst. exact HW.
  - (* the INSERT in flight is answered *)
    destruct (s_fly st) as [[b w]|] eqn:Hfly; [|assumption].
    apply fold_complete_inv.
    + unfold sinv; cbn [s_cache s_table s_acked s_buf s_wait s_fly].
      assert (Hmono : incl (s_table st) (if ok then b ++ s_table st else s_table st))
        by (destruct ok; [apply incl_appr, incl_refl|apply incl_refl]).
      split; [intros x Hx; apply Hmono; now apply HI|].
      split; [intros fp d t Hin; apply Hmono; now apply HJ|].
      split; [|intros ? ? Heq; discriminate].
      intros q Hq. apply (waits_mono (s_table st) _ (s_buf st) (s_buf st)); [exact Hmono|apply incl_refl|now apply HW].
    + cbn [s_table]. intros q Hq. destruct (HF b w eq_refl q Hq) as [H1 H2]. split.
      * intros ->. intros x Hx. apply in_or_app. left. now apply H1.
      * apply (cov_mono (s_table st)); [|exact H2]. destruct ok; [apply incl_appr, incl_refl|apply incl_refl].
  - (* reset *)
    unfold sinv; cbn [s_cache s_table s_acked s_buf s_wait s_fly].
    split; [intros x []|]. split; [assumption|]. split; assumption.
  - (* eviction *)
    unfold sinv; cbn [s_cache s_table s_acked s_buf s_wait s_fly].
    split; [intros x Hx; apply HI; now apply remove_nth_In in Hx|]. split; [assumption|]. split; assumption.
Qed.

Lemma sinv_init : sinv sinit.
Proof.
  unfold sinv, sinit; cbn. split; [intros x []|]. split; [intros ? ? ? []|]. split; [intros ? []|intros ? ? Heq; discriminate].
Qed.

Lemma srun_inv app : sound_append app -> forall h st, sinv st -> sinv (srun app st h).
Proof.
  intros Hs. induction h as [|a h IH]; intros st Hinv; cbn [srun]; [assumption|]. apply IH. now apply sstep_inv.
Qed.

(* the theorem: whatever processRequest appends, as long as it is sound, in every history of arrivals, loop rounds,
   answers, resets and evictions every acknowledged sample has the series row of its day and type, and the cache holds
   only stored rows *)
Lemma shared_insert_indexed app :
  sound_append app ->
  forall h, s_all_indexed (srun app sinit h) = true /\ incl (s_cache (srun app sinit h)) (s_table (srun app sinit h)).
Proof.
  intros Hs h. destruct (srun_inv app Hs h sinit sinv_init) as [HI [HJ _]]. split; [|assumption].
  unfold s_all_indexed. apply forallb_forall. intros [[fp d] t] Hin. apply indexed_typed_of_row. now apply HJ.
Qed.

(* the code's processRequest is sound *)
Lemma append_all_sound : sound_append append_all.
Proof. intros buf rows. unfold append_all. split; [auto|apply incl_appr, incl_refl]. Qed.

Lemma shared_insert_indexed_code h : s_all_indexed (srun append_all sinit h) = true.
Proof. apply (shared_insert_indexed append_all append_all_sound). Qed.

(* skipping the rows that are already queued is not: witness = the history of seeded change C04-f.
   A's INSERT (a series of its own) is waiting; B and C announce the same new series into the pending buffer; C queues
   nothing and is answered 204 at once; the shared INSERT fails: C's sample has no row. *)
Definition w_own : stream := {| s_fp := 5; s_entries := [{| e_ts := 1704888000000000000; e_type := TLog |}] |}.
Definition w_shared : list sact :=
  [SArrive [w_own] true; SSwap;
   SArrive [w_stream] true; SArrive [w_stream_later] true;
   SAnswer true; SSwap; SAnswer false].

Lemma append_new_not_sound : ~ sound_append append_new.
Proof.
  intros H. destruct (H [(1, 2, 3)] [(1, 2, 3)]) as [Hnil _].
  assert (Hc : [(1, 2, 3)] = ([] : list row)) by (apply Hnil; reflexivity). discriminate.
Qed.

Lemma w_shared_append_new_loses_row : s_all_indexed (srun append_new sinit w_shared) = false.
Proof. vm_compute. reflexivity. Qed.

Lemma w_shared_code_keeps_row :
  s_all_indexed (srun append_all sinit w_shared) = true /\
  s_answers (srun append_all sinit w_shared) = [(2, false); (1, false); (0, true)] /\
  s_answers (srun append_new sinit w_shared) = [(1, false); (0, true); (2, true)].
Proof. vm_compute. auto. Qed.

(* and the retry of the request answered 5xx hits the cache: the series stays without row until the next reset *)
Lemma w_shared_append_new_retry_hits_cache :
  let st := srun append_new sinit (w_shared ++ [SArrive [w_stream] true; SSwap; SAnswer true]) in
  s_all_indexed st = false /\ s_table st = [(19732, 5, 1)] /\ ack_of (s_answers st) 3 = Some true.
Proof. vm_compute. auto. Qed.

Lemma shared_insert_refuted_for_append_new :
  ~ sound_append append_new /\ exists h, s_all_indexed (srun append_new sinit h) = false.
Proof. split; [exact append_new_not_sound|exists w_shared; exact w_shared_append_new_loses_row]. Qed.

(* the hypothesis of [shared_insert_indexed] is met by a rule that is not the code's: duplicates inside ONE request dropped *)
Definition append_nodup (buf rows : list row) : list row :=
  fold_right (fun r acc => if mem_row r acc then acc else r :: acc) [] rows.
Lemma append_nodup_sound : sound_append append_nodup.
Proof.
  assert (Hin : forall rows x, In x rows <-> In x (append_nodup [] rows)).
  { induction rows as [|r rows IH]; intros x; cbn [append_nodup fold_right]; [tauto|].
    fold (append_nodup [] rows). destruct (mem_row r (append_nodup [] rows)) eqn:Hm.
    - apply mem_row_In in Hm. split; [intros [<-|H]; [assumption|now apply IH]|intros H; right; now apply IH].
    - split; [intros [<-|H]; [now left|right; now apply IH]|intros [<-|H]; [now left|right; now apply IH]]. }
  intros buf rows. split.
  - intros Hnil. destruct rows as [|r rows]; [reflexivity|]. exfalso.
    assert (H : In r (append_nodup buf (r :: rows))) by (apply (Hin (r :: rows) r); now left).
    rewrite Hnil in H. destruct H.
  - intros x Hx. apply in_or_app. right. now apply (Hin rows x).
Qed.

(* ------------------------------------------------------------------ the service model on schedules without sharing is the history model
   every push is followed by its loop round and its answer before the next one arrives: the projection to
   (cache, table, acknowledged samples) is SeriesIndex.run on the Push / CacheReset / CacheEvict history *)
Definition unshared (a : action) : list sact :=
  match a with
  | Push ss ts_ok spl_ok => [SArrive ss spl_ok; SSwap; SAnswer ts_ok]
  | CacheReset => [SReset]
  | CacheEvict k => [SEvict k]
  | _ => []
  end.
Definition one_at_a_time (a : action) : bool :=
  match a with Push _ _ _ | CacheReset | CacheEvict _ => true | _ => false end.
Definition idle (st : sstate) : Prop := s_buf st = [] /\ s_wait st = [] /\ s_fly st = None.
Definition sview (st : sstate) : state :=
  {| cache := s_cache st; ts_rows := s_table st; acked := s_acked st; pending := [] |}.

Lemma unshared_step st a :
  one_at_a_time a = true -> idle st ->
  idle (srun append_all st (unshared a)) /\ sview (srun append_all st (unshared a)) = fst (step (sview st) a).
Proof.
  intros Ha [Hb [Hw Hf]]. destruct a as [ss ts_ok spl_ok| | | | | | | |k]; try discriminate Ha; clear Ha.
  - cbn [unshared srun sstep]. unfold append_all.
    cbn [step fst]. unfold begin_req, more_req, finish, send_chunk, store_chunk, empty_flight, sview.
    cbn [f_rows f_spl f_ann f_done f_ok cache ts_rows acked pending app].
    change (fold_left on_entries ss (s_cache st, [])) with (parse (s_cache st) ss).
    destruct (snd (parse (s_cache st) ss)) as [|x rows] eqn:Hrows; cbn [is_nil q_rows q_spl q_splok q_id].
    + (* nothing to announce: fulfilled at once, no INSERT *)
      unfold complete. cbn [q_rows q_spl q_splok q_id s_cache s_table s_acked s_buf s_wait s_fly s_next s_answers s_inserts sstep].
      rewrite Hf, Hw. cbn [is_nil s_fly].
      split; [repeat split; assumption|].
      cbn [andb orb app]. rewrite !app_nil_r.
      destruct (is_nil (samples_of ss) || spl_ok); destruct ts_ok; reflexivity.
    + rewrite Hf, Hb, Hw. cbn [app is_nil s_fly s_wait s_buf s_cache s_table s_acked s_next s_answers s_inserts fold_left].
      unfold complete. cbn [q_rows q_spl q_splok q_id s_cache s_table s_acked s_buf s_wait s_fly s_next s_answers s_inserts].
      split; [repeat split; reflexivity|].
      cbn [andb orb]. rewrite !app_nil_r.
      destruct ts_ok; cbn [andb]; [destruct (is_nil (samples_of ss) || spl_ok)|]; reflexivity.
  - cbn. split; [repeat split; assumption|reflexivity].
  - cbn. split; [repeat split; assumption|reflexivity].
Qed.

Lemma unshared_run : forall h st,
  forallb one_at_a_time h = true -> idle st ->
  idle (srun append_all st (flat_map unshared h)) /\ sview (srun append_all st (flat_map unshared h)) = run (sview st) h.
Proof.
  assert (Happ : forall a b st, srun append_all st (a ++ b) = srun append_all (srun append_all st a) b).
  { induction a as [|x a IH]; intros b st; cbn [srun app]; [reflexivity|apply IH]. }
  induction h as [|a h IH]; intros st Hh Hi; cbn [flat_map run forallb] in *; [split; [assumption|reflexivity]|].
  apply andb_true_iff in Hh. destruct Hh as [Ha Hh].
  destruct (unshared_step st a Ha Hi) as [Hi' Hv]. rewrite Happ.
  destruct (IH _ Hh Hi') as [Hi'' Hv']. split; [assumption|]. rewrite Hv'. now rewrite Hv.
Qed.

Lemma service_model_without_sharing_is_history_model h :
  forallb one_at_a_time h = true ->
  sview (srun append_all sinit (flat_map unshared h)) = run init h.
Proof. intros Hh. apply (unshared_run h sinit Hh). repeat split. Qed.

Example one_at_a_time_met : forallb one_at_a_time w_retry = true /\ acked (run init w_retry) <> [].
Proof. vm_compute. split; [reflexivity|discriminate]. Qed.
