(* sanitizeProfile keeps the weight of every resolved stack of a well-formed payload (round 8): under wf_raw_b the
   renumbered ids, looked up in the renumbered tables with the swapped string table, resolve to the same functions; so
   payload_merge_is_sum_all speaks about the RAW payloads. *)
From Coq Require Import List NArith ZArith Bool Lia Permutation.
From Qryn Require Import model.Pprof model.ProfMerge model.ProfRewrite proofs.PprofProofs proofs.ProfMergeProofs
  proofs.ProfRewriteProofs proofs.ProfSanitizeProofs proofs.ProfSaneProofs proofs.ProfKeepProofs.
Import ListNotations.
Open Scope Z_scope.

Lemma existsb_has_id {A} (getid : A -> Z) a : forall r, existsb (Z.eqb a) (map getid r) = has_id getid r a.
Proof.
  unfold has_id. induction r as [|x r IH]; cbn [map existsb]; [reflexivity|]. rewrite IH, (Z.eqb_sym a). reflexivity.
Qed.

Section Renumber4.
  Context {A : Type} (getid : A -> Z) (setid : A -> Z -> A).
  Hypothesis get_set : forall x j, getid (setid x j) = j.

  Lemma renumber_miss : forall l j t i, has_id getid l i = false -> aget (snd (renumber getid setid l j t)) i = aget t i.
  Proof.
    induction l as [|y r IH]; intros j t i H; cbn [renumber]; [reflexivity|].
    specialize (IH (j + 1) (aset t (getid y) j) i).
    destruct (renumber getid setid r (j + 1) (aset t (getid y) j)) as [r' t'] eqn:E. cbn [snd] in *.
    unfold has_id in H. cbn [existsb] in H. apply orb_false_iff in H. destruct H as [H1 H2].
    rewrite (IH H2). unfold aset. cbn [aget]. rewrite H1. reflexivity.
  Qed.

  (* with distinct ids: the element found under the old id i is found, renumbered, under t[i] *)
  Lemma renumber_find : forall l j t i x, find_by getid i l = Some x -> nodup_b (map getid l) = true ->
    exists m, j <= m /\ aget (snd (renumber getid setid l j t)) i = m /\
              find_by getid m (fst (renumber getid setid l j t)) = Some (setid x m).
  Proof.
    induction l as [|y r IH]; intros j t i x Hf Hnd; cbn [find_by] in Hf; [discriminate|].
    cbn [map nodup_b] in Hnd. apply andb_true_iff in Hnd. destruct Hnd as [Hn1 Hn2]. cbn [renumber].
    destruct (Z.eqb (getid y) i) eqn:Ey.
    - inversion Hf; subst x. apply Z.eqb_eq in Ey. subst i.
      apply negb_true_iff in Hn1. rewrite existsb_has_id in Hn1.
      pose proof (renumber_miss r (j + 1) (aset t (getid y) j) (getid y) Hn1) as Hm.
      destruct (renumber getid setid r (j + 1) (aset t (getid y) j)) as [r' t'] eqn:E. cbn [fst snd] in *.
      exists j. split; [lia|]. split.
      + rewrite Hm. unfold aset. cbn [aget]. rewrite Z.eqb_refl. reflexivity.
      + cbn [find_by]. rewrite get_set, Z.eqb_refl. reflexivity.
    - destruct (IH (j + 1) (aset t (getid y) j) i x Hf Hn2) as [m [Hm1 [Hm2 Hm3]]].
      destruct (renumber getid setid r (j + 1) (aset t (getid y) j)) as [r' t'] eqn:E. cbn [fst snd] in *.
      exists m. split; [lia|]. split; [exact Hm2|]. cbn [find_by]. rewrite get_set.
      destruct (Z.eqb j m) eqn:Ej; [apply Z.eqb_eq in Ej; lia|exact Hm3].
  Qed.
End Renumber4.

Lemma find_by_rel {A B} (ga : A -> Z) (gb : B -> Z) (R : A -> B -> Prop) : (forall a b, R a b -> gb b = ga a) ->
  forall la lb, Forall2 R la lb -> forall i a, find_by ga i la = Some a -> exists b, find_by gb i lb = Some b /\ R a b.
Proof.
  intros Hid la lb HF. induction HF as [|x y la lb Hxy HF IH]; intros i a Hf; cbn [find_by] in *; [discriminate|].
  rewrite (Hid _ _ Hxy). destruct (Z.eqb (ga x) i).
  - inversion Hf; subst. eexists. split; [reflexivity|exact Hxy].
  - apply IH. exact Hf.
Qed.

Lemma has_id_find {A} (g : A -> Z) i : forall l, has_id g l i = true -> exists x, find_by g i l = Some x.
Proof.
  unfold has_id. induction l as [|y l IH]; intro H; cbn [existsb find_by] in *; [discriminate|].
  destruct (Z.eqb (g y) i); [eexists; reflexivity|]. apply IH. exact H.
Qed.

Lemma find_by_In {A} (g : A -> Z) i : forall l x, find_by g i l = Some x -> In x l.
Proof.
  induction l as [|y l IH]; intros x H; cbn [find_by] in H; [discriminate|].
  destruct (Z.eqb (g y) i); [inversion H; left; reflexivity|right; apply IH; exact H].
Qed.

Lemma Forall2_map_r {A B} (g : A -> B) : forall l, Forall2 (fun a b => b = g a) l (map g l).
Proof. induction l; cbn [map]; constructor; [reflexivity|assumption]. Qed.

Lemma san_loc_maps_rel t n : forall ls fake, Forall (fun l => l_map l = 0 \/ 1 <= aget t (l_map l)) ls ->
  Forall2 (fun l l' => l_id l' = l_id l /\ l_lines l' = l_lines l) ls (fst (san_loc_maps t n ls fake)).
Proof.
  induction ls as [|x r IH]; intros fake H; cbn [san_loc_maps]; [constructor|].
  inversion H as [|? ? Hx Hr]; subst. destruct (Z.eqb (l_map x) 0) eqn:E0.
  - set (fake' := if Z.eqb fake 0 then n + 1 else fake). specialize (IH fake' Hr).
    destruct (san_loc_maps t n r fake') as [r' f']. cbn [fst] in *. constructor; [split; reflexivity|exact IH].
  - specialize (IH fake Hr). destruct (san_loc_maps t n r fake) as [r' f'].
    apply Z.eqb_neq in E0. destruct Hx as [Hx|Hx]; [contradiction|].
    destruct (Z.eqb (aget t (l_map x)) 0) eqn:Em; [apply Z.eqb_eq in Em; lia|].
    cbn [fst] in *. constructor; [split; reflexivity|exact IH].
Qed.

Lemma san_lines_exact t : forall ls, Forall (fun ln => 1 <= aget t (ln_fn ln)) ls ->
  san_lines t ls = Some (map (fun ln => set_lnfn ln (aget t (ln_fn ln))) ls).
Proof.
  induction ls as [|x ls IH]; intros H; cbn [san_lines map]; [reflexivity|].
  inversion H as [|? ? Hx Hr]; subst. destruct (Z.eqb (aget t (ln_fn x)) 0) eqn:E; [apply Z.eqb_eq in E; lia|].
  rewrite (IH Hr). reflexivity.
Qed.

Lemma san_loc_funs_rel t : forall ls, Forall (fun lines => Forall (fun ln => 1 <= aget t (ln_fn ln)) lines) (map l_lines ls) ->
  Forall2 (fun l l' => l_id l' = l_id l /\ l_lines l' = map (fun ln => set_lnfn ln (aget t (ln_fn ln))) (l_lines l)) ls (san_loc_funs t ls).
Proof.
  induction ls as [|x ls IH]; intros H; cbn [san_loc_funs]; [constructor|]. cbn [map] in H.
  inversion H as [|? ? Hx Hr]; subst. rewrite (san_lines_exact t _ Hx). constructor; [split; reflexivity|exact (IH Hr)].
Qed.

Lemma san_locids_exact t : forall ids, Forall (fun i => 1 <= aget t i) ids -> san_locids t ids = Some (map (aget t) ids).
Proof.
  induction ids as [|x ids IH]; intros H; cbn [san_locids map]; [reflexivity|].
  inversion H as [|? ? Hx Hr]; subst. destruct (Z.eqb (aget t x) 0) eqn:E; [apply Z.eqb_eq in E; lia|].
  rewrite (IH Hr). reflexivity.
Qed.

Definition san_samp (str : Z -> Z) (t : amap) (s : psamp) : psamp :=
  {| s_locs := map (aget t) (s_locs s); s_vals := s_vals s; s_labels := map (san_label str) (s_labels s) |}.

Lemma san_samples_exact str t vs : forall ss,
  Forall (fun s => length (s_vals s) = vs /\ Forall (fun i => 1 <= aget t i) (s_locs s)) ss ->
  san_samples str t vs ss = map (san_samp str t) ss.
Proof.
  induction ss as [|x ss IH]; intros H; cbn [san_samples map]; [reflexivity|].
  inversion H as [|? ? [Hv Hl] Hr]; subst. rewrite Nat.eqb_refl. cbn [negb].
  rewrite (san_locids_exact t _ Hl), (IH Hr). reflexivity.
Qed.

(* the string table after the swap, read through str(): the same strings *)
Lemma san_str_rstr strs i :
  let z0 := index_of0 strs 0 in
  let strs1 := if Z.eqb z0 (-1) then strs ++ [0] else strs in
  let z := if Z.eqb z0 (-1) then Z.of_nat (length strs) else z0 in
  let ms := Z.of_nat (length strs1) in
  0 <= i < Z.of_nat (length strs) ->
  rstr (set_nth (set_nth strs1 0 (nth (Z.to_nat z) strs1 0)) (Z.to_nat z) (nth 0 strs1 0)) (san_str z ms i) = rstr strs i.
Proof.
  cbv zeta. intro Hi. unfold rstr, san_str.
  destruct (index_of0_spec strs 0 ltac:(lia)) as [[H1 _]|[H1 H2]].
  - (* no empty string: appended at z = length *)
    rewrite H1. change (Z.eqb (-1) (-1)) with true. cbv iota.
    set (n := length strs) in *. rewrite Nat2Z.id.
    assert (Hlen : length (strs ++ [0]) = S n) by (rewrite app_length; cbn [length]; fold n; lia). rewrite Hlen.
    destruct (Z.eqb i 0) eqn:E0.
    + apply Z.eqb_eq in E0. subst i. assert (Hz : Z.ltb 0 (Z.of_nat n) = true) by (apply Z.ltb_lt; lia). rewrite Hz. cbn [andb].
      rewrite Nat2Z.id. rewrite nth_set_nth_same by (rewrite set_nth_length, Hlen; lia).
      change (Z.to_nat 0) with O. rewrite app_nth1 by (fold n; lia). apply nth_indep. fold n. lia.
    + cbn [andb]. apply Z.eqb_neq in E0.
      assert (E1 : Z.eqb i (Z.of_nat n) = false) by (apply Z.eqb_neq; lia). rewrite E1.
      assert (E2 : Z.leb (Z.of_nat (S n)) i = false) by (apply Z.leb_gt; lia). rewrite E2.
      assert (E3 : Z.ltb i 0 = false) by (apply Z.ltb_ge; lia). rewrite E3. cbn [orb].
      rewrite nth_set_nth_other by lia. rewrite nth_set_nth_other by lia.
      rewrite app_nth1 by (fold n; lia). reflexivity.
  - (* the first empty string is at z *)
    rewrite Z.sub_0_r in H2. cbn [Z.add] in H1.
    destruct (Z.eqb (index_of0 strs 0) (-1)) eqn:E; [apply Z.eqb_eq in E; lia|].
    set (z := index_of0 strs 0) in *. set (n := length strs) in *.
    assert (Hzs : nth (Z.to_nat z) strs 0 = 0) by (rewrite <- H2; apply nth_indep; fold n; lia).
    destruct (Z.eqb i 0) eqn:E0.
    + apply Z.eqb_eq in E0. subst i. destruct (Z.ltb 0 z) eqn:Ez; cbn [andb].
      * apply Z.ltb_lt in Ez. rewrite nth_set_nth_same by (rewrite set_nth_length; fold n; lia).
        change (Z.to_nat 0) with O. apply nth_indep. fold n. lia.
      * apply Z.ltb_ge in Ez. assert (z = 0) by lia. assert (Ezz : Z.eqb 0 z = true) by (apply Z.eqb_eq; lia). rewrite Ezz. cbn [orb].
        replace (Z.to_nat z) with O by lia. change (Z.to_nat 0) with O.
        rewrite nth_set_nth_same by (rewrite set_nth_length; fold n; lia). apply nth_indep. fold n. lia.
    + cbn [andb]. apply Z.eqb_neq in E0. destruct (Z.eqb i z) eqn:Eiz; cbn [orb].
      * apply Z.eqb_eq in Eiz. subst i. change (Z.to_nat 0) with O.
        rewrite nth_set_nth_other by lia. rewrite nth_set_nth_same by (fold n; lia).
        rewrite Hzs. rewrite <- H2. apply nth_indep. fold n. lia.
      * apply Z.eqb_neq in Eiz.
        assert (E2 : Z.leb (Z.of_nat n) i = false) by (apply Z.leb_gt; lia). rewrite E2.
        assert (E3 : Z.ltb i 0 = false) by (apply Z.ltb_ge; lia). rewrite E3. cbn [orb].
        rewrite nth_set_nth_other by lia. rewrite nth_set_nth_other by lia. reflexivity.
Qed.

(* what sanitizeProfile does to a well-formed payload, seen from the samples *)
Lemma sanitize_view p : wf_raw_b p = true -> exists str tl,
  p_samps (sanitize p) = map (san_samp str tl) (p_samps p) /\
  forall i, has_id l_id (p_locs p) i = true ->
    locid_den (p_strs (sanitize p)) (p_funs (sanitize p)) (p_locs (sanitize p)) (aget tl i) =
    locid_den (p_strs p) (p_funs p) (p_locs p) i.
Proof.
  unfold wf_raw_b. intro H.
  apply andb_true_iff in H. destruct H as [H H9]. apply andb_true_iff in H. destruct H as [H H8].
  apply andb_true_iff in H. destruct H as [H H7]. apply andb_true_iff in H. destruct H as [H _].
  apply andb_true_iff in H. destruct H as [H _]. apply andb_true_iff in H. destruct H as [H _].
  apply andb_true_iff in H. destruct H as [H H3]. apply andb_true_iff in H. destruct H as [H1 _].
  unfold sanitize. cbv zeta.
  assert (Hrs := fun i => san_str_rstr (p_strs p) i). cbv zeta in Hrs.
  match goal with |- context [san_str ?z ?ms] => set (str := san_str z ms) in * end.
  match goal with |- context [set_nth (set_nth ?a 0 ?b) ?c ?d] => set (strs' := set_nth (set_nth a 0 b) c d) in * end.
  clearbody str strs'.
  (* mappings *)
  match goal with |- context [renumber m_id set_mid ?l 1 []] => set (ml := l) end.
  assert (Hmids : map m_id ml = map m_id (p_maps p)) by (unfold ml; rewrite map_map; reflexivity).
  assert (Hmh : forall i, has_id m_id (p_maps p) i = true -> 1 <= aget (snd (renumber m_id set_mid ml 1 [])) i).
  { intros i Hi. apply renumber_hit; [lia|]. left. rewrite (has_id_ids m_id m_id i _ _ Hmids). exact Hi. }
  destruct (renumber m_id set_mid ml 1 []) as [maps1 tm]. cbn [snd] in Hmh.
  assert (Hl1 : Forall (fun l => l_map l = 0 \/ 1 <= aget tm (l_map l)) (p_locs p)).
  { apply Forall_forall. intros l Hl. rewrite forallb_forall in H8. specialize (H8 l Hl).
    apply andb_true_iff in H8. destruct H8 as [H8 _]. apply orb_true_iff in H8.
    destruct H8 as [H8|H8]; [left; apply Z.eqb_eq; exact H8|right; apply Hmh; exact H8]. }
  destruct (san_loc_maps_keeps tm (Z.of_nat (length maps1)) (p_locs p) 0 Hl1) as [K1 K2].
  pose proof (san_loc_maps_rel tm (Z.of_nat (length maps1)) (p_locs p) 0 Hl1) as R1.
  destruct (san_loc_maps tm (Z.of_nat (length maps1)) (p_locs p) 0) as [locs1 fake]. cbn [fst] in K1, K2, R1.
  (* functions *)
  match goal with |- context [renumber f_id set_fid ?l 1 []] => set (fl := l) end.
  assert (Hfids : map f_id fl = map f_id (p_funs p)) by (unfold fl; rewrite map_map; reflexivity).
  assert (Hfh : forall i, has_id f_id (p_funs p) i = true -> 1 <= aget (snd (renumber f_id set_fid fl 1 [])) i).
  { intros i Hi. apply renumber_hit; [lia|]. left. rewrite (has_id_ids f_id f_id i _ _ Hfids). exact Hi. }
  assert (Hff : forall i fx, find_by f_id i (p_funs p) = Some fx ->
            exists m, aget (snd (renumber f_id set_fid fl 1 [])) i = m /\
              find_by f_id m (fst (renumber f_id set_fid fl 1 [])) =
              Some {| f_id := m; f_name := str (f_name fx); f_sys := str (f_sys fx); f_file := str (f_file fx); f_start := f_start fx |}).
  { intros i fx Hfx.
    pose (gf := fun f : pfun => {| f_id := f_id f; f_name := str (f_name f); f_sys := str (f_sys f); f_file := str (f_file f); f_start := f_start f |}).
    destruct (find_by_rel f_id f_id (fun a b => b = gf a) (fun a b E => f_equal f_id E) _ _ (Forall2_map_r gf (p_funs p)) i fx Hfx) as [b [Hb Eb]].
    change (map gf (p_funs p)) with fl in Hb. subst b.
    destruct (renumber_find f_id set_fid (fun _ _ => eq_refl) fl 1 [] i _ Hb ltac:(rewrite Hfids; exact H1)) as [m [_ [Hm1 Hm2]]].
    exists m. split; [exact Hm1|exact Hm2]. }
  destruct (renumber f_id set_fid fl 1 []) as [funs tf]. cbn [fst snd] in Hfh, Hff.
  (* locations, second pass *)
  assert (Hl2 : Forall (fun lines => Forall (fun ln => 1 <= aget tf (ln_fn ln)) lines) (map l_lines locs1)).
  { rewrite K2. apply Forall_forall. intros lines Hin. apply in_map_iff in Hin. destruct Hin as [l [<- Hl]].
    rewrite forallb_forall in H8. specialize (H8 l Hl). apply andb_true_iff in H8. destruct H8 as [_ H8].
    apply Forall_forall. intros ln Hln. rewrite forallb_forall in H8. apply Hfh. exact (H8 ln Hln). }
  pose proof (san_loc_funs_keeps tf locs1 Hl2) as K3. rewrite K1 in K3.
  pose proof (san_loc_funs_rel tf locs1 Hl2) as R2.
  set (l2 := san_loc_funs tf locs1) in *.
  assert (Hlh : forall i, has_id l_id (p_locs p) i = true -> 1 <= aget (snd (renumber l_id set_lid l2 1 [])) i).
  { intros i Hi. apply renumber_hit; [lia|]. left. rewrite (has_id_ids l_id l_id i _ _ K3). exact Hi. }
  assert (Hlf : forall i l, find_by l_id i (p_locs p) = Some l ->
            exists m l'', aget (snd (renumber l_id set_lid l2 1 [])) i = m /\
              find_by l_id m (fst (renumber l_id set_lid l2 1 [])) = Some (set_lid l'' m) /\
              l_lines l'' = map (fun ln => set_lnfn ln (aget tf (ln_fn ln))) (l_lines l)).
  { intros i l Hl.
    destruct (find_by_rel l_id l_id _ (fun a b (E : l_id b = l_id a /\ _) => proj1 E) _ _ R1 i l Hl) as [l' [Hl' [_ E1]]].
    destruct (find_by_rel l_id l_id _ (fun a b (E : l_id b = l_id a /\ _) => proj1 E) _ _ R2 i l' Hl') as [l'' [Hl'' [_ E2]]].
    destruct (renumber_find l_id set_lid (fun _ _ => eq_refl) l2 1 [] i _ Hl'' ltac:(rewrite K3; exact H3)) as [m [_ [Hm1 Hm2]]].
    exists m, l''. split; [exact Hm1|]. split; [exact Hm2|]. rewrite E2, E1. reflexivity. }
  destruct (renumber l_id set_lid l2 1 []) as [locs tl]. cbn [fst snd] in Hlh, Hlf.
  cbn [p_strs p_funs p_locs p_samps].
  exists str, tl. split.
  - apply san_samples_exact. apply Forall_forall. intros s Hs. rewrite forallb_forall in H9. specialize (H9 s Hs).
    apply andb_true_iff in H9. destruct H9 as [Hv Hl]. split; [apply Nat.eqb_eq; exact Hv|].
    apply Forall_forall. intros i Hi. rewrite forallb_forall in Hl. apply Hlh. exact (Hl i Hi).
  - intros i Hi. destruct (has_id_find l_id i _ Hi) as [l Hl]. destruct (Hlf i l Hl) as [m [l'' [Hm1 [Hm2 Hlines]]]].
    unfold locid_den. rewrite Hm1, Hm2, Hl. unfold loc_den. cbn [set_lid l_lines]. rewrite Hlines, map_map. cbn [set_lnfn ln_fn].
    apply map_ext_in. intros ln Hln.
    pose proof (find_by_In l_id i _ _ Hl) as Hlin. rewrite forallb_forall in H8. specialize (H8 l Hlin).
    apply andb_true_iff in H8. destruct H8 as [_ H8]. rewrite forallb_forall in H8. specialize (H8 ln Hln).
    destruct (has_id_find f_id _ _ H8) as [fx Hfx]. destruct (Hff _ fx Hfx) as [mf [Hf1 Hf2]].
    unfold fn_den. rewrite Hf1, Hf2, Hfx. unfold fun_den. cbn [f_start f_name f_sys f_file].
    pose proof (find_by_In f_id _ _ _ Hfx) as Hfin. rewrite forallb_forall in H7. specialize (H7 fx Hfin).
    apply andb_true_iff in H7. destruct H7 as [H7 Hc]. apply andb_true_iff in H7. destruct H7 as [Ha Hb].
    apply in_range_spec in Ha, Hb, Hc. rewrite (Hrs _ Ha), (Hrs _ Hb), (Hrs _ Hc). reflexivity.
Qed.

(* the weight of every selection of resolved stacks survives sanitizeProfile *)
Theorem sanitize_keeps_weight p : wf_raw_b p = true -> forall P k, weight P k (sanitize p) = weight P k p.
Proof.
  intros Hwf P k. destruct (sanitize_view p Hwf) as [str [tl [Hs Hden]]].
  unfold weight. rewrite Hs, map_map. f_equal. apply map_ext_in. intros s Hin.
  cbn [san_samp s_vals]. unfold stack_den. cbn [san_samp s_locs]. rewrite map_map.
  replace (map (fun x => locid_den (p_strs (sanitize p)) (p_funs (sanitize p)) (p_locs (sanitize p)) (aget tl x)) (s_locs s))
    with (map (locid_den (p_strs p) (p_funs p) (p_locs p)) (s_locs s)); [reflexivity|].
  apply map_ext_in. intros i Hi. symmetry. apply Hden.
  unfold wf_raw_b in Hwf. apply andb_true_iff in Hwf. destruct Hwf as [_ H9]. rewrite forallb_forall in H9. specialize (H9 s Hin).
  apply andb_true_iff in H9. destruct H9 as [_ Hl]. rewrite forallb_forall in Hl. exact (Hl i Hi).
Qed.

(* payload_merge_is_sum on the RAW payloads *)
Definition raw_weights P k (ps : list pprofile) : Z := sumZ (map (fun p => if merged_in p then weight P k p else 0) ps).

Theorem payload_merge_is_sum_raw (ps : list pprofile) (st : mstate) :
  merge_all exact_keqs mstate0 ps = inl st -> Z.of_nat (length (ms_funs st)) < two32 ->
  Forall (fun p => merged_in p = true -> wf_raw_b p = true) ps ->
  forall P k, (k < length (p_types (merged_profile st)))%nat ->
  eqm (weight P k (merged_profile st)) (raw_weights P k ps).
Proof.
  intros H Hb Hwf P k Hk. rewrite (payload_merge_is_sum_all ps st H Hb P k Hk).
  apply eqm_of_eq. unfold payload_weights, raw_weights. f_equal. apply map_ext_in. intros p Hp.
  destruct (merged_in p) eqn:E; [|reflexivity]. apply sanitize_keeps_weight.
  rewrite Forall_forall in Hwf. exact (Hwf p Hp E).
Qed.

Example payload_merge_is_sum_raw_applies :
  forallb wf_raw_b [ex_p1; ex_p2] = true /\ forallb merged_in [ex_p1; ex_p2] = true /\
  exists st, merge_all exact_keqs mstate0 [ex_p1; ex_p2] = inl st /\ Z.of_nat (length (ms_funs st)) < two32 /\
    length (p_types (merged_profile st)) = 1%nat /\
    weight (stack_eqb ex_main_b) 0 (merged_profile st) = 14 /\ raw_weights (stack_eqb ex_main_b) 0 [ex_p1; ex_p2] = 14.
Proof. split; [vm_compute; reflexivity|]. split; [vm_compute; reflexivity|]. eexists. split; [vm_compute; reflexivity|]. vm_compute. repeat split; reflexivity. Qed.
