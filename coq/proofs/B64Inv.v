(* C20 — a base64 text that decodes without error SPELLS its decoding: apart from CR/LF (skipped by the decoder)
   it is the encoder's output, group by group (the unused low bits of a padded final group are free in the
   non-strict StdEncoding, so the statement is about the complete 3-byte groups). *)
From Coq Require Import List String Ascii Bool NArith Arith Lia.
From Qryn Require Import model.Auth proofs.AuthProofs.
Import ListNotations.
Open Scope string_scope.

Lemma enc_dec : forall c v, dec_char c = Some v -> enc_char v = c.
Proof.
  intros [[] [] [] [] [] [] [] []] v H; vm_compute in H; try discriminate; inversion H; reflexivity.
Qed.

Lemma dec_not_nl : forall c v, dec_char c = Some v -> is_nl c = false.
Proof.
  intros c v H. destruct (is_nl c) eqn:E; [|reflexivity]. unfold is_nl in E. apply orb_true_iff in E.
  destruct E as [E|E]; apply Ascii.eqb_eq in E; subst; vm_compute in H; discriminate.
Qed.

Lemma bytes_determine_groups : forall v0 v1 v2 v3 a b c,
  byte0 v0 v1 = a -> byte1 v1 v2 = b -> byte2 v2 v3 = c ->
  v0 = sx0 a /\ v1 = sx1 a b /\ v2 = sx2 b c /\ v3 = sx3 c.
Proof.
  intros [] [] [] [] a b c Ha Hb Hc. subst. cbn. auto.
Qed.

(* one more alphabet byte is consumed while the quantum is not full and at least three bytes are still to come *)
Lemma go_step : forall s q a b c o ok, List.length q < 3 ->
  b64_go s q = (String a (String b (String c o)), ok) ->
  exists ch v s', strip_nl s = String ch (strip_nl s') /\ dec_char ch = Some v /\
                  b64_go s' (q ++ [v]) = (String a (String b (String c o)), ok).
Proof.
  induction s as [|ch r IH]; intros q a b c o ok Hq H.
  - cbn in H. discriminate.
  - cbn [b64_go] in H. destruct (dec_char ch) as [v|] eqn:D.
    + exists ch, v, r. split; [cbn [strip_nl]; now rewrite (dec_not_nl _ _ D)|]. split; [exact D|].
      destruct q as [|x0 [|x1 [|x2 [|x3 q']]]]; cbn in Hq; try lia; exact H.
    + destruct (is_nl ch) eqn:N.
      * destruct (IH q a b c o ok Hq H) as [ch' [v [s' [Hs [Hd Hg]]]]].
        exists ch', v, s'. split; [cbn [strip_nl]; now rewrite N|]. auto.
      * destruct (is_pad ch).
        -- destruct q as [|x0 [|x1 [|x2 [|x3 q']]]]; cbn in Hq; try lia; try discriminate.
           destruct (skip_nl r) as [|c2 r2]; [discriminate|]. destruct (is_pad c2); discriminate.
        -- discriminate.
Qed.

Lemma go_full : forall s x0 x1 x2 a b c o ok,
  b64_go s [x0; x1; x2] = (String a (String b (String c o)), ok) ->
  exists ch v s', strip_nl s = String ch (strip_nl s') /\ dec_char ch = Some v /\
                  a = byte0 x0 x1 /\ b = byte1 x1 x2 /\ c = byte2 x2 v /\ b64_go s' [] = (o, ok).
Proof.
  induction s as [|ch r IH]; intros x0 x1 x2 a b c o ok H.
  - cbn in H. discriminate.
  - cbn [b64_go] in H. destruct (dec_char ch) as [v|] eqn:D.
    + exists ch, v, r. split; [cbn [strip_nl]; now rewrite (dec_not_nl _ _ D)|]. split; [exact D|].
      destruct (b64_go r []) as [out ok'] eqn:G. inversion H; subst. auto.
    + destruct (is_nl ch) eqn:N.
      * destruct (IH _ _ _ _ _ _ _ _ H) as [ch' [v [s' [Hs R]]]].
        exists ch', v, s'. split; [cbn [strip_nl]; now rewrite N|]. exact R.
      * destruct (is_pad ch); discriminate.
Qed.

(* the first complete group of the output is spelled by the first four significant bytes of the text *)
Lemma go_first_group : forall s a b c o ok,
  b64_go s [] = (String a (String b (String c o)), ok) ->
  exists s', strip_nl s = String (enc_char (sx0 a)) (String (enc_char (sx1 a b)) (String (enc_char (sx2 b c))
                            (String (enc_char (sx3 c)) (strip_nl s')))) /\ b64_go s' [] = (o, ok).
Proof.
  intros s a b c o ok H.
  assert (L0 : List.length (@nil sext) < 3) by (cbn; lia).
  destruct (go_step s [] a b c o ok L0 H) as [c0 [v0 [s0 [E0 [D0 H0]]]]]. cbn [app] in H0.
  assert (L1 : List.length [v0] < 3) by (cbn; lia).
  destruct (go_step s0 [v0] a b c o ok L1 H0) as [c1 [v1 [s1 [E1 [D1 H1]]]]]. cbn [app] in H1.
  assert (L2 : List.length [v0; v1] < 3) by (cbn; lia).
  destruct (go_step s1 [v0; v1] a b c o ok L2 H1) as [c2 [v2 [s2 [E2 [D2 H2]]]]].
  cbn [app] in H2.
  destruct (go_full s2 _ _ _ _ _ _ _ _ H2) as [c3 [v3 [s3 [E3 [D3 [Ha [Hb [Hc H3]]]]]]]].
  exists s3. split; [|exact H3].
  destruct (bytes_determine_groups v0 v1 v2 v3 a b c (eq_sym Ha) (eq_sym Hb) (eq_sym Hc)) as [-> [-> [-> ->]]].
  rewrite E0, E1, E2, E3. now rewrite (enc_dec _ _ D0), (enc_dec _ _ D1), (enc_dec _ _ D2), (enc_dec _ _ D3).
Qed.

Lemma go_empty_ok : forall s, b64_go s [] = (EmptyString, true) -> strip_nl s = EmptyString.
Proof.
  induction s as [|ch r IH]; intros H; [reflexivity|].
  cbn [b64_go] in H. destruct (dec_char ch) as [v|] eqn:D.
  - cbn [app] in H. exfalso. clear IH.
    (* a started quantum never ends in ("", true) *)
    assert (G : forall s q, q <> [] -> List.length q <= 3 -> b64_go s q <> (EmptyString, true)).
    { clear. induction s as [|c r IH]; intros q Hq Hl.
      - cbn. destruct q; [contradiction | discriminate].
      - cbn [b64_go]. destruct (dec_char c) as [v|].
        + destruct q as [|x0 [|x1 [|x2 [|x3 q']]]]; try contradiction; cbn in Hl; try lia.
          * apply IH; [discriminate | cbn; lia].
          * apply IH; [discriminate | cbn; lia].
          * destruct (b64_go r []); discriminate.
        + destruct (is_nl c); [apply IH; assumption|].
          destruct (is_pad c); [|discriminate].
          destruct q as [|x0 [|x1 [|x2 [|x3 q']]]]; try discriminate.
          destruct (skip_nl r) as [|c2 r2]; [discriminate|]. destruct (is_pad c2); discriminate. }
    assert (Q1 : [v] <> []) by discriminate. assert (Q2 : List.length [v] <= 3) by (cbn; lia).
    exact (G r [v] Q1 Q2 H).
  - destruct (is_nl ch) eqn:N; [cbn [strip_nl]; rewrite N; apply IH; exact H|].
    destruct (is_pad ch); discriminate.
Qed.

Lemma spells_prefix_len : forall n y z s ok, String.length y <= n -> groups3 y = true ->
  b64_go s [] = (y ++ z, ok) ->
  exists s', strip_nl s = b64_encode y ++ strip_nl s' /\ b64_go s' [] = (z, ok).
Proof.
  induction n as [|n IH]; intros y z s ok Hn Hg H.
  - destruct y; [|cbn in Hn; lia]. exists s. split; [reflexivity | exact H].
  - destruct y as [|a [|b [|c r]]]; try discriminate.
    + exists s. split; [reflexivity | exact H].
    + cbn [append] in H. destruct (go_first_group s a b c (r ++ z) ok H) as [s1 [E1 H1]].
      cbn [groups3] in Hg. destruct (IH r z s1 ok ltac:(cbn in Hn; lia) Hg H1) as [s' [E' H']].
      exists s'. split; [|exact H']. rewrite E1, E'. reflexivity.
Qed.

(* every complete 3-byte group of the decoding is spelled out by the text *)
Lemma valid_text_spells_prefix : forall y z s ok, groups3 y = true -> b64_go s [] = (y ++ z, ok) ->
  exists s', strip_nl s = b64_encode y ++ strip_nl s' /\ b64_go s' [] = (z, ok).
Proof. intros y z s ok. apply (spells_prefix_len (String.length y)). lia. Qed.

Lemma append_nil_r : forall s : string, s ++ "" = s.
Proof. induction s as [|c r IH]; cbn; [reflexivity | now rewrite IH]. Qed.

(* when the decoding is made of complete groups, the text IS the encoder's output (modulo CR/LF) *)
Lemma valid_text_is_encoding : forall y s, groups3 y = true -> b64_go s [] = (y, true) ->
  strip_nl s = b64_encode y.
Proof.
  intros y s Hg H. rewrite <- (append_nil_r y) in H.
  destruct (valid_text_spells_prefix y "" s true Hg H) as [s' [E H']].
  rewrite E, (go_empty_ok s' H'). apply append_nil_r.
Qed.

(* what BasicAuthMiddleware lets through literally spells the credentials *)
Lemma accepted_spells_groups : forall login pass auth y z,
  basic_auth login pass auth = VPass -> login ++ ":" ++ pass = y ++ z -> groups3 y = true ->
  exists rest s', auth = "Basic " ++ rest /\ strip_nl rest = b64_encode y ++ strip_nl s' /\ b64_go s' [] = (z, true).
Proof.
  intros login pass auth y z H E Hg. destruct (pass_inv true _ _ _ H) as [rest [Hc [Hd Hok]]].
  specialize (Hok eq_refl). unfold b64_decode_prefix, b64_decode_ok in *.
  destruct (b64_go rest []) as [p ok] eqn:G. cbn [fst snd] in *. subst ok. rewrite Hd, E in G.
  destruct (valid_text_spells_prefix y z rest true Hg G) as [s' [E' H']].
  exists rest, s'. split; [apply credentials_part_some; exact Hc|]. auto.
Qed.
Lemma accepted_spells : forall login pass auth,
  basic_auth login pass auth = VPass -> groups3 (login ++ ":" ++ pass) = true ->
  exists rest, auth = "Basic " ++ rest /\ strip_nl rest = b64_encode (login ++ ":" ++ pass).
Proof.
  intros login pass auth H Hg. destruct (pass_inv true _ _ _ H) as [rest [Hc [Hd Hok]]].
  specialize (Hok eq_refl). unfold b64_decode_prefix, b64_decode_ok in *.
  destruct (b64_go rest []) as [p ok] eqn:G. cbn [fst snd] in *. subst ok. rewrite Hd in G.
  exists rest. split; [apply credentials_part_some; exact Hc|]. apply valid_text_is_encoding; assumption.
Qed.
