(* Property C11, selector chains, part 3: what GROUP BY trace over the UNION ALL of two operands computes, in terms of the
   reference meaning.  For typed operand answers R0, R1 (unique trace ids, every trace with at least one span, all spans
   among the <= 100 spans of that trace):  the groups that pass HAVING, turned into rows, are and_sem R0 R1 (tagged, both
   operand numbers present) resp. or_sem R0 R1 (untagged) -- up to deq (order of traces, order of span ids). *)
From Coq Require Import List ZArith NArith QArith String Ascii Bool Lia Permutation.
From Qryn Require Import model.TqSql model.Traceql model.TraceqlPlan model.TraceqlSem model.TraceqlCase
     proofs.TraceqlBridgeLib proofs.TraceqlIndexSearchProofs proofs.TraceqlGroupedProofs
     proofs.TraceqlTopkProofs proofs.TraceqlChainSem proofs.TraceqlChainSql.
Import ListNotations.
Open Scope string_scope.
Open Scope list_scope.
Open Scope nat_scope.

Lemma filter_all {A} (p : A -> bool) l : (forall x, In x l -> p x = true) -> filter p l = l.
Proof. induction l as [|x l IH]; intros H; [reflexivity|]. cbn [filter]. rewrite (H x (or_introl eq_refl)), IH; [reflexivity|]. intros y Hy. apply H. now right. Qed.
Lemma filter_none {A} (p : A -> bool) l : (forall x, In x l -> p x = false) -> filter p l = [].
Proof. induction l as [|x l IH]; intros H; [reflexivity|]. cbn [filter]. rewrite (H x (or_introl eq_refl)). apply IH. intros y Hy. apply H. now right. Qed.

Lemma match_ne {A B} (g : list A) (a b : B) : g <> [] -> match g with [] => a | _ :: _ => b end = b.
Proof. destruct g; [congruence|reflexivity]. Qed.

Definition mkw (i : nat) (o : tres) (s : string) : wrow := {| w_trace := t_trace o; w_span := s; w_key := t_key o; w_op := i |}.
Definition rows_of (i : nat) (o : option tres) : list wrow := match o with Some x => map (mkw i x) (t_spans x) | None => [] end.

Lemma wrap_rows_cons i o R : wrap_rows i (o :: R) = map (mkw i o) (t_spans o) ++ wrap_rows i R.
Proof. unfold wrap_rows, pairs. cbn [flat_map]. rewrite map_app, map_map. reflexivity. Qed.

(* the rows of one trace inside the wrapped answer of an operand *)
Lemma wrap_rows_trace i R t : tnodup R ->
  filter (fun w => String.eqb (w_trace w) t) (wrap_rows i R) = rows_of i (find_tres t R).
Proof.
  unfold tnodup. induction R as [|o R IH]; intros Hnd; [reflexivity|]. cbn [map] in Hnd. inversion Hnd as [|? ? Ho Hnd']; subst.
  rewrite wrap_rows_cons, filter_app, find_tres_cons. destruct (String.eqb (t_trace o) t) eqn:E.
  - rewrite filter_all by (intros w Hw; apply in_map_iff in Hw; destruct Hw as [s [<- _]]; exact E).
    rewrite (IH Hnd'). apply String.eqb_eq in E. subst t.
    assert (En : find_tres (t_trace o) R = None) by now apply find_tres_none. rewrite En. cbn [rows_of]. apply app_nil_r.
  - rewrite filter_none by (intros w Hw; apply in_map_iff in Hw; destruct Hw as [s [<- _]]; exact E). now apply IH.
Qed.

Lemma Zmax_l_const (l : list wrow) k : l <> [] -> (forall w, In w l -> w_key w = k) -> Zmax_l (map w_key l) = k.
Proof.
  intros Hne Hk. rewrite (Zmax_l_set (map w_key l) [k]).
  - reflexivity.
  - destruct l; [congruence|discriminate].
  - intros z. split.
    + intros H. apply in_map_iff in H. destruct H as [w [<- Hw]]. left. symmetry. now apply Hk.
    + intros [<-|[]]. destruct l as [|w l]; [congruence|]. left. apply Hk. now left.
Qed.

(* number of distinct operand numbers in a group *)
Lemma vnodup_skip l1 l2 seen : (forall v, In v l1 -> existsb (veqb v) seen = true) -> vnodup (l1 ++ l2) seen = vnodup l2 seen.
Proof. induction l1 as [|v l1 IH]; intros H; [reflexivity|]. cbn [app vnodup]. rewrite (H v (or_introl eq_refl)). apply IH. intros w Hw. apply H. now right. Qed.
Lemma nops_one i x : t_spans x <> [] -> nops (map (mkw i x) (t_spans x)) = 1.
Proof.
  unfold nops. destruct (t_spans x) as [|s0 r]; [congruence|]. intros _. cbn [map vnodup existsb mkw w_op].
  rewrite <- (app_nil_r (map _ (map _ r))), vnodup_skip; [reflexivity|].
  intros v Hv. apply in_map_iff in Hv. destruct Hv as [w [<- Hw]]. apply in_map_iff in Hw. destruct Hw as [s [<- _]].
  cbn [mkw w_op existsb veqb]. now rewrite Z.eqb_refl.
Qed.
Lemma nops_two x y : t_spans x <> [] -> t_spans y <> [] -> nops (map (mkw 0 x) (t_spans x) ++ map (mkw 1 y) (t_spans y)) = 2.
Proof.
  unfold nops. destruct (t_spans x) as [|s0 r]; [congruence|]. destruct (t_spans y) as [|s1 r']; [congruence|]. intros _ _.
  rewrite map_app. cbn [map app vnodup existsb mkw w_op].
  rewrite vnodup_skip.
  - cbn [vnodup existsb veqb]. change (Z.eqb (Z.of_nat 1) (Z.of_nat 0)) with false. cbn [orb].
    rewrite <- (app_nil_r (map _ (map _ r'))), vnodup_skip; [reflexivity|].
    intros v Hv. apply in_map_iff in Hv. destruct Hv as [w [<- Hw]]. apply in_map_iff in Hw. destruct Hw as [s [<- _]].
    cbn [mkw w_op existsb veqb]. now rewrite Z.eqb_refl.
  - intros v Hv. apply in_map_iff in Hv. destruct Hv as [w [<- Hw]]. apply in_map_iff in Hw. destruct Hw as [s [<- _]].
    cbn [mkw w_op existsb veqb]. now rewrite Z.eqb_refl.
Qed.

Section COMB.
  Variable ids : string -> list string.        (* the span ids of a trace inside the window *)
  Hypothesis Hcap : forall t, List.length (ids t) <= 100.
  Variable tagged : bool.
  Variable R0 R1 : list tres.
  Hypothesis Hn0 : tnodup R0.
  Hypothesis Hn1 : tnodup R1.
  Hypothesis Hw0 : twf ids R0.
  Hypothesis Hw1 : twf ids R1.

  Definition UU : list wrow := List.concat [wrap_rows 0 R0; wrap_rows 1 R1].
  Definition comb : list tres := map cg (filter (cP tagged 2) (group_rows same_wtr UU)).
  Definition rows_t (t : string) : list wrow := rows_of 0 (find_tres t R0) ++ rows_of 1 (find_tres t R1).

  Lemma UU_trace t : filter (fun w => String.eqb (w_trace w) t) UU = rows_t t.
  Proof.
    unfold UU, rows_t. cbn [List.concat]. rewrite app_nil_r, filter_app, (wrap_rows_trace 0 R0 t Hn0), (wrap_rows_trace 1 R1 t Hn1). reflexivity.
  Qed.

  Lemma group_is_rows g : In g (group_rows same_wtr UU) -> exists w0 rest, g = w0 :: rest /\ g = rows_t (w_trace w0).
  Proof.
    intros Hg. destruct (group_rows_spec same_wtr same_wtr_refl same_wtr_sym same_wtr_trans UU) as [Hcls _].
    destruct (Hcls g Hg) as [r0 [g' [E Ef]]]. exists r0, g'. split; [assumption|]. rewrite Ef at 1. rewrite <- UU_trace.
    apply filter_ext. intros w. unfold same_wtr. apply String.eqb_sym.
  Qed.

  Lemma rows_t_trace t w : In w (rows_t t) -> w_trace w = t.
  Proof.
    unfold rows_t. intros H. apply in_app_or in H. destruct H as [H|H].
    - destruct (find_tres t R0) as [x|] eqn:E; [|destruct H]. apply in_map_iff in H. destruct H as [s [<- _]]. exact (proj2 (find_tres_some _ _ _ E)).
    - destruct (find_tres t R1) as [x|] eqn:E; [|destruct H]. apply in_map_iff in H. destruct H as [s [<- _]]. exact (proj2 (find_tres_some _ _ _ E)).
  Qed.

  Lemma comb_traces_NoDup : tnodup comb.
  Proof.
    unfold tnodup, comb. rewrite map_map. apply NoDup_map_filter.
    destruct (group_rows_spec same_wtr same_wtr_refl same_wtr_sym same_wtr_trans UU) as [Hcls [_ [Hdis Hnd]]].
    apply NoDup_map_on; [assumption|]. intros g1 g2 H1 H2 E.
    destruct (Hcls g1 H1) as [r1 [t1 [E1 _]]]. destruct (Hcls g2 H2) as [r2 [t2 [E2 _]]].
    apply (Hdis g1 g2 r1 r2 t1 t2 H1 H2 E1 E2). subst g1 g2. cbn [cg t_trace] in E. unfold same_wtr. rewrite E. apply String.eqb_refl.
  Qed.

  (* what comb holds for a trace *)
  Lemma find_comb t :
    find_tres t comb = match rows_t t with [] => None | _ => if cP tagged 2 (rows_t t) then Some (cg (rows_t t)) else None end.
  Proof.
    destruct (group_rows_spec same_wtr same_wtr_refl same_wtr_sym same_wtr_trans UU) as [Hcls [Hcov [Hdis Hnd]]].
    destruct (rows_t t) as [|w0 rest] eqn:Er.
    - apply find_tres_none. intros Hin. unfold comb in Hin. rewrite map_map in Hin. apply in_map_iff in Hin. destruct Hin as [g [Et Hg]].
      apply filter_In in Hg. destruct Hg as [Hg _]. destruct (group_is_rows g Hg) as [w [r [E1 E2]]].
      subst g. cbn [cg t_trace] in Et. rewrite Et, Er in E2. discriminate.
    - assert (Hw0U : In w0 UU).
      { assert (H : In w0 (rows_t t)) by (rewrite Er; now left). rewrite <- UU_trace in H. apply filter_In in H. tauto. }
      assert (Ht0 : w_trace w0 = t) by (apply rows_t_trace; rewrite Er; now left).
      destruct (Hcov w0 Hw0U) as [g [r0 [g' [Hg [Eg Es]]]]].
      assert (Etr : w_trace r0 = t) by (unfold same_wtr in Es; apply String.eqb_eq in Es; congruence).
      destruct (group_is_rows g Hg) as [w [r [E1 E2]]]. assert (w = r0) by congruence. subst w. rewrite Etr, Er in E2.
      destruct (cP tagged 2 (w0 :: rest)) eqn:Ep.
      + assert (Hin : In (cg g) comb) by (unfold comb; apply in_map; apply filter_In; split; [assumption|now rewrite E2]).
        assert (Ecg : t_trace (cg g) = t) by (rewrite Eg; cbn [cg t_trace]; exact Etr).
        rewrite <- Ecg. rewrite (find_tres_in comb (cg g) comb_traces_NoDup Hin). now rewrite E2.
      + apply find_tres_none. intros Hin. unfold comb in Hin. rewrite map_map in Hin. apply in_map_iff in Hin. destruct Hin as [g2 [Et Hg2]].
        apply filter_In in Hg2. destruct Hg2 as [Hg2 Hp2]. destruct (group_is_rows g2 Hg2) as [w2 [r2 [F1 F2]]].
        assert (Et2 : w_trace w2 = t) by (rewrite F1 in Et; exact Et). rewrite Et2, Er in F2. rewrite F2 in Hp2. congruence.
  Qed.

  Lemma spans_le l t : NoDup l -> incl l (ids t) -> firstn 100 l = l.
  Proof. intros Hnd Hin. apply firstn_all2. apply Nat.le_trans with (List.length (ids t)); [now apply NoDup_incl_length|apply Hcap]. Qed.

  Lemma cg_spans_in g t : g <> [] -> (forall s, In s (map w_span g) -> In s (ids t)) -> forall s, In s (t_spans (cg g)) <-> In s (map w_span g).
  Proof.
    intros _ Hin s. cbn [cg t_spans]. rewrite (spans_le _ t).
    - apply nodup_by_str_in.
    - apply NoDup_nodup_by_str.
    - intros x Hx. apply Hin. now apply nodup_by_str_in.
  Qed.

  Lemma in_rows_spans i x s : In s (map w_span (map (mkw i x) (t_spans x))) <-> In s (t_spans x).
  Proof. rewrite map_map. cbn [mkw w_span]. now rewrite map_id. Qed.

  Theorem comb_is_sem : deq comb (if tagged then and_sem R0 R1 else or_sem R0 R1).
  Proof.
    split; [apply comb_traces_NoDup|]. split; [destruct tagged; [now apply tnodup_and|now apply tnodup_or]|].
    intros t. rewrite find_comb. unfold rows_t.
    assert (Ef : find_tres t (if tagged then and_sem R0 R1 else or_sem R0 R1)
                 = if tagged then match find_tres t R0, find_tres t R1 with Some x, Some y => Some (merge x y) | _, _ => None end
                   else match find_tres t R0 with Some x => Some (match find_tres t R1 with Some y => merge x y | None => x end) | None => find_tres t R1 end)
      by (destruct tagged; [apply find_and|apply find_or]).
    rewrite Ef. clear Ef.
    destruct (find_tres t R0) as [x|] eqn:E0; destruct (find_tres t R1) as [y|] eqn:E1; cbn [rows_of app].
    - (* both operands hold the trace *)
      destruct (find_tres_some _ _ _ E0) as [Hx Tx]. destruct (find_tres_some _ _ _ E1) as [Hy Ty].
      destruct (Hw0 x Hx) as [X1 X2]. destruct (Hw1 y Hy) as [Y1 Y2].
      set (g := map (mkw 0 x) (t_spans x) ++ map (mkw 1 y) (t_spans y)).
      assert (Hg : g <> []) by (unfold g; destruct (t_spans x); [congruence|discriminate]).
      assert (Hp : cP tagged 2 g = true) by (unfold cP; destruct tagged; [|reflexivity]; unfold g; now rewrite nops_two).
      rewrite (match_ne g _ _ Hg), Hp.
      assert (Hhead : t_trace (cg g) = t_trace x).
      { unfold g. destruct (t_spans x) as [|s0 r]; [congruence|]. reflexivity. }
      assert (Hsp : forall s, In s (t_spans (cg g)) <-> In s (t_spans x) \/ In s (t_spans y)).
      { intros s. rewrite (cg_spans_in g t Hg).
        - unfold g. rewrite map_app, in_app_iff, !in_rows_spans. tauto.
        - intros s' Hs'. unfold g in Hs'. rewrite map_app, in_app_iff, !in_rows_spans in Hs'.
          destruct Hs' as [H|H]; [rewrite <- Tx; now apply X2|rewrite <- Ty; now apply Y2]. }
      assert (Hk : t_key (cg g) = Z.max (t_key x) (t_key y)).
      { cbn [cg t_key]. rewrite (Zmax_l_set (map w_key g) [t_key x; t_key y]); [reflexivity|destruct g; [congruence|discriminate]|].
        intros z. unfold g. rewrite map_app, in_app_iff, !map_map. cbn [mkw w_key In]. split.
        - intros [H|H]; apply in_map_iff in H; destruct H as [s [<- _]]; tauto.
        - intros [<-|[<-|[]]].
          + left. destruct (t_spans x) as [|s0 r]; [congruence|]. now left.
          + right. destruct (t_spans y) as [|s0 r]; [congruence|]. now left. }
      destruct tagged; cbn [oeq merge t_trace t_spans t_key]; (split; [exact Hhead|]; split; [|exact Hk]); intros s; rewrite union_strs_in; apply Hsp.
    - (* only the first operand *)
      destruct (find_tres_some _ _ _ E0) as [Hx Tx]. destruct (Hw0 x Hx) as [X1 X2]. rewrite app_nil_r.
      set (g := map (mkw 0 x) (t_spans x)).
      assert (Hg : g <> []) by (unfold g; destruct (t_spans x); [congruence|discriminate]).
      rewrite (match_ne g _ _ Hg). unfold cP. destruct tagged.
      + unfold g. rewrite (nops_one 0 x X1). exact I.
      + cbn [oeq]. split; [unfold g; destruct (t_spans x); [congruence|reflexivity]|]. split.
        * intros s. rewrite (cg_spans_in g t Hg).
          -- unfold g. apply in_rows_spans.
          -- intros s' Hs'. unfold g in Hs'. rewrite in_rows_spans in Hs'. rewrite <- Tx. now apply X2.
        * cbn [cg t_key]. apply Zmax_l_const; [assumption|]. intros w Hw. unfold g in Hw. apply in_map_iff in Hw. destruct Hw as [s [<- _]]. reflexivity.
    - (* only the second operand *)
      destruct (find_tres_some _ _ _ E1) as [Hy Ty]. destruct (Hw1 y Hy) as [Y1 Y2].
      set (g := map (mkw 1 y) (t_spans y)).
      assert (Hg : g <> []) by (unfold g; destruct (t_spans y); [congruence|discriminate]).
      rewrite (match_ne g _ _ Hg). unfold cP. destruct tagged.
      + unfold g. rewrite (nops_one 1 y Y1). exact I.
      + cbn [oeq]. split; [unfold g; destruct (t_spans y); [congruence|reflexivity]|]. split.
        * intros s. rewrite (cg_spans_in g t Hg).
          -- unfold g. apply in_rows_spans.
          -- intros s' Hs'. unfold g in Hs'. rewrite in_rows_spans in Hs'. rewrite <- Ty. now apply Y2.
        * cbn [cg t_key]. apply Zmax_l_const; [assumption|]. intros w Hw. unfold g in Hw. apply in_map_iff in Hw. destruct Hw as [s [<- _]]. reflexivity.
    - destruct tagged; exact I.
  Qed.
End COMB.
