(* From ingest to the nested flame graph (property C16): the tree MergeTrie builds from the stored rows of profiles
   without node-id collisions and without int64 overflow meets the hypotheses of levels_nest (tree_good). *)
From Coq Require Import List NArith ZArith Bool Lia Permutation Morphisms.
From Qryn Require Import model.Pprof model.ProfTree model.ProfSql proofs.PprofProofs proofs.ProfTreeProofs proofs.ProfSqlProofs.
Import ListNotations.
Open Scope Z_scope.

(* ------------------------------------------------------------------ node ids are distinct under every parent key *)
Definition kids_nodup (ns : list (N * list tnode)) : Prop := forall p, NoDup (map t_id (children ns p)).

Lemma add_existing_ids cs r cs' : add_existing cs r = Some cs' -> map t_id cs' = map t_id cs.
Proof.
  revert cs'. induction cs as [|c cs IH]; intros cs' H; cbn [add_existing] in H; [discriminate|].
  destruct (N.eqb (t_id c) (r_id r)).
  - inversion H; subst. reflexivity.
  - destruct (add_existing cs r) as [l|]; [|discriminate]. inversion H; subst. cbn [map]. f_equal. apply IH. reflexivity.
Qed.

Lemma find_none_notin cs i : find_tnode cs i = None -> ~ In i (map t_id cs).
Proof.
  induction cs as [|c cs IH]; cbn [find_tnode map In]; [tauto|].
  destruct (N.eqb (t_id c) i) eqn:E; [discriminate|]. intros H [Hc|Hc]; [apply N.eqb_neq in E; congruence|exact (IH H Hc)].
Qed.

Lemma find_in cs i c : find_tnode cs i = Some c -> In c cs.
Proof.
  induction cs as [|d cs IH]; cbn [find_tnode]; [discriminate|].
  destruct (N.eqb (t_id d) i); [intros H; inversion H; left; reflexivity|intros H; right; exact (IH H)].
Qed.

Lemma find_in_nodup cs c : NoDup (map t_id cs) -> In c cs -> find_tnode cs (t_id c) = Some c.
Proof.
  induction cs as [|d cs IH]; intros Hnd Hin; [contradiction|]. cbn [map] in Hnd. inversion Hnd as [|x l Hnot Hnd']; subst.
  cbn [find_tnode]. destruct Hin as [->|Hin]; [rewrite N.eqb_refl; reflexivity|].
  destruct (N.eqb (t_id d) (t_id c)) eqn:E; [|exact (IH Hnd' Hin)].
  apply N.eqb_eq in E. exfalso. apply Hnot. rewrite E. apply in_map. exact Hin.
Qed.

Lemma merge_rows_kids limit : forall rows t, kids_nodup (m_nodes t) -> kids_nodup (m_nodes (merge_rows limit t rows)).
Proof.
  induction rows as [|r rows IH]; intros t Hk; [exact Hk|]. cbn [merge_rows m_nodes m_num].
  set (cs := children (m_nodes t) (r_parent r)).
  destruct (add_existing cs r) as [cs'|] eqn:Eadd.
  - apply IH. cbn [m_nodes]. intros p. rewrite children_set. destruct (N.eqb (r_parent r) p); [|apply Hk].
    rewrite (add_existing_ids cs r cs' Eadd). apply Hk.
  - destruct (Z.leb limit (m_num t)); [exact Hk|]. apply IH. cbn [m_nodes]. intros p. rewrite children_set.
    destruct (N.eqb (r_parent r) p); [|apply Hk].
    rewrite map_app. cbn [map node_of_row t_id].
    apply add_existing_none in Eadd. apply find_none_notin in Eadd.
    pose proof (Hk (r_parent r)) as Hnd. fold cs in Hnd.
    apply Permutation_NoDup with (l := r_id r :: map t_id cs); [apply Permutation_cons_append|].
    constructor; assumption.
Qed.

Lemma merged_kids limit rows fs : kids_nodup (m_nodes (merge_trie limit new_tree rows fs)).
Proof. rewrite merge_trie_nodes. apply merge_rows_kids. intros p. cbn. constructor. Qed.

(* ------------------------------------------------------------------ sums of non-negative rows *)
Lemma sumZ_map_add {A} (f g : A -> Z) l : sumZ (map (fun a => f a + g a) l) = sumZ (map f l) + sumZ (map g l).
Proof. induction l as [|a l IH]; [reflexivity|]. cbn [map]. unfold sumZ in *. cbn [fold_right]. lia. Qed.

Lemma sumZ_nonneg_le {A} (f g : A -> Z) l : (forall a, In a l -> 0 <= f a <= g a) -> 0 <= sumZ (map f l) <= sumZ (map g l).
Proof.
  induction l as [|a l IH]; intros H; [cbn; lia|]. cbn [map]. unfold sumZ in *. cbn [fold_right].
  pose proof (H a (or_introl eq_refl)). assert (forall b, In b l -> 0 <= f b <= g b) by (intros; apply H; right; assumption).
  specialize (IH H1). lia.
Qed.

Lemma eqm_small a b : eqm a b -> 0 <= a < two64 -> 0 <= b < two64 -> a = b.
Proof. unfold eqm. intros H Ha Hb. rewrite !Z.mod_small in H by assumption. exact H. Qed.

(* for distinct ids: summing a value over the ids that equal a given one picks it at most once *)
Lemma sum_pick (js : list N) (j : N) (v : Z) : NoDup js ->
  sumZ (map (fun x => if N.eqb j x then v else 0) js) = if existsb (N.eqb j) js then v else 0.
Proof.
  induction js as [|x js IH]; intros Hnd; [reflexivity|]. inversion Hnd as [|? ? Hnot Hnd']; subst.
  cbn [map existsb]. unfold sumZ in *. cbn [fold_right]. rewrite (IH Hnd').
  destruct (N.eqb j x) eqn:E; cbn [orb]; [|lia].
  apply N.eqb_eq in E. subst x.
  destruct (existsb (N.eqb j) js) eqn:Ex; [|lia].
  apply existsb_exists in Ex. destruct Ex as [y [Hy Ey]]. apply N.eqb_eq in Ey. subst y. contradiction.
Qed.

Section Good.
  Variable limit : Z.
  Variables R rows : list row.
  Variable fs : list (N * Z).
  Hypothesis Hlim : Z.of_nat (length rows) <= limit.
  Hypothesis Hrr : Forall row_in_range rows.
  (* the rows handed over carry the per-key sums of R (R itself, any permutation, its grouping ...) *)
  Hypothesis Hkey : forall p i, has_key rows p i = has_key R p i.
  Hypothesis Hs : forall p i, eqm (sum_self rows p i) (sum_self R p i).
  Hypothesis Ht : forall p i, eqm (sum_total rows p i) (sum_total R p i).
  Hypothesis Hnn : forall r, In r R -> 0 <= r_self r /\ 0 <= r_total r.
  Hypothesis Hbs : sumZ (map r_self R) < two63.
  Hypothesis Hbt : sumZ (map r_total R) < two63.
  Hypothesis Hpd : forall r r', In r R -> In r' R -> r_id r = r_id r' -> r_parent r = r_parent r'.
  Hypothesis Hnz : forall r, In r R -> r_id r <> 0%N.
  Hypothesis Hc : rconserves R.

  Let t := merge_trie limit new_tree rows fs.
  Let ns := m_nodes t.

  Lemma key_sum_bounds p i : 0 <= sum_self R p i <= sumZ (map r_self R) /\ 0 <= sum_total R p i <= sumZ (map r_total R).
  Proof.
    unfold sum_self, sum_total. split; apply sumZ_nonneg_le; intros r Hr; destruct (Hnn r Hr); destruct (key_eqb r p i); lia.
  Qed.

  Lemma sel_sum_bounds (sel : row -> N) x :
    0 <= rsum sel fst R x <= sumZ (map r_self R) /\ 0 <= rsum sel snd R x <= sumZ (map r_total R).
  Proof.
    unfold rsum. split; apply sumZ_nonneg_le; intros r Hr; destruct (Hnn r Hr); cbn [fst snd]; destruct (N.eqb (sel r) x); lia.
  Qed.

  Lemma merged_vals p i :
    vals_at ns p i = if has_key R p i then Some (sum_self R p i, sum_total R p i) else None.
  Proof.
    unfold ns, t. rewrite (merge_is_sum_proof limit rows fs Hlim Hrr p i), Hkey.
    destruct (has_key R p i); [|reflexivity].
    rewrite (eqm_wrap64 _ _ (Hs p i)), (eqm_wrap64 _ _ (Ht p i)).
    destruct (key_sum_bounds p i) as [[H1 H2] [H3 H4]].
    rewrite !wrap64_small by (unfold two63 in *; lia). reflexivity.
  Qed.

  Lemma child_vals p c : In c (children ns p) ->
    has_key R p (t_id c) = true /\ t_self c = sum_self R p (t_id c) /\ t_total c = sum_total R p (t_id c).
  Proof.
    intros Hin. pose proof (merged_vals p (t_id c)) as H. unfold vals_at, node_at in H.
    pose proof (find_in_nodup (children ns p) c (merged_kids limit rows fs p) Hin) as Hf. rewrite Hf in H. cbn [option_map] in H.
    destruct (has_key R p (t_id c)); [|discriminate]. inversion H. tauto.
  Qed.

  Lemma covered p i : has_key R p i = true -> In i (map t_id (children ns p)).
  Proof.
    intros Hk. pose proof (merged_vals p i) as H. rewrite Hk in H. unfold vals_at, node_at in H.
    destruct (find_tnode (children ns p) i) as [c|] eqn:E; [|discriminate].
    rewrite <- (find_tnode_id _ _ _ E). apply in_map. exact (find_in _ _ _ E).
  Qed.

  (* the totals of the children of p, added up exactly, are the totals of the rows of R naming p as parent *)
  Lemma children_total p : sumZ (map t_total (children ns p)) = rchild_tot R p.
  Proof.
    assert (E1 : map t_total (children ns p) = map (sum_total R p) (map t_id (children ns p))).
    { rewrite map_map. apply map_ext_in. intros c Hcin. exact (proj2 (proj2 (child_vals p c Hcin))). }
    rewrite E1. clear E1.
    pose proof (merged_kids limit rows fs p) as Hnd. fold t in Hnd. fold ns in Hnd.
    assert (Hcov : forall r, In r R -> r_parent r = p -> In (r_id r) (map t_id (children ns p))).
    { intros r Hr Hp. apply covered. unfold has_key. apply existsb_exists. exists r. split; [exact Hr|].
      unfold key_eqb. rewrite Hp, !N.eqb_refl. reflexivity. }
    set (js := map t_id (children ns p)) in *. clearbody js.
    unfold rchild_tot. clear - Hnd Hcov. induction R as [|r R' IH].
    - clear. change (sumZ (map (fun r0 : row => if N.eqb (r_parent r0) p then r_total r0 else 0) [])) with 0.
      induction js as [|j js IHjs]; [reflexivity|]. cbn [map]. unfold sumZ in *. cbn [fold_right]. rewrite IHjs. reflexivity.
    - assert (E : map (sum_total (r :: R') p) js =
                  map (fun j => (if N.eqb (r_id r) j then (if N.eqb (r_parent r) p then r_total r else 0) else 0) + sum_total R' p j) js).
      { apply map_ext. intros j. rewrite sum_total_cons. unfold key_eqb. destruct (N.eqb (r_parent r) p), (N.eqb (r_id r) j); reflexivity. }
      rewrite E, sumZ_map_add, (sum_pick js (r_id r) _ Hnd).
      rewrite IH by (intros r0 Hr0; apply Hcov; right; exact Hr0).
      change (sumZ (map (fun r0 : row => if N.eqb (r_parent r0) p then r_total r0 else 0) (r :: R')))
        with ((if N.eqb (r_parent r) p then r_total r else 0) + sumZ (map (fun r0 : row => if N.eqb (r_parent r0) p then r_total r0 else 0) R')).
      destruct (N.eqb (r_parent r) p) eqn:Ep.
      + apply N.eqb_eq in Ep. pose proof (Hcov r (or_introl eq_refl) Ep) as Hin.
        assert (Ex : existsb (N.eqb (r_id r)) js = true) by (apply existsb_exists; exists (r_id r); split; [exact Hin|apply N.eqb_refl]).
        rewrite Ex. reflexivity.
      + destruct (existsb (N.eqb (r_id r)) js); reflexivity.
  Qed.

  (* all rows of R carrying id i sit under the one parent p *)
  Lemma id_sums p i : has_key R p i = true -> rtot_at R i = sum_total R p i /\ rself_at R i = sum_self R p i /\ i <> 0%N.
  Proof.
    intros Hk. unfold has_key in Hk. apply existsb_exists in Hk. destruct Hk as [r0 [Hr0 Hk0]].
    unfold key_eqb in Hk0. apply andb_prop in Hk0. destruct Hk0 as [Hp0 Hi0]. apply N.eqb_eq in Hp0, Hi0.
    assert (E : forall r, In r R -> N.eqb (r_id r) i = key_eqb r p i).
    { intros r Hr. unfold key_eqb. destruct (N.eqb (r_id r) i) eqn:Ei; [|rewrite andb_false_r; reflexivity].
      apply N.eqb_eq in Ei. rewrite (Hpd r r0 Hr Hr0 ltac:(congruence)), Hp0, N.eqb_refl. reflexivity. }
    split; [|split].
    - unfold rtot_at, sum_total. f_equal. apply map_ext_in. intros r Hr. rewrite (E r Hr). reflexivity.
    - unfold rself_at, sum_self. f_equal. apply map_ext_in. intros r Hr. rewrite (E r Hr). reflexivity.
    - rewrite <- Hi0. apply Hnz. exact Hr0.
  Qed.

  Theorem merged_tree_good : tree_good t /\ root_total t < two63.
  Proof.
    split.
    - intros p c Hin. destruct (child_vals p c Hin) as (Hk & Hself & Htot).
      destruct (key_sum_bounds p (t_id c)) as [[B1 B2] [B3 B4]].
      destruct (id_sums p (t_id c) Hk) as (E1 & E2 & Hne).
      unfold good. fold ns. rewrite children_total, Hself, Htot.
      split; [exact B1|]. split; [exact B3|].
      pose proof (Hc (t_id c) Hne) as Hcons. rewrite E1, E2 in Hcons.
      destruct (sel_sum_bounds r_parent (t_id c)) as [_ [B5 B6]]. rewrite <- rchild_tot_rsum in B5, B6.
      apply eqm_small; [exact Hcons| |]; unfold two63, two64 in *; lia.
    - unfold root_total. fold ns. rewrite children_total.
      destruct (sel_sum_bounds r_parent 0%N) as [_ [B5 B6]]. rewrite <- rchild_tot_rsum in B5, B6. lia.
  Qed.
End Good.

(* ------------------------------------------------------------------ every stored node comes from a walked triple *)
Lemma walk_coh h T : forall rest t p d vs zero, (1 <= d)%N ->
  incl (walk_triples h p d rest) T -> Coh h T t -> (forall n, In n t -> n_id n <> 0%N) ->
  Coh h T (walk h t p d rest vs zero) /\ (forall n, In n (walk h t p d rest vs zero) -> n_id n <> 0%N).
Proof.
  induction rest as [|f rest IH]; intros t p d vs zero Hd Hincl Hc Hnz; cbn [walk]; [split; assumption|].
  cbn [walk_triples] in Hincl. apply IH.
  - lia.
  - intros y Hy. apply Hincl. right. exact Hy.
  - apply bump_coh; [apply Hincl; left; reflexivity|exact Hc].
  - apply bump_nonzero; [apply node_id_nonzero; exact Hd|exact Hnz].
Qed.

Lemma post_process_coh h T nt ss : incl (triples h ss) T ->
  Coh h T (post_process h nt ss) /\ (forall n, In n (post_process h nt ss) -> n_id n <> 0%N).
Proof.
  unfold post_process.
  assert (G : forall ss t, incl (triples h ss) T -> Coh h T t -> (forall n, In n t -> n_id n <> 0%N) ->
    Coh h T (fold_left (add_sample h (zero_vals nt)) ss t) /\
    (forall n, In n (fold_left (add_sample h (zero_vals nt)) ss t) -> n_id n <> 0%N)).
  { clear ss. induction ss as [|s ss IH]; intros t Hincl Hc Hnz; cbn [fold_left]; [split; assumption|].
    unfold triples in Hincl. cbn [flat_map] in Hincl. fold (triples h ss) in Hincl.
    destruct (walk_coh h T (rev (s_stack s)) t 0%N 1%N (s_values s) (zero_vals nt) ltac:(lia)
                ltac:(intros y Hy; apply Hincl; apply in_or_app; left; exact Hy) Hc Hnz) as [H1 H2].
    apply IH; [intros y Hy; apply Hincl; apply in_or_app; right; exact Hy|exact H1|exact H2]. }
  intros Hincl. apply G; [exact Hincl|intros n []|intros n []].
Qed.

(* ------------------------------------------------------------------ all stored totals of a profile together are bounded
   by the sum of value x stack depth *)
Lemma sumZ_swap {A B} (f : A -> B -> Z) (l : list A) (m : list B) :
  sumZ (map (fun a => sumZ (map (fun b => f a b) m)) l) = sumZ (map (fun b => sumZ (map (fun a => f a b) l)) m).
Proof.
  induction l as [|a l IH].
  - cbn [map]. change (sumZ []) with 0. induction m as [|b m IHm]; [reflexivity|]. cbn [map]. unfold sumZ in *. cbn [fold_right]. rewrite <- IHm. reflexivity.
  - cbn [map]. unfold sumZ at 1. cbn [fold_right]. fold (sumZ (map (fun a0 => sumZ (map (fun b => f a0 b) m)) l)). rewrite IH.
    rewrite <- sumZ_map_add. reflexivity.
Qed.

Lemma sumZ_scale {A} (v : Z) (g : A -> Z) l : sumZ (map (fun a => v * g a) l) = v * sumZ (map g l).
Proof. induction l as [|a l IH]; [cbn; lia|]. cbn [map]. unfold sumZ in *. cbn [fold_right]. rewrite IH. lia. Qed.

Lemma cnt_sum_nodup (xs : list N) (l : list N) : NoDup xs -> 0 <= sumZ (map (fun x => cnt x l) xs) <= Z.of_nat (length l).
Proof.
  intros Hnd. induction l as [|y l IH].
  - unfold cnt. cbn [map]. change (sumZ []) with 0. replace (sumZ (map (fun _ : N => 0) xs)) with 0; [cbn; lia|].
    clear. induction xs as [|x xs IHx]; [reflexivity|]. cbn [map]. unfold sumZ in *. cbn [fold_right]. rewrite <- IHx. reflexivity.
  - assert (E : map (fun x => cnt x (y :: l)) xs = map (fun x => (if N.eqb y x then 1 else 0) + cnt x l) xs)
      by (apply map_ext; intros x; apply cnt_cons).
    rewrite E, sumZ_map_add, (sum_pick xs y 1 Hnd). cbn [length]. destruct (existsb (N.eqb y) xs); lia.
Qed.

Definition depth_weight (k : nat) (ss : list sample) : Z :=
  sumZ (map (fun s => nth k (s_values s) 0 * Z.of_nat (length (s_stack s))) ss).

Lemma stored_totals_bounded h nt ss k : (k < nt)%nat ->
  (forall s, In s ss -> 0 <= nth k (s_values s) 0) -> depth_weight k ss < two63 ->
  let t := post_process h nt ss in
  (forall n, In n t -> 0 <= fst (val_at k n) <= snd (val_at k n)) /\
  sumZ (map (fun n => snd (val_at k n)) t) <= depth_weight k ss.
Proof.
  intros Hk Hnn Hb t.
  assert (Hval : forall n, In n t -> 0 <= fst (val_at k n) <= snd (val_at k n) /\
             snd (val_at k n) = sumZ (map (fun s => nth k (s_values s) 0 * cnt (n_id n) (sample_ids h s)) ss)).
  { intros n Hn. destruct (stored_values_nonneg h nt ss k n Hk Hnn Hb Hn) as (H1 & H2 & _). split; assumption. }
  split; [intros n Hn; exact (proj1 (Hval n Hn))|].
  assert (E : map (fun n => snd (val_at k n)) t =
              map (fun n => sumZ (map (fun s => nth k (s_values s) 0 * cnt (n_id n) (sample_ids h s)) ss)) t)
    by (apply map_ext_in; intros n Hn; exact (proj2 (Hval n Hn))).
  rewrite E, (sumZ_swap (fun n s => nth k (s_values s) 0 * cnt (n_id n) (sample_ids h s)) t ss).
  unfold depth_weight. apply sum_le_pointwise. intros s Hs.
  rewrite sumZ_scale.
  destruct (post_process_nodup_range h nt ss) as [Hnd _]. fold t in Hnd.
  pose proof (cnt_sum_nodup (map n_id t) (sample_ids h s) Hnd) as Hc. rewrite map_map in Hc.
  rewrite sample_ids_length in Hc. pose proof (Hnn s Hs). split; nia.
Qed.

(* ------------------------------------------------------------------ the grouped hand-over carries the same key sums *)
Definition ksel (p i : N) (r : row) : N := if key_eqb r p i then 1%N else 0%N.
Lemma sum_self_rsum rows p i : sum_self rows p i = rsum (ksel p i) fst rows 1%N.
Proof. unfold sum_self, rsum, ksel. f_equal. apply map_ext. intros r. destruct (key_eqb r p i); reflexivity. Qed.
Lemma sum_total_rsum rows p i : sum_total rows p i = rsum (ksel p i) snd rows 1%N.
Proof. unfold sum_total, rsum, ksel. f_equal. apply map_ext. intros r. destruct (key_eqb r p i); reflexivity. Qed.
Lemma ksel_ok p i a b : r_parent a = r_parent b -> r_id a = r_id b -> ksel p i a = ksel p i b.
Proof. unfold ksel, key_eqb. intros -> ->. reflexivity. Qed.

Lemma group_key_sums R p i :
  eqm (sum_self (group_rows R) p i) (sum_self R p i) /\ eqm (sum_total (group_rows R) p i) (sum_total R p i).
Proof.
  rewrite !sum_self_rsum, !sum_total_rsum. split.
  - apply (group_rows_rsum (ksel p i) fst (ksel_ok p i) comp_fst).
  - apply (group_rows_rsum (ksel p i) snd (ksel_ok p i) comp_snd).
Qed.

Lemma has_key_cons r rows p i : has_key (r :: rows) p i = key_eqb r p i || has_key rows p i.
Proof. reflexivity. Qed.

Lemma group_insert_has_key gs r p i : has_key (group_insert gs r) p i = has_key gs p i || key_eqb r p i.
Proof.
  induction gs as [|g gs IH]; cbn [group_insert].
  - rewrite has_key_cons. unfold has_key. cbn. rewrite orb_false_r. reflexivity.
  - destruct (gkey_eqb g r) eqn:E.
    + apply gkey_eqb_true in E. destruct E as (E1 & _ & E3). rewrite !has_key_cons.
      assert (K1 : key_eqb {| r_parent := r_parent g; r_fn := r_fn g; r_id := r_id g;
                              r_self := wrap64 (r_self g + r_self r); r_total := wrap64 (r_total g + r_total r) |} p i = key_eqb g p i)
        by reflexivity.
      assert (K2 : key_eqb r p i = key_eqb g p i) by (unfold key_eqb; rewrite E1, E3; reflexivity).
      rewrite K1, K2. destruct (key_eqb g p i), (has_key gs p i); reflexivity.
    + rewrite !has_key_cons, IH. destruct (key_eqb g p i), (has_key gs p i), (key_eqb r p i); reflexivity.
Qed.

Lemma group_rows_has_key R p i : has_key (group_rows R) p i = has_key R p i.
Proof.
  unfold group_rows.
  assert (G : forall R gs, has_key (fold_left group_insert R gs) p i = has_key gs p i || has_key R p i).
  { clear R. induction R as [|r R IH]; intros gs; cbn [fold_left].
    - unfold has_key at 3. cbn. rewrite orb_false_r. reflexivity.
    - rewrite IH, group_insert_has_key, has_key_cons. destruct (has_key gs p i), (key_eqb r p i), (has_key R p i); reflexivity. }
  rewrite G. reflexivity.
Qed.

Lemma group_insert_range gs r : Forall row_in_range gs -> row_in_range r -> Forall row_in_range (group_insert gs r).
Proof.
  induction gs as [|g gs IH]; intros Hg Hr; cbn [group_insert]; [constructor; [exact Hr|constructor]|].
  inversion Hg as [|? ? Hg1 Hg2]; subst. destruct (gkey_eqb g r).
  - constructor; [|exact Hg2]. split; cbn [r_self r_total]; apply wrap64_range.
  - constructor; [exact Hg1|apply IH; assumption].
Qed.
Lemma group_rows_range R : Forall row_in_range R -> Forall row_in_range (group_rows R).
Proof.
  unfold group_rows.
  assert (G : forall R gs, Forall row_in_range R -> Forall row_in_range gs -> Forall row_in_range (fold_left group_insert R gs)).
  { clear R. induction R as [|r R IH]; intros gs HR Hg; [exact Hg|]. inversion HR; subst. cbn [fold_left].
    apply IH; [assumption|apply group_insert_range; assumption]. }
  intros H. apply G; [exact H|constructor].
Qed.

(* ------------------------------------------------------------------ the rows stored for one profile *)
Definition sel_ok (P : stored) : Prop :=
  match sp_sel P with
  | Some k => (k < sp_nt P)%nat /\ (forall s, In s (sp_samples P) -> 0 <= nth k (s_values s) 0)
  | None => True
  end.
Definition prof_depth_weight (na : N) (P : stored) : Z :=
  match sp_sel P with Some k => depth_weight k (normalize na (sp_samples P)) | None => 0 end.

Lemma normalize_values na ss s' : In s' (normalize na ss) -> exists s, In s ss /\ s_values s' = s_values s.
Proof.
  unfold normalize. intros H. apply in_map_iff in H. destruct H as [s [<- Hs]]. exists s. split; [exact Hs|reflexivity].
Qed.

Lemma stored_rows_facts h na T P :
  incl (triples h (normalize na (sp_samples P))) T -> sel_ok P -> prof_depth_weight na P < two63 ->
  (forall r, In r (stored_rows h na P) ->
     0 <= r_self r <= r_total r /\ r_id r <> 0%N /\
     exists d, In (r_parent r, r_fn r, d) T /\ r_id r = node_id h (r_parent r) (r_fn r) d) /\
  sumZ (map r_total (stored_rows h na P)) <= prof_depth_weight na P.
Proof.
  intros Hincl Hsel Hb. unfold stored_rows, stored_tree.
  destruct (post_process_coh h T (sp_nt P) (normalize na (sp_samples P)) Hincl) as [Hcoh Hnz].
  unfold sel_ok in Hsel. unfold prof_depth_weight in *. destruct (sp_sel P) as [k|].
  - destruct Hsel as [Hk Hnn].
    assert (Hnn' : forall s, In s (normalize na (sp_samples P)) -> 0 <= nth k (s_values s) 0).
    { intros s' Hs'. destruct (normalize_values na _ s' Hs') as [s [Hs ->]]. exact (Hnn s Hs). }
    destruct (stored_totals_bounded h (sp_nt P) (normalize na (sp_samples P)) k Hk Hnn' Hb) as [Hv Hsum].
    split.
    + intros r Hr. apply in_map_iff in Hr. destruct Hr as [n [<- Hn]].
      cbn [project_row r_self r_total r_id r_parent r_fn].
      split; [exact (Hv n Hn)|]. split; [exact (Hnz n Hn)|exact (Hcoh n Hn)].
    + rewrite map_map. exact Hsum.
  - split.
    + intros r Hr. apply in_map_iff in Hr. destruct Hr as [n [<- Hn]].
      unfold project_row. cbn [r_self r_total r_id r_parent r_fn fst snd].
      split; [lia|]. split; [exact (Hnz n Hn)|exact (Hcoh n Hn)].
    + rewrite map_map. clear. generalize (post_process h (sp_nt P) (normalize na (sp_samples P))) as l.
      induction l as [|n l IH]; [cbn; lia|].
      cbn [map]. unfold project_row at 1. cbn [r_total snd]. unfold sumZ in *. cbn [fold_right]. lia.
Qed.

Definition all_triples (h : N -> N -> N) (na : N) (Ps : list stored) : list (N * N * N) :=
  flat_map (fun P => triples h (normalize na (sp_samples P))) Ps.

(* From ingest to the nested flame graph.  Profiles whose node ids determine the parent JOINTLY (across all of them: no
   collision inside or between profiles), read on a sample type whose values are non-negative, with the sum of value x
   stack depth over everything read below 2^63 (no int64 overflow anywhere): whatever order the stored rows come in,
   raw or grouped by the statement, the tree MergeTrie folds them into meets tree_good, so levels_nest applies: level 0
   is [0, total), every bar lies inside its parent's bar, and total is the exact sum of the weights. *)
Theorem ingest_to_nested_levels h na limit (Ps : list stored) rows fs :
  let R := concat (map (stored_rows h na) Ps) in
  parent_determined h (all_triples h na Ps) ->
  Forall sel_ok Ps ->
  sumZ (map (prof_depth_weight na) Ps) < two63 ->
  Forall (fun P => 0 <= prof_depth_weight na P) Ps ->
  Permutation rows R \/ Permutation rows (group_rows R) ->
  Z.of_nat (length rows) <= limit ->
  let t := merge_trie limit new_tree rows fs in
  tree_good t /\ root_total t < two63 /\
  exists ls, bfs t = [root_bar (root_total t)] :: ls /\ nest_levels [root_bar (root_total t)] ls.
Proof.
  intros R Hpd Hsel Hbound Hpos Hrows Hlim t.
  set (T := all_triples h na Ps) in *.
  (* per-profile facts *)
  assert (Hincl : forall P, In P Ps -> incl (triples h (normalize na (sp_samples P))) T).
  { intros P HP y Hy. unfold T, all_triples. apply in_flat_map. exists P. split; assumption. }
  assert (Hle : forall P, In P Ps -> prof_depth_weight na P <= sumZ (map (prof_depth_weight na) Ps)).
  { clear - Hpos. induction Ps as [|Q Ps IH]; intros P HP; [contradiction|]. inversion Hpos as [|? ? Hq Hrest]; subst.
    cbn [map]. unfold sumZ in *. cbn [fold_right].
    assert (0 <= fold_right Z.add 0 (map (prof_depth_weight na) Ps)).
    { clear - Hrest. induction Hrest as [|x l Hx _ IHl]; cbn [map fold_right]; lia. }
    destruct HP as [->|HP]; [lia|]. specialize (IH Hrest P HP). lia. }
  assert (Hfacts : forall P, In P Ps ->
     (forall r, In r (stored_rows h na P) -> 0 <= r_self r <= r_total r /\ r_id r <> 0%N /\
        exists d, In (r_parent r, r_fn r, d) T /\ r_id r = node_id h (r_parent r) (r_fn r) d) /\
     sumZ (map r_total (stored_rows h na P)) <= prof_depth_weight na P).
  { intros P HP. apply stored_rows_facts; [exact (Hincl P HP)|exact (proj1 (Forall_forall _ _) Hsel P HP)|].
    pose proof (Hle P HP). lia. }
  assert (HinR : forall r, In r R -> exists P, In P Ps /\ In r (stored_rows h na P)).
  { intros r Hr. unfold R in Hr. apply in_concat in Hr. destruct Hr as [l [Hl Hr]]. apply in_map_iff in Hl.
    destruct Hl as [P [<- HP]]. exists P. split; assumption. }
  (* the hypotheses of merged_tree_good about R *)
  assert (Hnn : forall r, In r R -> 0 <= r_self r /\ 0 <= r_total r).
  { intros r Hr. destruct (HinR r Hr) as (P & HP & HrP). destruct (proj1 (Hfacts P HP) r HrP) as (H1 & _). lia. }
  assert (Hbt : sumZ (map r_total R) < two63).
  { assert (G : sumZ (map r_total R) <= sumZ (map (prof_depth_weight na) Ps)).
    { assert (Hsum : forall P, In P Ps -> sumZ (map r_total (stored_rows h na P)) <= prof_depth_weight na P)
        by (intros P HP; exact (proj2 (Hfacts P HP))).
      unfold R. clear - Hsum. induction Ps as [|P Ps IH]; [cbn; lia|].
      cbn [map concat]. rewrite map_app, sumZ_app. unfold sumZ at 3. cbn [fold_right]. fold (sumZ (map (prof_depth_weight na) Ps)).
      pose proof (Hsum P (or_introl eq_refl)).
      assert (sumZ (map r_total (concat (map (stored_rows h na) Ps))) <= sumZ (map (prof_depth_weight na) Ps))
        by (apply IH; intros Q HQ; apply Hsum; right; exact HQ). lia. }
    lia. }
  assert (Hbs : sumZ (map r_self R) < two63).
  { assert (G : 0 <= sumZ (map r_self R) <= sumZ (map r_total R)).
    { apply sum_le_pointwise. intros r Hr. destruct (HinR r Hr) as (P & HP & HrP). exact (proj1 (proj1 (Hfacts P HP) r HrP)). }
    lia. }
  assert (Hpdr : forall r r', In r R -> In r' R -> r_id r = r_id r' -> r_parent r = r_parent r').
  { intros r r' Hr Hr' Hid. destruct (HinR r Hr) as (P & HP & HrP). destruct (HinR r' Hr') as (P' & HP' & HrP').
    destruct (proj1 (Hfacts P HP) r HrP) as (_ & _ & d & HT & Hd).
    destruct (proj1 (Hfacts P' HP') r' HrP') as (_ & _ & d' & HT' & Hd').
    apply (Hpd _ _ _ _ _ _ HT HT'). congruence. }
  assert (Hnz : forall r, In r R -> r_id r <> 0%N).
  { intros r Hr. destruct (HinR r Hr) as (P & HP & HrP). exact (proj1 (proj2 (proj1 (Hfacts P HP) r HrP))). }
  assert (Hcons : rconserves R).
  { unfold R. apply rconserves_concat. apply Forall_map. apply Forall_forall. intros P HP.
    apply (stored_rows_conserve h na P). split.
    - intros p f d p' f' d' H1 H2. apply Hpd; apply (Hincl P HP); assumption.
    - pose proof (proj1 (Forall_forall _ _) Hsel P HP) as Hs. unfold sel_ok in Hs. destruct (sp_sel P); [exact (proj1 Hs)|exact I]. }
  assert (HRr : Forall row_in_range R).
  { unfold R. apply Forall_forall. intros r Hr. destruct (HinR r Hr) as (P & HP & HrP).
    pose proof (stored_rows_in_range h na P) as HPr. rewrite Forall_forall in HPr. exact (HPr r HrP). }
  assert (Hgood : tree_good t /\ root_total t < two63).
  { destruct Hrows as [Hperm|Hperm].
    - apply (merged_tree_good limit R rows fs Hlim); try assumption.
      + apply (Permutation_Forall (Permutation_sym Hperm)). exact HRr.
      + intros p i. apply has_key_perm. exact Hperm.
      + intros p i. apply eqm_of_eq. unfold sum_self. apply sumZ_map_perm. exact Hperm.
      + intros p i. apply eqm_of_eq. unfold sum_total. apply sumZ_map_perm. exact Hperm.
    - apply (merged_tree_good limit R rows fs Hlim); try assumption.
      + apply (Permutation_Forall (Permutation_sym Hperm)). apply group_rows_range. exact HRr.
      + intros p i. rewrite (has_key_perm _ _ p i Hperm). apply group_rows_has_key.
      + intros p i. unfold sum_self at 1. rewrite (sumZ_map_perm _ _ _ Hperm). exact (proj1 (group_key_sums R p i)).
      + intros p i. unfold sum_total at 1. rewrite (sumZ_map_perm _ _ _ Hperm). exact (proj2 (group_key_sums R p i)). }
  destruct Hgood as [Hg Hlt]. split; [exact Hg|]. split; [exact Hlt|]. exact (levels_nest_proof t Hg Hlt).
Qed.

(* the hypotheses are met by two stored copies of ex_profile read on their two sample types *)
Definition ex_Ps : list stored :=
  [ {| sp_nt := 2; sp_samples := ex_profile; sp_sel := Some 0%nat |};
    {| sp_nt := 2; sp_samples := ex_profile; sp_sel := Some 1%nat |} ].
Lemma ex_Ps_hypotheses :
  parent_determined city16 (all_triples city16 0%N ex_Ps) /\ Forall sel_ok ex_Ps /\
  sumZ (map (prof_depth_weight 0%N) ex_Ps) < two63 /\ Forall (fun P => 0 <= prof_depth_weight 0%N P) ex_Ps /\
  length (concat (map (stored_rows city16 0%N) ex_Ps)) = 12%nat.
Proof.
  split; [apply parent_determined_b_sound; vm_compute; reflexivity|].
  split.
  - repeat constructor; cbn [sel_ok sp_sel sp_nt sp_samples]; try lia;
      intros s Hs; vm_compute in Hs; repeat (destruct Hs as [<-|Hs]; [vm_compute; discriminate|]); destruct Hs.
  - split; [vm_compute; reflexivity|]. split; [repeat constructor; vm_compute; discriminate|vm_compute; reflexivity].
Qed.
