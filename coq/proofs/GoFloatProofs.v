(* C15 — proofs about the number texts of model/GoFloat.v:
   every text the printers produce for a finite value is a JSON number (grammar theorems), integers and plain
   decimals read back exactly, the shortest decimal lies in the rounding interval of its float. *)
From Coq Require Import List NArith ZArith Bool Ascii String Lia.
From Qryn Require Import model.GoFloat model.JsonStream.
Import ListNotations.
Open Scope Z_scope.

(* ------------------------------------------------------------------------------------------ *)
(* digits *)

Fixpoint all_digit (s : string) : bool :=
  match s with EmptyString => true | String c r => is_digit c && all_digit r end.

Lemma dchr_cases : forall d, 0 <= d <= 9 ->
  d = 0 \/ d = 1 \/ d = 2 \/ d = 3 \/ d = 4 \/ d = 5 \/ d = 6 \/ d = 7 \/ d = 8 \/ d = 9.
Proof. intros d H. lia. Qed.

Lemma dchr_digit : forall d, 0 <= d <= 9 -> is_digit (dchr d) = true.
Proof.
  intros d H. destruct (dchr_cases d H) as [->|[->|[->|[->|[->|[->|[->|[->|[->| ->]]]]]]]]]; reflexivity.
Qed.
Lemma dchr_code : forall d, 0 <= d <= 9 -> code (dchr d) = Z.to_N (48 + d).
Proof.
  intros d H. destruct (dchr_cases d H) as [->|[->|[->|[->|[->|[->|[->|[->|[->| ->]]]]]]]]]; reflexivity.
Qed.

Lemma all_digit_app : forall a b, all_digit (a ++ b) = all_digit a && all_digit b.
Proof. induction a as [|c a IH]; intros b; [reflexivity|]. cbn [append all_digit]. rewrite IH, andb_assoc. reflexivity. Qed.

Lemma digits_f_all : forall f n, 0 <= n -> all_digit (digits_f f n) = true.
Proof.
  induction f as [|f IH]; intros n Hn; [reflexivity|]. cbn [digits_f].
  destruct (n <? 10) eqn:E.
  - apply Z.ltb_lt in E. cbn [all_digit]. rewrite dchr_digit by lia. reflexivity.
  - apply Z.ltb_ge in E. rewrite all_digit_app, IH by (apply Z.div_pos; lia). cbn [all_digit].
    rewrite dchr_digit; [reflexivity|]. pose proof (Z.mod_pos_bound n 10). lia.
Qed.

Lemma digits_f_nonempty : forall f n, exists c r, digits_f (S f) n = String c r.
Proof.
  intros f n. cbn [digits_f]. destruct (n <? 10); [eauto|].
  destruct (digits_f f (n / 10)) as [|c r]; cbn [append]; eauto.
Qed.

(* with enough fuel the first digit of a positive number is not 0 *)
Lemma digits_f_head : forall f n, 1 <= n < 2 ^ Z.of_nat f ->
  exists c r, digits_f f n = String c r /\ is_digit c = true /\ code c <> 48%N.
Proof.
  induction f as [|f IH]; intros n Hn.
  - cbn in Hn. lia.
  - cbn [digits_f]. destruct (n <? 10) eqn:E.
    + apply Z.ltb_lt in E. exists (dchr n), EmptyString. split; [reflexivity|]. split; [apply dchr_digit; lia|].
      rewrite dchr_code by lia. intros H. apply (f_equal Z.of_N) in H. rewrite Z2N.id in H by lia. change (Z.of_N 48) with 48 in H. lia.
    + apply Z.ltb_ge in E.
      assert (Hq : 1 <= n / 10 < 2 ^ Z.of_nat f).
      { split; [apply Z.div_le_lower_bound; lia|].
        rewrite Nat2Z.inj_succ, Z.pow_succ_r in Hn by lia.
        apply Z.div_lt_upper_bound; lia. }
      destruct (IH _ Hq) as [c [r [-> [Hd Hc]]]]. cbn [append]. eauto.
Qed.

Lemma digits_all : forall n, 0 <= n -> all_digit (digits n) = true.
Proof. intros n Hn. apply digits_f_all. exact Hn. Qed.
Lemma digits_zero : digits 0 = String (dchr 0) EmptyString.
Proof. reflexivity. Qed.
Lemma digits_head : forall n, 1 <= n -> exists c r, digits n = String c r /\ is_digit c = true /\ code c <> 48%N.
Proof.
  intros n Hn. apply digits_f_head. split; [exact Hn|].
  rewrite Nat2Z.inj_succ, Z2Nat.id by (apply Z.log2_nonneg).
  apply Z.log2_spec. lia.
Qed.
Lemma digits_nonempty : forall n, exists c r, digits n = String c r.
Proof. intros n. apply digits_f_nonempty. Qed.

Lemma zeros_all : forall k, all_digit (zeros k) = true.
Proof. induction k as [|k IH]; [reflexivity|]. cbn [zeros all_digit]. rewrite IH. reflexivity. Qed.

(* ------------------------------------------------------------------------------------------ *)
(* the number automaton on digit strings *)

Lemma nrun_app : forall a b st, nrun st (a ++ b) = nrun (nrun st a) b.
Proof. induction a as [|c a IH]; intros b st; [reflexivity|]. cbn [append nrun]. apply IH. Qed.

Lemma nstep_digit_stay : forall st c, is_digit c = true -> (st = NInt \/ st = NFrac \/ st = NExp) -> nstep st c = st.
Proof. intros st c H [->|[->| ->]]; unfold nstep; rewrite H; reflexivity. Qed.
Lemma nrun_digits_stay : forall s st, all_digit s = true -> (st = NInt \/ st = NFrac \/ st = NExp) -> nrun st s = st.
Proof.
  induction s as [|c s IH]; intros st H Hst; [reflexivity|]. cbn [all_digit] in H. apply andb_prop in H. destruct H as [Hc Hs].
  cbn [nrun]. rewrite (nstep_digit_stay st c Hc Hst). apply IH; assumption.
Qed.
(* a nonempty digit string after the point / after the exponent mark *)
Lemma nrun_frac : forall s c, all_digit (String c s) = true -> nrun NDot (String c s) = NFrac.
Proof.
  intros s c H. cbn [all_digit] in H. apply andb_prop in H. destruct H as [Hc Hs]. cbn [nrun].
  unfold nstep at 1. rewrite Hc. apply nrun_digits_stay; auto.
Qed.
Lemma nrun_exp : forall s c st, all_digit (String c s) = true -> (st = NE \/ st = NESign) -> nrun st (String c s) = NExp.
Proof.
  intros s c st H Hst. cbn [all_digit] in H. apply andb_prop in H. destruct H as [Hc Hs]. cbn [nrun].
  assert (E : nstep st c = NExp) by (destruct Hst as [->| ->]; unfold nstep; rewrite Hc; reflexivity).
  rewrite E. apply nrun_digits_stay; auto.
Qed.

Lemma nstep_first : forall st c, (st = N0 \/ st = NMinus) -> is_digit c = true ->
  nstep st c = if (code c =? 48)%N then NZero else NInt.
Proof.
  intros st c Hst Hc. assert (Hm : (code c =? 45)%N = false).
  { unfold is_digit in Hc. apply andb_prop in Hc. destruct Hc as [H1 _]. apply N.leb_le in H1. apply N.eqb_neq. unfold code in *. lia. }
  destruct Hst as [->| ->]; unfold nstep; fold (code c); rewrite ?Hm, Hc; reflexivity.
Qed.

(* the integer part: "0", or a digit string that starts with a non-zero digit *)
Lemma nrun_intpart : forall q st, 0 <= q -> (st = N0 \/ st = NMinus) ->
  nrun st (digits q) = if q =? 0 then NZero else NInt.
Proof.
  intros q st Hq Hst. destruct (q =? 0) eqn:E.
  - apply Z.eqb_eq in E. subst q. rewrite digits_zero. cbn [nrun]. rewrite nstep_first by (auto using dchr_digit; apply dchr_digit; lia).
    reflexivity.
  - apply Z.eqb_neq in E. destruct (digits_head q ltac:(lia)) as [c [r [Hd [Hc Hn]]]].
    pose proof (digits_all q Hq) as Ha. rewrite Hd in *. cbn [all_digit] in Ha. apply andb_prop in Ha. destruct Ha as [_ Hr].
    cbn [nrun]. rewrite (nstep_first st c Hst Hc). apply N.eqb_neq in Hn. rewrite Hn. apply nrun_digits_stay; auto.
Qed.

Lemma sign_run : forall neg, (nrun N0 (sign_text neg) = N0 \/ nrun N0 (sign_text neg) = NMinus).
Proof. intros [|]; [right|left]; reflexivity. Qed.

Lemma pad_left_digits : forall k r, 0 <= r -> exists c s, pad_left (S k) (digits r) = String c s /\ all_digit (String c s) = true.
Proof.
  intros k r Hr. unfold pad_left.
  assert (Ha : all_digit (zeros (S k - String.length (digits r)) ++ digits r) = true)
    by (rewrite all_digit_app, zeros_all, digits_all by exact Hr; reflexivity).
  destruct (zeros (S k - String.length (digits r)) ++ digits r)%string as [|c s] eqn:E.
  - destruct (digits_nonempty r) as [c [s Hd]]. rewrite Hd in E.
    destruct (zeros (S k - String.length (String c s))); discriminate E.
  - eauto.
Qed.

(* grammar theorem 1: every plain decimal  -? digits (. digits)?  the printers lay out is a JSON number *)
Theorem fixed_text_num_ok : forall neg n k, 0 <= n -> num_ok (fixed_text neg n k) = true.
Proof.
  intros neg n k Hn. unfold num_ok, fixed_text.
  assert (Hp : 0 < 10 ^ Z.of_nat k) by (apply Z.pow_pos_nonneg; lia).
  rewrite nrun_app, nrun_app.
  rewrite (nrun_intpart (n / 10 ^ Z.of_nat k) _ ltac:(apply Z.div_pos; lia) (sign_run neg)).
  destruct k as [|k].
  - cbn [nrun]. destruct (n / 10 ^ Z.of_nat 0 =? 0); reflexivity.
  - destruct (pad_left_digits k (n mod 10 ^ Z.of_nat (S k))) as [c [s [E Ha]]]; [apply Z.mod_pos_bound; lia|].
    rewrite nrun_app. replace (nrun (if n / 10 ^ Z.of_nat (S k) =? 0 then NZero else NInt) dot) with NDot
      by (destruct (n / 10 ^ Z.of_nat (S k) =? 0); reflexivity).
    rewrite E, (nrun_frac s c Ha). reflexivity.
Qed.

(* grammar theorem 2: the 'e' layout  -? d (. ddd)? e [+-] dd+  is a JSON number *)
Lemma mant_run : forall D st, 0 <= D -> (st = N0 \/ st = NMinus) ->
  let r := nrun st (mant_text (digits D)) in r = NZero \/ r = NInt \/ r = NFrac.
Proof.
  intros D st HD Hst. cbv zeta.
  pose proof (nrun_intpart D st HD Hst) as Hi. pose proof (digits_all D HD) as Ha.
  destruct (digits D) as [|c [|c2 r]] eqn:Ed.
  - destruct (digits_nonempty D) as [c [r E]]. congruence.
  - unfold mant_text. rewrite Hi. destruct (D =? 0); auto.
  - right. right. unfold mant_text. cbn [nrun] in Hi |- *. cbn [all_digit] in Ha. apply andb_prop in Ha. destruct Ha as [Hc Hr].
    rewrite (nstep_first st c Hst Hc) in *.
    unfold dot. cbn [append nrun].
    assert (Hd : nstep (if (code c =? 48)%N then NZero else NInt) (ascii_of_N 46) = NDot) by (destruct (code c =? 48)%N; reflexivity).
    rewrite Hd. apply andb_prop in Hr. destruct Hr as [Hc2 Hr]. unfold nstep at 1. rewrite Hc2.
    apply nrun_digits_stay; auto.
Qed.
Lemma exp_digits_shape : forall x, exists c s, exp_digits x = String c s /\ all_digit (String c s) = true.
Proof.
  intros x. unfold exp_digits. set (pad := if Z.abs x <? 10 then zeros 1 else EmptyString).
  assert (Hp : all_digit pad = true) by (unfold pad; destruct (Z.abs x <? 10); reflexivity).
  assert (Ha : all_digit (pad ++ digits (Z.abs x)) = true) by (rewrite all_digit_app, Hp, digits_all by lia; reflexivity).
  destruct (digits_nonempty (Z.abs x)) as [c [s Hd]]. rewrite Hd in *.
  destruct pad as [|c' s']; cbn [append] in *; eauto.
Qed.
Theorem exp_text_num_ok : forall neg D P, 0 <= D -> num_ok (exp_text neg D P) = true.
Proof.
  intros neg D P HD. unfold num_ok, exp_text.
  set (x := P + Z.of_nat (String.length (digits D)) - 1).
  rewrite nrun_app, nrun_app.
  pose proof (mant_run D _ HD (sign_run neg)) as Hm. cbv zeta in Hm.
  destruct (exp_digits_shape x) as [c [s [Ex Ha]]]. rewrite Ex.
  set (r := nrun (nrun N0 (sign_text neg)) (mant_text (digits D))) in *.
  assert (He : nstep r (ascii_of_N 101) = NE) by (destruct Hm as [->|[->| ->]]; reflexivity).
  assert (Hs : nstep NE (ascii_of_N (if x <? 0 then 45%N else 43%N)) = NESign) by (destruct (x <? 0); reflexivity).
  change (nrun r (String (ascii_of_N 101) (String (ascii_of_N (if x <? 0 then 45%N else 43%N)) (String c s))))
    with (nrun (nstep (nstep r (ascii_of_N 101)) (ascii_of_N (if x <? 0 then 45%N else 43%N))) (String c s)).
  rewrite He, Hs, (nrun_exp s c NESign Ha); auto.
Qed.

Lemma app_nil_r_s : forall s : string, (s ++ EmptyString)%string = s.
Proof. induction s as [|c s IH]; [reflexivity|]. cbn [append]. rewrite IH. reflexivity. Qed.

Theorem int_text_num_ok : forall z, num_ok (int_text z) = true.
Proof.
  intros z. unfold int_text. pose proof (fixed_text_num_ok (z <? 0) (Z.abs z) 0 ltac:(lia)) as H.
  unfold fixed_text in H. cbn [Z.of_nat] in H. rewrite Z.pow_0_r, Z.div_1_r in H.
  rewrite app_nil_r_s in H. exact H.
Qed.

(* ------------------------------------------------------------------------------------------ *)
(* the printers on float64 values *)

Definition fl_nonneg (x : fl) : bool := match x with FFin _ m _ => 0 <=? m | _ => true end.

Lemma pow2_pos : forall k, 0 < 2 ^ Z.max k 0.
Proof. intros k. apply Z.pow_pos_nonneg; lia. Qed.

Lemma round_half_even_nonneg : forall num den, 0 <= num -> 0 < den -> 0 <= round_half_even num den.
Proof.
  intros num den Hn Hd. unfold round_half_even. pose proof (Z.div_pos num den Hn Hd).
  destruct (2 * (num mod den) <? den); [lia|]. destruct (2 * (num mod den) =? den); [destruct (Z.even (num / den)); lia|lia].
Qed.

Theorem f6_text_num_ok : forall x, fl_finite x = true -> fl_nonneg x = true -> num_ok (f6_text x) = true.
Proof.
  intros [| s | s | s m e] Hf Hn; try discriminate Hf.
  - apply fixed_text_num_ok. lia.
  - cbn [fl_nonneg] in Hn. apply Z.leb_le in Hn. cbn [f6_text]. apply fixed_text_num_ok.
    apply round_half_even_nonneg; [|apply pow2_pos].
    pose proof (pow2_pos e). nia.
Qed.

Lemma strip_zeros_nonneg : forall f D P, 0 <= D -> 0 <= fst (strip_zeros f D P).
Proof.
  induction f as [|f IH]; intros D P HD; [exact HD|]. cbn [strip_zeros].
  destruct ((D mod 10 =? 0) && negb (D =? 0)); [apply IH; apply Z.div_pos; lia|exact HD].
Qed.

Lemma div_nonneg : forall a b, 0 <= a -> 0 <= b -> 0 <= a / b.
Proof.
  intros a b Ha Hb. destruct (Z.eq_dec b 0) as [->|Hn]; [rewrite Zdiv_0_r; lia|]. apply Z.div_pos; lia.
Qed.

Lemma search_nonneg : forall f incl P xb lb ub half D P', 0 <= xb -> 0 <= half ->
  search f incl P xb lb ub half = Some (D, P') -> 0 <= D.
Proof.
  induction f as [|f IH]; intros incl P xb lb ub half D P' Hx Hh H; [discriminate H|]. cbn [search] in H.
  assert (Ht : 0 <= xb / half) by (apply div_nonneg; lia).
  set (t := xb / half) in *.
  destruct (in_bounds incl lb ub (t * half) && in_bounds incl lb ub (t * half + half)).
  - injection H as <- _. destruct (_ || _); lia.
  - destruct (in_bounds incl lb ub (t * half)); [injection H as <- _; lia|].
    destruct (in_bounds incl lb ub (t * half + half)); [injection H as <- _; lia|].
    destruct (1 <=? P).
    + eapply (IH incl (P - 1) xb lb ub (half / 10)); try lia; [|exact H]. apply div_nonneg; lia.
    + eapply (IH incl (P - 1) (xb * 10) (lb * 10) (ub * 10) half); try lia. exact H.
Qed.

Lemma interval_xn_nonneg : forall m e, 0 <= m -> 0 <= iv_xn (interval m e) /\ 0 < iv_den (interval m e).
Proof.
  intros m e Hm. unfold interval. cbn [iv_xn iv_den]. split.
  - apply Z.mul_nonneg_nonneg; [exact Hm|]. apply Z.pow_nonneg. lia.
  - apply Z.pow_pos_nonneg; lia.
Qed.

Lemma exact_dec_nonneg : forall m e, 0 <= m -> 0 <= fst (exact_dec m e).
Proof.
  intros m e Hm. unfold exact_dec. cbn [fst]. destruct (interval_xn_nonneg m e Hm) as [Hx _].
  apply Z.mul_nonneg_nonneg; [exact Hx|]. apply Z.pow_nonneg. lia.
Qed.

Lemma shortest_nonneg : forall m e, 0 <= m -> 0 <= fst (shortest m e).
Proof.
  intros m e Hm. unfold shortest. destruct (interval_xn_nonneg m e Hm) as [Hx Hd].
  cbv zeta. set (P0 := dec_exp (iv_xn (interval m e)) (iv_den (interval m e)) - 1).
  assert (HA : 0 <= 10 ^ Z.max P0 0) by (apply Z.pow_nonneg; lia).
  assert (HB : 0 <= 10 ^ Z.max (- P0) 0) by (apply Z.pow_nonneg; lia).
  match goal with |- 0 <= fst (if in_interval _ (fst ?c) (snd ?c) then _ else _) => assert (Hc : 0 <= fst c) end.
  { destruct (search 17 _ P0 _ _ _ _) as [[D P]|] eqn:E.
    - apply strip_zeros_nonneg. eapply search_nonneg; [| |exact E]; nia.
    - apply exact_dec_nonneg. exact Hm. }
  destruct (in_interval _ _ _); [exact Hc|apply exact_dec_nonneg; exact Hm].
Qed.

Lemma fixed_of_dec_num_ok : forall neg D P, 0 <= D -> num_ok (fixed_of_dec neg D P) = true.
Proof.
  intros neg D P HD. unfold fixed_of_dec. destruct (0 <=? P) eqn:E; [|apply fixed_text_num_ok; exact HD].
  destruct (D =? 0) eqn:E0; [apply fixed_text_num_ok; lia|].
  unfold num_ok. rewrite nrun_app, nrun_app, (nrun_intpart D _ HD (sign_run neg)), E0.
  rewrite nrun_digits_stay by (auto using zeros_all). reflexivity.
Qed.

Theorem shortest_text_num_ok : forall x, fl_finite x = true -> fl_nonneg x = true -> num_ok (shortest_text x) = true.
Proof.
  intros [| s | s | s m e] Hf Hn; try discriminate Hf.
  - apply fixed_text_num_ok. lia.
  - cbn [fl_nonneg] in Hn. apply Z.leb_le in Hn. cbn [shortest_text].
    pose proof (shortest_nonneg m e Hn) as H. destruct (shortest m e) as [D P]. apply fixed_of_dec_num_ok. exact H.
Qed.

Theorem wfloat64_text_num_ok : forall x, fl_finite x = true -> fl_nonneg x = true -> num_ok (wfloat64_text x) = true.
Proof.
  intros [| s | s | s m e] Hf Hn; try discriminate Hf.
  - apply fixed_text_num_ok. lia.
  - cbn [fl_nonneg] in Hn. apply Z.leb_le in Hn. cbn [wfloat64_text].
    pose proof (shortest_nonneg m e Hn) as H. destruct (shortest m e) as [D P].
    destruct (lt_1e_6 m e || ge_1e21 m e); [apply exp_text_num_ok|apply fixed_of_dec_num_ok]; exact H.
Qed.

(* the floats the reader computes from integers are finite, with a non-negative mantissa *)
Lemma rne_nonneg : forall a b, 0 <= a -> 0 < b -> 0 <= fst (rne a b).
Proof.
  intros a b Ha Hb. unfold rne.
  set (e := if _ <? 2 ^ 53 then _ else _).
  set (num := a * 2 ^ Z.max (- e) 0). set (den := b * 2 ^ Z.max e 0).
  assert (Hn : 0 <= num) by (unfold num; pose proof (pow2_pos (- e)); nia).
  assert (Hd : 0 < den) by (unfold den; pose proof (pow2_pos e); nia).
  pose proof (Z.div_pos num den Hn Hd) as Hq.
  match goal with |- 0 <= fst (if ?c then _ else _) => destruct c end; [cbn; lia|]. cbn [fst].
  destruct (2 * (num mod den) <? den); [lia|]. destruct (2 * (num mod den) =? den); [destruct (Z.even (num / den)); lia|lia].
Qed.

Lemma fl_of_int_ok : forall z, fl_finite (fl_of_int z) = true /\ fl_nonneg (fl_of_int z) = true.
Proof.
  intros z. unfold fl_of_int. destruct (z =? 0); [split; reflexivity|].
  pose proof (rne_nonneg (Z.abs z) 1 ltac:(lia) ltac:(lia)) as H. destruct (rne (Z.abs z) 1) as [m e]. cbn [fst] in H.
  split; [reflexivity|]. cbn [fl_nonneg]. apply Z.leb_le. exact H.
Qed.
Lemma fl_div_int_ok : forall x c, 0 < c -> fl_finite x = true -> fl_nonneg x = true ->
  fl_finite (fl_div_int x c) = true /\ fl_nonneg (fl_div_int x c) = true.
Proof.
  intros [| s | s | s m e] c Hc Hf Hn; try discriminate Hf; [split; reflexivity|].
  cbn [fl_nonneg] in Hn. apply Z.leb_le in Hn. cbn [fl_div_int].
  pose proof (rne_nonneg (m * 2 ^ Z.max e 0) (c * 2 ^ Z.max (- e) 0)) as H.
  pose proof (pow2_pos e). pose proof (pow2_pos (- e)).
  specialize (H ltac:(nia) ltac:(nia)). destruct (rne _ _) as [m' e']. cbn [fst] in H.
  split; [reflexivity|]. cbn [fl_nonneg]. apply Z.leb_le. exact H.
Qed.

Lemma fl_of_bits_nonneg : forall b, fl_nonneg (fl_of_bits b) = true.
Proof.
  intros b. unfold fl_of_bits.
  set (z := Z.of_N b). destruct (_ =? 2047); [destruct (_ =? 0); reflexivity|].
  destruct (_ =? 0); [destruct (_ =? 0); [reflexivity|]|]; cbn [fl_nonneg]; apply Z.leb_le.
  - apply Z.mod_pos_bound. lia.
  - pose proof (Z.mod_pos_bound z (2 ^ 52) ltac:(lia)). lia.
Qed.

(* matrix timestamps: fmt %f of float64(TimestampNS)/1e9, for every integer *)
Theorem ts_text_num_ok : forall ns, num_ok (f6_text (ts_seconds ns)) = true.
Proof.
  intros ns. destruct (fl_of_int_ok ns) as [Hf Hn].
  destruct (fl_div_int_ok _ 1000000000 ltac:(lia) Hf Hn) as [Hf' Hn']. apply f6_text_num_ok; assumption.
Qed.
(* Prometheus timestamps: WriteFloat64 / fmt %f of float64(T)/1000 *)
Theorem ms_text_num_ok : forall ms, num_ok (wfloat64_text (ms_seconds ms)) = true /\ num_ok (f6_text (ms_seconds ms)) = true.
Proof.
  intros ms. destruct (fl_of_int_ok ms) as [Hf Hn].
  destruct (fl_div_int_ok _ 1000 ltac:(lia) Hf Hn) as [Hf' Hn']. split; [apply wfloat64_text_num_ok|apply f6_text_num_ok]; assumption.
Qed.

(* ------------------------------------------------------------------------------------------ *)
(* "rendered without loss": the decimal FormatFloat(v,'f',-1,64) prints lies in the rounding interval of v
   (between the midpoints to the neighbouring float64 values, the midpoints included exactly when the
   mantissa is even), so a correctly rounding reader (strconv.ParseFloat, any IEEE 754 strtod) returns v *)

Lemma exact_in_interval : forall m e, 0 < m ->
  in_interval (interval m e) (fst (exact_dec m e)) (snd (exact_dec m e)) = true.
Proof.
  intros m e Hm. unfold exact_dec, in_interval, in_interval_ab. cbn [fst snd].
  set (s := Z.max 0 (2 - e)). assert (Hs : 0 <= s) by lia.
  replace (Z.max (- s) 0) with 0 by lia. replace (Z.max (- - s) 0) with s by lia.
  rewrite Z.pow_0_r, Z.mul_1_r.
  unfold interval. fold s. cbn [iv_xn iv_ln iv_un iv_den iv_incl].
  set (E := e + s). assert (HE : 2 <= E) by lia.
  assert (H2 : 2 ^ (E - 1) = 2 * 2 ^ (E - 2)) by (rewrite <- Z.pow_succ_r by lia; f_equal; lia).
  assert (H1 : 2 ^ E = 4 * 2 ^ (E - 2)) by (replace E with (Z.succ (E - 1)) at 1 by lia; rewrite Z.pow_succ_r by lia; lia).
  assert (Hq : 0 < 2 ^ (E - 2)) by (apply Z.pow_pos_nonneg; lia).
  assert (H10 : 5 ^ s * 2 ^ s = 10 ^ s) by (rewrite <- Z.pow_mul_l; reflexivity).
  assert (Ht : 0 < 10 ^ s) by (apply Z.pow_pos_nonneg; lia).
  rewrite H1, H2. set (q := 2 ^ (E - 2)) in *. 
  replace (m * (4 * q) * 5 ^ s * 2 ^ s) with (m * (4 * q) * 10 ^ s) by (rewrite <- H10; ring).
  set (t := 10 ^ s) in *.
  assert (Hqt : 0 < q * t) by nia.
  destruct ((m =? 2 ^ 52) && negb (e =? -1074)); destruct (Z.even m);
    apply andb_true_intro; split; try apply Z.leb_le; try apply Z.ltb_lt; nia.
Qed.

Theorem shortest_in_interval : forall m e, 0 < m ->
  in_interval (interval m e) (fst (shortest m e)) (snd (shortest m e)) = true.
Proof.
  intros m e Hm. unfold shortest. cbv zeta.
  match goal with |- context [if in_interval ?iv (fst ?c) (snd ?c) then _ else _] =>
    destruct (in_interval iv (fst c) (snd c)) eqn:G end.
  - exact G.
  - apply exact_in_interval. exact Hm.
Qed.
